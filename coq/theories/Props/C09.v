(* C09 — gerror: generated extension types match the base type on every method.
   Property theorems only; every proof is `exact <lemma of GErrExtProofs>`.

   Model: GErrModel.v — [ext_wiring] is the hand copy of the 19 stanzas of
   gerror/gen/gerror.gotmpl (repaired: SrcS passes src), [base_wiring] that of GError's own
   methods in gerror/gerror.go; both are regenerated from the current tree on every run by
   harness/cmd/xlate_gerr_wiring (the template is read through the code the real CLI generates
   for every struct of the farm) and checked equal to these tables by computation.
   [to_primary] is toPrimaryType, [ext_error_head] the generated Error(), [print_name],
   [f_print], [f_clone] the tag handling of gen/generate.go createField.
   [ext_wiring_orig] is the pinned template (SrcS passed ""); C09_wiring_orig_refuted and
   C09_fields_orig_refuted record the defect.                                                *)
From Coq Require Import NArith List Bool Permutation Sorted.
From Coq Require String.
Import Coq.Strings.String.StringSyntax.
From GT Require Import Base.GErrStr.
From GT Require Import GErrModel GErrSpec GErrExtDesc GErrExtProofs.
Import ListNotations.

(* ---- per-method argument wiring: template stanza = base method, for all 19 methods ---- *)
Theorem C09_wiring : forall m, ext_wiring m = base_wiring m.
Proof. exact ext_wiring_eq. Qed.

Theorem C09_wiring_orig_refuted : exists m, ext_wiring_orig m <> base_wiring m.
Proof. exact ext_wiring_orig_differs. Qed.

Theorem C09_wiring_orig_only_SrcS : forall m, m <> MSrcS -> ext_wiring_orig m = base_wiring m.
Proof. exact ext_wiring_orig_only_SrcS. Qed.

(* ---- name, message, source, detail tag and stack of the result equal those the same method
        with the same arguments produces on a plain GError with the same base fields; for
        every store, every pair of factories with equal views, every method, all arguments
        (also Convert/ConvertS of a value that already is a gerror error) ---- *)
Theorem C09_fields : forall xw st i j ci cj x m a,
  (forall m, xw m = base_wiring m) ->
  nth_error st i = Some ci -> nth_error st j = Some cj -> c_x cj = Some x ->
  view_of (c_g ci) = view_of (c_g cj) ->
  result_view (call xw st (VX j) m a) = result_view (call xw st (VG i) m a).
Proof. exact same_method_same_view. Qed.

(* ... and along chains of any length (derivations proper) *)
Theorem C09_fields_chain : forall xw st i j ci cj x ch st1 r1 st2 r2 g1 g2,
  (forall m, xw m = base_wiring m) ->
  nth_error st i = Some ci -> nth_error st j = Some cj -> c_x cj = Some x ->
  view_of (c_g ci) = view_of (c_g cj) ->
  forallb no_shortcut ch = true ->
  derive xw st (VG i) ch = Some (st1, r1) -> derive xw st (VX j) ch = Some (st2, r2) ->
  lookup st1 r1 = Some g1 -> lookup st2 r2 = Some g2 ->
  view_of g2 = view_of g1.
Proof. exact same_chain_same_view. Qed.

Theorem C09_fields_orig_refuted :
  result_view (call ext_wiring_orig c09_store (VX 1) MSrcS c09_args)
  <> result_view (call ext_wiring_orig c09_store (VG 0) MSrcS c09_args).
Proof. exact orig_SrcS_differs. Qed.

(* ---- clone: the result is the struct toPrimaryType builds; clone-tagged fields are copied
        from the receiver, all others are zero; deriving again keeps them ---- *)
Theorem C09_result_struct : forall xw st j cj x m a,
  nth_error st j = Some cj -> c_x cj = Some x ->
  w_guard (xw m) && is_gerr_val (a_err a) = false ->
  exists st' g', call xw st (VX j) m a = Some (st', VX (length st))
                 /\ nth_error st' (length st) = Some (mkC g' (Some (to_primary x))).
Proof. exact ext_call_fields. Qed.

Theorem C09_clone : forall x f,
  In f (x_fields x) -> f_clone f = true -> In f (x_fields (to_primary x)).
Proof. exact clone_kept. Qed.

Theorem C09_nonclone_zero : forall x f,
  In f (x_fields x) -> f_clone f = false -> In (zeroed f) (x_fields (to_primary x)).
Proof. exact nonclone_zero. Qed.

Theorem C09_clone_all_fields : forall x,
  x_fields (to_primary x) = map (fun f => if f_clone f then f else zeroed f) (x_fields x).
Proof. exact to_primary_fields. Qed.

Theorem C09_clone_chain : forall x, to_primary (to_primary x) = to_primary x.
Proof. exact to_primary_idem. Qed.

(* ---- print: Error() = base prefix ++ one segment "<print name>: <value>, " per print-tagged
        field ++ "Message: ..." ; exactly the print-tagged fields, each once, by field name ---- *)
Theorem C09_print_shape : forall g x,
  ext_error_head g x
  = error_prefix g
    ++ concat (map (fun f => print_name f ++ lit_colon ++ f_val f ++ lit_sep)
                   (fields_to_print (x_fields x)))
    ++ error_msg_part g.
Proof. exact ext_head_shape. Qed.

Theorem C09_print_exactly : forall l, Permutation (fields_to_print l) (filter f_print l).
Proof. exact print_exactly. Qed.

Theorem C09_print_member : forall l f, In f (fields_to_print l) <-> In f l /\ f_print f = true.
Proof. exact print_member. Qed.

Theorem C09_print_sorted : forall l, Sorted name_le (fields_to_print l).
Proof. exact print_sorted. Qed.

Theorem C09_print_name : forall f,
  print_name f = if str_eqb (f_tagname f) underscore then f_name f else f_tagname f.
Proof. exact print_name_spec. Qed.

(* "in addition to the base rendering": the base Error() is the same text without the segment *)
Theorem C09_base_rendering : forall g, error_head g = error_prefix g ++ error_msg_part g.
Proof. exact base_head_shape. Qed.

Theorem C09_no_print_fields : forall g x,
  filter f_print (x_fields x) = [] -> ext_error_head g x = error_head g.
Proof. exact ext_head_no_print. Qed.

(* ---- the print clause, declaratively (independent of how the generator computes the list):
        SOME name-ordered arrangement of exactly the print-tagged fields, between the base prefix
        and the message.  The model's rendering satisfies it, at most one text does (distinct
        field names), so comparing an observed Error() head with the model's text decides it ---- *)
Theorem C09_print_spec_holds : forall g x, print_spec (x_fields x) g (ext_error_head g x).
Proof. exact print_spec_holds. Qed.

Theorem C09_print_spec_unique : forall fs g h1 h2,
  NoDup (map f_name fs) -> print_spec fs g h1 -> print_spec fs g h2 -> h1 = h2.
Proof. exact print_spec_unique. Qed.

Theorem C09_print_spec_decided : forall g x h,
  NoDup (map f_name (x_fields x)) -> (print_spec (x_fields x) g h <-> h = ext_error_head g x).
Proof. exact print_spec_decided. Qed.

(* ---- the regenerated descriptions (GErrExtDesc.v): the check reads, from the code the current
        generator emits for every farm struct, the print list of Error() (selectors resolved
        against the struct's own members) and the fields toPrimaryType copies, and compares them
        with [expected_desc] / [expected_primary] of the declared fields.  A type with these
        descriptions renders and clones exactly as the model says, for every value: ---- *)
Theorem C09_desc_head : forall g x,
  NoDup (map f_name (x_fields x)) ->
  eval_desc g x (expected_desc (x_fields x)) = ext_error_head g x.
Proof. exact desc_head. Qed.

Theorem C09_desc_primary : forall x,
  NoDup (map f_name (x_fields x)) ->
  primary_by_names (expected_primary (x_fields x)) x = to_primary x.
Proof. exact desc_primary. Qed.

(* the base rendering part never reads an extension field (also one named Name, Source or
   Message, which shadows the promoted field): before and after the print list only members of
   the embedded GError are selected *)
Theorem C09_desc_base_part : forall fs,
  exists mid, expected_desc fs
    = [PIf lit_name (PBase BName) lit_sep; PIf lit_dtag (PBase BDTag) lit_sep;
       PIf lit_source (PBase BSource) lit_sep] ++ mid
      ++ [PMsg lit_message (PBase BMessage); PStack (PBase BStack)]
    /\ Forall (fun it => match it with PField _ _ _ => True | _ => False end) mid.
Proof. exact expected_desc_base_part. Qed.

(* non-vacuity of the shadowing case: a struct with its own string field Source (print name
   "origin"): Error() shows the GError source under "Source:" and the field under "origin:" *)
Example C09_shadow_example :
  let fs := [ mkF (s_of "Source") true (s_of "origin") [lit_print; lit_clone] (s_of "field") [] ] in
  let g := mkG (s_of "E") (s_of "m") (s_of "real") [] None VNil VNil [] false in
  ext_error_head g (mkX 1 fs) = s_of "Name: E, Source: real, origin: field, Message: m"
  /\ eval_desc g (mkX 1 fs) (expected_desc fs) = s_of "Name: E, Source: real, origin: field, Message: m"
  /\ eval_desc g (mkX 1 fs)
       [PIf lit_name (PBase BName) lit_sep; PIf lit_source (POwn (s_of "Source")) lit_sep;
        PField (s_of "origin") (s_of "Source") lit_sep; PMsg lit_message (PBase BMessage)]
     = s_of "Name: E, Source: field, origin: field, Message: m".
Proof. vm_compute. repeat split. Qed.

(* ---- non-vacuity: a struct with a print+clone field, a renamed print-only field, a clone-only
        field and an untagged one ---- *)
Definition ex_fields : list xfield :=
  [ mkF [90%N] true underscore [lit_print; lit_clone] [49%N] [48%N];
    mkF [65%N] true [114%N] [lit_print] [50%N] [48%N];
    mkF [67%N] true underscore [lit_clone] [51%N] [48%N];
    mkF [68%N] false [] [] [52%N] [48%N] ].

Example C09_example :
  map f_name (fields_to_print ex_fields) = [[65%N]; [90%N]]
  /\ map f_val (x_fields (to_primary (mkX 1 ex_fields))) = [[49%N]; [48%N]; [51%N]; [48%N]]
  /\ map print_name (fields_to_print ex_fields) = [[114%N]; [90%N]].
Proof. vm_compute. repeat split. Qed.

Print Assumptions C09_wiring.
Print Assumptions C09_wiring_orig_refuted.
Print Assumptions C09_wiring_orig_only_SrcS.
Print Assumptions C09_fields.
Print Assumptions C09_fields_orig_refuted.
Print Assumptions C09_result_struct.
Print Assumptions C09_clone.
Print Assumptions C09_nonclone_zero.
Print Assumptions C09_clone_all_fields.
Print Assumptions C09_clone_chain.
Print Assumptions C09_print_shape.
Print Assumptions C09_print_exactly.
Print Assumptions C09_print_member.
Print Assumptions C09_print_sorted.
Print Assumptions C09_print_name.
Print Assumptions C09_base_rendering.
Print Assumptions C09_no_print_fields.
Print Assumptions C09_fields_chain.
Print Assumptions C09_desc_head.
Print Assumptions C09_desc_primary.
Print Assumptions C09_desc_base_part.
Print Assumptions C09_print_spec_holds.
Print Assumptions C09_print_spec_unique.
Print Assumptions C09_print_spec_decided.
