(* C07 — set: Set is a mathematical set under every operation sequence.
   Property theorems only; every proof is `exact <lemma of SetProofs>`.  Stated for every
   element type T with a boolean equality that reflects Leibniz equality (Go's `comparable`
   types whose == is reflexive; NaN keys are outside the quantifier).
   The model (SetModel.v) mirrors set/set.go of the current tree; it is tied to the code by
   the correspondence run of ./check C07.                                                    *)
From Coq Require Import List Bool Permutation ZArith.
From GT Require Import SetModel SetProofs SetMultiModel SetMultiProofs SetRunModel SetRunProofs
  SetHeapPrims SetHeapModel SetHeapProofs.
Import ListNotations.

Section C07.
  Variable T : Type.
  Variable eqb : T -> T -> bool.
  Hypothesis eqb_eq : forall x y, eqb x y = true <-> x = y.
  Notation mem := (mem T).
  Notation wf := (wf T).

  (* every state reachable from a well-formed set (in particular from the nil set) by any
     operation sequence holds each element at most once *)
  Theorem C07_invariant : forall ops s, wf s -> wf (s_final T eqb s ops).
  Proof. exact (reachable_wf T eqb eqb_eq). Qed.

  (* Has(items...) is true exactly when every listed item is a member (>= 1 argument) *)
  Theorem C07_has : forall s items,
    items <> [] -> (s_has eqb s items = true <-> Forall (mem s) items).
  Proof. exact (has_spec T eqb eqb_eq). Qed.

  (* HasAny when at least one is *)
  Theorem C07_hasany : forall s items,
    s_hasany eqb s items = true <-> Exists (mem s) items.
  Proof. exact (hasany_spec T eqb eqb_eq). Qed.

  (* Slice() lists each member exactly once, whatever order the runtime ranges over the map
     in, and is nil exactly when the set is empty *)
  Theorem C07_slice : forall s, wf s ->
    match s_slice s with
    | None => forall x, ~ mem s x
    | Some l => l <> [] /\ forall l', Permutation l l' -> NoDup l' /\ forall x, In x l' <-> mem s x
    end.
  Proof. exact (slice_spec T). Qed.

  (* Add: membership afterwards, and true exactly when the membership changed *)
  Theorem C07_add : forall s items, wf s ->
    let r := s_add eqb s items in
    wf (fst r)
    /\ (forall y, mem (fst r) y <-> mem s y \/ In y items)
    /\ snd r = existsb (fun x => negb (memb eqb x (elems s))) items.
  Proof. exact (add_spec T eqb eqb_eq). Qed.

  (* AddSet, for every order in which the argument map may be ranged over *)
  Theorem C07_addset : forall s order, wf s ->
    let r := s_addset eqb s order in
    wf (fst r)
    /\ (forall y, mem (fst r) y <-> mem s y \/ In y order)
    /\ snd r = existsb (fun x => negb (memb eqb x (elems s))) order.
  Proof. exact (add_spec T eqb eqb_eq). Qed.

  Theorem C07_remove : forall s items, wf s ->
    let r := s_remove eqb s items in
    wf (fst r)
    /\ (forall y, mem (fst r) y <-> mem s y /\ ~ In y items)
    /\ snd r = existsb (fun x => memb eqb x (elems s)) items.
  Proof. exact (remove_spec T eqb eqb_eq). Qed.

  Theorem C07_removeset : forall s order, wf s ->
    let r := s_removeset eqb s order in
    wf (fst r)
    /\ (forall y, mem (fst r) y <-> mem s y /\ ~ In y order)
    /\ snd r = existsb (fun x => memb eqb x (elems s)) order.
  Proof. exact (remove_spec T eqb eqb_eq). Qed.

  (* any operation sequence from the nil set, of any length: the code's model and the
     mathematical set (a membership predicate) return the same booleans at every step and
     end with the same members.  [dom] is any list containing the elements that are ever
     inserted; Has is called with at least one argument. *)
  Theorem C07_refines : forall dom ops,
    Forall (op_ok T dom) ops ->
    map snd (s_run eqb s_nil ops) = a_run T eqb a_empty dom ops
    /\ wf (s_final T eqb s_nil ops)
    /\ rel T eqb (s_final T eqb s_nil ops) (a_final T eqb a_empty dom ops).
  Proof. exact (run_refines_nil T eqb eqb_eq). Qed.

  (* the same with an ITERATION-ORDER ORACLE and with Slice() as an operation: every operation
     that ranges over a map (AddSet, RemoveSet — also with the set itself as argument — and
     Slice) carries the order the runtime happened to use, an arbitrary permutation of that
     map's keys chosen anew at every step ([orders_ok]).  Whatever the oracle answers, every
     boolean result is the mathematical set's, every Slice() result is nil exactly when the set
     is empty and otherwise a duplicate-free listing of exactly the members of the ABSTRACT set
     ([out_ok]), and the final states are related. *)
  Theorem C07_run_oracle : forall dom xs,
    Forall (xop_ok (op_ok T dom)) xs -> orders_ok eqb s_nil xs ->
    Forall2 (@out_ok T) (x_run eqb s_nil xs) (ax_run eqb a_empty dom xs)
    /\ wf (x_final eqb s_nil xs)
    /\ rel T eqb (x_final eqb s_nil xs) (ax_final eqb a_empty dom xs).
  Proof. exact (xrun_refines_nil T eqb eqb_eq). Qed.

  (* Slice() against the abstract set p the model state is related to (not against the model's
     own key list): for every order the runtime may list the keys in *)
  Theorem C07_slice_abs : forall s p order,
    wf s -> rel T eqb s p -> Permutation order (elems s) ->
    match slice_in order with
    | None => forall x, p x = false
    | Some l => l <> [] /\ NoDup l /\ forall x, In x l <-> p x = true
    end.
  Proof. exact (slice_abs T eqb eqb_eq). Qed.

  (* "true exactly when the membership changed", literally: the result is true iff the set after
     the call differs from the set before *)
  Theorem C07_add_changed : forall s items, wf s ->
    let r := s_add eqb s items in
    snd r = true <-> exists y, mem (fst r) y /\ ~ mem s y.
  Proof. exact (add_changed T eqb eqb_eq). Qed.

  Theorem C07_remove_changed : forall s items, wf s ->
    let r := s_remove eqb s items in
    snd r = true <-> exists y, mem s y /\ ~ mem (fst r) y.
  Proof. exact (remove_changed T eqb eqb_eq). Qed.

  (* programs over several set variables (AddSet/RemoveSet take another variable, possibly the
     same one, as argument): every run refines a vector of mathematical sets — in particular an
     operation on one set never changes another one *)
  Theorem C07_multi_refines : forall dom k ops,
    Forall (mop_ok T dom) ops ->
    map snd (m_run eqb (repeat s_nil k) ops) = am_run T eqb (repeat a_empty k) dom ops
    /\ mwf T (m_final T eqb (repeat s_nil k) ops)
    /\ mrel T eqb (m_final T eqb (repeat s_nil k) ops) (am_final T eqb (repeat a_empty k) dom ops).
  Proof. exact (mrun_refines_nil T eqb eqb_eq). Qed.

  Theorem C07_frame : forall st o k,
    k <> m_target o -> mget (fst (m_step eqb st o)) k = mget st k.
  Proof. exact (mstep_frame T eqb). Qed.

  (* ---- maps WITH IDENTITY (C07_frame above is about immutable values and holds by construction;
     the statements below are about references into a heap of maps, where sharing of storage is
     expressible).  [st_add] … are the store-level operations the store rendering of set.go is
     tied to on every run (coq/ties/Tie_C07_store.v); [add_post] / [rem_post] say: the map the
     receiver denotes afterwards and the flag are the value model's, every OTHER location keeps
     its contents, and the receiver keeps its location or, when it was nil, gets a fresh one. *)
  Theorem C07_store_add : forall h r items,
    valid h r -> add_post T eqb h r items (st_add eqb h r items).
  Proof. exact (st_add_spec T eqb). Qed.

  Theorem C07_store_addset : forall h r a,
    valid h r -> valid h a -> add_post T eqb h r (h_keys h a) (st_addset eqb h r a).
  Proof. exact (st_addset_spec T eqb). Qed.

  Theorem C07_store_remove : forall h r items,
    valid h r -> rem_post T eqb h r items (st_remove eqb h r items).
  Proof. exact (st_remove_spec T eqb). Qed.

  Theorem C07_store_removeset : forall h r a,
    valid h r -> rem_post T eqb h r (h_keys h a) (st_removeset eqb h r a).
  Proof. exact (st_removeset_spec T eqb). Qed.

  (* AddSet never makes the receiver share the argument's map: the receiver's reference afterwards
     is its old one or one that did not exist before; it equals the argument's only if it did so
     before the call *)
  Theorem C07_store_no_alias : forall h r a,
    valid h r -> valid h a ->
    let '(_, r', _) := st_addset eqb h r a in
    (r' = r \/ ~ valid h r') /\ (a <> 0 -> a <> r -> r' <> a).
  Proof. exact (st_addset_no_alias T eqb). Qed.

  (* programs over k variables in the store semantics, from k nil variables over the empty heap:
     the booleans are those of the vector of mathematical sets, what the variables denote at the
     end is related to it, and the non-nil references of different variables stay pairwise
     distinct (no two sets ever share storage) *)
  Theorem C07_store_refines : forall dom k ops,
    Forall (mop_ok T dom) ops ->
    let st0 : sstate T := ([], repeat 0 k) in
    map snd (st_run eqb st0 ops) = am_run T eqb (repeat a_empty k) dom ops
    /\ mrel T eqb (view (st_final T eqb st0 ops)) (am_final T eqb (repeat a_empty k) dom ops)
    /\ sinv T (st_final T eqb st0 ops).
  Proof. exact (store_refines T eqb eqb_eq). Qed.

  (* the pinned code (before fix ad9c99c) violated C07_has on repeated arguments *)
  Theorem C07_has_orig_refuted : forall a : T,
    exists s items, items <> [] /\ Forall (mem s) items /\ s_has_orig eqb s items = false.
  Proof. exact (has_orig_refuted_ex T eqb). Qed.
End C07.

(* non-vacuity on a concrete instance: integers, a pre-filled set, repeated and absent arguments *)
Example C07_example :
  let s := s_make Z.eqb [1; 2; 2; 3]%Z in
  elems s = [1; 2; 3]%Z
  /\ s_has Z.eqb s [1; 1; 3]%Z = true /\ s_has Z.eqb s [1; 4]%Z = false
  /\ snd (s_add Z.eqb s [3; 3]%Z) = false /\ snd (s_add Z.eqb s [3; 4]%Z) = true
  /\ snd (s_remove Z.eqb s [7]%Z) = false /\ snd (s_remove Z.eqb s_nil [1]%Z) = false
  /\ s_slice (@s_nil Z) = None.
Proof. vm_compute. repeat split. Qed.

(* non-vacuity of the oracle run: AddSet ranging over its argument in reverse order, Slice() and
   RemoveSet(self) ranging in another order than the key list *)
Example C07_example_oracle :
  let xs := [XOp (OAddSet [1; 2; 3]%Z) [3; 2; 1]%Z; XSlice [1; 2; 3]%Z;
             XOp ORemoveSelf [1; 2; 3]%Z; XSlice []]%list in
  orders_ok Z.eqb s_nil xs
  /\ x_run Z.eqb s_nil xs = [XB true; XL (Some [1; 2; 3]%Z); XB true; XL None].
Proof.
  split; [|vm_compute; reflexivity]. cbn. repeat split.
  - exact (Permutation_sym (Permutation_rev [1; 2; 3]%Z)).
  - exact (Permutation_sym (Permutation_rev [3; 2; 1]%Z)).
  - exact (Permutation_sym (Permutation_rev [3; 2; 1]%Z)).
  - apply perm_nil.
Qed.

(* non-vacuity of the store semantics: s1 := Make(1,2); s0.AddSet(s1) on a nil s0 allocates a
   fresh map (location 2, not s1's location 1); a later Add on s0 leaves s1 alone *)
Example C07_example_store :
  let ops := [MMake 1 [1; 2]%Z; MAddSet 0 1; MAdd 0 [7]%Z] in
  let st := st_final Z Z.eqb ([], [0; 0]) ops in
  snd st = [2; 1] /\ fst st = [[1; 2]%Z; [1; 2; 7]%Z]
  /\ map snd (st_run Z.eqb ([], [0; 0]) ops) = [false; true; true].
Proof. vm_compute. repeat split. Qed.

Print Assumptions C07_invariant.
Print Assumptions C07_has.
Print Assumptions C07_hasany.
Print Assumptions C07_slice.
Print Assumptions C07_add.
Print Assumptions C07_addset.
Print Assumptions C07_remove.
Print Assumptions C07_removeset.
Print Assumptions C07_refines.
Print Assumptions C07_run_oracle.
Print Assumptions C07_slice_abs.
Print Assumptions C07_add_changed.
Print Assumptions C07_remove_changed.
Print Assumptions C07_multi_refines.
Print Assumptions C07_frame.
Print Assumptions C07_store_add.
Print Assumptions C07_store_addset.
Print Assumptions C07_store_remove.
Print Assumptions C07_store_removeset.
Print Assumptions C07_store_no_alias.
Print Assumptions C07_store_refines.
Print Assumptions C07_has_orig_refuted.
