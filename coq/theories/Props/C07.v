(* C07 — set: Set is a mathematical set under every operation sequence.
   Property theorems only; every proof is `exact <lemma of SetProofs>`.  Stated for every
   element type T with a boolean equality that reflects Leibniz equality (Go's `comparable`
   types whose == is reflexive; NaN keys are outside the quantifier).
   The model (SetModel.v) mirrors set/set.go of the current tree; it is tied to the code by
   the correspondence run of ./check C07.                                                    *)
From Coq Require Import List Bool Permutation ZArith.
From GT Require Import SetModel SetProofs SetMultiModel SetMultiProofs.
Import ListNotations.

Section C07.
  Variable T : Type.
  Variable eqb : T -> T -> bool.
  Hypothesis eqb_eq : forall x y, eqb x y = true <-> x = y.
  Notation mem := (mem T).
  Notation wf := (wf T).

  (* every state reachable from a well-formed set (in particular from the nil set) by any
     operation sequence holds each element at most once *)
  Theorem C07_invariant : forall ops s, wf s -> wf (s_final T eqb s ops).
  Proof. exact (reachable_wf T eqb eqb_eq). Qed.

  (* Has(items...) is true exactly when every listed item is a member (>= 1 argument) *)
  Theorem C07_has : forall s items,
    items <> [] -> (s_has eqb s items = true <-> Forall (mem s) items).
  Proof. exact (has_spec T eqb eqb_eq). Qed.

  (* HasAny when at least one is *)
  Theorem C07_hasany : forall s items,
    s_hasany eqb s items = true <-> Exists (mem s) items.
  Proof. exact (hasany_spec T eqb eqb_eq). Qed.

  (* Slice() lists each member exactly once, whatever order the runtime ranges over the map
     in, and is nil exactly when the set is empty *)
  Theorem C07_slice : forall s, wf s ->
    match s_slice s with
    | None => forall x, ~ mem s x
    | Some l => l <> [] /\ forall l', Permutation l l' -> NoDup l' /\ forall x, In x l' <-> mem s x
    end.
  Proof. exact (slice_spec T). Qed.

  (* Add: membership afterwards, and true exactly when the membership changed *)
  Theorem C07_add : forall s items, wf s ->
    let r := s_add eqb s items in
    wf (fst r)
    /\ (forall y, mem (fst r) y <-> mem s y \/ In y items)
    /\ snd r = existsb (fun x => negb (memb eqb x (elems s))) items.
  Proof. exact (add_spec T eqb eqb_eq). Qed.

  (* AddSet, for every order in which the argument map may be ranged over *)
  Theorem C07_addset : forall s order, wf s ->
    let r := s_addset eqb s order in
    wf (fst r)
    /\ (forall y, mem (fst r) y <-> mem s y \/ In y order)
    /\ snd r = existsb (fun x => negb (memb eqb x (elems s))) order.
  Proof. exact (add_spec T eqb eqb_eq). Qed.

  Theorem C07_remove : forall s items, wf s ->
    let r := s_remove eqb s items in
    wf (fst r)
    /\ (forall y, mem (fst r) y <-> mem s y /\ ~ In y items)
    /\ snd r = existsb (fun x => memb eqb x (elems s)) items.
  Proof. exact (remove_spec T eqb eqb_eq). Qed.

  Theorem C07_removeset : forall s order, wf s ->
    let r := s_removeset eqb s order in
    wf (fst r)
    /\ (forall y, mem (fst r) y <-> mem s y /\ ~ In y order)
    /\ snd r = existsb (fun x => memb eqb x (elems s)) order.
  Proof. exact (remove_spec T eqb eqb_eq). Qed.

  (* any operation sequence from the nil set, of any length: the code's model and the
     mathematical set (a membership predicate) return the same booleans at every step and
     end with the same members.  [dom] is any list containing the elements that are ever
     inserted; Has is called with at least one argument. *)
  Theorem C07_refines : forall dom ops,
    Forall (op_ok T dom) ops ->
    map snd (s_run eqb s_nil ops) = a_run T eqb a_empty dom ops
    /\ wf (s_final T eqb s_nil ops)
    /\ rel T eqb (s_final T eqb s_nil ops) (a_final T eqb a_empty dom ops).
  Proof.
    intros dom ops H.
    exact (run_refines T eqb eqb_eq dom ops s_nil a_empty (nil_wf T) (nil_rel T eqb)
             (fun x (E : a_empty x = true) => False_ind _ (Bool.diff_false_true E)) H).
  Qed.

  (* programs over several set variables (AddSet/RemoveSet take another variable, possibly the
     same one, as argument): every run refines a vector of mathematical sets — in particular an
     operation on one set never changes another one *)
  Theorem C07_multi_refines : forall dom k ops,
    Forall (mop_ok T dom) ops ->
    map snd (m_run eqb (repeat s_nil k) ops) = am_run T eqb (repeat a_empty k) dom ops
    /\ mwf T (m_final T eqb (repeat s_nil k) ops)
    /\ mrel T eqb (m_final T eqb (repeat s_nil k) ops) (am_final T eqb (repeat a_empty k) dom ops).
  Proof.
    intros dom k ops H. destruct (init_ok T eqb dom k) as [A [B C]].
    exact (mrun_refines T eqb eqb_eq dom ops _ _ A B C H).
  Qed.

  Theorem C07_frame : forall st o k,
    k <> m_target o -> mget (fst (m_step eqb st o)) k = mget st k.
  Proof. exact (mstep_frame T eqb). Qed.

  (* the pinned code (before fix ad9c99c) violated C07_has on repeated arguments *)
  Theorem C07_has_orig_refuted : forall a : T,
    exists s items, items <> [] /\ Forall (mem s) items /\ s_has_orig eqb s items = false.
  Proof.
    intros a. exists (s_make eqb [a]), [a; a].
    destruct (has_orig_refuted T eqb a) as [E F]. split; [discriminate | split; [exact F | exact E]].
  Qed.
End C07.

(* non-vacuity on a concrete instance: integers, a pre-filled set, repeated and absent arguments *)
Example C07_example :
  let s := s_make Z.eqb [1; 2; 2; 3]%Z in
  elems s = [1; 2; 3]%Z
  /\ s_has Z.eqb s [1; 1; 3]%Z = true /\ s_has Z.eqb s [1; 4]%Z = false
  /\ snd (s_add Z.eqb s [3; 3]%Z) = false /\ snd (s_add Z.eqb s [3; 4]%Z) = true
  /\ snd (s_remove Z.eqb s [7]%Z) = false /\ snd (s_remove Z.eqb s_nil [1]%Z) = false
  /\ s_slice (@s_nil Z) = None.
Proof. vm_compute. repeat split. Qed.

Print Assumptions C07_invariant.
Print Assumptions C07_has.
Print Assumptions C07_hasany.
Print Assumptions C07_slice.
Print Assumptions C07_add.
Print Assumptions C07_addset.
Print Assumptions C07_remove.
Print Assumptions C07_removeset.
Print Assumptions C07_refines.
Print Assumptions C07_multi_refines.
Print Assumptions C07_frame.
Print Assumptions C07_has_orig_refuted.
