(* C17 — set: JSON and YAML encodings of Set round-trip membership.
   Property theorems only.

   Two layers of assumptions, both Section hypotheses (never axioms):
   * C17_roundtrip / C17_listing / C17_decode_keeps: the library's codec of a whole listing is a
     section variable with the hypothesis that it round-trips a listing when decoding into a
     fresh empty slice.
   * C17_roundtrip_elem / C17_document: the sequence layer (null vs array framing, element-wise
     decoding into fresh zero values) is a concrete Gallina model (SetCodecModel.ArrayLayer);
     only the ELEMENT codec is assumed: an element decodes from its own encoding into a fresh
     zero value to itself.
   These hypotheses ARE library behaviour (partial), validated per case by the correspondence
   run of ./check C17.  C17_reused_item_refuted records why "fresh" matters: a decoder that
   streams the array into one reused variable breaks the round trip under the same hypothesis. *)
From Coq Require Import List Bool Permutation ZArith.
From GT Require Import SetModel SetProofs SetCodecModel SetCodecProofs.
Import ListNotations.

Section C17.
  Variable T : Type.
  Variable eqb : T -> T -> bool.
  Hypothesis eqb_eq : forall x y, eqb x y = true <-> x = y.
  Variable doc : Type.
  Variable enc : option (list T) -> doc.
  Variable dec : doc -> list T -> option (list T).
  Hypothesis dec_enc : forall l, dec (enc (Some l)) [] = Some l.
  Hypothesis dec_enc_nil : dec (enc None) [] = Some [].
  Notation mem := (mem T).
  Notation wf := (wf T).

  (* encode s (whatever order the runtime lists the map in), decode into any target t (nil,
     empty or pre-filled): succeeds, and the result has exactly the members of t and of s *)
  Theorem C17_roundtrip : forall s t order,
    wf s -> wf t -> Permutation (elems s) order ->
    exists t', set_unmarshal eqb dec t (set_marshal enc order) = Some t'
               /\ wf t' /\ forall x, mem t' x <-> mem t x \/ mem s x.
  Proof. exact (roundtrip T eqb eqb_eq doc enc dec dec_enc dec_enc_nil). Qed.

  (* the encoding is a sequence listing each member exactly once (nil slice: null / empty
     sequence, exactly for the empty set) *)
  Theorem C17_listing : forall s order,
    wf s -> Permutation (elems s) order ->
    match listing order with
    | None => forall x, ~ mem s x
    | Some l => NoDup l /\ forall x, In x l <-> mem s x
    end.
  Proof. exact (listing_once T). Qed.

  (* decoding never removes a member of the target *)
  Theorem C17_decode_keeps : forall t d t',
    wf t -> set_unmarshal eqb dec t d = Some t' -> forall x, mem t x -> mem t' x.
  Proof. exact (decode_keeps T eqb eqb_eq doc dec). Qed.
End C17.

Section C17_elem.
  Variable T : Type.
  Variable eqb : T -> T -> bool.
  Hypothesis eqb_eq : forall x y, eqb x y = true <-> x = y.
  Variable E : Type.
  Variable zero : T.
  Variable enc_elem : T -> E.
  Variable dec_elem : E -> T -> option T.
  Hypothesis elem_rt : forall x, dec_elem (enc_elem x) zero = Some x.
  Notation mem := (mem T).
  Notation wf := (wf T).

  (* the round trip with the sequence layer inside the model: for both framings of the nil slice
     (JSON null, YAML []) *)
  Theorem C17_roundtrip_elem : forall (null_for_nil : bool) s t order,
    wf s -> wf t -> Permutation (elems s) order ->
    exists t', set_unmarshal eqb (arr_dec zero dec_elem) t
                 (set_marshal (arr_enc enc_elem null_for_nil) order) = Some t'
               /\ wf t' /\ forall x, mem t' x <-> mem t x \/ mem s x.
  Proof. exact (roundtrip_elem T eqb eqb_eq E zero enc_elem dec_elem elem_rt). Qed.

  (* the document is null only for the empty set (and only in the JSON framing); otherwise it is
     the array of the members' encodings in listing order *)
  Theorem C17_document : forall (null_for_nil : bool) order,
    match set_marshal (arr_enc enc_elem null_for_nil) order with
    | ANull => order = [] /\ null_for_nil = true
    | AArr es => es = map enc_elem order
    end.
  Proof. exact (document_shape T E enc_elem). Qed.

  (* reusing one variable is harmless exactly when element decoding ignores the old value *)
  Theorem C17_reused_item_ok :
    (forall e old, dec_elem e old = dec_elem e zero) ->
    forall es item, dec_reused dec_elem es item = dec_into zero dec_elem es [].
  Proof. exact (dec_reused_fresh T E zero dec_elem). Qed.
End C17_elem.

(* a merging element codec (omitted field keeps the old value) satisfies the element hypothesis,
   yet a decoder streaming the array into ONE reused variable turns [(1,5);(2,0)] into
   [(1,5);(2,5)]: the member (2,0) is lost and a foreign one appears *)
Theorem C17_reused_item_refuted :
  (forall x, mz_dec (mz_enc x) (0, 0)%Z = Some x) /\
  arr_dec_reused (0, 0)%Z mz_dec (arr_enc mz_enc true (Some [(1, 5); (2, 0)]%Z)) []
  = Some [(1, 5); (2, 5)]%Z.
Proof. exact reused_refuted. Qed.

(* non-vacuity: a codec satisfying the hypotheses exists (the identity codec on listings) and a
   concrete round trip into a pre-filled target; the merging element codec satisfies the element
   hypothesis and round-trips through the modelled sequence layer *)
Example C17_example :
  let enc := fun (o : option (list Z)) => match o with Some l => l | None => [] end in
  let dec := fun (d : list Z) (_ : list Z) => Some d in
  (forall l, dec (enc (Some l)) [] = Some l) /\ dec (enc None) [] = Some [] /\
  option_map (@elems Z) (set_unmarshal Z.eqb dec (s_make Z.eqb [5; 1]%Z) (set_marshal enc [1; 2]%Z))
  = Some [5; 1; 2]%Z.
Proof. repeat split. Qed.

Example C17_example_elem :
  arr_dec (0, 0)%Z mz_dec (arr_enc mz_enc true (Some [(1, 5); (2, 0)]%Z)) [] = Some [(1, 5); (2, 0)]%Z
  /\ arr_dec (0, 0)%Z mz_dec (arr_enc mz_enc true None) [] = Some []
  /\ arr_enc mz_enc false (@None (list (Z * Z))) = AArr [].
Proof. repeat split. Qed.

Print Assumptions C17_roundtrip.
Print Assumptions C17_listing.
Print Assumptions C17_decode_keeps.
Print Assumptions C17_roundtrip_elem.
Print Assumptions C17_document.
Print Assumptions C17_reused_item_ok.
Print Assumptions C17_reused_item_refuted.
