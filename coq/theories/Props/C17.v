(* C17 — set: JSON and YAML encodings of Set round-trip membership.
   Property theorems only.  The element codec of encoding/json resp. yaml.v3 is a section
   variable with the hypothesis that it round-trips a listing — that hypothesis IS library
   behaviour (partial), validated per case by the correspondence run of ./check C17.        *)
From Coq Require Import List Bool Permutation.
From GT Require Import SetModel SetProofs SetCodecModel SetCodecProofs.
Import ListNotations.

Section C17.
  Variable T : Type.
  Variable eqb : T -> T -> bool.
  Hypothesis eqb_eq : forall x y, eqb x y = true <-> x = y.
  Variable doc : Type.
  Variable enc : option (list T) -> doc.
  Variable dec : doc -> option (list T).
  Hypothesis dec_enc : forall l, dec (enc (Some l)) = Some l.
  Hypothesis dec_enc_nil : dec (enc None) = Some [].
  Notation mem := (mem T).
  Notation wf := (wf T).

  (* encode s (whatever order the runtime lists the map in), decode into any target t (nil,
     empty or pre-filled): succeeds, and the result has exactly the members of t and of s *)
  Theorem C17_roundtrip : forall s t order,
    wf s -> wf t -> Permutation (elems s) order ->
    exists t', set_unmarshal eqb dec t (set_marshal enc order) = Some t'
               /\ wf t' /\ forall x, mem t' x <-> mem t x \/ mem s x.
  Proof. exact (roundtrip T eqb eqb_eq doc enc dec dec_enc dec_enc_nil). Qed.

  (* the encoding is a sequence listing each member exactly once (nil slice: null / empty
     sequence, exactly for the empty set) *)
  Theorem C17_listing : forall s order,
    wf s -> Permutation (elems s) order ->
    match listing order with
    | None => forall x, ~ mem s x
    | Some l => NoDup l /\ forall x, In x l <-> mem s x
    end.
  Proof. exact (listing_once T). Qed.

  (* decoding never removes a member of the target *)
  Theorem C17_decode_keeps : forall t d t',
    wf t -> set_unmarshal eqb dec t d = Some t' -> forall x, mem t x -> mem t' x.
  Proof. exact (decode_keeps T eqb eqb_eq doc dec). Qed.
End C17.

(* non-vacuity: a codec satisfying the hypotheses exists (the identity codec on listings) and a
   concrete round trip into a pre-filled target *)
From Coq Require Import ZArith.
Example C17_example :
  let enc := fun (o : option (list Z)) => match o with Some l => l | None => [] end in
  let dec := fun (d : list Z) => Some d in
  (forall l, dec (enc (Some l)) = Some l) /\ dec (enc None) = Some [] /\
  option_map (@elems Z) (set_unmarshal Z.eqb dec (s_make Z.eqb [5; 1]%Z) (set_marshal enc [1; 2]%Z))
  = Some [5; 1; 2]%Z.
Proof. repeat split. Qed.

Print Assumptions C17_roundtrip.
Print Assumptions C17_listing.
Print Assumptions C17_decode_keeps.
