(* C15 — gerror: factories immutable; message/tag/source/stack compose lawfully.
   Property theorems only; every proof is `exact <lemma of GErrProofs>`.

   The model (GErrModel.v: clone_base, base_wiring, call, derive) mirrors gerror/factory.go
   CloneBase and the 19 Factory methods of gerror/gerror.go of the current tree; it is tied to
   the code by the wiring translator and the correspondence run of ./check C15.

   All statements are for every store, every receiver (a *GError or a generated extension
   value, with any wiring table xw for the generated methods), every chain of any length and
   every argument (strings = lists of code points, incl. Unicode white space).  A chain of
   derivations proper is one in which Convert/ConvertS never receive a gerror value
   ([no_shortcut]; such a call returns its argument unchanged and derives nothing).

   Concurrency ("concurrent derivation is free of data races"): proved for the instrumented
   semantics of GErrRace.v / GErrSlice.v — CloneBase re-stated statement by statement over
   logged reads and writes of single fields (erasure theorem: it computes clone_base), and
   laterSrcErrors refined to slice headers, shared backing arrays and Go's append.  PARTIAL:
   that the compiled code performs these accesses and no others is a statement about the Go
   compiler and memory model; it is exercised by running the same chains from 16 goroutines on
   shared package-level factories under the race detector.                                   *)
From Coq Require Import NArith List Bool.
From Coq Require String.
Import Coq.Strings.String.StringSyntax.
From GT Require Import Base.GErrStr.
From GT Require Import GErrModel GErrSpec GErrProofs GErrRace GErrRaceProofs GErrMetric GErrMetricProofs.
From GT Require Import GErrSlice GErrSliceProofs.
Import ListNotations.

(* the full property, as far as a functional model can state it: every law below at once *)
Definition C15_full_statement : Prop :=
  forall xw st v ch st' r g g',
    derive xw st v ch = Some (st', r) -> lookup st v = Some g -> lookup st' r = Some g' ->
    forallb no_shortcut ch = true ->
    stack_has_source (view_of g) = true ->
    forallb derived_ok (map (eff_of (wt_of xw v)) ch) = true ->
    (forall i, i < length st -> nth_error st' i = nth_error st i)
    /\ view_of g' = spec_view (view_of g) (map (eff_of (wt_of xw v)) ch).

(* ---- deriving never changes the factory (nor any other existing error) ---- *)
Theorem C15_only_allocates : forall xw ch st v st' r,
  derive xw st v ch = Some (st', r) -> exists fresh, st' = st ++ fresh.
Proof. exact derive_extends. Qed.

Theorem C15_factory_unchanged : forall xw ch st v st' r i,
  derive xw st v ch = Some (st', r) -> i < length st -> nth_error st' i = nth_error st i.
Proof. exact derive_unchanged. Qed.

(* ---- message: base message, then each non-blank extension, trimmed, joined by " " ---- *)
Theorem C15_message : forall xw st st' v r g g' ch,
  derive xw st v ch = Some (st', r) -> lookup st v = Some g -> lookup st' r = Some g' ->
  forallb no_shortcut ch = true ->
  g_msg g' = join sp (filter nonempty
               (g_msg g :: map (fun e => trim_space (e_msg e)) (map (eff_of (wt_of xw v)) ch))).
Proof. exact law_message. Qed.

(* trim is Go's strings.TrimSpace: s = white ++ trim s ++ white, and trim s neither starts nor
   ends with white space; blank extensions are exactly those made of white space only *)
Theorem C15_trim_decomp : forall s, exists p q,
  s = p ++ trim_space s ++ q /\ forallb is_space p = true /\ forallb is_space q = true.
Proof. exact trim_space_decomp. Qed.
Theorem C15_trim_first : forall s,
  match trim_space s with [] => True | c :: _ => is_space c = false end.
Proof. exact trim_space_first. Qed.
Theorem C15_trim_last : forall s,
  match rev (trim_space s) with [] => True | c :: _ => is_space c = false end.
Proof. exact trim_space_last. Qed.
Theorem C15_trim_blank : forall s, trim_space s = [] <-> forallb is_space s = true.
Proof. exact trim_space_blank. Qed.

(* ---- detail tags joined by "-" ---- *)
Theorem C15_dtag : forall xw st st' v r g g' ch,
  derive xw st v ch = Some (st', r) -> lookup st v = Some g -> lookup st' r = Some g' ->
  forallb no_shortcut ch = true ->
  g_dtag g' = join dash (filter nonempty (g_dtag g :: map e_dtag (map (eff_of (wt_of xw v)) ch))).
Proof. exact law_dtag. Qed.

(* ---- source: the first non-empty one wins; a step contributes its explicit source, else
        (unless it is a no-stack step, i.e. Base) the source derived from its caller ---- *)
Theorem C15_source : forall xw st st' v r g g' ch,
  derive xw st v ch = Some (st', r) -> lookup st v = Some g -> lookup st' r = Some g' ->
  forallb no_shortcut ch = true ->
  stack_has_source (view_of g) = true ->
  forallb derived_ok (map (eff_of (wt_of xw v)) ch) = true ->
  g_src g' = first_nonempty (g_src g :: map src_candidate (map (eff_of (wt_of xw v)) ch)).
Proof. exact law_source. Qed.

(* the derived source is gerror's rendering (stack.go SourceInfo/Metric, modelled by [metric])
   of the calling frame's function name; it always contains ':' and so is never empty, which
   discharges the hypothesis on the oracle strings *)
Theorem C15_derived_source_nonempty : forall name, nonempty (metric name) = true.
Proof. exact metric_nonempty. Qed.

Theorem C15_derived_ok_from_frames : forall wt ch,
  (forall s, In s ch -> exists f, a_derived (snd s) = metric f) ->
  forallb derived_ok (map (eff_of wt) ch) = true.
Proof. exact derived_ok_of_metric. Qed.

(* never overwritten: once a prefix of the chain has produced a source, any continuation
   keeps it *)
Theorem C15_source_never_overwritten : forall s e1 e2,
  nonempty (spec_source s e1) = true -> spec_source s (e1 ++ e2) = spec_source s e1.
Proof. exact spec_source_stable. Qed.

(* derived whenever none was given: any step other than a no-stack step leaves a source *)
Theorem C15_source_present : forall s effs e,
  In e effs -> e_stack e <> NoStack -> derived_ok e = true ->
  nonempty (spec_source s effs) = true.
Proof. exact spec_source_present. Qed.

(* of the 19 methods exactly Base takes no stack at all *)
Theorem C15_only_base_skips_source : forall m, w_stack (base_wiring m) = NoStack <-> m = MBase.
Proof. exact base_wiring_nostack. Qed.

(* ---- stack: the factory's, else the one made by the first stack-taking step ---- *)
Theorem C15_stack : forall xw st st' v r g g' ch,
  derive xw st v ch = Some (st', r) -> lookup st v = Some g -> lookup st' r = Some g' ->
  forallb no_shortcut ch = true ->
  g_stack g' = spec_stack (g_stack g) (map (eff_of (wt_of xw v)) ch).
Proof. exact law_stack. Qed.

(* present exactly when the factory had one or a stack-taking method occurs in the chain *)
Theorem C15_stack_present_iff : forall k effs,
  (exists s, spec_stack k effs = Some s) <->
  (exists s, k = Some s) \/ (exists e, In e effs /\ takes_stack (e_stack e) = true).
Proof. exact spec_stack_present. Qed.

Theorem C15_stack_taking_methods : forall m,
  takes_stack (w_stack (base_wiring m)) = method_takes_stack m.
Proof. exact base_wiring_takes_stack. Qed.

(* ---- the name is inherited unchanged ---- *)
Theorem C15_name : forall xw st st' v r g g' ch,
  derive xw st v ch = Some (st', r) -> lookup st v = Some g -> lookup st' r = Some g' ->
  forallb no_shortcut ch = true -> g_name g' = g_name g.
Proof. exact law_name. Qed.

(* ---- everything at once ---- *)
Theorem C15_all : C15_full_statement.
Proof. exact law_all. Qed.

(* ---- a chain from an existing error never gets stuck ---- *)
Theorem C15_call_defined : forall xw st v m a g,
  lookup st v = Some g ->
  (forall i c, v = VX i -> nth_error st i = Some c -> c_x c <> None) ->
  exists st' r, call xw st v m a = Some (st', r).
Proof. exact call_total. Qed.

(* ---- concurrency.  The accesses of a derivation are those of [clone_base_tr], an instrumented
        copy of CloneBase (GErrRace.v) that can touch memory only through logged reads/writes of
        single fields.  ERASURE: the object it builds is clone_base, the function all theorems
        above and the correspondence run are about — for all arguments; likewise for a method
        call and a chain.  (PARTIAL: that the compiled code makes exactly these accesses is
        exercised by the race-detector run, not proved.) ---- *)
Theorem C15_trace_erasure : forall bi fresh base bp ep stt dtag src ext serr site derived,
  fst (clone_base_tr bi fresh base bp ep stt dtag src ext serr site derived)
  = clone_base base bp ep stt dtag src ext serr site derived.
Proof. exact clone_base_tr_erasure. Qed.

Theorem C15_call_trace_erasure : forall xw st v m a, fst (call_tr xw st v m a) = call xw st v m a.
Proof. exact call_tr_erasure. Qed.

Theorem C15_derive_trace_erasure : forall xw ch st v,
  fst (derive_tr xw st v ch) = derive xw st v ch.
Proof. exact derive_tr_erasure. Qed.

(* CloneBase writes only the object it allocates and reads only *base and that object *)
Theorem C15_trace_local : forall bi fresh base bp ep stt dtag src ext serr site derived x,
  In x (snd (clone_base_tr bi fresh base bp ep stt dtag src ext serr site derived)) ->
  local_access bi fresh x.
Proof. exact clone_base_tr_local. Qed.

(* a method call touches its receiver (reads) and the next free cell (reads and writes) only *)
Theorem C15_call_accesses_local : forall xw st v m a x,
  In x (call_accesses xw st v m a) ->
  exists i, as_gerror v = Some i /\ i < length st /\ local_access i (length st) x.
Proof. exact call_accesses_local. Qed.

(* no goroutine ever writes a cell (n) or backing array (nh) that existed when it started *)
Theorem C15_no_shared_writes : forall xw jobs st n nh,
  n <= length st -> existsb (is_shared_write n nh) (thread_accesses xw st jobs) = false.
Proof. exact thread_no_shared_write. Qed.

(* two goroutines deriving from a shared store: no two accesses to the same field of the same
   shared cell of which one is a write ... *)
Theorem C15_race_free_model : forall xw st nh jobs1 jobs2 x y,
  In x (thread_accesses xw st jobs1) -> In y (thread_accesses xw st jobs2) ->
  ~ conflict (length st) nh x y.
Proof. exact threads_race_free. Qed.

(* ... not even to different fields of the same shared object *)
Theorem C15_object_race_free : forall xw st jobs1 jobs2 x y,
  In x (thread_accesses xw st jobs1) -> In y (thread_accesses xw st jobs2) ->
  ~ object_conflict (length st) x y.
Proof. exact threads_object_race_free. Qed.

(* FactoryOf is NOT a derivation: it writes isFactory of an EXISTING object.  Done concurrently
   with anything that reads isFactory of that object (Is, ExtractFactoryReference, Switch) or
   with another FactoryOf, it is a data race; concurrently with a derivation from that object
   it writes the object the derivation reads (conflict at object granularity; field by field
   there is none, because the only read of base.isFactory in CloneBase is dead code when
   CloneBase is entered through a method).  This is why the property speaks of factories that
   are built before they are shared. *)
Theorem C15_factory_of_races : forall i n nh, i < n ->
  exists x y, In x (factory_of_accesses i) /\ In y (is_head_accesses i) /\ conflict n nh x y.
Proof. exact factory_of_conflicts_is. Qed.

Theorem C15_factory_of_races_with_itself : forall i n nh, i < n ->
  exists x y, In x (factory_of_accesses i) /\ In y (factory_of_accesses i) /\ conflict n nh x y.
Proof. exact factory_of_conflicts_factory_of. Qed.

Theorem C15_factory_of_touches_derivation_source : forall xw st i c m a,
  nth_error st i = Some c -> (w_guard (base_wiring m) && is_gerr_val (a_err a)) = false ->
  exists x y, In x (factory_of_accesses i) /\ In y (call_accesses xw st (VG i) m a)
              /\ object_conflict (length st) x y.
Proof. exact factory_of_object_conflicts_call. Qed.

Theorem C15_factory_of_no_field_conflict_with_call : forall xw st v m a n nh i x y,
  n <= length st ->
  In x (factory_of_accesses i) -> In y (call_accesses xw st v m a) -> ~ conflict n nh x y.
Proof. exact factory_of_no_field_conflict_with_call. Qed.

(* ---- laterSrcErrors at memory level (GErrSlice.v): slice headers, shared backing arrays,
        Go's append with ANY growth rule that makes room ([grow cap needed >= needed]).
        [clip] says whether CloneBase appends to base.laterSrcErrors[:n:n] (true, the current
        code; the translator tie computes it from the source) or to base.laterSrcErrors. ---- *)

(* simulation: after any tree of derivations every cell's slice holds exactly the g_later list
   clone_base computes for it *)
Theorem C15_later_simulation : forall grow clip ms fs hist,
  (forall c n, n <= grow c n) -> clip = true -> mem_wf ms -> sim ms fs ->
  sim (fst (mem_run grow clip ms hist)) (fun_run fs hist)
  /\ mem_wf (fst (mem_run grow clip ms hist)).
Proof. exact later_sim_clip. Qed.

(* every functional state has a memory representation to start from *)
Theorem C15_later_initial : forall fs, sim (mem_init fs) fs /\ mem_wf (mem_init fs).
Proof. exact mem_init_ok. Qed.

(* the slice of an existing error never changes, whatever is derived afterwards *)
Theorem C15_later_contents_stable : forall grow clip ms hist i c,
  (forall c n, n <= grow c n) -> clip = true ->
  mem_wf ms -> nth_error (m_cells ms) i = Some c ->
  nth_error (m_cells (fst (mem_run grow clip ms hist))) i = Some c
  /\ contents (m_heap (fst (mem_run grow clip ms hist))) (m_later c)
     = contents (m_heap ms) (m_later c).
Proof. exact later_contents_stable_clip. Qed.

(* at any point (after h1) of any history, what follows (h2) never writes a slot of an array
   reachable from a cell existing at that point: all writes go to arrays allocated later *)
Theorem C15_later_no_shared_slot_write : forall grow clip ms h1 h2 a k,
  (forall c n, n <= grow c n) -> clip = true -> mem_wf ms ->
  In (WrSlot a k) (snd (mem_run grow clip (fst (mem_run grow clip ms h1)) h2)) ->
  ~ reachable (fst (mem_run grow clip ms h1)) a.
Proof. exact later_no_shared_slot_write_clip. Qed.

(* hence two goroutines never write, or read and write, the same slot of a shared array *)
Theorem C15_later_race_free : forall grow clip ms n h1 h2 x y,
  (forall c n, n <= grow c n) -> clip = true -> mem_wf ms ->
  In x (snd (mem_run grow clip ms h1)) -> In y (snd (mem_run grow clip ms h2)) ->
  ~ conflict n (length (m_heap ms)) x y.
Proof. exact later_threads_race_free_clip. Qed.

(* the histories are those of the store model: a goroutine's memory-level run represents the
   store [derive] computes, and ALL accesses of two goroutines (fields and slots) are free of
   conflicts *)
Theorem C15_later_store_simulation : forall grow clip xw st jobs st',
  (forall c n, n <= grow c n) -> clip = true ->
  thread_run xw st jobs = Some st' ->
  sim (fst (mem_run grow clip (mem_init (map c_g st)) (thread_hist xw st jobs))) (map c_g st').
Proof. exact thread_later_sim. Qed.

Theorem C15_race_free_full : forall grow clip xw st jobs1 jobs2 x y,
  (forall c n, n <= grow c n) -> clip = true ->
  In x (thread_full_accesses grow clip xw st jobs1) ->
  In y (thread_full_accesses grow clip xw st jobs2) ->
  ~ conflict (length st) (length st) x y.
Proof. exact threads_full_race_free. Qed.

Theorem C15_go_growth_makes_room : forall c n, n <= go_grow c n.
Proof. exact go_grow_ok. Qed.

(* without the clip (seeded change C06-11: append(base.laterSrcErrors, srcError)), Go's growth
   rule: one factory, four Converts in a row, two Converts from the fourth result — the first
   sibling's converted error is overwritten by the second's ... *)
Theorem C15_later_unclipped_refuted :
  exists (fs : list gerr) (h1 : list hstep) (x : hstep) (i : nat),
    let ms0 := mem_init fs in
    mem_wf ms0 /\ sim ms0 fs
    /\ cell_contents (fst (mem_run go_grow false ms0 h1)) i
       = option_map g_later (nth_error (fun_run fs h1) i)
    /\ cell_contents (fst (mem_run go_grow false ms0 h1)) i <> None
    /\ cell_contents (fst (mem_run go_grow false ms0 (h1 ++ [x]))) i
       <> cell_contents (fst (mem_run go_grow false ms0 h1)) i
    /\ cell_contents (fst (mem_run go_grow false ms0 (h1 ++ [x]))) i
       <> option_map g_later (nth_error (fun_run fs (h1 ++ [x])) i).
Proof. exact later_unclipped_refuted. Qed.

(* ... and two goroutines deriving from the same error both write the same slot *)
Theorem C15_later_unclipped_races :
  exists (ms : mem) (h1 h2 : list hstep) (x y : access),
    mem_wf ms
    /\ In x (snd (mem_run go_grow false ms h1)) /\ In y (snd (mem_run go_grow false ms h2))
    /\ conflict (length (m_cells ms)) (length (m_heap ms)) x y.
Proof. exact later_unclipped_races. Qed.

(* ---- non-vacuity: a factory with preset message and no source; Msg with padded Unicode
        white space, a blank Msg, DTag twice, Src after a derived source, Stack, Base ---- *)
Definition ex_args (src dtag fmt : str) (site : N) : margs :=
  mkA src dtag fmt VNil [] site (s_of "main:caller").
Definition ex_chain : list step :=
  [ (MMsg, ex_args [] [] ([8195; 32] ++ s_of "hi %d" ++ [12288; 10]) 1);
    (MMsg, ex_args [] [] [32; 9; 160] 2);
    (MDTag, ex_args [] (s_of "a") [] 3);
    (MSrcDTagS, ex_args (s_of "custom") (s_of "b") [] 4);
    (MStack, ex_args [] [] [] 5);
    (MBase, ex_args [] [] [] 6) ]%N.
Definition ex_store : store := [mkC (new_gerr (s_of "ErrX") (s_of "base") [] true) None].

Example C15_example_chain :
  match derive base_wiring ex_store (VG 0) ex_chain with
  | Some (st', r) =>
      option_map view_of (lookup st' r)
      = Some (mkV (s_of "ErrX") (s_of "base hi %d") (s_of "main:caller") (s_of "a-b") (Some 4%N))
      /\ nth_error st' 0 = nth_error ex_store 0
  | None => False
  end.
Proof. vm_compute. split; reflexivity. Qed.

Example C15_example_hypotheses :
  forallb no_shortcut ex_chain = true
  /\ forallb derived_ok (map (eff_of base_wiring) ex_chain) = true
  /\ stack_has_source (view_of (new_gerr (s_of "ErrX") (s_of "base") [] true)) = true.
Proof. vm_compute. repeat split. Qed.

(* the derived trace of one DTag call on the factory (cell 0), clone in cell 1 *)
Example C15_example_accesses :
  thread_accesses base_wiring ex_store [(VG 0, [(MDTag, ex_args [] (s_of "a") [] 3%N)])]
  = [Rd 0 FFref;
     Rd 0 FName; Rd 0 FMsg; Rd 0 FSrc; Rd 0 FDTag; Rd 0 FStack; Rd 0 FSerr;
     Wr 1 FName; Wr 1 FMsg; Wr 1 FSrc; Wr 1 FDTag; Wr 1 FStack; Wr 1 FFref; Wr 1 FSerr;
     Wr 1 FLater; Wr 1 FIsFac;
     Wr 1 FName; Wr 1 FMsg; Wr 1 FSrc; Wr 1 FDTag; Wr 1 FFref; Wr 1 FStack; Wr 1 FSerr;
     Rd 1 FDTag; Wr 1 FDTag;
     Rd 1 FFref;
     Rd 0 FLater; Wr 1 FLater; Rd 1 FSerr;
     Rd 1 FStack; Rd 1 FSrc; Wr 1 FStack; Rd 1 FSrc; Rd 1 FStack; Wr 1 FSrc; Wr 1 FStack].
Proof. vm_compute. reflexivity. Qed.

(* non-vacuity of the laterSrcErrors theorems (clipped code, Go's growth): three appended
   errors, then a branch; the memory contents are the functional model's lists *)
Example C15_example_later :
  let ms := fst (mem_run go_grow true (mem_init [ex_factory]) ex_hist) in
  map (cell_contents ms) [4; 5; 6]
  = [Some [ferr 2; ferr 3; ferr 4]; Some [ferr 2; ferr 3; ferr 4; ferr 5];
     Some [ferr 2; ferr 3; ferr 4; ferr 6]]
  /\ map (fun g => Some (g_later g)) (skipn 4 (fun_run [ex_factory] ex_hist))
     = map (cell_contents ms) [4; 5; 6].
Proof. exact later_clipped_example. Qed.

Example C15_example_later_threads :
  let ms := fst (mem_run go_grow true (mem_init [ex_factory]) ex_prefix) in
  snd (mem_run go_grow true ms [conv 4 (ferr 5)])
  = [RdSlot 3 0; RdSlot 3 1; RdSlot 3 2; WrSlot 4 0; WrSlot 4 1; WrSlot 4 2; WrSlot 4 3]
  /\ length (m_heap ms) = 4.
Proof. exact later_clipped_threads_example. Qed.

Print Assumptions C15_only_allocates.
Print Assumptions C15_factory_unchanged.
Print Assumptions C15_message.
Print Assumptions C15_trim_decomp.
Print Assumptions C15_trim_first.
Print Assumptions C15_trim_last.
Print Assumptions C15_trim_blank.
Print Assumptions C15_dtag.
Print Assumptions C15_source.
Print Assumptions C15_source_never_overwritten.
Print Assumptions C15_source_present.
Print Assumptions C15_only_base_skips_source.
Print Assumptions C15_stack.
Print Assumptions C15_stack_present_iff.
Print Assumptions C15_stack_taking_methods.
Print Assumptions C15_name.
Print Assumptions C15_all.
Print Assumptions C15_call_defined.
Print Assumptions C15_trace_erasure.
Print Assumptions C15_call_trace_erasure.
Print Assumptions C15_derive_trace_erasure.
Print Assumptions C15_trace_local.
Print Assumptions C15_call_accesses_local.
Print Assumptions C15_no_shared_writes.
Print Assumptions C15_race_free_model.
Print Assumptions C15_object_race_free.
Print Assumptions C15_factory_of_races.
Print Assumptions C15_factory_of_races_with_itself.
Print Assumptions C15_factory_of_touches_derivation_source.
Print Assumptions C15_factory_of_no_field_conflict_with_call.
Print Assumptions C15_later_simulation.
Print Assumptions C15_later_initial.
Print Assumptions C15_later_contents_stable.
Print Assumptions C15_later_no_shared_slot_write.
Print Assumptions C15_later_race_free.
Print Assumptions C15_later_store_simulation.
Print Assumptions C15_race_free_full.
Print Assumptions C15_go_growth_makes_room.
Print Assumptions C15_later_unclipped_refuted.
Print Assumptions C15_later_unclipped_races.
Print Assumptions C15_derived_source_nonempty.
Print Assumptions C15_derived_ok_from_frames.
