(* C15 — gerror: factories immutable; message/tag/source/stack compose lawfully.
   Property theorems only; every proof is `exact <lemma of GErrProofs>`.

   The model (GErrModel.v: clone_base, base_wiring, call, derive) mirrors gerror/factory.go
   CloneBase and the 19 Factory methods of gerror/gerror.go of the current tree; it is tied to
   the code by the wiring translator and the correspondence run of ./check C15.

   All statements are for every store, every receiver (a *GError or a generated extension
   value, with any wiring table xw for the generated methods), every chain of any length and
   every argument (strings = lists of code points, incl. Unicode white space).  A chain of
   derivations proper is one in which Convert/ConvertS never receive a gerror value
   ([no_shortcut]; such a call returns its argument unchanged and derives nothing).

   PARTIAL: "concurrent derivation is free of data races" is a statement about the Go memory
   model and cannot be exhibited by the functional model; it is covered by running the same
   chains from 16 goroutines on shared package-level factories under the race detector
   (thorough tier).  What the model does show is the reason: derivation only allocates
   (C15_only_allocates) — no existing object is ever written.                                 *)
From Coq Require Import NArith List Bool.
From Coq Require String.
Import Coq.Strings.String.StringSyntax.
From GT Require Import Base.GErrStr.
From GT Require Import GErrModel GErrSpec GErrProofs GErrRace GErrRaceProofs GErrMetric GErrMetricProofs.
Import ListNotations.

(* the full property, as far as a functional model can state it: every law below at once *)
Definition C15_full_statement : Prop :=
  forall xw st v ch st' r g g',
    derive xw st v ch = Some (st', r) -> lookup st v = Some g -> lookup st' r = Some g' ->
    forallb no_shortcut ch = true ->
    stack_has_source (view_of g) = true ->
    forallb derived_ok (map (eff_of (wt_of xw v)) ch) = true ->
    (forall i, i < length st -> nth_error st' i = nth_error st i)
    /\ view_of g' = spec_view (view_of g) (map (eff_of (wt_of xw v)) ch).

(* ---- deriving never changes the factory (nor any other existing error) ---- *)
Theorem C15_only_allocates : forall xw ch st v st' r,
  derive xw st v ch = Some (st', r) -> exists fresh, st' = st ++ fresh.
Proof. exact derive_extends. Qed.

Theorem C15_factory_unchanged : forall xw ch st v st' r i,
  derive xw st v ch = Some (st', r) -> i < length st -> nth_error st' i = nth_error st i.
Proof. exact derive_unchanged. Qed.

(* ---- message: base message, then each non-blank extension, trimmed, joined by " " ---- *)
Theorem C15_message : forall xw st st' v r g g' ch,
  derive xw st v ch = Some (st', r) -> lookup st v = Some g -> lookup st' r = Some g' ->
  forallb no_shortcut ch = true ->
  g_msg g' = join sp (filter nonempty
               (g_msg g :: map (fun e => trim_space (e_msg e)) (map (eff_of (wt_of xw v)) ch))).
Proof. exact law_message. Qed.

(* trim is Go's strings.TrimSpace: s = white ++ trim s ++ white, and trim s neither starts nor
   ends with white space; blank extensions are exactly those made of white space only *)
Theorem C15_trim_decomp : forall s, exists p q,
  s = p ++ trim_space s ++ q /\ forallb is_space p = true /\ forallb is_space q = true.
Proof. exact trim_space_decomp. Qed.
Theorem C15_trim_first : forall s,
  match trim_space s with [] => True | c :: _ => is_space c = false end.
Proof. exact trim_space_first. Qed.
Theorem C15_trim_last : forall s,
  match rev (trim_space s) with [] => True | c :: _ => is_space c = false end.
Proof. exact trim_space_last. Qed.
Theorem C15_trim_blank : forall s, trim_space s = [] <-> forallb is_space s = true.
Proof. exact trim_space_blank. Qed.

(* ---- detail tags joined by "-" ---- *)
Theorem C15_dtag : forall xw st st' v r g g' ch,
  derive xw st v ch = Some (st', r) -> lookup st v = Some g -> lookup st' r = Some g' ->
  forallb no_shortcut ch = true ->
  g_dtag g' = join dash (filter nonempty (g_dtag g :: map e_dtag (map (eff_of (wt_of xw v)) ch))).
Proof. exact law_dtag. Qed.

(* ---- source: the first non-empty one wins; a step contributes its explicit source, else
        (unless it is a no-stack step, i.e. Base) the source derived from its caller ---- *)
Theorem C15_source : forall xw st st' v r g g' ch,
  derive xw st v ch = Some (st', r) -> lookup st v = Some g -> lookup st' r = Some g' ->
  forallb no_shortcut ch = true ->
  stack_has_source (view_of g) = true ->
  forallb derived_ok (map (eff_of (wt_of xw v)) ch) = true ->
  g_src g' = first_nonempty (g_src g :: map src_candidate (map (eff_of (wt_of xw v)) ch)).
Proof. exact law_source. Qed.

(* the derived source is gerror's rendering (stack.go SourceInfo/Metric, modelled by [metric])
   of the calling frame's function name; it always contains ':' and so is never empty, which
   discharges the hypothesis on the oracle strings *)
Theorem C15_derived_source_nonempty : forall name, nonempty (metric name) = true.
Proof. exact metric_nonempty. Qed.

Theorem C15_derived_ok_from_frames : forall wt ch,
  (forall s, In s ch -> exists f, a_derived (snd s) = metric f) ->
  forallb derived_ok (map (eff_of wt) ch) = true.
Proof. exact derived_ok_of_metric. Qed.

(* never overwritten: once a prefix of the chain has produced a source, any continuation
   keeps it *)
Theorem C15_source_never_overwritten : forall s e1 e2,
  nonempty (spec_source s e1) = true -> spec_source s (e1 ++ e2) = spec_source s e1.
Proof. exact spec_source_stable. Qed.

(* derived whenever none was given: any step other than a no-stack step leaves a source *)
Theorem C15_source_present : forall s effs e,
  In e effs -> e_stack e <> NoStack -> derived_ok e = true ->
  nonempty (spec_source s effs) = true.
Proof. exact spec_source_present. Qed.

(* of the 19 methods exactly Base takes no stack at all *)
Theorem C15_only_base_skips_source : forall m, w_stack (base_wiring m) = NoStack <-> m = MBase.
Proof. exact base_wiring_nostack. Qed.

(* ---- stack: the factory's, else the one made by the first stack-taking step ---- *)
Theorem C15_stack : forall xw st st' v r g g' ch,
  derive xw st v ch = Some (st', r) -> lookup st v = Some g -> lookup st' r = Some g' ->
  forallb no_shortcut ch = true ->
  g_stack g' = spec_stack (g_stack g) (map (eff_of (wt_of xw v)) ch).
Proof. exact law_stack. Qed.

(* present exactly when the factory had one or a stack-taking method occurs in the chain *)
Theorem C15_stack_present_iff : forall k effs,
  (exists s, spec_stack k effs = Some s) <->
  (exists s, k = Some s) \/ (exists e, In e effs /\ takes_stack (e_stack e) = true).
Proof. exact spec_stack_present. Qed.

Theorem C15_stack_taking_methods : forall m,
  takes_stack (w_stack (base_wiring m)) = method_takes_stack m.
Proof. exact base_wiring_takes_stack. Qed.

(* ---- the name is inherited unchanged ---- *)
Theorem C15_name : forall xw st st' v r g g' ch,
  derive xw st v ch = Some (st', r) -> lookup st v = Some g -> lookup st' r = Some g' ->
  forallb no_shortcut ch = true -> g_name g' = g_name g.
Proof. exact law_name. Qed.

(* ---- everything at once ---- *)
Theorem C15_all : C15_full_statement.
Proof. exact law_all. Qed.

(* ---- a chain from an existing error never gets stuck ---- *)
Theorem C15_call_defined : forall xw st v m a g,
  lookup st v = Some g ->
  (forall i c, v = VX i -> nth_error st i = Some c -> c_x c <> None) ->
  exists st' r, call xw st v m a = Some (st', r).
Proof. exact call_total. Qed.

(* ---- concurrency, as far as a model reaches: in the access-trace model of GErrRace.v a
        derivation never writes an object that existed before it started, so two goroutines
        deriving from shared factories have no conflicting pair of accesses.  (PARTIAL: that the
        trace model matches the compiled code's memory accesses is exercised by the race-detector
        run, not proved.) ---- *)
Theorem C15_no_shared_writes : forall xw jobs st n,
  n <= length st -> existsb (is_shared_write n) (thread_accesses xw st jobs) = false.
Proof. exact thread_no_shared_write. Qed.

Theorem C15_race_free_model : forall xw st jobs1 jobs2 x y,
  In x (thread_accesses xw st jobs1) -> In y (thread_accesses xw st jobs2) ->
  ~ conflict (length st) x y.
Proof. exact threads_race_free. Qed.

(* ---- non-vacuity: a factory with preset message and no source; Msg with padded Unicode
        white space, a blank Msg, DTag twice, Src after a derived source, Stack, Base ---- *)
Definition ex_args (src dtag fmt : str) (site : N) : margs :=
  mkA src dtag fmt VNil [] site (s_of "main:caller").
Definition ex_chain : list step :=
  [ (MMsg, ex_args [] [] ([8195; 32] ++ s_of "hi %d" ++ [12288; 10]) 1);
    (MMsg, ex_args [] [] [32; 9; 160] 2);
    (MDTag, ex_args [] (s_of "a") [] 3);
    (MSrcDTagS, ex_args (s_of "custom") (s_of "b") [] 4);
    (MStack, ex_args [] [] [] 5);
    (MBase, ex_args [] [] [] 6) ]%N.
Definition ex_store : store := [mkC (new_gerr (s_of "ErrX") (s_of "base") [] true) None].

Example C15_example_chain :
  match derive base_wiring ex_store (VG 0) ex_chain with
  | Some (st', r) =>
      option_map view_of (lookup st' r)
      = Some (mkV (s_of "ErrX") (s_of "base hi %d") (s_of "main:caller") (s_of "a-b") (Some 4%N))
      /\ nth_error st' 0 = nth_error ex_store 0
  | None => False
  end.
Proof. vm_compute. split; reflexivity. Qed.

Example C15_example_hypotheses :
  forallb no_shortcut ex_chain = true
  /\ forallb derived_ok (map (eff_of base_wiring) ex_chain) = true
  /\ stack_has_source (view_of (new_gerr (s_of "ErrX") (s_of "base") [] true)) = true.
Proof. vm_compute. repeat split. Qed.

Example C15_example_accesses :
  thread_accesses base_wiring ex_store [(VG 0, firstn 2 ex_chain)] = [Rd 0; Wr 1; Rd 1; Wr 2].
Proof. vm_compute. reflexivity. Qed.

Print Assumptions C15_only_allocates.
Print Assumptions C15_factory_unchanged.
Print Assumptions C15_message.
Print Assumptions C15_trim_decomp.
Print Assumptions C15_trim_first.
Print Assumptions C15_trim_last.
Print Assumptions C15_trim_blank.
Print Assumptions C15_dtag.
Print Assumptions C15_source.
Print Assumptions C15_source_never_overwritten.
Print Assumptions C15_source_present.
Print Assumptions C15_only_base_skips_source.
Print Assumptions C15_stack.
Print Assumptions C15_stack_present_iff.
Print Assumptions C15_stack_taking_methods.
Print Assumptions C15_name.
Print Assumptions C15_all.
Print Assumptions C15_call_defined.
Print Assumptions C15_no_shared_writes.
Print Assumptions C15_race_free_model.
Print Assumptions C15_derived_source_nonempty.
Print Assumptions C15_derived_ok_from_frames.
