(* C12 — placeholder while the proofs are being written. *)
From GT Require Import GEnumModel GEnumProofs.
Theorem C12_placeholder : True. Proof. exact I. Qed.
