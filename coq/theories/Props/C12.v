(* C12 — genum: trait accessors and parse-by-trait agree with the declaration.
   Property theorems only; every proof is `exact <lemma>`.

   Levels.  (D) definition level: statements over the definition d — accessor_spec d col e is the
   cell written on the primary definition line of value e in column col (GEnumTraitProofs).
   (T) table level: statements over the rows the generator hands to the template; a row = (owning
   constant, cell).  (D) is (T) plus the characterisation of the rows (extractTraitDescs, per-line
   instances, processDuplicates).  Decoding is stated on library views (see C05).                *)
From Coq Require Import String ZArith List Bool Permutation.
From GT Require Import Base.GEnumStr.
From GT Require Import GEnumModel GEnumProofs GEnumCodecTraits GEnumOrig GEnumTraitProofs.
Import ListNotations.
Local Open Scope string_scope.
Local Open Scope list_scope.
Local Open Scope Z_scope.

(* ---------------------------------------------------------------- accessors *)
(* (D) every declared trait has an accessor, and nothing else has *)
Theorem C12_accessor_names : forall d o t, wf_defn d -> gen d o = Built t -> o_notraits o = false ->
  Permutation (map col_name (t_cols t)) (column_names d).
Proof. exact accessor_names. Qed.

(* (D) each accessor returns, for every value, the constant written on that value's primary
   definition line, and the zero value of the trait type otherwise *)
Theorem C12_accessor : forall d o t, wf_defn d -> traits_wf d -> gen d o = Built t -> o_notraits o = false ->
  forall c, In c (t_cols t) -> forall e, sem_accessor c e = accessor_spec d (col_name c) e.
Proof. exact accessor_correct. Qed.

(* (T) the same on the generator's rows: one row per value (no duplicate `case`) *)
Theorem C12_accessor_row : forall d o t, gen d o = Built t ->
  forall c r, In c (t_cols t) -> In r (col_rows c) ->
  sem_accessor c (g_z (r_owner r)) = dval (cl_val (r_cell r)).
Proof. exact accessor_row. Qed.
Theorem C12_accessor_zero : forall c e, (forall r, In r (col_rows c) -> g_z (r_owner r) <> e) ->
  sem_accessor c e = zero_payload (ti_bkind (col_info c)).
Proof. exact accessor_zero. Qed.

(* the accessor the current template emits (its control skeleton: `switch e { case Owner: return Value … };
   return *new(T)`) is sem_accessor, for every skeleton record accepted by skels_ok (see C04/C05) *)
Theorem C12_skeleton_accessor : forall k, skels_ok k = true -> forall c e, sem_accessor_sk k c e = sem_accessor c e.
Proof. exact skel_accessor. Qed.

(* ---------------------------------------------------------------- parse by trait *)
(* (D) Parse<Type> of the trait value on a primary definition line returns the owning value *)
Theorem C12_parse_trait : forall d o t, wf_defn d -> traits_wf d -> gen d o = Built t -> o_notraits o = false ->
  forall col e cl, In col (o_parsable o) -> primary_cell d col e = Some cl ->
  sem_parse t (cl_val cl) = Some e.
Proof. exact parse_trait_correct. Qed.
(* (T) *)
Theorem C12_parse_trait_row : forall d o t, wf_defn d -> gen d o = Built t ->
  forall c r, In c (t_cols t) -> col_parsable c = true -> In r (col_rows c) ->
  sem_parse t (cl_val (r_cell r)) = Some (g_z (r_owner r)).
Proof. exact parse_trait_row. Qed.

(* ---------------------------------------------------------------- decoding of trait values *)
(* All decoding theorems are stated for an ARBITRARY skeleton record k accepted by skels_ok (see C05);
   json_attempts_sk k t jv = the Parse inputs the record's UnmarshalJSON tries on the document. *)
(* a decoder returns the owning value of a parsable trait constant as soon as the constant is
   among the readings it tries and the document is unambiguous (no reading parses to another value) *)
Theorem C12_decode_json : forall d o t, wf_defn d -> gen d o = Built t ->
  forall k, skels_ok k = true ->
  forall c r jv, In c (t_cols t) -> col_parsable c = true -> In r (col_rows c) ->
  jv_null jv = false ->
  In (cl_val (r_cell r)) (json_attempts_sk k t jv) -> unambiguous t (json_attempts_sk k t jv) (g_z (r_owner r)) ->
  decode_json_sk k t jv = Some (g_z (r_owner r)).
Proof. exact decode_trait_json_sk. Qed.
Theorem C12_decode_yaml : forall d o t, wf_defn d -> gen d o = Built t ->
  forall k, skels_ok k = true ->
  forall c r yv, In c (t_cols t) -> col_parsable c = true -> In r (col_rows c) ->
  yv_scalar yv = true ->
  In (cl_val (r_cell r)) (yaml_attempts_sk k t yv) -> unambiguous t (yaml_attempts_sk k t yv) (g_z (r_owner r)) ->
  decode_yaml_sk k t yv = Some (g_z (r_owner r)).
Proof. exact decode_trait_yaml_sk. Qed.
Theorem C12_decode_text : forall d o t, wf_defn d -> gen d o = Built t ->
  forall k, skels_ok k = true ->
  forall c r tv, In c (t_cols t) -> col_parsable c = true -> In r (col_rows c) ->
  In (cl_val (r_cell r)) (text_attempts_sk k t tv) -> unambiguous t (text_attempts_sk k t tv) (g_z (r_owner r)) ->
  decode_text_sk k t tv = Some (g_z (r_owner r)).
Proof. exact decode_trait_text_sk. Qed.

(* and the readings ARE tried, per family of the trait type: integer kinds (the int64 / uint64
   reading z when it fits the trait's type: conv_int … z = z — always the case for the value of a
   cell of that type), string kinds, self-unmarshaling types *)
Theorem C12_decode_json_int : forall k, skels_ok k = true -> forall d o t, wf_defn d -> gen d o = Built t ->
  forall c r, In c (t_cols t) -> col_parsable c = true -> In r (col_rows c) ->
  forall jv z, jv_null jv = false -> col_kind c = KInt64 -> ti_json_own (col_info c) = false ->
  cl_val (r_cell r) = typed_int c z -> conv_int (col_bkind c) z = z -> jv_i64 jv = Some z ->
  unambiguous t (json_attempts_sk k t jv) (g_z (r_owner r)) -> decode_json_sk k t jv = Some (g_z (r_owner r)).
Proof. exact json_int. Qed.
Theorem C12_decode_json_uint : forall k, skels_ok k = true -> forall d o t, wf_defn d -> gen d o = Built t ->
  forall c r, In c (t_cols t) -> col_parsable c = true -> In r (col_rows c) ->
  forall jv z, jv_null jv = false -> col_kind c = KUint64 -> ti_json_own (col_info c) = false ->
  cl_val (r_cell r) = typed_int c z -> conv_int (col_bkind c) z = z -> jv_u64 jv = Some z ->
  unambiguous t (json_attempts_sk k t jv) (g_z (r_owner r)) -> decode_json_sk k t jv = Some (g_z (r_owner r)).
Proof. exact json_uint. Qed.
Theorem C12_decode_json_string : forall k, skels_ok k = true -> forall d o t, wf_defn d -> gen d o = Built t ->
  forall c r, In c (t_cols t) -> col_parsable c = true -> In r (col_rows c) ->
  forall jv s, jv_null jv = false -> col_kind c = KString -> ti_json_own (col_info c) = false ->
  cl_val (r_cell r) = typed c (PStr s) -> jv_string jv = Some s ->
  unambiguous t (json_attempts_sk k t jv) (g_z (r_owner r)) -> decode_json_sk k t jv = Some (g_z (r_owner r)).
Proof. exact json_typed_string. Qed.
Theorem C12_decode_json_plain_string : forall k, skels_ok k = true -> forall d o t, wf_defn d -> gen d o = Built t ->
  forall c r, In c (t_cols t) -> col_parsable c = true -> In r (col_rows c) ->
  forall jv s, jv_null jv = false -> cl_val (r_cell r) = DStr s -> jv_string jv = Some s ->
  unambiguous t (json_attempts_sk k t jv) (g_z (r_owner r)) -> decode_json_sk k t jv = Some (g_z (r_owner r)).
Proof. exact json_plain_string. Qed.
Theorem C12_decode_json_native : forall k, skels_ok k = true -> forall d o t, wf_defn d -> gen d o = Built t ->
  forall c r, In c (t_cols t) -> col_parsable c = true -> In r (col_rows c) ->
  forall jv p, jv_null jv = false -> ti_json_own (col_info c) = true ->
  cl_val (r_cell r) = typed c p -> lookup (col_type c) (jv_native jv) = Some (Some p) ->
  unambiguous t (json_attempts_sk k t jv) (g_z (r_owner r)) -> decode_json_sk k t jv = Some (g_z (r_owner r)).
Proof. exact json_native. Qed.
Theorem C12_decode_yaml_int : forall k, skels_ok k = true -> forall d o t, wf_defn d -> gen d o = Built t ->
  forall c r, In c (t_cols t) -> col_parsable c = true -> In r (col_rows c) ->
  forall yv z, yv_scalar yv = true -> col_kind c = KInt64 -> ti_yaml_own (col_info c) = false ->
  cl_val (r_cell r) = typed_int c z -> conv_int (col_bkind c) z = z -> yv_i64 yv = Some z ->
  unambiguous t (yaml_attempts_sk k t yv) (g_z (r_owner r)) -> decode_yaml_sk k t yv = Some (g_z (r_owner r)).
Proof. exact yaml_int. Qed.
Theorem C12_decode_yaml_uint : forall k, skels_ok k = true -> forall d o t, wf_defn d -> gen d o = Built t ->
  forall c r, In c (t_cols t) -> col_parsable c = true -> In r (col_rows c) ->
  forall yv z, yv_scalar yv = true -> col_kind c = KUint64 -> ti_yaml_own (col_info c) = false ->
  cl_val (r_cell r) = typed_int c z -> conv_int (col_bkind c) z = z -> yv_u64 yv = Some z ->
  unambiguous t (yaml_attempts_sk k t yv) (g_z (r_owner r)) -> decode_yaml_sk k t yv = Some (g_z (r_owner r)).
Proof. exact yaml_uint. Qed.
Theorem C12_decode_yaml_string : forall k, skels_ok k = true -> forall d o t, wf_defn d -> gen d o = Built t ->
  forall c r, In c (t_cols t) -> col_parsable c = true -> In r (col_rows c) ->
  forall yv s, yv_scalar yv = true -> col_kind c = KString -> ti_yaml_own (col_info c) = false ->
  cl_val (r_cell r) = typed c (PStr s) -> yv_value yv = s ->
  unambiguous t (yaml_attempts_sk k t yv) (g_z (r_owner r)) -> decode_yaml_sk k t yv = Some (g_z (r_owner r)).
Proof. exact yaml_typed_string. Qed.
Theorem C12_decode_yaml_plain_string : forall k, skels_ok k = true -> forall d o t, wf_defn d -> gen d o = Built t ->
  forall c r, In c (t_cols t) -> col_parsable c = true -> In r (col_rows c) ->
  forall yv s, yv_scalar yv = true -> cl_val (r_cell r) = DStr s -> yv_value yv = s ->
  unambiguous t (yaml_attempts_sk k t yv) (g_z (r_owner r)) -> decode_yaml_sk k t yv = Some (g_z (r_owner r)).
Proof. exact yaml_plain_string. Qed.
Theorem C12_decode_yaml_native : forall k, skels_ok k = true -> forall d o t, wf_defn d -> gen d o = Built t ->
  forall c r, In c (t_cols t) -> col_parsable c = true -> In r (col_rows c) ->
  forall yv p, yv_scalar yv = true -> ti_yaml_own (col_info c) = true ->
  cl_val (r_cell r) = typed c p -> lookup (col_type c) (yv_native yv) = Some (Some p) ->
  unambiguous t (yaml_attempts_sk k t yv) (g_z (r_owner r)) -> decode_yaml_sk k t yv = Some (g_z (r_owner r)).
Proof. exact yaml_native. Qed.
Theorem C12_decode_text_string : forall k, skels_ok k = true -> forall d o t, wf_defn d -> gen d o = Built t ->
  forall c r, In c (t_cols t) -> col_parsable c = true -> In r (col_rows c) ->
  forall tv s, col_kind c = KString -> ti_text_own (col_info c) = false ->
  cl_val (r_cell r) = typed c (PStr s) -> tv_text tv = s ->
  unambiguous t (text_attempts_sk k t tv) (g_z (r_owner r)) -> decode_text_sk k t tv = Some (g_z (r_owner r)).
Proof. exact text_typed_string. Qed.
Theorem C12_decode_text_plain_string : forall k, skels_ok k = true -> forall d o t, wf_defn d -> gen d o = Built t ->
  forall c r, In c (t_cols t) -> col_parsable c = true -> In r (col_rows c) ->
  forall tv s, cl_val (r_cell r) = DStr s -> tv_text tv = s ->
  unambiguous t (text_attempts_sk k t tv) (g_z (r_owner r)) -> decode_text_sk k t tv = Some (g_z (r_owner r)).
Proof. exact text_plain_string. Qed.

(* `unambiguous` follows from the DEFINITION: no reading the decoder tries names a constant of another value
   (case-insensitively under -caseInsensitive) or is a cell, in a column declared parsable, on a line of
   another value (def_unambiguous: executable).  Parse<T> succeeds only on such readings (C12_parse_some) *)
Theorem C12_parse_some : forall d o t x w, wf_defn d -> gen d o = Built t -> sem_parse t x = Some w ->
  (exists c, In c (d_consts d) /\ c_val c = w /\
             (x = DStr (c_name c) \/ (o_ci o = true /\ exists s, x = DStr s /\ to_lower s = to_lower (c_name c))))
  \/ (exists k cl, In k (d_consts d) /\ c_val k = w /\ In cl (parsable_cells d o k) /\ cl_val cl = x).
Proof. exact parse_some_inv. Qed.
Theorem C12_unambiguous_def : forall d o t l v, wf_defn d -> gen d o = Built t ->
  def_unambiguous d o l v = true -> unambiguous t l v.
Proof. exact def_unambiguous_sound. Qed.
(* non-vacuity: the JSON number 12 for a parsable int64 trait 12, the plain YAML scalar 1.1 for a parsable named
   string trait "1.1", the text v2: unambiguous by the definition-level criterion, decoded to the owner *)
Theorem C12_example_decodes :
  exists t, gen ex_defn ex_opts = Built t
    /\ def_unambiguous ex_defn ex_opts (json_attempts t ex_json12) 3 = true
    /\ decode_json t ex_json12 = Some 3
    /\ def_unambiguous ex_defn ex_opts (yaml_attempts t ex_yaml11) 3 = true
    /\ decode_yaml t ex_yaml11 = Some 3
    /\ decode_text t {| tv_text := "v2"; tv_native := [] |} = Some 9.
Proof. exact ex_decodes. Qed.

(* ---------------------------------------------------------------- the full statement is false *)
(* "every JSON scalar holding a parsable trait value decodes to the owner" fails for bool traits:
   the emitted decoders have no bool family (open finding C12-parsable-bool-trait-no-codec-family);
   the theorems above are the statement restricted to the integer, string and self-unmarshaling kinds *)
Theorem C12_refuted : ~ C12_full_statement.
Proof. exact full_statement_refuted. Qed.

(* the statement on the complement of that finding: the document holds the trait constant in one of
   the ways the decoders have a family for (plain string, string kind, int64 kind, uint64 kind,
   self-unmarshaling type) *)
Theorem C12_partial : forall k, skels_ok k = true -> forall d o t, wf_defn d -> gen d o = Built t ->
  forall c r jv, In c (t_cols t) -> col_parsable c = true -> In r (col_rows c) ->
  jv_null jv = false -> json_holds_decodable c jv (cl_val (r_cell r)) ->
  unambiguous t (json_attempts_sk k t jv) (g_z (r_owner r)) ->
  decode_json_sk k t jv = Some (g_z (r_owner r)).
Proof. exact json_partial. Qed.
Theorem C12_partial_yaml : forall k, skels_ok k = true -> forall d o t, wf_defn d -> gen d o = Built t ->
  forall c r yv, In c (t_cols t) -> col_parsable c = true -> In r (col_rows c) ->
  yv_scalar yv = true -> yaml_holds_decodable c yv (cl_val (r_cell r)) ->
  unambiguous t (yaml_attempts_sk k t yv) (g_z (r_owner r)) ->
  decode_yaml_sk k t yv = Some (g_z (r_owner r)).
Proof. exact yaml_partial. Qed.

(* ---------------------------------------------------------------- the pinned generator (records) *)
Theorem C12_duplicate_case_orig_refuted :
  is_builderr (gen_orig w_dup_cells (opts_with [])) = true /\ is_built (gen w_dup_cells (opts_with [])) = true.
Proof. exact dup_cells_orig. Qed.
Theorem C12_row_index_orig_refuted :
  is_generr (gen_orig w_index (opts_with ["Legs"])) = true /\ is_built (gen w_index (opts_with ["Legs"])) = true.
Proof. exact index_orig. Qed.
Theorem C12_row_index2_orig_refuted :
  is_generr (gen_orig w_index2 (opts_with ["Tag"])) = true /\ is_built (gen w_index2 (opts_with ["Tag"])) = true.
Proof. exact index2_orig. Qed.
Theorem C12_native_variable_orig_refuted :
  is_builderr (gen_orig w_v0 (opts_with ["First"; "Second"])) = true
  /\ is_built (gen w_v0 (opts_with ["First"; "Second"])) = true.
Proof. exact v0_orig. Qed.
Theorem C12_equal_cells_orig_refuted :
  is_builderr (gen_orig w_equal (opts_with ["Wa"; "Wb"])) = true
  /\ exists t, gen w_equal (opts_with ["Wa"; "Wb"]) = Built t
               /\ sem_parse t {| dty := "int"; dval := PInt 10 |} = Some 0
               /\ sem_parse t {| dty := "int"; dval := PInt 12 |} = Some 1.
Proof. exact equal_cells_orig. Qed.
(* a parsable plain-string trait that spells its value's own name is the constant the case already
   lists (generated, Parse returns the owner); spelling the name of another definition is refused;
   the generator before fix C12-parsable-trait-equals-name emitted `case "Red", "Red"` *)
Theorem C12_own_name_trait :
  (exists t, gen on_defn on_opts = Built t
             /\ sem_parse t (DStr "Red") = Some 0 /\ sem_parse t (DStr "blu") = Some 1)
  /\ gen on_clash on_opts = GenErr.
Proof. exact own_name_trait. Qed.
Theorem C12_own_name_trait_orig_refuted :
  is_builderr (gen_orig on_defn on_opts) = true /\ is_built (gen on_defn on_opts) = true
  /\ is_builderr (gen_orig on_clash on_opts) = true /\ is_generr (gen on_clash on_opts) = true.
Proof. exact own_name_orig. Qed.
Theorem C12_untyped_rune_orig_refuted :
  extract_underlying_orig BUntypedRune = KUnknown /\ extract_underlying BUntypedRune = KInt64.
Proof. exact rune_orig. Qed.

(* non-vacuity *)
Example C12_example_wf : wf_defn w_dup_cells /\ traits_wf w_dup_cells.
Proof.
  split.
  - split; [unfold ty_ok; simpl; split; discriminate|]. split.
    + repeat constructor.
    + repeat constructor; simpl; intuition discriminate.
  - unfold traits_wf. vm_compute. repeat constructor. simpl. intuition.
Qed.

Print Assumptions C12_skeleton_accessor.
Print Assumptions C12_parse_some.
Print Assumptions C12_unambiguous_def.
Print Assumptions C12_example_decodes.
Print Assumptions C12_accessor_names.
Print Assumptions C12_accessor.
Print Assumptions C12_accessor_row.
Print Assumptions C12_accessor_zero.
Print Assumptions C12_parse_trait.
Print Assumptions C12_parse_trait_row.
Print Assumptions C12_decode_json.
Print Assumptions C12_decode_yaml.
Print Assumptions C12_decode_text.
Print Assumptions C12_decode_json_int.
Print Assumptions C12_decode_json_uint.
Print Assumptions C12_decode_json_string.
Print Assumptions C12_decode_json_plain_string.
Print Assumptions C12_decode_json_native.
Print Assumptions C12_decode_yaml_int.
Print Assumptions C12_decode_yaml_uint.
Print Assumptions C12_decode_yaml_string.
Print Assumptions C12_decode_yaml_plain_string.
Print Assumptions C12_decode_yaml_native.
Print Assumptions C12_decode_text_string.
Print Assumptions C12_decode_text_plain_string.
Print Assumptions C12_refuted.
Print Assumptions C12_partial.
Print Assumptions C12_partial_yaml.
Print Assumptions C12_duplicate_case_orig_refuted.
Print Assumptions C12_row_index_orig_refuted.
Print Assumptions C12_row_index2_orig_refuted.
Print Assumptions C12_native_variable_orig_refuted.
Print Assumptions C12_equal_cells_orig_refuted.
Print Assumptions C12_own_name_trait.
Print Assumptions C12_own_name_trait_orig_refuted.
Print Assumptions C12_untyped_rune_orig_refuted.
