(* C19 — gencommon: the interface rendered from FindInterface compiles and fits.
   (under construction: the property theorems are added as IFace*Proofs.v grow)             *)
From Coq Require Import List Bool String NArith.
From GT Require Import IFaceModel.
Import ListNotations.
Local Open Scope string_scope.

(* the pinned code (before fixes/C19-param-names.patch): `M(arg0 int, _ string)` *)
Theorem C19_names_orig_refuted :
  exists ins outs, ~ NoDup (final_names_orig ins outs).
Proof.
  exists [PI "arg0" false false; PI "_" false false], [].
  vm_compute. intro H. inversion H as [|x l Hin _]; subst. apply Hin. left. reflexivity.
Qed.
