(* C19 — gencommon: the interface rendered from FindInterface compiles and fits.
   Property theorems only; every proof is `exact <lemma of IFace*Proofs>`.
   The model (IFaceModel.v) mirrors gencommon/{params,method,imports,interface}.go of the
   current tree (= pinned tree + fixes/C19-param-names.patch + fixes/C19-embedded-ambiguous.patch);
   it is tied to the code by the farm of ./check C19.  What no Gallina model exhibits —
   acceptance of the rendered text by the Go compiler — is observed there (partial).        *)
From Coq Require Import List Bool String NArith.
From GT Require Import IFaceModel IFaceNamesProofs IFaceEmbProofs IFaceRefProofs IFaceUnionProofs IFaceAliasProofs IFaceParse IFaceParseProofs.
Import ListNotations.
Local Open Scope string_scope.

(* ================================================================== parameter names *)
(* Every pair of parameter lists (any length; unnamed, `_`, user-chosen names, also names equal
   to the generator's own arg0/ret0/ctx/err/ctx0 and even repeated user names; any placement of
   context/error-typed parameters): the final names of inputs and outputs together are pairwise
   distinct, are valid Go identifiers as soon as the user's own names are, and a user name stays
   as written unless it equals a name already given to an earlier user-named parameter. *)
Theorem C19_names : forall ins outs,
  let names := final_names ins outs in
  List.length names = List.length (ins ++ outs) /\
  NoDup names /\
  (Forall user_valid (ins ++ outs) -> Forall valid_ident names) /\
  kept [] (map user_name (ins ++ outs)) names.
Proof. exact final_names_all. Qed.

(* For a signature Go accepts (user names pairwise distinct) every user name is kept. *)
Theorem C19_names_user_names_kept : forall ins outs,
  NoDup (somes (map user_name (ins ++ outs))) ->
  Forall2 (fun u f => forall x, u = Some x -> f = x) (map user_name (ins ++ outs)) (final_names ins outs).
Proof. exact final_names_all_kept. Qed.

(* The executable specification with which the correspondence run judges the names observed on
   the real code holds of the model. *)
Theorem C19_names_judged_spec : forall ins outs,
  Forall user_valid (ins ++ outs) -> NoDup (somes (map user_name (ins ++ outs))) ->
  names_okb (ins ++ outs) (final_names ins outs) = true.
Proof. exact final_names_okb. Qed.

(* The numbering loop of getSafeParamName (unbounded in Go, run with fuel in the model) always
   ends on a name that is not taken. *)
Theorem C19_names_numbering_terminates : forall d name v,
  dmem d (fst (number_name (S (List.length d)) d name v)) = false.
Proof. exact number_name_fresh. Qed.

(* The pinned code: M(arg0 int, _ string) is rendered M(arg0 int, arg0 string). *)
Theorem C19_names_orig_refuted : exists ins outs, ~ NoDup (final_names_orig ins outs).
Proof. exact names_orig_refuted. Qed.

(* ================================================================== method collection *)
(* Every embedding tree (any depth, any overlap): the collected names are the type's own visible
   methods plus, with IncludeEmbedded, the names Go promotes (go_ms: declared exactly once at the
   shallowest depth) that the type does not define itself and that exactly one embedded field's
   interface provides. *)
Theorem C19_embedded : forall priv emb t n, wf_tree t ->
  (In n (iface_names priv emb t) <->
   In n (vis_names priv t) \/
   (emb = true /\ ~ In n (vis_names priv t) /\ go_ms t n = true /\
    exactly_one_field priv emb n (t_emb t))).
Proof. exact iface_names_spec. Qed.

(* Embedding at most two levels deep (the property's quantifier): exactly the specification in
   the property's words — own visible methods, plus the visible promoted ones whose names are
   defined neither by the type itself nor under more than one embedded field. *)
Theorem C19_embedded_two_levels : forall priv emb t n, height t <= 2 -> wf_tree t ->
  (In n (iface_names priv emb t) <-> spec_methodb priv emb t n = true).
Proof. exact iface_two_levels. Qed.

(* At any depth every collected method is in the method set of the type: as far as the method
   set goes, the rendered interface is implemented by the original type. *)
Theorem C19_embedded_fits : forall priv emb t n, wf_tree t ->
  In n (iface_names priv emb t) -> go_ms t n = true.
Proof. exact iface_names_fit. Qed.

(* IncludePrivate adds exactly the unexported ones. *)
Theorem C19_private : forall emb t n, wf_tree t ->
  (In n (iface_names false emb t) <-> In n (iface_names true emb t) /\ exported n = true).
Proof. exact iface_names_private. Qed.

(* The pinned code: type S struct{ F; G }, F struct{ X }, G struct{ Y; Z }, X Y Z each with Foo —
   Foo is collected although S.Foo is ambiguous in Go; the current code does not collect it. *)
Theorem C19_embedded_orig_refuted :
  exists t n, wf_tree t /\ height t <= 2 /\
              In n (iface_names_orig false true t) /\ go_ms t n = false /\
              spec_methodb false true t n = false /\ ~ In n (iface_names false true t).
Proof. exact iface_orig_refuted. Qed.

(* ================================================================== type references, imports *)
(* Every type AST, every state of the import table: in every later state of the handler whose
   active imports carry pairwise distinct aliases the rendered reference denotes the original
   type (parameter names of func types erased) ... *)
Theorem C19_typeref : forall e local t st x st',
  extract e st t = (x, st') ->
  forall st'', extends st' st'' ->
  wf_ty (e_self e) local t -> alias_injective (active st'') ->
  denote (e_self e) local (active st'') x = Some (erase t).
Proof. exact typeref_denotes. Qed.

(* ... and every qualifier it uses is the alias of an active import. *)
Theorem C19_imports : forall e (local : string -> bool) t st x st',
  extract e st t = (x, st') ->
  forall st'', extends st' st'' ->
  forall a, In a (qualifiers x) -> has_alias (active st'') a.
Proof. exact typeref_imports. Qed.

(* The whole pipeline (private filter, embedded merge, rendering with one shared ImportHandler):
   each method of the result is the rendering of a method declared in the tree, its name list is
   the collected name set above, every qualifier of its signature is an alias of an import that
   is active when FindInterface returns, and under those imports its signature denotes the
   declared signature. *)
Theorem C19_interface : forall e local priv emb st t rs st',
  to_iface e priv emb st t = (rs, st') ->
  map rm_name rs = iface_names priv emb t /\
  Forall (fun m => exists m0, In m0 (all_meths t) /\ rm_name m = m_name m0 /\
            (forall a, In a (qualifiers (rmeth_expr m)) -> has_alias (active st') a) /\
            (wf_ty (e_self e) local (meth_ty m0) -> alias_injective (active st') ->
             denote (e_self e) local (active st') (rmeth_expr m) = Some (erase (meth_ty m0)))) rs.
Proof. exact interface_ok. Qed.

(* The import line ImportString() prints for an active import binds, in the Go compiler, exactly
   the alias the rendered text uses — for plain imports, renamed imports, directories whose name
   differs from the package name and imports added on demand — provided packages.Package.Imports
   and go/types report the declared package names ([real]) and every plain import of the file is
   known to the package. *)
Theorem C19_import_binding : forall real e specs priv emb t,
  (forall p n, assoc (e_pkg_imports e) p = Some n -> n = real p) ->
  (forall p, In (p, None) specs -> assoc (e_pkg_imports e) p <> None) ->
  tree_truthful real t ->
  forall i, In i (snd (find_interface e specs priv emb t)) -> bound_name real i = i_alias i.
Proof. exact import_binding. Qed.

(* Embedding at most two levels deep: every method FindInterface returns is the rendering of the
   declaration Go selects for that name — the unique shallowest declaration (find_decl), not some
   other method of the same name further down — so its signature denotes the signature of the
   method the original type really has.  (C19_embedded_fits alone, "the name is in Go's method
   set", does not exclude a same-named method with another signature.) *)
Theorem C19_embedded_selects : forall e local priv emb st t rs st',
  height t <= 2 -> wf_tree t ->
  to_iface e priv emb st t = (rs, st') ->
  Forall (fun m => exists m0, find_decl t (rm_name m) = Some m0 /\ is_meth m0 = true /\
            rm_name m = m_name m0 /\
            (wf_ty (e_self e) local (meth_ty m0) -> alias_injective (active st') ->
             denote (e_self e) local (active st') (rmeth_expr m) = Some (erase (meth_ty m0)))) rs.
Proof. exact interface_selects. Qed.

(* Go's promotion rule as modelled (go_ms) and the selected declaration (find_decl) agree at any
   depth: struct fields are selectors too; a name is in the method set exactly when its unique
   shallowest selector is a method, and a name whose shallowest selector is a field — a plain
   field of the type or of a type it embeds, shadowing a method further down — is not. *)
Theorem C19_selector_rule : forall t n, wf_tree t -> go_ms t n = true ->
  exists m0, find_decl t n = Some m0 /\ is_meth m0 = true /\ m_name m0 = n.
Proof. exact go_ms_selects. Qed.

Theorem C19_field_hides_method : forall t n m0, wf_tree t ->
  find_decl t n = Some m0 -> m_field m0 = true -> go_ms t n = false.
Proof. exact field_not_in_method_set. Qed.

(* ================================================================== import names are distinct (proved, not assumed) *)
(* ImportHandler.unusedName: the name an on-demand import gets is not among the taken ones. *)
Theorem C19_unused_name_fresh : forall taken name, ~ In (unused_name taken name) taken.
Proof. exact unused_name_fresh. Qed.

(* For every file that compiles (specs_okb: a predicate on the INPUT — its import specs bind
   pairwise distinct names, none a package-level name), every embedding tree, every option
   combination: the active imports FindInterface returns bind pairwise distinct names and none of
   them is a package-level name of the package.  This is the hypothesis alias_injective of
   C19_typeref / C19_interface, established from calcImports' and addNamed's algorithm. *)
Theorem C19_alias_injective : forall e specs priv emb t,
  e_unique_alias e = true -> specs_okb e specs = true ->
  alias_injective (snd (find_interface e specs priv emb t)) /\
  forall i, In i (snd (find_interface e specs priv emb t)) -> ~ In (i_alias i) (e_locals e).
Proof. exact find_interface_aliases. Qed.

(* The whole pipeline, closed: names = iface_names; the returned imports are alias-injective;
   every qualifier of every signature is the alias of a returned import; and every signature
   denotes the declared one — no hypothesis on the handler's state left. *)
Theorem C19_interface_closed : forall e local specs priv emb t rs act,
  e_unique_alias e = true -> specs_okb e specs = true ->
  find_interface e specs priv emb t = (rs, act) ->
  map rm_name rs = iface_names priv emb t /\
  alias_injective act /\ (forall i, In i act -> ~ In (i_alias i) (e_locals e)) /\
  Forall (fun m => exists m0, In m0 (all_meths t) /\ rm_name m = m_name m0 /\
            (forall a, In a (qualifiers (rmeth_expr m)) -> has_alias act a) /\
            (wf_ty (e_self e) local (meth_ty m0) ->
             denote (e_self e) local act (rmeth_expr m) = Some (erase (meth_ty m0)))) rs.
Proof. exact interface_closed. Qed.

(* The code before fixes/C19-import-alias-collision.patch (e_unique_alias = false): a file
   importing x/a/util whose struct embeds sib.E with M(t util.T), util = x/b/util, gets the imports
   "x/a/util" and "x/b/util" — `util` bound twice, M(t util.T) denotes the wrong package — although
   the file compiles; the current rule gives util2 "x/b/util" and M(t util2.T). *)
Theorem C19_alias_orig_refuted :
  specs_okb (ex_clash_env false) ex_clash_specs = true /\
  map import_string (snd (find_interface (ex_clash_env false) ex_clash_specs false true ex_clash_tree))
    = ["""x/a/util"""; """x/sib"""; """x/b/util"""] /\
  ~ alias_injective (snd (find_interface (ex_clash_env false) ex_clash_specs false true ex_clash_tree)) /\
  map signature (fst (find_interface (ex_clash_env false) ex_clash_specs false true ex_clash_tree))
    = ["Own(x util.X) "; "M(t util.T) "] /\
  map import_string (snd (find_interface (ex_clash_env true) ex_clash_specs false true ex_clash_tree))
    = ["""x/a/util"""; """x/sib"""; "util2 ""x/b/util"""] /\
  map signature (fst (find_interface (ex_clash_env true) ex_clash_specs false true ex_clash_tree))
    = ["Own(x util.X) "; "M(t util2.T) "].
Proof. exact alias_orig_refuted. Qed.

(* Two types that one handler renders as the same reference are the same type (parameter names
   inside func types aside): different types never render alike within one ImportHandler whose
   active imports have distinct names (which C19_alias_injective establishes). *)
Theorem C19_render_injective : forall e local t1 t2 st1 st1' st2 st2' x st'',
  extract e st1 t1 = (x, st1') -> extract e st2 t2 = (x, st2') ->
  extends st1' st'' -> extends st2' st'' ->
  wf_ty (e_self e) local t1 -> wf_ty (e_self e) local t2 -> alias_injective (active st'') ->
  erase t1 = erase t2.
Proof. exact render_injective. Qed.

(* Rendering a type a second time — as ParamsFromSignatureTuple does for the type arguments of a
   generic parameter type (Param.TypeArgNames) — right after the type (or any type containing its
   packages) was rendered leaves the import table exactly as it is: after a type is rendered its
   packages are in use, and a type whose packages are in use is rendered without a write. *)
Theorem C19_render_twice : forall e t st u,
  (forall pp, In pp (ty_pkgs u) -> In pp (ty_pkgs t)) ->
  snd (extract e (snd (extract e st t)) u) = snd (extract e st t).
Proof. exact extract_again. Qed.

(* IncludePrivate adds exactly the unexported ones. *)
Theorem C19_private_adds_unexported : forall emb t n, wf_tree t ->
  (In n (iface_names true emb t) <->
   In n (iface_names false emb t) \/ (In n (iface_names true emb t) /\ exported n = false)).
Proof. exact private_adds_unexported. Qed.

(* ================================================================== the rendered TEXT *)
(* The text printed for a well-formed reference (names are Go identifiers) parses — with a
   recursive-descent parser for exactly the rendered syntax (IFaceParse.parse: names, qualified
   names, type arguments, *, [], [N], map[K]V, func(name T, name... T) results) — back to the tree
   of the reference: printing loses nothing but the names of results. *)
Theorem C19_text_parses : forall x, wf_x x -> parse (print x) = Some (to_pty x).
Proof. exact parse_print_top. Qed.

(* The parser is also right in the middle of a text: whatever may follow a type ("]", ",", ")" or
   the end) is left over, untouched. *)
Theorem C19_text_parses_prefix : forall x, wf_x x -> forall fuel rest, tsize x <= fuel -> follow rest ->
  parse_ty fuel (print x ++ rest) = Some (to_pty x, rest).
Proof. exact parse_print. Qed.

(* Hence "every referenced type denotes the identical type" as a statement about the text: what
   FindInterface renders for a type parses, and the parsed tree denotes the original type under the
   active imports (basic: the table of predeclared basic type names, with which the reference
   must agree — raw_okb). *)
Theorem C19_text_denotes : forall e local basic t st x st' st'',
  extract e st t = (x, st') -> extends st' st'' ->
  wf_ty (e_self e) local t -> alias_injective (active st'') ->
  wf_x x -> raw_okb local basic x = true ->
  exists p, parse (print x) = Some p /\
            denote_p (e_self e) local (active st'') basic p = Some (erase t).
Proof. exact text_denotes. Qed.

(* What extract renders is well-formed: if the names go/types hands over are Go identifiers (type
   names, package names, the user's parameter names), and so are the import names of the file and
   of packages.Package.Imports, every name in the rendered reference is one — on-demand import
   names (name, name2, …) and generated parameter names included. *)
Theorem C19_extract_wf : forall e, ident_env e -> forall t, ident_ty t ->
  forall st x st', ident_tbl st -> extract e st t = (x, st') -> wf_x x /\ ident_tbl st'.
Proof. exact extract_wf. Qed.

(* ... so the statement about the text needs no hypothesis on the reference. *)
Theorem C19_text_denotes_closed : forall e local basic t st x st' st'',
  ident_env e -> ident_ty t -> ident_tbl st ->
  extract e st t = (x, st') -> extends st' st'' ->
  wf_ty (e_self e) local t -> alias_injective (active st'') ->
  raw_okb local basic x = true ->
  exists p, parse (print x) = Some p /\
            denote_p (e_self e) local (active st'') basic p = Some (erase t).
Proof. exact text_denotes_closed. Qed.

(* ================================================================== interfaces that embed interfaces *)
(* The method set of a named interface — what namedTypeToInterface lists through go/types for an
   embedded interface — is a SET: every name declared by the interface or by any interface below
   it occurs, and occurs once, however many of the embedded interfaces declare it; each member is
   one of the declarations. *)
Theorem C19_iface_union_is_set : forall i,
  NoDup (map m_name (iface_methods i)) /\
  (forall n, In n (map m_name (iface_methods i)) <-> In n (decl_names i)) /\
  (forall m, In m (iface_methods i) -> In m (all_decls i)).
Proof. exact iface_union_is_set. Qed.

(* Duplicates with identical signatures merge: when the declarations of one name below the
   interface have identical types (Go rejects anything else), every declared method is
   represented by exactly one method of the set, with that name and that type. *)
Theorem C19_iface_union_identical : forall i m0, wf_itree i -> In m0 (all_decls i) ->
  exists m, In m (iface_methods i) /\ m_name m = m_name m0 /\ same_sig m m0 /\ is_meth m = true /\
            forall m', In m' (iface_methods i) -> m_name m' = m_name m0 -> m' = m.
Proof. exact iface_union_identical. Qed.

(* A struct embedding a named interface I (any number of other embedded fields that do not
   mention the name): every visible method of I — declared by I or by any interface I embeds, by
   one of them or by several of them (Reader and Writer both with Close) — that the struct does not
   define itself is collected with IncludeEmbedded and is in Go's method set of the struct. *)
Theorem C19_embedded_iface_overlap_promoted : forall priv self own l1 i l2 n,
  wf_stree (SStruct self own (l1 ++ SIface i :: l2)) ->
  (forall a, In a (all_decls i) -> m_field a = false) ->
  In n (decl_names i) -> visn priv n = true ->
  ~ In n (map m_name own) ->
  (forall f, In f (l1 ++ l2) -> ~ In n (all_names (flatten f))) ->
  In n (iface_names priv true (flatten (SStruct self own (l1 ++ SIface i :: l2)))) /\
  go_ms (flatten (SStruct self own (l1 ++ SIface i :: l2))) n = true.
Proof. exact embedded_iface_overlap_promoted. Qed.

(* The specification in the property's words holds of every declared tree (structs, pointers,
   interfaces embedding interfaces to any depth) whose struct embedding is at most two levels deep. *)
Theorem C19_embedded_src_two_levels : forall priv emb s n, height (flatten s) <= 2 -> wf_stree s ->
  (In n (iface_names priv emb (flatten s)) <-> spec_methodb priv emb (flatten s) n = true).
Proof. exact src_two_levels. Qed.

(* ================================================================== non-vacuity *)
(* Conn struct{ ReadWriter }, ReadWriter interface{ Reader; Writer }, Reader{Read;Close(force bool)},
   Writer{Write;Close(bool)}: Close is one method, collected and promoted; a collection that lists the
   inherited methods without merging them (seeded change C19-21) loses it in the merge. *)
Example C19_example_iface_union :
  wf_stree ex_conn /\ wf_itree ex_rw /\
  map m_name (iface_methods ex_rw) = ["Read"; "Close"; "Write"] /\
  map m_name (iface_methods_concat ex_rw) = ["Read"; "Close"; "Write"; "Close"] /\
  iface_names false true (flatten ex_conn) = ["Addr"; "Read"; "Close"; "Write"] /\
  iface_names false true (flatten_concat ex_conn) = ["Addr"; "Read"; "Write"] /\
  go_ms (flatten ex_conn) "Close" = true.
Proof. exact ex_conn_union. Qed.

Example C19_example_names :
  final_names [PI "arg0" false false; PI "_" false false] [] = ["arg0"; "arg1"] /\
  final_names [PI "_" false false] [PI "arg0" false false] = ["arg1"; "arg0"] /\
  final_names [PI "_" true false; PI "ctx" false false; PI "ctx0" false false]
              [PI "err" false false; PI "" false true] = ["ctx1"; "ctx"; "ctx0"; "err"; "err0"] /\
  Forall user_valid [PI "arg0" false false; PI "_" false false; PI "π" false false].
Proof.
  split; [vm_compute; reflexivity|]. split; [vm_compute; reflexivity|]. split; [vm_compute; reflexivity|].
  constructor; [right; vm_compute; reflexivity|].
  constructor; [left; vm_compute; reflexivity|].
  constructor; [right; vm_compute; reflexivity|constructor].
Qed.

Example C19_example_embedded :
  wf_tree tree_S1 /\ height tree_S1 = 2 /\
  iface_names true true tree_S1 = ["Own"] /\ iface_names_orig true true tree_S1 = ["Own"; "Foo"].
Proof. split; [exact tree_S1_wf|]. vm_compute. auto. Qed.

Definition ex_env := Env "ex.com/p" [("ex.com/sib/v2", "realname"); ("context", "context")] ["L"; "S"] true [].
Definition ex_table := calc_imports ex_env [("context", None); ("ex.com/sib/v2", None); ("ex.com/sib/ren", Some "rr")].
Definition ex_ty :=
  TFunc [(PI "a" false false, TNamed (Some ("ex.com/sib/v2", "realname")) "T" []);
         (PI "" false false, TSlice (TNamed (Some ("ex.com/sib/ren", "ren")) "R" []))] true
        [(PI "" false false, TMap (TBasic "string")
            (TPtr (TNamed (Some ("ex.com/third", "third")) "G"
                     [TNamed None "error" []; TNamed (Some ("ex.com/p", "p")) "L" []])));
         (PI "" false false, TNamed None "error" [])].
Example C19_example_typeref :
  let '(x, st) := extract ex_env ex_table ex_ty in
  print x = "func(a realname.T, arg0... rr.R) (map[string]*third.G[error, L], error)" /\
  map import_string (active st) = ["""ex.com/sib/v2"""; "rr ""ex.com/sib/ren"""; """ex.com/third"""] /\
  alias_injective (active st) /\
  denote "ex.com/p" (fun n => String.eqb n "L") (active st) x = Some (erase ex_ty).
Proof.
  vm_compute. repeat split; auto. repeat constructor; simpl; intuition discriminate.
Qed.

Example C19_example_text :
  let '(x, st) := extract ex_env ex_table ex_ty in
  parse "func(a realname.T, arg0... rr.R) (map[string]*third.G[error, L], error)" = Some (to_pty x) /\
  raw_okb (fun n => String.eqb n "L") is_basic_name x = true /\
  denote_p "ex.com/p" (fun n => String.eqb n "L") (active st) is_basic_name (to_pty x) = Some (erase ex_ty).
Proof. vm_compute. repeat split; reflexivity. Qed.

Example C19_example_text_wf : wf_x (fst (extract ex_env ex_table ex_ty)).
Proof.
  vm_compute. repeat (constructor; try (intros ? [=]; subst); try (vm_compute; reflexivity); cbn [fst snd]).
Qed.

(* the hypotheses of C19_extract_wf / C19_text_denotes_closed hold of the example *)
Example C19_example_identifiers : ident_env ex_env /\ ident_tbl ex_table /\ ident_ty ex_ty.
Proof.
  split; [|split].
  - intros p n. unfold ex_env. simpl.
    destruct (String.eqb p "ex.com/sib/v2"); [intros [= <-]; vm_compute; reflexivity|].
    destruct (String.eqb p "context"); [intros [= <-]; vm_compute; reflexivity|discriminate].
  - intros i Hi. vm_compute in Hi. repeat (destruct Hi as [<-|Hi]; [vm_compute; reflexivity|]). contradiction.
  - unfold ex_ty. repeat (first [ match goal with |- user_valid _ => first [left; vm_compute; reflexivity | right; vm_compute; reflexivity] end | match goal with |- _ \/ _ => fail 1 end | constructor | split | right; vm_compute; reflexivity | left; vm_compute; reflexivity | intros ? ? [= <- <-]; vm_compute; reflexivity | intros ? ? [=] | vm_compute; reflexivity ]).
Qed.

Example C19_example_wf_ty : wf_ty "ex.com/p" (fun n => String.eqb n "L") ex_ty.
Proof.
  unfold ex_ty. constructor.
  - repeat constructor; simpl; intros; discriminate.
  - repeat constructor; simpl; intros; try discriminate; reflexivity.
  - intros _. exists [(PI "a" false false, TNamed (Some ("ex.com/sib/v2", "realname")) "T" [])],
                     (PI "" false false), (TNamed (Some ("ex.com/sib/ren", "ren")) "R" []). reflexivity.
Qed.

(* the bound of C19_embedded_selects is needed: three levels deep the merge can take another
   declaration than Go (G{A{Foo()}; F{X{Foo(int)}}} drops Foo from G's interface, H{Y{Z{Foo(string)}}}
   then provides it alone, Go promotes A.Foo).  Outside the property's quantifier; the real code
   behaves the same (design_notes/C19.md). *)
Definition ex_p (n : string) : ty := TNamed (Some ("ex.com/p", "p")) n [].
Definition ex_foo (ts : list string) : meth :=
  M "Foo" (map (fun s => (PI "" false false, TBasic s)) ts) false [] false.
Definition ex_deep : tree :=
  Tr (ex_p "S") [M "Own" [] false [] false]
     [Tr (ex_p "G") [] [Tr (ex_p "A") [ex_foo []] []; Tr (ex_p "F") [] [Tr (ex_p "X") [ex_foo ["int"]] []]];
      Tr (ex_p "H") [] [Tr (ex_p "Y") [] [Tr (ex_p "Z") [ex_foo ["string"]] []]]].
Example C19_example_selects_needs_two_levels :
  height ex_deep = 3 /\ wf_tree ex_deep /\ go_ms ex_deep "Foo" = true /\
  find_decl ex_deep "Foo" = Some (ex_foo []) /\
  map signature (fst (to_iface ex_env true true [] ex_deep)) = ["Own() "; "Foo(arg0 string) "].
Proof.
  split; [reflexivity|]. split.
  - repeat (constructor; simpl; try tauto); intuition discriminate.
  - vm_compute. auto.
Qed.

(* a plain field named like a method of the single embedded type hides it: T struct{ E; Foo func() } *)
Definition ex_field : tree :=
  Tr (ex_p "T") [M "Foo" [] false [] true; M "E" [] false [] true]
     [Tr (ex_p "E") [ex_foo []; M "Bar" [] false [] false] []].
Example C19_example_field_hides :
  wf_tree ex_field /\ go_ms ex_field "Foo" = false /\ go_ms ex_field "Bar" = true /\
  iface_names true true ex_field = ["Bar"] /\ iface_names_orig true true ex_field = ["Foo"; "Bar"].
Proof.
  split; [repeat (constructor; simpl; try tauto); intuition discriminate|]. vm_compute. auto.
Qed.

Definition ex_real (p : string) : string :=
  if String.eqb p "ex.com/sib/v2" then "realname" else if String.eqb p "context" then "context"
  else if String.eqb p "ex.com/sib/ren" then "ren" else if String.eqb p "ex.com/third" then "third"
  else if String.eqb p "ex.com/p" then "p" else "".
Definition ex_specs : list (string * option string) :=
  [("context", None); ("ex.com/sib/v2", None); ("ex.com/sib/ren", Some "rr")].
Definition ex_tree : tree :=
  Tr (TNamed (Some ("ex.com/p", "p")) "S" [])
     [M "F" [(PI "a" false false, TNamed (Some ("ex.com/sib/v2", "realname")) "T" [])] false
            [(PI "" false false, TPtr (TNamed (Some ("ex.com/third", "third")) "G" []))] false] [].
Example C19_example_binding :
  (forall p n, assoc (e_pkg_imports ex_env) p = Some n -> n = ex_real p) /\
  (forall p, In (p, None) ex_specs -> assoc (e_pkg_imports ex_env) p <> None) /\
  tree_truthful ex_real ex_tree /\
  map import_string (snd (find_interface ex_env ex_specs true true ex_tree))
    = ["""ex.com/sib/v2"""; """ex.com/third"""].
Proof.
  split; [|split; [|split]].
  - intros p n. unfold ex_env, ex_real. simpl.
    destruct (String.eqb p "ex.com/sib/v2"); [intros H; injection H as <-; reflexivity|].
    destruct (String.eqb p "context"); [intros H; injection H as <-; reflexivity|discriminate].
  - intros p [H|[H|[H|[]]]]; injection H as <-; try discriminate; vm_compute; discriminate.
  - intros u Hu pp Hpp. simpl in Hu. destruct Hu as [<-|[<-|[]]]; simpl in Hpp;
      repeat (destruct Hpp as [<-|Hpp]; [reflexivity|]); contradiction.
  - vm_compute. reflexivity.
Qed.

Print Assumptions C19_names.
Print Assumptions C19_names_user_names_kept.
Print Assumptions C19_names_judged_spec.
Print Assumptions C19_names_numbering_terminates.
Print Assumptions C19_names_orig_refuted.
Print Assumptions C19_embedded.
Print Assumptions C19_embedded_two_levels.
Print Assumptions C19_embedded_fits.
Print Assumptions C19_private.
Print Assumptions C19_embedded_orig_refuted.
Print Assumptions C19_typeref.
Print Assumptions C19_imports.
Print Assumptions C19_interface.
Print Assumptions C19_embedded_selects.
Print Assumptions C19_selector_rule.
Print Assumptions C19_field_hides_method.
Print Assumptions C19_import_binding.
Print Assumptions C19_unused_name_fresh.
Print Assumptions C19_alias_injective.
Print Assumptions C19_interface_closed.
Print Assumptions C19_alias_orig_refuted.
Print Assumptions C19_text_parses.
Print Assumptions C19_text_parses_prefix.
Print Assumptions C19_text_denotes.
Print Assumptions C19_extract_wf.
Print Assumptions C19_text_denotes_closed.
Print Assumptions C19_render_injective.
Print Assumptions C19_render_twice.
Print Assumptions C19_private_adds_unexported.
Print Assumptions C19_iface_union_is_set.
Print Assumptions C19_iface_union_identical.
Print Assumptions C19_embedded_iface_overlap_promoted.
Print Assumptions C19_embedded_src_two_levels.
