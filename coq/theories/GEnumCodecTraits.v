(* GEnumCodecTraits.v — decoding of documents that hold a parsable trait value (C12), per trait
   family, on top of GEnumProofs.decode_trait_{json,yaml,text}; and the statement of the full
   property with its refutation for the kinds the emitted decoders have no family for (bool).

   "the document holds the trait value" is expressed on the library views:
     a string-kinded trait value s      — the string reading of the document is s
     an integer-kinded trait value z    — the int64 (resp. uint64) reading of the document is z
     a trait of a self-unmarshaling type — that type's own unmarshaler yields the value
     a bool trait value                 — the document has no string / integer reading at all      *)
From Coq Require Import String Ascii ZArith List Bool Lia.
From GT Require Import Base.GEnumStr.
From GT Require Import GEnumModel GEnumProofs.
Import ListNotations.
Local Open Scope string_scope.
Local Open Scope list_scope.
Local Open Scope Z_scope.

Definition col_bkind (c : column) : bkind := ti_bkind (col_info c).
Definition col_kind (c : column) : tkind := extract_underlying (col_bkind c).

Lemma in_family : forall t k own c, In c (t_cols t) -> col_parsable c = true -> col_kind c = k ->
  own (col_info c) = false -> In c (family t k own).
Proof.
  intros t k own c Hc Hp Hk Ho. unfold family. apply filter_In. split; [assumption|].
  unfold col_kind, col_bkind in Hk. rewrite Hp, Hk, Ho. destruct k; reflexivity.
Qed.

Lemma in_family_own : forall t own c, In c (t_cols t) -> col_parsable c = true ->
  own (col_info c) = true -> In c (family_own t own).
Proof.
  intros t own c Hc Hp Ho. unfold family_own. apply filter_In. split; [assumption|]. rewrite Hp, Ho. reflexivity.
Qed.

Section DecodeTrait.
  Variable k : skels.
  Hypothesis Hk : skels_ok k = true.
  Variable d : defn.
  Variable o : opts.
  Variable t : tables.
  Hypothesis Hwf : wf_defn d.
  Hypothesis Hgen : gen d o = Built t.
  Variable c : column.
  Variable r : row.
  Hypothesis Hc : In c (t_cols t).
  Hypothesis Hp : col_parsable c = true.
  Hypothesis Hr : In r (col_rows c).

  Let owner := g_z (r_owner r).
  Let cellv := cl_val (r_cell r).

  (* ---------------- JSON *)
  (* untyped string constants are plain strings: matched by the very first attempt *)
  Lemma json_plain_string : forall jv s, jv_null jv = false -> cellv = DStr s -> jv_string jv = Some s ->
    unambiguous t (json_attempts_sk k t jv) owner -> decode_json_sk k t jv = Some owner.
  Proof.
    intros jv s Hnn Hcell Hs Hu. apply (decode_trait_json_sk d o t Hwf Hgen k Hk c r jv Hc Hp Hr Hnn); [|exact Hu].
    fold cellv. rewrite Hcell. apply (steps_try_plain t CoJSON _ (dv_of_j jv) s (json_complete k Hk) Hs).
  Qed.
  Lemma json_typed_string : forall jv s, jv_null jv = false -> col_kind c = KString -> ti_json_own (col_info c) = false ->
    cellv = typed c (PStr s) -> jv_string jv = Some s ->
    unambiguous t (json_attempts_sk k t jv) owner -> decode_json_sk k t jv = Some owner.
  Proof.
    intros jv s Hnn Hk' Ho Hcell Hs Hu. apply (decode_trait_json_sk d o t Hwf Hgen k Hk c r jv Hc Hp Hr Hnn); [|exact Hu].
    fold cellv. rewrite Hcell. apply (steps_try_string t CoJSON _ (dv_of_j jv) c s (json_complete k Hk)); [|exact Hs].
    apply in_family; assumption.
  Qed.
  Lemma json_int : forall jv z, jv_null jv = false -> col_kind c = KInt64 -> ti_json_own (col_info c) = false ->
    cellv = typed_int c z -> conv_int (col_bkind c) z = z -> jv_i64 jv = Some z ->
    unambiguous t (json_attempts_sk k t jv) owner -> decode_json_sk k t jv = Some owner.
  Proof.
    intros jv z Hnn Hk' Ho Hcell Hfit Hs Hu. apply (decode_trait_json_sk d o t Hwf Hgen k Hk c r jv Hc Hp Hr Hnn); [|exact Hu].
    fold cellv. rewrite Hcell. apply (steps_try_int t CoJSON _ (dv_of_j jv) c z (json_complete k Hk)); try assumption; [discriminate|].
    apply in_family; assumption.
  Qed.
  Lemma json_uint : forall jv z, jv_null jv = false -> col_kind c = KUint64 -> ti_json_own (col_info c) = false ->
    cellv = typed_int c z -> conv_int (col_bkind c) z = z -> jv_u64 jv = Some z ->
    unambiguous t (json_attempts_sk k t jv) owner -> decode_json_sk k t jv = Some owner.
  Proof.
    intros jv z Hnn Hk' Ho Hcell Hfit Hs Hu. apply (decode_trait_json_sk d o t Hwf Hgen k Hk c r jv Hc Hp Hr Hnn); [|exact Hu].
    fold cellv. rewrite Hcell. apply (steps_try_uint t CoJSON _ (dv_of_j jv) c z (json_complete k Hk)); try assumption; [discriminate|].
    apply in_family; assumption.
  Qed.
  Lemma json_native : forall jv p, jv_null jv = false -> ti_json_own (col_info c) = true ->
    cellv = typed c p -> lookup (col_type c) (jv_native jv) = Some (Some p) ->
    unambiguous t (json_attempts_sk k t jv) owner -> decode_json_sk k t jv = Some owner.
  Proof.
    intros jv p Hnn Ho Hcell Hs Hu. apply (decode_trait_json_sk d o t Hwf Hgen k Hk c r jv Hc Hp Hr Hnn); [|exact Hu].
    fold cellv. rewrite Hcell. apply (steps_try_own t CoJSON _ (dv_of_j jv) c p (json_complete k Hk)); [|exact Hs].
    apply in_family_own; assumption.
  Qed.

  (* ---------------- YAML *)
  Lemma yaml_plain_string : forall yv s, yv_scalar yv = true -> cellv = DStr s -> yv_value yv = s ->
    unambiguous t (yaml_attempts_sk k t yv) owner -> decode_yaml_sk k t yv = Some owner.
  Proof.
    intros yv s Hsc Hcell Hs Hu. apply (decode_trait_yaml_sk d o t Hwf Hgen k Hk c r yv Hc Hp Hr Hsc); [|exact Hu].
    fold cellv. rewrite Hcell, <- Hs. apply (steps_try_plain t CoYAML _ (dv_of_y yv) _ (yaml_complete k Hk)). reflexivity.
  Qed.
  Lemma yaml_typed_string : forall yv s, yv_scalar yv = true -> col_kind c = KString -> ti_yaml_own (col_info c) = false ->
    cellv = typed c (PStr s) -> yv_value yv = s ->
    unambiguous t (yaml_attempts_sk k t yv) owner -> decode_yaml_sk k t yv = Some owner.
  Proof.
    intros yv s Hsc Hk' Ho Hcell Hs Hu. apply (decode_trait_yaml_sk d o t Hwf Hgen k Hk c r yv Hc Hp Hr Hsc); [|exact Hu].
    fold cellv. rewrite Hcell, <- Hs. apply (steps_try_string t CoYAML _ (dv_of_y yv) c _ (yaml_complete k Hk)); [|reflexivity].
    apply in_family; assumption.
  Qed.
  Lemma yaml_int : forall yv z, yv_scalar yv = true -> col_kind c = KInt64 -> ti_yaml_own (col_info c) = false ->
    cellv = typed_int c z -> conv_int (col_bkind c) z = z -> yv_i64 yv = Some z ->
    unambiguous t (yaml_attempts_sk k t yv) owner -> decode_yaml_sk k t yv = Some owner.
  Proof.
    intros yv z Hsc Hk' Ho Hcell Hfit Hs Hu. apply (decode_trait_yaml_sk d o t Hwf Hgen k Hk c r yv Hc Hp Hr Hsc); [|exact Hu].
    fold cellv. rewrite Hcell. apply (steps_try_int t CoYAML _ (dv_of_y yv) c z (yaml_complete k Hk)); try assumption; [discriminate|].
    apply in_family; assumption.
  Qed.
  Lemma yaml_uint : forall yv z, yv_scalar yv = true -> col_kind c = KUint64 -> ti_yaml_own (col_info c) = false ->
    cellv = typed_int c z -> conv_int (col_bkind c) z = z -> yv_u64 yv = Some z ->
    unambiguous t (yaml_attempts_sk k t yv) owner -> decode_yaml_sk k t yv = Some owner.
  Proof.
    intros yv z Hsc Hk' Ho Hcell Hfit Hs Hu. apply (decode_trait_yaml_sk d o t Hwf Hgen k Hk c r yv Hc Hp Hr Hsc); [|exact Hu].
    fold cellv. rewrite Hcell. apply (steps_try_uint t CoYAML _ (dv_of_y yv) c z (yaml_complete k Hk)); try assumption; [discriminate|].
    apply in_family; assumption.
  Qed.
  Lemma yaml_native : forall yv p, yv_scalar yv = true -> ti_yaml_own (col_info c) = true ->
    cellv = typed c p -> lookup (col_type c) (yv_native yv) = Some (Some p) ->
    unambiguous t (yaml_attempts_sk k t yv) owner -> decode_yaml_sk k t yv = Some owner.
  Proof.
    intros yv p Hsc Ho Hcell Hs Hu. apply (decode_trait_yaml_sk d o t Hwf Hgen k Hk c r yv Hc Hp Hr Hsc); [|exact Hu].
    fold cellv. rewrite Hcell. apply (steps_try_own t CoYAML _ (dv_of_y yv) c p (yaml_complete k Hk)); [|exact Hs].
    apply in_family_own; assumption.
  Qed.

  (* ---------------- text (string-typed traits) *)
  Lemma text_plain_string : forall tv s, cellv = DStr s -> tv_text tv = s ->
    unambiguous t (text_attempts_sk k t tv) owner -> decode_text_sk k t tv = Some owner.
  Proof.
    intros tv s Hcell Hs Hu. apply (decode_trait_text_sk d o t Hwf Hgen k Hk c r tv Hc Hp Hr); [|exact Hu].
    fold cellv. rewrite Hcell, <- Hs. apply (steps_try_plain t CoText _ (dv_of_t tv) _ (text_complete k Hk)). reflexivity.
  Qed.
  Lemma text_typed_string : forall tv s, col_kind c = KString -> ti_text_own (col_info c) = false ->
    cellv = typed c (PStr s) -> tv_text tv = s ->
    unambiguous t (text_attempts_sk k t tv) owner -> decode_text_sk k t tv = Some owner.
  Proof.
    intros tv s Hk' Ho Hcell Hs Hu. apply (decode_trait_text_sk d o t Hwf Hgen k Hk c r tv Hc Hp Hr); [|exact Hu].
    fold cellv. rewrite Hcell, <- Hs. apply (steps_try_string t CoText _ (dv_of_t tv) c _ (text_complete k Hk)); [|reflexivity].
    apply in_family; assumption.
  Qed.
End DecodeTrait.

(* ------------------------------------------------------------------ the full statement *)

(* the JSON / YAML scalar holds the constant x of column c *)
Definition json_holds (c : column) (jv : jview) (x : dyn) : Prop :=
  match dval x with
  | PStr s => jv_string jv = Some s
  | PInt z => jv_i64 jv = Some z \/ jv_u64 jv = Some z \/ lookup (col_type c) (jv_native jv) = Some (Some (PInt z))
  | PBool b => jv_string jv = None /\ jv_u64 jv = None /\ jv_i64 jv = None   (* the literal true / false *)
  end.

Definition C12_full_statement : Prop :=
  forall k, skels_ok k = true ->
  forall d o t, wf_defn d -> gen d o = Built t ->
  forall c r jv, In c (t_cols t) -> col_parsable c = true -> In r (col_rows c) ->
  jv_null jv = false -> json_holds c jv (cl_val (r_cell r)) ->
  unambiguous t (json_attempts_sk k t jv) (g_z (r_owner r)) ->
  decode_json_sk k t jv = Some (g_z (r_owner r)).

(* refuted by a parsable bool trait: Parse<T>(true) works, JSON `true` does not decode *)
Definition bw_cell (var : string) (b : bool) : cell :=
  {| cl_var := var; cl_expr := if b then "true" else "false"; cl_val := {| dty := "bool"; dval := PBool b |} |}.
Definition bw_defn : defn :=
  {| d_ty := {| ty_name := "E0"; ty_signed := true; ty_bits := 64 |};
     d_consts := [ {| c_name := "No"; c_val := 0; c_dep := false; c_cells := [bw_cell "_Flag" false] |};
                   {| c_name := "Yes"; c_val := 1; c_dep := false; c_cells := [bw_cell "_" true] |} ];
     d_types := [("bool", {| ti_bkind := BUntypedBool; ti_json_own := false; ti_yaml_own := false; ti_text_own := false |})] |}.
Definition bw_opts : opts :=
  {| o_json := true; o_yaml := true; o_text := true; o_ci := false; o_notraits := false; o_parsable := ["Flag"] |}.
Definition bw_true : jview := {| jv_null := false; jv_string := None; jv_u64 := None; jv_i64 := None; jv_native := [] |}.

Lemma bw_wf : wf_defn bw_defn.
Proof.
  split; [unfold ty_ok; simpl; split; discriminate|]. split.
  - repeat constructor.
  - repeat constructor; simpl; intuition discriminate.
Qed.

Lemma bool_trait_witness :
  exists t, gen bw_defn bw_opts = Built t
            /\ sem_parse t {| dty := "bool"; dval := PBool true |} = Some 1
            /\ decode_json t bw_true = None.
Proof. eexists. split; [vm_compute; reflexivity|]. vm_compute. split; reflexivity. Qed.

Lemma full_statement_refuted : ~ C12_full_statement.
Proof.
  intro H.
  remember (gen bw_defn bw_opts) as g eqn:Hg. vm_compute in Hg.
  match type of Hg with _ = Built ?T => set (t := T) in * end.
  assert (Hgen : gen bw_defn bw_opts = Built t) by (vm_compute; reflexivity).
  set (c := hd {| col_name := ""; col_type := ""; col_info := {| ti_bkind := BNonBasic; ti_json_own := false; ti_yaml_own := false; ti_text_own := false |}; col_parsable := false; col_rows := [] |} (t_cols t)).
  set (r := nth 1 (col_rows c) {| r_owner := to_gvalue {| c_name := ""; c_val := 0; c_dep := false; c_cells := [] |}; r_cell := bw_cell "" false; r_valstr := "" |}).
  specialize (H cur_skels cur_skels_ok bw_defn bw_opts t bw_wf Hgen c r bw_true).
  assert (E : decode_json_sk cur_skels t bw_true = Some (g_z (r_owner r))).
  { apply H.
    - vm_compute. left. reflexivity.
    - vm_compute. reflexivity.
    - vm_compute. right. left. reflexivity.
    - reflexivity.
    - vm_compute. repeat split.
    - intros y w Hy. vm_compute in Hy. contradiction. }
  vm_compute in E. discriminate.
Qed.

(* ------------------------------------------------------------------ the statement on the complement of the finding *)
(* the document holds the constant x of column c in one of the ways the decoders have a family for *)
Definition json_holds_decodable (c : column) (jv : jview) (x : dyn) : Prop :=
  (exists s, x = DStr s /\ jv_string jv = Some s)
  \/ (exists s, col_kind c = KString /\ ti_json_own (col_info c) = false /\ x = typed c (PStr s) /\ jv_string jv = Some s)
  \/ (exists z, col_kind c = KInt64 /\ ti_json_own (col_info c) = false /\ x = typed_int c z /\ conv_int (col_bkind c) z = z /\ jv_i64 jv = Some z)
  \/ (exists z, col_kind c = KUint64 /\ ti_json_own (col_info c) = false /\ x = typed_int c z /\ conv_int (col_bkind c) z = z /\ jv_u64 jv = Some z)
  \/ (exists p, ti_json_own (col_info c) = true /\ x = typed c p /\ lookup (col_type c) (jv_native jv) = Some (Some p)).
Definition yaml_holds_decodable (c : column) (yv : yview) (x : dyn) : Prop :=
  (exists s, x = DStr s /\ yv_value yv = s)
  \/ (exists s, col_kind c = KString /\ ti_yaml_own (col_info c) = false /\ x = typed c (PStr s) /\ yv_value yv = s)
  \/ (exists z, col_kind c = KInt64 /\ ti_yaml_own (col_info c) = false /\ x = typed_int c z /\ conv_int (col_bkind c) z = z /\ yv_i64 yv = Some z)
  \/ (exists z, col_kind c = KUint64 /\ ti_yaml_own (col_info c) = false /\ x = typed_int c z /\ conv_int (col_bkind c) z = z /\ yv_u64 yv = Some z)
  \/ (exists p, ti_yaml_own (col_info c) = true /\ x = typed c p /\ lookup (col_type c) (yv_native yv) = Some (Some p)).

Lemma json_partial : forall k, skels_ok k = true -> forall d o t, wf_defn d -> gen d o = Built t ->
  forall c r jv, In c (t_cols t) -> col_parsable c = true -> In r (col_rows c) ->
  jv_null jv = false -> json_holds_decodable c jv (cl_val (r_cell r)) ->
  unambiguous t (json_attempts_sk k t jv) (g_z (r_owner r)) ->
  decode_json_sk k t jv = Some (g_z (r_owner r)).
Proof.
  intros k Hk d o t Hwf Hg c r jv Hc Hp Hr Hnn H Hu.
  destruct H as [[s [E V]]|[[s [K [O [E V]]]]|[[z [K [O [E [F V]]]]]|[[z [K [O [E [F V]]]]]|[p [O [E V]]]]]]].
  - eapply json_plain_string; eauto.
  - eapply json_typed_string; eauto.
  - eapply json_int; eauto.
  - eapply json_uint; eauto.
  - eapply json_native; eauto.
Qed.

Lemma yaml_partial : forall k, skels_ok k = true -> forall d o t, wf_defn d -> gen d o = Built t ->
  forall c r yv, In c (t_cols t) -> col_parsable c = true -> In r (col_rows c) ->
  yv_scalar yv = true -> yaml_holds_decodable c yv (cl_val (r_cell r)) ->
  unambiguous t (yaml_attempts_sk k t yv) (g_z (r_owner r)) ->
  decode_yaml_sk k t yv = Some (g_z (r_owner r)).
Proof.
  intros k Hk d o t Hwf Hg c r yv Hc Hp Hr Hsc H Hu.
  destruct H as [[s [E V]]|[[s [K [O [E V]]]]|[[z [K [O [E [F V]]]]]|[[z [K [O [E [F V]]]]]|[p [O [E V]]]]]]].
  - eapply yaml_plain_string; eauto.
  - eapply yaml_typed_string; eauto.
  - eapply yaml_int; eauto.
  - eapply yaml_uint; eauto.
  - eapply yaml_native; eauto.
Qed.
