(* GenDetModel.v — the order-sensitive steps of the generators (gsort, genum, gerror, gencommon
   imports), with every source of nondeterminism made an explicit argument.  No proofs here
   (GenDetProofs.v).

   Two kinds of nondeterministic choice occur in the Go code:
     * `for k, v := range someMap`: Go randomises the iteration order per range statement.
       Model: the map is an association list (canonical insertion order) and the loop runs
       over `pi m`, where `pi` is an arbitrary function subject only to `iter_ok pi`
       (`pi m` is a permutation of `m`).  Different range statements get different `pi`s.
     * `sort.Sort` / `sort.Slice`: unstable.  Model: `srt` is an arbitrary function subject only
       to `sort_ok lt srt` (`srt l` is a permutation of `l` in which no later element is Less
       than an earlier one) — whatever sort.Sort returns is of that kind (trusted, C08).

   Go source                                              model
   -----------------------------------------------------------------------------------------
   gsort/gen/sorter_desc.go createSorterDesc:             gsort_type_descs (uses GSortModel's
     descs map, `for _, desc := range descs` (Validate      collect / validate; result in
     loop, result loop)                                     iteration order pi)
   gsort/gen/generate.go Parse: append per type in        gsort_tables
     -types order, sort.Sort(g.SorterDescs) with
     SorterDescs.Less = (TypeName, sortTypeName)          desc_lt
   genum/gen/generate.go processDuplicates: `data` map     groups / apply_group / process_dups
     value -> Values, `for _, duplicates := range data`:
     getPrimary, slices.DeleteFunc on every trait,
     then sort.Sort(traits)                               trait_lt
   genum/gen/values.go Value.Less, sort.Sort(values)      value_lt / genum_values
   genum/gen/traits.go TraitInstances.Less                inst_lt
   gencommon/imports.go: imports map[path]*ImportDesc     imap, ihandler, calc_handler
     + shadowed slice; calcImports (map + shadowed           (calc_step, imap_set),
     slice), addNamed, UseName (range over the map:           add_named / add_named_h,
     idempotent flag writes), unusedName (range: first     name_bound, unused_name,
     alias match), GetActive (range + filter                use_name, get_active,
     inUse + shadowed in-use + sort.Slice by                  import_lt
     (PkgPath, Alias))
   gerror/gen/generate.go createErrorDesc:                gerror_fields, efield_lt
     sort.Sort(fields) by Name; FieldsToPrint/ToClone       fields_to_print / fields_to_clone
   gencommon/comments.go:73, interface.go:108: map        lookup_first (first match in
     ranges that return at the first match of a key          iteration order)
     that at most one entry has
   gencommon/interface.go namedTypeToInterface:           iface_methods, method_lt,
     methodsToAdd map, append in map order; consumers       factory_comments/comment_of
     Methods.Exported/Private sort by generated
     Methods.Less (IsExported, Name); gerror files the
     comments under the method name                                                          *)
From Coq Require Import List Bool ZArith String Permutation.
From GT Require Import GSortModel Base.SortU.
Import ListNotations.

(* ------------------------------------------------------------------ the two kinds of choice *)
Definition iter_ok {A} (pi : list A -> list A) : Prop := forall m, Permutation (pi m) m.
Definition sort_ok {A} (lt : A -> A -> bool) (srt : list A -> list A) : Prop :=
  forall l, Permutation (srt l) l /\ sorted lt (srt l).

(* Go's `<` on strings is byte-wise lexicographic = String.ltb *)
Definition str_lt (a b : string) : bool := String.ltb a b.

(* ------------------------------------------------------------------ gsort *)
(* SorterDescs.Less (generated): TypeName, then sortTypeName (as written, with the `*`) *)
Definition desc_lt (a b : sdesc) : bool :=
  if String.eqb (sd_type a) (sd_type b) then str_lt (sd_sorter a) (sd_sorter b)
  else str_lt (sd_type a) (sd_type b).

(* createSorterDesc for one type: None = an error is returned.  `pi` = order of the result loop
   (the Validate loop's order only decides WHICH failing desc reports; every failure is the same
   error value, so only "some desc is invalid" is observable). *)
Definition gsort_type_descs (pi : list sdesc -> list sdesc) (ty : string) (fs : list fieldT)
  : option (list sdesc) :=
  let ds := collect ty fs in
  if forallb (fun d => validate (sd_fields d)) ds
  then (if forms_ok ds then Some (pi ds) else None) else None.

(* Generate.Parse over the -types list; pis: one iteration order per createSorterDesc call *)
Fixpoint gsort_collect (pis : nat -> list sdesc -> list sdesc) (n : nat)
         (types : list (string * list fieldT)) : option (list sdesc) :=
  match types with
  | [] => Some []
  | (ty, fs) :: r =>
      match gsort_type_descs (pis n) ty fs with
      | None => None
      | Some ds => match gsort_collect pis (S n) r with
                   | None => None
                   | Some rest => Some (ds ++ rest)
                   end
      end
  end.
(* the table the template ranges over *)
Definition gsort_tables (pis : nat -> list sdesc -> list sdesc) (srt : list sdesc -> list sdesc)
           (types : list (string * list fieldT)) : option (list sdesc) :=
  match gsort_collect pis 0 types with
  | None => None
  | Some ds => Some (srt ds)
  end.

(* ------------------------------------------------------------------ genum *)
Record evalue := { ev_name : string; ev_value : Z (* the uint64 bits *); ev_signed : bool;
                   ev_depr : bool }.
Definition as_int64 (z : Z) : Z := if (z <? 9223372036854775808)%Z then z else (z - 18446744073709551616)%Z.
(* Value.Less *)
Definition value_lt (a b : evalue) : bool :=
  if ev_signed a || ev_signed b then
    if (as_int64 (ev_value a) =? as_int64 (ev_value b))%Z then str_lt (ev_name a) (ev_name b)
    else (as_int64 (ev_value a) <? as_int64 (ev_value b))%Z
  else
    if (ev_value a =? ev_value b)%Z then str_lt (ev_name a) (ev_name b)
    else (ev_value a <? ev_value b)%Z.
(* sort.Sort(values) *)
Definition genum_values (srt : list evalue -> list evalue) (vals : list evalue) : list evalue :=
  srt vals.

Record tinst := { ti_owner : evalue; ti_value : string }.
Record tdesc := { td_name : string; td_typeref : string; td_parsable : bool;
                  td_insts : list tinst }.
Definition inst_lt (a b : tinst) : bool := value_lt (ti_owner a) (ti_owner b).
Definition trait_lt (a b : tdesc) : bool := str_lt (td_name a) (td_name b).

(* data := map[uint64]Values: one group per distinct value, members in `values` order *)
Fixpoint group_insert (v : evalue) (gs : list (Z * list evalue)) : list (Z * list evalue) :=
  match gs with
  | [] => [(ev_value v, [v])]
  | (k, g) :: r => if (k =? ev_value v)%Z then (k, g ++ [v]) :: r else (k, g) :: group_insert v r
  end.
Definition groups (vals : list evalue) : list (Z * list evalue) :=
  fold_left (fun gs v => group_insert v gs) vals [].

(* Values.getPrimary: (primary, safe) *)
Fixpoint primary_scan (primary : evalue) (rest : list evalue) : evalue * bool :=
  match rest with
  | [] => (primary, negb (ev_depr primary))
  | v :: r =>
      if ev_depr primary && negb (ev_depr v) then primary_scan v r
      else if negb (ev_depr primary) && negb (ev_depr v) then (primary, false)
      else primary_scan primary r
  end.
Definition get_primary (g : list evalue) : option (evalue * bool) :=
  match g with
  | [] => None
  | [v] => Some (v, true)
  | v :: r => Some (primary_scan v r)
  end.

(* the DeleteFunc predicate *)
Definition del_pred (p : evalue) (t : tinst) : bool :=
  (ev_value (ti_owner t) =? ev_value p)%Z && negb (String.eqb (ev_name (ti_owner t)) (ev_name p)).
Definition strip (p : evalue) (td : tdesc) : tdesc :=
  {| td_name := td_name td; td_typeref := td_typeref td; td_parsable := td_parsable td;
     td_insts := filter (fun t => negb (del_pred p t)) (td_insts td) |}.
(* loop body for one group *)
Definition apply_group (g : Z * list evalue) (traits : list tdesc) : list tdesc :=
  match get_primary (snd g) with
  | Some (p, false) => map (strip p) traits
  | _ => traits
  end.
(* processDuplicates: groups visited in map order `pi`, then sort.Sort(traits) *)
Definition process_dups (pi : list (Z * list evalue) -> list (Z * list evalue))
           (srt : list tdesc -> list tdesc) (vals : list evalue) (traits : list tdesc)
  : list tdesc :=
  srt (fold_left (fun tr g => apply_group g tr) (pi (groups vals)) traits).
(* the warnings printed while doing so (stderr, not part of the generated file): one per unsafe
   group, in iteration order — this DOES depend on pi, and is outside the property *)
Definition dup_warnings (pi : list (Z * list evalue) -> list (Z * list evalue))
           (vals : list evalue) : list string :=
  flat_map (fun g => match get_primary (snd g) with
                     | Some (p, false) => [ev_name p]
                     | _ => []
                     end) (pi (groups vals)).

(* ------------------------------------------------------------------ gencommon imports *)
Record import_desc := { im_alias : string; im_path : string; im_alias_is_pkg : bool;
                        im_inuse : bool }.
Definition imap := list (string * import_desc).      (* key -> *ImportDesc *)

Fixpoint imap_get (k : string) (m : imap) : option import_desc :=
  match m with
  | [] => None
  | (k', v) :: r => if String.eqb k' k then Some v else imap_get k r
  end.
(* m[k] = v *)
Fixpoint imap_set (k : string) (v : import_desc) (m : imap) : imap :=
  match m with
  | [] => [(k, v)]
  | (k', v') :: r => if String.eqb k' k then (k, v) :: r else (k', v') :: imap_set k v r
  end.
(* addNamed for a type of package (path, name): mark in use, or insert a fresh entry *)
Definition add_named (path pkgname : string) (ispkg : bool) (m : imap) : imap :=
  match imap_get path m with
  | Some d => imap_set path {| im_alias := im_alias d; im_path := im_path d;
                               im_alias_is_pkg := im_alias_is_pkg d; im_inuse := true |} m
  | None => imap_set path {| im_alias := pkgname; im_path := path; im_alias_is_pkg := ispkg;
                             im_inuse := true |} m
  end.
Record ihandler := { ih_imports : imap; ih_shadowed : list import_desc }.
(* calcImports: one step per import spec (path, alias, aliasIsPackageName), source order *)
Definition calc_step (h : ihandler) (s : string * string * bool) : ihandler :=
  match s with
  | (path, alias, ispkg) =>
      {| ih_imports := imap_set path {| im_alias := alias; im_path := path;
                                        im_alias_is_pkg := ispkg; im_inuse := false |} (ih_imports h);
         ih_shadowed := match imap_get path (ih_imports h) with
                        | Some prev => (ih_shadowed h ++ [prev])%list
                        | None => ih_shadowed h
                        end |}
  end.
Definition calc_handler (specs : list (string * string * bool)) : ihandler :=
  fold_left calc_step specs {| ih_imports := []; ih_shadowed := [] |}.
Definition add_named_h (path pkgname : string) (ispkg : bool) (h : ihandler) : ihandler :=
  {| ih_imports := add_named path pkgname ispkg (ih_imports h); ih_shadowed := ih_shadowed h |}.
Definition mark_used (d : import_desc) : import_desc :=
  {| im_alias := im_alias d; im_path := im_path d; im_alias_is_pkg := im_alias_is_pkg d; im_inuse := true |}.
(* UseName: `for _, i := range ih.imports { if i.Alias == name { i.inUse = true } }` in map
   order pi, then the same over the shadowed slice *)
Definition use_name (pi : imap -> imap) (name : string) (h : ihandler) : ihandler :=
  {| ih_imports := fold_left (fun m kv => if String.eqb (im_alias (snd kv)) name
                                          then imap_set (fst kv) (mark_used (snd kv)) m else m)
                             (pi (ih_imports h)) (ih_imports h);
     ih_shadowed := map (fun d => if String.eqb (im_alias d) name then mark_used d else d) (ih_shadowed h) |}.
Definition use_name_found (name : string) (h : ihandler) : bool :=
  existsb (fun d => String.eqb (im_alias d) name) (map snd (ih_imports h) ++ ih_shadowed h)%list.
(* unusedName (fix 0af0409): `bound(candidate)` ranges over the imports map and returns true at
   the first entry whose alias is the candidate, then looks at the shadowed specs and at the
   package scope; the candidates are name, name2, name3, ... (itoa : strconv.Itoa) *)
Definition name_bound (pi : imap -> imap) (scope : string -> bool) (cand : string) (h : ihandler)
  : bool :=
  existsb (fun kv => String.eqb (im_alias (snd kv)) cand) (pi (ih_imports h))
  || existsb (fun d => String.eqb (im_alias d) cand) (ih_shadowed h)
  || scope cand.
Fixpoint unused_from (itoa : nat -> string) (pis : nat -> imap -> imap) (scope : string -> bool)
         (name : string) (h : ihandler) (fuel n : nat) : string :=
  match fuel with
  | O => name ++ itoa n
  | S f => if name_bound (pis n) scope (name ++ itoa n) h
           then unused_from itoa pis scope name h f (S n) else name ++ itoa n
  end.
(* pis k: the iteration order of the k-th call of bound (k = 1 for the plain name) *)
Definition unused_name (itoa : nat -> string) (pis : nat -> imap -> imap) (scope : string -> bool)
           (name : string) (h : ihandler) (fuel : nat) : string :=
  if name_bound (pis 1) scope name h then unused_from itoa pis scope name h fuel 2 else name.
(* sort.Slice less: PkgPath, then Alias *)
Definition import_lt (a b : import_desc) : bool :=
  if String.eqb (im_path a) (im_path b) then str_lt (im_alias a) (im_alias b)
  else str_lt (im_path a) (im_path b).
(* GetActive *)
Definition get_active (pi : imap -> imap) (srt : list import_desc -> list import_desc) (h : ihandler)
  : list import_desc :=
  srt (filter im_inuse (map snd (pi (ih_imports h))) ++ filter im_inuse (ih_shadowed h))%list.

(* ------------------------------------------------------------------ gerror *)
Record efield := { ef_name : string; ef_printas : string; ef_clone : bool; ef_print : bool }.
Definition efield_lt (a b : efield) : bool := str_lt (ef_name a) (ef_name b).
Definition gerror_fields (srt : list efield -> list efield) (fs : list efield) : list efield :=
  srt fs.
Definition fields_to_print (srt srt2 : list efield -> list efield) (fs : list efield) :=
  srt2 (filter ef_print (gerror_fields srt fs)).
Definition fields_to_clone (srt srt2 : list efield -> list efield) (fs : list efield) :=
  srt2 (filter ef_clone (gerror_fields srt fs)).

(* ------------------------------------------------------------------ gencommon Interface.Methods *)
Record gmethod := { gm_name : string; gm_exported : bool; gm_comment : string }.
(* generated Methods.Less: IsExported (false before true), then Name *)
Definition method_lt (a b : gmethod) : bool :=
  if Bool.eqb (gm_exported a) (gm_exported b) then str_lt (gm_name a) (gm_name b)
  else negb (gm_exported a) && gm_exported b.
(* namedTypeToInterface: the type's own methods, then the embedded ones Go promotes, in the
   iteration order of the methodsToAdd map (keyed by method name) *)
Definition iface_methods (pi : list (string * gmethod) -> list (string * gmethod))
           (promoted : string -> bool) (own : list gmethod) (to_add : list (string * gmethod))
  : list gmethod :=
  (own ++ map snd (filter (fun kv => promoted (fst kv)) (pi to_add)))%list.
(* gerror Parse: `for _, m := range iFact.Methods { g.FactoryComments[m.Name] = comments }`,
   the template then reads `index $.FactoryComments "<name>"`: the last method of that name wins *)
Definition comment_of (name : string) (ms : list gmethod) : option string :=
  option_map gm_comment (find (fun m => String.eqb (gm_name m) name) (rev ms)).

(* ------------------------------------------------------------------ first-match map lookups *)
Definition lookup_first {A} (pi : list A -> list A) (p : A -> bool) (m : list A) : option A :=
  find p (pi m).
