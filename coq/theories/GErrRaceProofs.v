(* GErrRaceProofs.v — derivations never write a shared object (lemmas behind Props/C15.v). *)
From Coq Require Import NArith List Bool Lia PeanoNat.
From GT Require Import Base.GErrStr.
From GT Require Import GErrModel GErrSpec GErrProofs GErrRace.
Import ListNotations.

Lemma call_no_shared_write xw st v m a n :
  n <= length st -> existsb (is_shared_write n) (call_accesses xw st v m a) = false.
Proof.
  intros H. unfold call_accesses. destruct (as_gerror v); [|reflexivity].
  destruct (w_guard (wt_of xw v m) && is_gerr_val (a_err a)); [reflexivity|].
  simpl. rewrite orb_false_r. apply Nat.ltb_ge. exact H.
Qed.

Lemma derive_no_shared_write xw ch : forall st v n,
  n <= length st -> existsb (is_shared_write n) (derive_accesses xw st v ch) = false.
Proof.
  induction ch as [|[m a] ch IH]; intros st v n H; simpl; [reflexivity|].
  rewrite existsb_app, (call_no_shared_write xw st v m a n H). simpl.
  destruct (call xw st v m a) as [[st' v']|] eqn:C; [|reflexivity].
  apply IH. destruct (call_extends _ _ _ _ _ _ _ C) as [ext ->]. rewrite app_length. lia.
Qed.

Lemma thread_no_shared_write xw jobs : forall st n,
  n <= length st -> existsb (is_shared_write n) (thread_accesses xw st jobs) = false.
Proof.
  induction jobs as [|[v ch] jobs IH]; intros st n H; simpl; [reflexivity|].
  rewrite existsb_app, (derive_no_shared_write xw ch st v n H). simpl.
  destruct (derive xw st v ch) as [[st' r]|] eqn:D; [|reflexivity].
  apply IH. destruct (derive_extends _ _ _ _ _ _ D) as [ext ->]. rewrite app_length. lia.
Qed.

(* any two goroutines deriving from a shared initial store: no conflicting pair of accesses *)
Lemma threads_race_free xw st jobs1 jobs2 x y :
  In x (thread_accesses xw st jobs1) -> In y (thread_accesses xw st jobs2) ->
  ~ conflict (length st) x y.
Proof.
  intros Hx Hy C.
  pose proof (thread_no_shared_write xw jobs1 st (length st) (le_n _)) as N1.
  pose proof (thread_no_shared_write xw jobs2 st (length st) (le_n _)) as N2.
  assert (W : forall l c, existsb (is_shared_write (length st)) l = false -> In (Wr c) l -> c < length st -> False).
  { intros l c E I L. assert (existsb (is_shared_write (length st)) l = true).
    { apply existsb_exists. exists (Wr c). split; [exact I|]. simpl. apply Nat.ltb_lt. exact L. }
    congruence. }
  destruct x as [c|c], y as [d|d]; simpl in C; try contradiction; destruct C as [-> L].
  - exact (W _ _ N2 Hy L).
  - exact (W _ _ N1 Hx L).
  - exact (W _ _ N1 Hx L).
Qed.
