(* GErrRaceProofs.v — the instrumented CloneBase of GErrRace.v computes GErrModel.clone_base
   (erasure), its trace only writes the clone, and hence derivations never write a shared
   object (lemmas behind the concurrency part of Props/C15.v). *)
From Coq Require Import NArith List Bool Lia PeanoNat.
From GT Require Import Base.GErrStr.
From GT Require Import GErrModel GErrSpec GErrProofs GErrRace.
Import ListNotations.

(* ---------------------------------------------------------------- the monad *)
Lemma bind_st A B (m : M A) (k : A -> M B) c :
  run_st (bind m k) c = run_st (k (run_val m c)) (run_st m c).
Proof.
  unfold run_st, run_val, bind. destruct (m c) as [[a c1] t1]. simpl.
  destruct (k a c1) as [[b c2] t2]. reflexivity.
Qed.

Lemma bind_val A B (m : M A) (k : A -> M B) c :
  run_val (bind m k) c = run_val (k (run_val m c)) (run_st m c).
Proof.
  unfold run_st, run_val, bind. destruct (m c) as [[a c1] t1]. simpl.
  destruct (k a c1) as [[b c2] t2]. reflexivity.
Qed.

Lemma bind_tr A B (m : M A) (k : A -> M B) c :
  run_tr (bind m k) c = run_tr m c ++ run_tr (k (run_val m c)) (run_st m c).
Proof.
  unfold run_tr, run_st, run_val, bind. destruct (m c) as [[a c1] t1]. simpl.
  destruct (k a c1) as [[b c2] t2]. reflexivity.
Qed.

Lemma seq_st A (m : M unit) (k : M A) c : run_st (andthen m k) c = run_st k (run_st m c).
Proof. unfold andthen. apply bind_st. Qed.

Lemma seq_tr A (m : M unit) (k : M A) c : run_tr (andthen m k) c = run_tr m c ++ run_tr k (run_st m c).
Proof. unfold andthen. apply bind_tr. Qed.

(* ---------------------------------------------------------------- what each block does to
   the object under construction *)
Ltac mrun :=
  unfold run_st, run_val, andthen, bind, rd_clone, rd_base, wr_clone, ret, skip;
  cbn [get_field set_field g_name g_msg g_src g_dtag g_stack g_fref g_serr g_later g_isfac
       as_s as_k as_v as_l as_b fst snd].
Lemma blk_fref_st bi base bp c : run_st (blk_fref bi base bp) c = c.
Proof. unfold blk_fref, run_st, bind, rd_base, ret. simpl. destruct (is_nil (g_fref base)); reflexivity. Qed.

Lemma blk_fref_val bi base bp c :
  run_val (blk_fref bi base bp) c = if is_nil (g_fref base) then bp else g_fref base.
Proof. unfold blk_fref, run_val, bind, rd_base, ret. simpl. destruct (is_nil (g_fref base)); reflexivity. Qed.

Lemma blk_literal_st bi fresh base fref c :
  run_st (blk_literal bi fresh base fref) c
  = mkG (g_name base) (g_msg base) (g_src base) (g_dtag base) (g_stack base) fref (g_serr base) [] false.
Proof. reflexivity. Qed.

Lemma blk_source_st fresh src n m s d k f e l b :
  run_st (blk_source fresh src) (mkG n m s d k f e l b)
  = mkG n m (if nonempty src && is_empty s then src else s) d k f e l b.
Proof. unfold blk_source. destruct (nonempty src); [|reflexivity]. mrun. destruct (is_empty s); reflexivity. Qed.

Lemma blk_dtag_st fresh dtag n m s d k f e l b :
  run_st (blk_dtag fresh dtag) (mkG n m s d k f e l b)
  = mkG n m s (if is_empty dtag then d else if is_empty d then dtag else d ++ dash ++ dtag) k f e l b.
Proof. unfold blk_dtag. destruct (is_empty dtag); [reflexivity|]. mrun. destruct (is_empty d); reflexivity. Qed.

Lemma blk_msg_st fresh ext n m s d k f e l b :
  run_st (blk_msg fresh ext) (mkG n m s d k f e l b)
  = mkG n (if is_empty (trim_space ext) then m
           else if is_empty m then trim_space ext else m ++ sp ++ trim_space ext) s d k f e l b.
Proof.
  unfold blk_msg. destruct (is_empty (trim_space ext)); [reflexivity|].
  mrun. destruct (is_empty m); reflexivity.
Qed.

Lemma blk_inherit_st bi fresh base ep n m s d k f e l b :
  run_st (blk_inherit bi fresh base ep) (mkG n m s d k f e l b)
  = mkG n m s d k (if is_nil f && g_isfac base then ep else f) e l b.
Proof.
  unfold blk_inherit. mrun.
  destruct (is_nil f); [|reflexivity]. destruct (g_isfac base); reflexivity.
Qed.

Lemma blk_later_st bi fresh base serr n m s d k f e l b :
  run_st (blk_later bi fresh base serr) (mkG n m s d k f e l b)
  = mkG n m s d k f
        (if is_nil e && negb (is_nil serr) then serr else e)
        (if is_nil e && negb (is_nil serr) then g_later base
         else if negb (is_nil serr) then g_later base ++ [serr] else g_later base) b.
Proof.
  unfold blk_later. mrun.
  destruct (is_nil e && negb (is_nil serr)); [reflexivity|].
  destruct (negb (is_nil serr)); reflexivity.
Qed.

Lemma blk_stack_st fresh stt site derived n m s d k f e l b :
  run_st (blk_stack fresh stt site derived) (mkG n m s d k f e l b)
  = if match k with Some _ => true | None => false end || stack_type_eqb stt NoStack
       || (stack_type_eqb stt SourceStack && nonempty s)
    then mkG n m s d k f e l b
    else if is_empty s
         then mkG n m derived d (if stack_type_eqb stt SourceStack then None else Some site) f e l b
         else mkG n m s d (Some site) f e l b.
Proof.
  destruct k as [k0|], stt, s; reflexivity.
Qed.

(* ---------------------------------------------------------------- ERASURE: the object built
   by the instrumented program is clone_base, for all arguments *)
Lemma clone_base_tr_fst bi fresh base bp ep stt dtag src ext serr site derived :
  fst (clone_base_tr bi fresh base bp ep stt dtag src ext serr site derived)
  = run_st (clone_base_prog bi fresh base bp ep stt dtag src ext serr site derived) zero_gerr.
Proof.
  unfold clone_base_tr, run_st.
  destruct (clone_base_prog bi fresh base bp ep stt dtag src ext serr site derived zero_gerr)
    as [[u c] t]. reflexivity.
Qed.

Lemma clone_base_tr_snd bi fresh base bp ep stt dtag src ext serr site derived :
  snd (clone_base_tr bi fresh base bp ep stt dtag src ext serr site derived)
  = run_tr (clone_base_prog bi fresh base bp ep stt dtag src ext serr site derived) zero_gerr.
Proof.
  unfold clone_base_tr, run_tr.
  destruct (clone_base_prog bi fresh base bp ep stt dtag src ext serr site derived zero_gerr)
    as [[u c] t]. reflexivity.
Qed.

Theorem clone_base_tr_erasure bi fresh base bp ep stt dtag src ext serr site derived :
  fst (clone_base_tr bi fresh base bp ep stt dtag src ext serr site derived)
  = clone_base base bp ep stt dtag src ext serr site derived.
Proof.
  rewrite clone_base_tr_fst. unfold clone_base_prog.
  rewrite bind_st, blk_fref_st, blk_fref_val.
  rewrite !seq_st.
  rewrite blk_literal_st, blk_source_st, blk_dtag_st, blk_msg_st, blk_inherit_st, blk_later_st,
    blk_stack_st.
  reflexivity.
Qed.

(* ---------------------------------------------------------------- the trace only touches
   *base (reads) and the clone (reads and writes) *)
Definition m_sat {A : Type} (P : access -> Prop) (m : M A) : Prop :=
  forall c x, In x (run_tr m c) -> P x.

Lemma sat_ret A (P : access -> Prop) (a : A) : m_sat P (ret a).
Proof. intros c x []. Qed.

Lemma sat_bind A B (P : access -> Prop) (m : M A) (k : A -> M B) :
  m_sat P m -> (forall a, m_sat P (k a)) -> m_sat P (bind m k).
Proof.
  intros Hm Hk c x. rewrite bind_tr, in_app_iff. intros [H|H]; [exact (Hm _ _ H)|exact (Hk _ _ _ H)].
Qed.

Lemma sat_seq A (P : access -> Prop) (m : M unit) (k : M A) : m_sat P m -> m_sat P k -> m_sat P (andthen m k).
Proof. intros Hm Hk. apply sat_bind; [exact Hm|intros _; exact Hk]. Qed.

Lemma sat_rd_base (P : access -> Prop) bi base f : P (Rd bi f) -> m_sat P (rd_base bi base f).
Proof. intros H c x [<-|[]]. exact H. Qed.

Lemma sat_rd_clone (P : access -> Prop) fresh f : P (Rd fresh f) -> m_sat P (rd_clone fresh f).
Proof. intros H c x [<-|[]]. exact H. Qed.

Lemma sat_wr_clone (P : access -> Prop) fresh f v : P (Wr fresh f) -> m_sat P (wr_clone fresh f v).
Proof. intros H c x [<-|[]]. exact H. Qed.

Lemma sat_alloc (P : access -> Prop) fresh : (forall f, P (Wr fresh f)) -> m_sat P (alloc_clone fresh).
Proof.
  intros H c x I. unfold run_tr, alloc_clone in I. simpl in I.
  repeat (destruct I as [<-|I]; [apply H|]). destruct I.
Qed.

(* [side] discharges the obligation P (access) of a primitive *)
Ltac sat_tac side :=
  repeat first
    [ apply sat_ret
    | apply sat_rd_base; side | apply sat_rd_clone; side | apply sat_wr_clone; side
    | apply sat_alloc; intros ?; side
    | apply sat_seq
    | apply sat_bind; [|intros ?]
    | match goal with
      | |- m_sat _ (if ?b then _ else _) => destruct b
      | |- m_sat _ (match ?k with Some _ => _ | None => _ end) => destruct k
      end ].

Definition m_local {A : Type} (bi fresh : nat) (m : M A) : Prop := m_sat (local_access bi fresh) m.

Lemma clone_base_prog_local bi fresh base bp ep stt dtag src ext serr site derived :
  m_local bi fresh (clone_base_prog bi fresh base bp ep stt dtag src ext serr site derived).
Proof.
  unfold m_local, clone_base_prog, blk_fref, blk_literal, blk_source, blk_dtag, blk_msg,
    blk_inherit, blk_later, blk_stack, skip.
  sat_tac ltac:(simpl; auto).
Qed.

(* every write of the trace targets the fresh cell; every read targets *base or the fresh cell *)
Theorem clone_base_tr_local bi fresh base bp ep stt dtag src ext serr site derived x :
  In x (snd (clone_base_tr bi fresh base bp ep stt dtag src ext serr site derived)) ->
  local_access bi fresh x.
Proof. rewrite clone_base_tr_snd. apply clone_base_prog_local. Qed.

Corollary clone_base_tr_writes_fresh bi fresh base bp ep stt dtag src ext serr site derived c f :
  In (Wr c f) (snd (clone_base_tr bi fresh base bp ep stt dtag src ext serr site derived)) ->
  c = fresh.
Proof. intros H. exact (clone_base_tr_local _ _ _ _ _ _ _ _ _ _ _ _ _ H). Qed.

Corollary clone_base_tr_reads bi fresh base bp ep stt dtag src ext serr site derived c f :
  In (Rd c f) (snd (clone_base_tr bi fresh base bp ep stt dtag src ext serr site derived)) ->
  c = bi \/ c = fresh.
Proof. intros H. exact (clone_base_tr_local _ _ _ _ _ _ _ _ _ _ _ _ _ H). Qed.

(* the read of base.isFactory in the inheritance block is dead code when CloneBase is reached
   through a method (`clone.factoryRef == nil` is false: fRef was made from a non-nil pointer) *)
Definition not_isfac_read (x : access) : Prop :=
  match x with Rd _ FIsFac => False | _ => True end.

Lemma blk_inherit_tr_nonnil bi fresh base ep n m s d k f e l b :
  is_nil f = false -> run_tr (blk_inherit bi fresh base ep) (mkG n m s d k f e l b) = [Rd fresh FFref].
Proof. intros H. unfold blk_inherit, run_tr, bind, rd_clone. simpl. rewrite H. reflexivity. Qed.

Lemma clone_base_tr_no_isfac_read bi fresh base bp ep stt dtag src ext serr site derived x :
  is_nil bp = false ->
  In x (snd (clone_base_tr bi fresh base bp ep stt dtag src ext serr site derived)) ->
  not_isfac_read x.
Proof.
  intros NB. rewrite clone_base_tr_snd. unfold clone_base_prog.
  rewrite bind_tr, !seq_tr, blk_fref_st, blk_fref_val.
  rewrite blk_literal_st, blk_source_st, blk_dtag_st, blk_msg_st.
  rewrite blk_inherit_tr_nonnil.
  2:{ destruct (is_nil (g_fref base)) eqn:E; [exact NB|exact E]. }
  rewrite !in_app_iff.
  assert (S : forall A (m : M A) c, m_sat not_isfac_read m -> In x (run_tr m c) -> not_isfac_read x)
    by (intros A m c H I; exact (H _ _ I)).
  intros [H|[H|[H|[H|[H|[H|[H|H]]]]]]]; revert H.
  - apply S. unfold blk_fref. sat_tac ltac:(exact I).
  - apply S. unfold blk_literal. sat_tac ltac:(exact I).
  - apply S. unfold blk_source, skip. sat_tac ltac:(exact I).
  - apply S. unfold blk_dtag, skip. sat_tac ltac:(exact I).
  - apply S. unfold blk_msg, skip. sat_tac ltac:(exact I).
  - intros [<-|[]]. exact I.
  - apply S. unfold blk_later, skip. sat_tac ltac:(exact I).
  - apply S. unfold blk_stack, skip. sat_tac ltac:(exact I).
Qed.

(* ---------------------------------------------------------------- calls, chains, goroutines *)
Lemma ext_accesses_local i fresh x : In x (ext_accesses i fresh) -> local_access i fresh x.
Proof.
  unfold ext_accesses. simpl.
  intros H. repeat (destruct H as [<-|H]; [simpl; auto|]). destruct H.
Qed.

(* erasure for a method call: the instrumented call computes [call] *)
Theorem call_tr_erasure xw st v m a : fst (call_tr xw st v m a) = call xw st v m a.
Proof.
  destruct v as [|i|i|]; simpl; try reflexivity.
  - destruct (nth_error st i) as [c|]; [|reflexivity].
    destruct (w_guard (base_wiring m) && is_gerr_val (a_err a)); [reflexivity|].
    unfold apply_wiring_tr, apply_wiring.
    rewrite <- (clone_base_tr_erasure i (length st)).
    destruct (clone_base_tr _ _ _ _ _ _ _ _ _ _ _ _) as [g t]. reflexivity.
  - destruct (nth_error st i) as [c|]; [|reflexivity].
    destruct (c_x c) as [x|]; [|reflexivity].
    destruct (w_guard (xw m) && is_gerr_val (a_err a)); [reflexivity|].
    unfold apply_wiring_tr, apply_wiring.
    rewrite <- (clone_base_tr_erasure i (length st)).
    destruct (clone_base_tr _ _ _ _ _ _ _ _ _ _ _ _) as [g t]. reflexivity.
Qed.

(* a call reads only its receiver's cell (and the cell it builds) and writes only the cell it
   builds, which is the next free one *)
Lemma call_accesses_local xw st v m a x :
  In x (call_accesses xw st v m a) ->
  exists i, as_gerror v = Some i /\ i < length st /\ local_access i (length st) x.
Proof.
  unfold call_accesses. destruct v as [|i|i|]; simpl; try contradiction.
  - destruct (nth_error st i) as [c|] eqn:E; [|contradiction].
    destruct (w_guard (base_wiring m) && is_gerr_val (a_err a)); [contradiction|].
    unfold apply_wiring_tr.
    destruct (clone_base_tr _ _ _ _ _ _ _ _ _ _ _ _) as [g t] eqn:T. simpl. intros H.
    exists i. split; [reflexivity|]. split; [apply nth_error_Some; congruence|].
    assert (t = snd (clone_base_tr i (length st) (c_g c) (VG i) (VG i) (w_stack (base_wiring m))
       (eval_a a (w_dtag (base_wiring m))) (eval_a a (w_src (base_wiring m)))
       (eval_a a (w_msg (base_wiring m))) (eval_e a (w_serr (base_wiring m))) (a_site a) (a_derived a)))
      as -> by (rewrite T; reflexivity).
    exact (clone_base_tr_local _ _ _ _ _ _ _ _ _ _ _ _ _ H).
  - destruct (nth_error st i) as [c|] eqn:E; [|contradiction].
    destruct (c_x c) as [xi|]; [|contradiction].
    destruct (w_guard (xw m) && is_gerr_val (a_err a)); [contradiction|].
    unfold apply_wiring_tr.
    destruct (clone_base_tr _ _ _ _ _ _ _ _ _ _ _ _) as [g t] eqn:T. simpl. intros H.
    exists i. split; [reflexivity|]. split; [apply nth_error_Some; congruence|].
    apply in_app_iff in H. destruct H as [H|H]; [|exact (ext_accesses_local _ _ _ H)].
    assert (t = snd (clone_base_tr i (length st) (c_g c) (VG i) (VX i) (w_stack (xw m))
       (eval_a a (w_dtag (xw m))) (eval_a a (w_src (xw m)))
       (eval_a a (w_msg (xw m))) (eval_e a (w_serr (xw m))) (a_site a) (a_derived a)))
      as -> by (rewrite T; reflexivity).
    exact (clone_base_tr_local _ _ _ _ _ _ _ _ _ _ _ _ _ H).
Qed.

Lemma local_no_shared_write bi fresh n nh (l : list access) :
  (forall x, In x l -> local_access bi fresh x) -> n <= fresh ->
  existsb (is_shared_write n nh) l = false.
Proof.
  intros H Hn. destruct (existsb (is_shared_write n nh) l) eqn:E; [|reflexivity].
  apply existsb_exists in E. destruct E as [x [Hx Hw]]. specialize (H x Hx).
  destruct x as [c f|c f|ar k|ar k]; simpl in *; try discriminate; try contradiction.
  apply Nat.ltb_lt in Hw. lia.
Qed.

Lemma call_no_shared_write xw st v m a n nh :
  n <= length st -> existsb (is_shared_write n nh) (call_accesses xw st v m a) = false.
Proof.
  intros H. destruct (existsb (is_shared_write n nh) (call_accesses xw st v m a)) eqn:E; [|reflexivity].
  apply existsb_exists in E. destruct E as [x [Hx Hw]].
  destruct (call_accesses_local _ _ _ _ _ _ Hx) as [i [_ [_ L]]].
  destruct x as [c f|c f|ar k|ar k]; simpl in *; try discriminate; try contradiction.
  apply Nat.ltb_lt in Hw. lia.
Qed.

Theorem derive_tr_erasure xw ch : forall st v, fst (derive_tr xw st v ch) = derive xw st v ch.
Proof.
  induction ch as [|[m a] ch IH]; intros st v; simpl; [reflexivity|].
  rewrite <- call_tr_erasure. destruct (call_tr xw st v m a) as [[[st' v']|] t]; simpl; [|reflexivity].
  rewrite <- IH. destruct (derive_tr xw st' v' ch) as [res t']. reflexivity.
Qed.

Lemma call_tr_extends xw st v m a st' v' t :
  call_tr xw st v m a = (Some (st', v'), t) -> exists ext, st' = st ++ ext.
Proof.
  intros H. apply (call_extends xw st v m a st' v'). rewrite <- call_tr_erasure, H. reflexivity.
Qed.

Lemma derive_tr_extends xw ch st v st' v' t :
  derive_tr xw st v ch = (Some (st', v'), t) -> exists ext, st' = st ++ ext.
Proof.
  intros H. apply (derive_extends xw ch st v st' v'). rewrite <- derive_tr_erasure, H. reflexivity.
Qed.

Lemma derive_no_shared_write xw ch : forall st v n nh,
  n <= length st -> existsb (is_shared_write n nh) (derive_accesses xw st v ch) = false.
Proof.
  unfold derive_accesses.
  induction ch as [|[m a] ch IH]; intros st v n nh H; simpl; [reflexivity|].
  pose proof (call_no_shared_write xw st v m a n nh H) as C. unfold call_accesses in C.
  destruct (call_tr xw st v m a) as [[[st' v']|] t] eqn:E; simpl in *; [|exact C].
  specialize (IH st' v' n nh).
  destruct (derive_tr xw st' v' ch) as [res t']. simpl in *.
  rewrite existsb_app, C. simpl. apply IH.
  destruct (call_tr_extends _ _ _ _ _ _ _ _ E) as [ext ->]. rewrite app_length. lia.
Qed.

Lemma thread_no_shared_write xw jobs : forall st n nh,
  n <= length st -> existsb (is_shared_write n nh) (thread_accesses xw st jobs) = false.
Proof.
  unfold thread_accesses.
  induction jobs as [|[v ch] jobs IH]; intros st n nh H; simpl; [reflexivity|].
  pose proof (derive_no_shared_write xw ch st v n nh H) as C. unfold derive_accesses in C.
  destruct (derive_tr xw st v ch) as [[[st' v']|] t] eqn:E; simpl in *; [|exact C].
  specialize (IH st' n nh).
  destruct (thread_tr xw st' jobs) as [res t']. simpl in *.
  rewrite existsb_app, C. simpl. apply IH.
  destruct (derive_tr_extends _ _ _ _ _ _ _ E) as [ext ->]. rewrite app_length. lia.
Qed.

(* the store a goroutine ends with is what running its chains with [derive] gives *)
Fixpoint thread_run (xw : method -> wiring) (st : store) (jobs : list (val * list step))
  : option store :=
  match jobs with
  | [] => Some st
  | (v, ch) :: rest =>
      match derive xw st v ch with
      | Some (st', _) => thread_run xw st' rest
      | None => None
      end
  end.

Theorem thread_tr_erasure xw jobs : forall st, fst (thread_tr xw st jobs) = thread_run xw st jobs.
Proof.
  induction jobs as [|[v ch] jobs IH]; intros st; simpl; [reflexivity|].
  rewrite <- derive_tr_erasure. destruct (derive_tr xw st v ch) as [[[st' v']|] t]; simpl; [|reflexivity].
  rewrite <- IH. destruct (thread_tr xw st' jobs) as [res t']. reflexivity.
Qed.

Lemma no_shared_write_In n nh l x :
  existsb (is_shared_write n nh) l = false -> In x l -> is_shared_write n nh x = false.
Proof.
  intros E I. destruct (is_shared_write n nh x) eqn:W; [|reflexivity].
  assert (existsb (is_shared_write n nh) l = true) by (apply existsb_exists; eauto). congruence.
Qed.

(* a goroutine's trace consists of field accesses only (backing arrays: GErrSlice.v) *)
Lemma conflict_needs_shared_write n nh x y :
  conflict n nh x y -> is_shared_write n nh x = true \/ is_shared_write n nh y = true.
Proof.
  destruct x as [c f|c f|a k|a k], y as [d g|d g|b j|b j]; simpl; try contradiction;
    intros [E [_ L]]; subst; try (left; apply Nat.ltb_lt; exact L); right; apply Nat.ltb_lt; exact L.
Qed.

Lemma object_conflict_needs_shared_write n nh x y :
  object_conflict n x y -> is_shared_write n nh x = true \/ is_shared_write n nh y = true.
Proof.
  destruct x as [c f|c f|a k|a k], y as [d g|d g|b j|b j]; simpl; try contradiction;
    intros [E L]; subst; try (left; apply Nat.ltb_lt; exact L); right; apply Nat.ltb_lt; exact L.
Qed.

(* any two goroutines deriving from a shared initial store: no conflicting pair of accesses *)
Theorem threads_race_free xw st nh jobs1 jobs2 x y :
  In x (thread_accesses xw st jobs1) -> In y (thread_accesses xw st jobs2) ->
  ~ conflict (length st) nh x y.
Proof.
  intros Hx Hy C.
  pose proof (no_shared_write_In _ _ _ _ (thread_no_shared_write xw jobs1 st (length st) nh (le_n _)) Hx).
  pose proof (no_shared_write_In _ _ _ _ (thread_no_shared_write xw jobs2 st (length st) nh (le_n _)) Hy).
  destruct (conflict_needs_shared_write _ _ _ _ C); congruence.
Qed.

(* ... not even at the granularity of whole objects *)
Theorem threads_object_race_free xw st jobs1 jobs2 x y :
  In x (thread_accesses xw st jobs1) -> In y (thread_accesses xw st jobs2) ->
  ~ object_conflict (length st) x y.
Proof.
  intros Hx Hy C.
  pose proof (no_shared_write_In _ _ _ _ (thread_no_shared_write xw jobs1 st (length st) 0 (le_n _)) Hx).
  pose proof (no_shared_write_In _ _ _ _ (thread_no_shared_write xw jobs2 st (length st) 0 (le_n _)) Hy).
  destruct (object_conflict_needs_shared_write _ 0 _ _ C); congruence.
Qed.

(* ---------------------------------------------------------------- FactoryOf is different:
   it writes an EXISTING cell.  Concurrently with anything that reads isFactory of the same
   object (Is, ExtractFactoryReference, Switch) or with another FactoryOf it is a data race. *)
Lemma factory_of_conflicts_is i n nh : i < n ->
  exists x y, In x (factory_of_accesses i) /\ In y (is_head_accesses i) /\ conflict n nh x y.
Proof.
  intros H. exists (Wr i FIsFac), (Rd i FIsFac). simpl. repeat split; auto.
Qed.

Lemma factory_of_conflicts_factory_of i n nh : i < n ->
  exists x y, In x (factory_of_accesses i) /\ In y (factory_of_accesses i) /\ conflict n nh x y.
Proof.
  intros H. exists (Wr i FIsFac), (Wr i FIsFac). simpl. repeat split; auto.
Qed.

(* ... and with any derivation from that object it conflicts at object granularity (the
   derivation reads the object FactoryOf writes) *)
Lemma factory_of_object_conflicts_call xw st i c m a :
  nth_error st i = Some c -> (w_guard (base_wiring m) && is_gerr_val (a_err a)) = false ->
  exists x y, In x (factory_of_accesses i) /\ In y (call_accesses xw st (VG i) m a)
              /\ object_conflict (length st) x y.
Proof.
  intros E G. exists (Wr i FIsFac), (Rd i FFref). split; [left; reflexivity|].
  assert (L : i < length st) by (apply nth_error_Some; congruence).
  split; [|simpl; auto].
  unfold call_accesses. simpl. rewrite E, G. unfold apply_wiring_tr.
  match goal with |- In _ (snd (let '(g, t) := ?X in _)) =>
    assert (S : snd X = run_tr (clone_base_prog i (length st) (c_g c) (VG i) (VG i)
       (w_stack (base_wiring m)) (eval_a a (w_dtag (base_wiring m))) (eval_a a (w_src (base_wiring m)))
       (eval_a a (w_msg (base_wiring m))) (eval_e a (w_serr (base_wiring m))) (a_site a) (a_derived a))
       zero_gerr) by apply clone_base_tr_snd;
    destruct X as [g t] end.
  simpl in *. subst t. unfold clone_base_prog. rewrite bind_tr. apply in_or_app. left.
  unfold blk_fref. rewrite bind_tr. apply in_or_app. left. left. reflexivity.
Qed.

(* ... while at field granularity a derivation made through one of the methods never touches
   isFactory of its receiver: the only read of it in CloneBase is dead code there *)
Lemma call_never_reads_isfac xw st v m a c :
  In (Rd c FIsFac) (call_accesses xw st v m a) -> c = length st.
Proof.
  unfold call_accesses. destruct v as [|i|i|]; simpl; try contradiction.
  - destruct (nth_error st i) as [ce|]; [|contradiction].
    destruct (w_guard (base_wiring m) && is_gerr_val (a_err a)); [contradiction|].
    unfold apply_wiring_tr.
    destruct (clone_base_tr _ _ _ _ _ _ _ _ _ _ _ _) as [g t] eqn:T. simpl. intros H.
    assert (t = snd (clone_base_tr i (length st) (c_g ce) (VG i) (VG i) (w_stack (base_wiring m))
       (eval_a a (w_dtag (base_wiring m))) (eval_a a (w_src (base_wiring m)))
       (eval_a a (w_msg (base_wiring m))) (eval_e a (w_serr (base_wiring m))) (a_site a) (a_derived a)))
      as E by (rewrite T; reflexivity).
    rewrite E in H. apply clone_base_tr_no_isfac_read in H; [destruct H|reflexivity].
  - destruct (nth_error st i) as [ce|]; [|contradiction].
    destruct (c_x ce) as [xi|]; [|contradiction].
    destruct (w_guard (xw m) && is_gerr_val (a_err a)); [contradiction|].
    unfold apply_wiring_tr.
    destruct (clone_base_tr _ _ _ _ _ _ _ _ _ _ _ _) as [g t] eqn:T. simpl. intros H.
    apply in_app_iff in H. destruct H as [H|H].
    + assert (t = snd (clone_base_tr i (length st) (c_g ce) (VG i) (VX i) (w_stack (xw m))
         (eval_a a (w_dtag (xw m))) (eval_a a (w_src (xw m)))
         (eval_a a (w_msg (xw m))) (eval_e a (w_serr (xw m))) (a_site a) (a_derived a)))
        as E by (rewrite T; reflexivity).
      rewrite E in H. apply clone_base_tr_no_isfac_read in H; [destruct H|reflexivity].
    + unfold ext_accesses in H. simpl in H.
      repeat (destruct H as [H|H]; [try discriminate H; injection H as <-; reflexivity|]). destruct H.
Qed.

(* so FactoryOf on the receiver does not conflict, field by field, with a method call *)
Lemma factory_of_no_field_conflict_with_call xw st v m a n nh i x y :
  n <= length st ->
  In x (factory_of_accesses i) -> In y (call_accesses xw st v m a) -> ~ conflict n nh x y.
Proof.
  intros Hn [<-|[]] Hy C.
  destruct (call_accesses_local _ _ _ _ _ _ Hy) as [j [_ [L Loc]]].
  destruct y as [d g|d g|b k|b k]; simpl in C; try contradiction.
  - destruct C as [-> [<- Hd]]. apply call_never_reads_isfac in Hy. lia.
  - destruct C as [-> [<- Hd]]. simpl in Loc. subst d. lia.
Qed.
