(* WGSimHand.v — the check-list of WGSim.v holds for the IR of the current source (hand copy):
   the machine of the theorems is the denotation of that term. *)
From Coq Require Import List String ZArith Bool Arith Lia.
From GT Require Import Base.Conc.
From GT Require Import Base.ConcIR.
From GT Require Import Base.ConcIR2.
From GT Require Import WGModel WGSpec WGDenote WGSim WGProg2.
Import ListNotations.
Local Open Scope Z_scope.

Theorem hand_sim_ok : wg_sim_ok hand_prog2 hand_sitemap.
Proof. wg_sim_tac. Qed.

Theorem denote2_current : forall progs sched,
  sh (dwg2_exec hand_prog2 hand_sitemap progs sched) = sh (wg_exec progs sched) /\
  tr (dwg2_exec hand_prog2 hand_sitemap progs sched) = tr (wg_exec progs sched).
Proof. exact (wg_sim hand_prog2 hand_sitemap hand_sim_ok). Qed.

(* one shared-memory operation per yield point in the IR of the current source *)
Example hand_granularity : prog2_ops_wf hand_prog2 = true.
Proof. reflexivity. Qed.
