(* GConfLoop.v — the loop combinator the translator harness/cmd/xlate_gconf renders Go `for`
   statements with (no proofs; facts are in GConfLoopProofs.v).

   A loop body is a function from the loop-carried variables (the state) and the current item
   to a [step]: [Next s] = fall off the end of the body / `continue` with state s; [Exit x] =
   leave the loop with x, where x is a term of the enclosing context (`return e` at nesting
   depth d is Exit^d e, `continue L` of an outer loop is Exit (Next outer-state), `break` is
   Exit (the continuation after the loop)).  After the loop:
       match loop body items s0 with Next s => rest | Exit x => x end
   `for k, v := range m` iterates over the entries of m as they are at loop start,
   `for i := a; i < n; i++` (i and n not assigned in the body) over seq a (n - a).        *)
From Coq Require Import List.
Import ListNotations.

Inductive step (S X : Type) : Type :=
| Next (s : S)
| Exit (x : X).
Arguments Next {S X} s.
Arguments Exit {S X} x.

Fixpoint loop {S A X : Type} (f : S -> A -> step S X) (l : list A) (s : S) : step S X :=
  match l with
  | [] => Next s
  | a :: rest =>
      match f s a with
      | Next s' => loop f rest s'
      | Exit x => Exit x
      end
  end.

Definition is_exit {S X : Type} (r : step S X) : bool :=
  match r with Exit _ => true | Next _ => false end.
