(* BitSetModel.v — executable mirror of /repo/set/bit_set.go.  No proofs here.

   BitSet[T] is a uint64; every operation is |, &, &^ on operands that already fit,
   so no wrap-around can occur and the model works on unbounded N.

   Go source (current tree)                      model
   ------------------------------------------    ---------------------------
   MakeBitSet(items...)  result |= item          bs_make
   Add(items...)     added = added || s&f != f   bs_add      (fold, flag as written)
                     s |= f
   Remove(items...)  removed = removed || s&f != 0   bs_remove
                     s &= ^f
   MaskOf(in)        s & in                      bs_maskof
   Has(flag)         s&f == f                    bs_has
   HasAny(flags...)  first flag with Has         bs_hasany

   bs_remove_orig is the pinned (pre-fix) code: removed || s&f == f.            *)
From Coq Require Import NArith List Bool.
Import ListNotations.
Local Open Scope N_scope.

Definition bs_make (items : list N) : N := fold_left N.lor items 0.

Definition bs_add_step (st : N * bool) (f : N) : N * bool :=
  let '(s, added) := st in (N.lor s f, added || negb (N.eqb (N.land s f) f)).
Definition bs_add (s : N) (items : list N) : N * bool :=
  fold_left bs_add_step items (s, false).

Definition bs_remove_step (st : N * bool) (f : N) : N * bool :=
  let '(s, removed) := st in (N.ldiff s f, removed || negb (N.eqb (N.land s f) 0)).
Definition bs_remove (s : N) (items : list N) : N * bool :=
  fold_left bs_remove_step items (s, false).

(* the pinned code before the fix: commit a37dd1b replaced it *)
Definition bs_remove_step_orig (st : N * bool) (f : N) : N * bool :=
  let '(s, removed) := st in (N.ldiff s f, removed || N.eqb (N.land s f) f).
Definition bs_remove_orig (s : N) (items : list N) : N * bool :=
  fold_left bs_remove_step_orig items (s, false).

Definition bs_maskof (s f : N) : N := N.land s f.
Definition bs_has (s f : N) : bool := N.eqb (N.land s f) f.
Fixpoint bs_hasany (s : N) (flags : list N) : bool :=
  match flags with
  | [] => false
  | f :: fs => if bs_has s f then true else bs_hasany s fs
  end.

(* ---- operation sequences (for the correspondence run) ---- *)
Inductive bs_op :=
| BMake (items : list N)
| BAdd (items : list N)
| BRemove (items : list N)
| BMaskOf (f : N)          (* replaces the state by the mask, as `s = s.MaskOf(f)` *)
| BHas (f : N)
| BHasAny (fs : list N).

(* output of a step: resulting bits and the boolean result (false when the op has none) *)
Definition bs_step (s : N) (o : bs_op) : N * bool :=
  match o with
  | BMake items => (bs_make items, false)
  | BAdd items => bs_add s items
  | BRemove items => bs_remove s items
  | BMaskOf f => (bs_maskof s f, false)
  | BHas f => (s, bs_has s f)
  | BHasAny fs => (s, bs_hasany s fs)
  end.

Fixpoint bs_run (s : N) (ops : list bs_op) : list (N * bool) :=
  match ops with
  | [] => []
  | o :: rest => let r := bs_step s o in r :: bs_run (fst r) rest
  end.

(* ---- abstract specification: bit-set algebra on plain integers, used to judge
        observations of the implementation directly ---- *)
Definition union_all (items : list N) : N := fold_right N.lor 0 items.

Definition spec_step (s : N) (o : bs_op) : N * bool :=
  match o with
  | BMake items => (union_all items, false)
  | BAdd items => let s' := N.lor s (union_all items) in (s', negb (N.eqb s' s))
  | BRemove items => let s' := N.ldiff s (union_all items) in (s', negb (N.eqb s' s))
  | BMaskOf f => (N.land s f, false)
  | BHas f => (s, N.eqb (N.ldiff f s) 0)
  | BHasAny fs => (s, existsb (fun f => N.eqb (N.ldiff f s) 0) fs)
  end.

Fixpoint spec_run (s : N) (ops : list bs_op) : list (N * bool) :=
  match ops with
  | [] => []
  | o :: rest => let r := spec_step s o in r :: spec_run (fst r) rest
  end.
