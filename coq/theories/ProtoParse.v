(* ProtoParse.v — the argument parser of the judge (ProtoJudge.parse_arg) is a left inverse of
   the model's renderer (ProtoModel.render_arg) as far as the compared observables go:

     obs_of_args cwd (map (parse_arg cwd) (map render_arg argv)) = obs_of_args cwd argv

   for argument vectors whose path segments contain no '/', whose mapping keys contain no '=',
   whose file arguments do not start with '-' and whose flags are flags for the parser.  So
   classifying and parsing the recorded strings loses nothing the property speaks about.      *)
From Coq Require Import String List Bool Arith Ascii Lia.
From GT Require Import ProtoModel ProtoProofs ProtoJudge.
Import ListNotations.
Local Open Scope list_scope.
Local Open Scope string_scope.

Fixpoint has_char (c : ascii) (s : string) : bool :=
  match s with
  | EmptyString => false
  | String a r => Ascii.eqb a c || has_char c r
  end.

Lemma split_on_none : forall c s, has_char c s = false -> split_on c s = [s].
Proof.
  induction s as [|a s IH]; intros H; simpl in *; auto.
  apply orb_false_iff in H. destruct H as [H1 H2]. rewrite H1, (IH H2). reflexivity.
Qed.

Lemma split_on_sep : forall c s t,
  has_char c s = false -> split_on c (s ++ String c t) = s :: split_on c t.
Proof.
  induction s as [|a s IH]; intros t H; simpl in *.
  - rewrite Ascii.eqb_refl. reflexivity.
  - apply orb_false_iff in H. destruct H as [H1 H2]. rewrite H1, (IH t H2). reflexivity.
Qed.

Definition seg_ok (s : string) : Prop := s <> "" /\ has_char "/" s = false.

Lemma split_concat : forall segs,
  segs <> [] -> Forall seg_ok segs -> split_on "/" (String.concat "/" segs) = segs.
Proof.
  induction segs as [|s segs IH]; intros Hne H; [contradiction|].
  inversion H as [|? ? [_ Hs] Hrest]; subst. destruct segs as [|t segs].
  - simpl. apply split_on_none. exact Hs.
  - change (String.concat "/" (s :: t :: segs)) with (s ++ String "/" (String.concat "/" (t :: segs))).
    rewrite split_on_sep by exact Hs. f_equal. apply IH; [discriminate|exact Hrest].
Qed.

Lemma has_char_app : forall c s t, has_char c (s ++ t) = has_char c s || has_char c t.
Proof. induction s as [|a s IH]; intros t; simpl; auto. rewrite IH, orb_assoc. reflexivity. Qed.

Lemma cut_eq_app : forall s k, has_char "=" s = false -> cut_eq (s ++ String "=" k) = Some (s, k).
Proof.
  induction s as [|a s IH]; intros k H; simpl in *.
  - reflexivity.
  - apply orb_false_iff in H. destruct H as [H1 H2]. rewrite H1, (IH k H2). reflexivity.
Qed.

Lemma substring_all : forall s, substring 0 (String.length s) s = s.
Proof. induction s as [|a s IH]; simpl; auto. rewrite IH. reflexivity. Qed.

Lemma drop_app : forall p s, drop (String.length p) (p ++ s) = s.
Proof.
  unfold drop. induction p as [|a p IH]; intros s; simpl.
  - rewrite Nat.sub_0_r. apply substring_all.
  - exact (IH s).
Qed.

Lemma prefix_app : forall p s, prefix p (p ++ s) = true.
Proof.
  induction p as [|a p IH]; intros s; simpl; [destruct s; reflexivity|].
  destruct (ascii_dec a a); [apply IH|contradiction].
Qed.

Definition starts_dash (s : string) : bool :=
  match s with String "-" _ => true | _ => false end.

Lemma prefix_dash_false : forall p s,
  starts_dash s = false -> prefix (String "-" p) s = false.
Proof.
  intros p [|a s] H; [reflexivity|]. cbn [prefix].
  destruct (ascii_dec "-"%char a) as [E|E]; [|reflexivity]. subst a. simpl in H. discriminate.
Qed.

(* ------------------------------------------------------------------ well-formed arguments *)
Definition flag_ok (s : string) : Prop := forall cwd, parse_arg cwd s = AFlag s.

Definition arg_ok (a : arg) : Prop :=
  match a with
  | AFlag s => flag_ok s
  | AInc p => Forall seg_ok p /\ norm p = p
  | AMap _ r k => r <> [] /\ Forall seg_ok r /\ Forall (fun s => has_char "=" s = false) r
  | AFile (PRel segs) => Forall seg_ok segs /\ starts_dash (render_rel segs) = false
  | AFile (PAbs segs) => Forall seg_ok segs
  end.

Lemma norm_cons_empty : forall p, norm ("" :: p) = norm p.
Proof. intros p. reflexivity. Qed.

Lemma has_char_concat : forall c sep segs,
  has_char c sep = false -> Forall (fun s => has_char c s = false) segs ->
  has_char c (String.concat sep segs) = false.
Proof.
  intros c sep. induction segs as [|s segs IH]; intros Hsep H; [reflexivity|].
  inversion H; subst. destruct segs as [|t segs]; [assumption|].
  change (String.concat sep (s :: t :: segs)) with (s ++ sep ++ String.concat sep (t :: segs)).
  rewrite !has_char_app, H2, Hsep, (IH Hsep H3). reflexivity.
Qed.

Lemma first_char_join : forall segs, segs <> [] -> Forall seg_ok segs ->
  match String.concat "/" segs with String "/" _ => False | _ => True end.
Proof.
  intros [|s segs] Hne H; [contradiction|]. inversion H as [|? ? [Hs1 Hs2] _]; subst.
  destruct s as [|a s]; [contradiction|]. simpl in Hs2. apply orb_false_iff in Hs2. destruct Hs2 as [Ha _].
  destruct segs; simpl; destruct a as [[|] [|] [|] [|] [|] [|] [|] [|]]; try exact I; discriminate.
Qed.

(* a rendered path, parsed again and resolved, is the path resolved *)
Lemma parse_render_pspec : forall cwd p,
  match p with PRel s => Forall seg_ok s | PAbs s => Forall seg_ok s end ->
  to_abs cwd (parse_pspec (render_pspec p)) = to_abs cwd p.
Proof.
  intros cwd [segs|segs] H; simpl.
  - destruct segs as [|s segs].
    + simpl. unfold norm. rewrite !fold_left_app. reflexivity.
    + unfold render_rel, join_slash.
      pose proof (first_char_join (s :: segs) ltac:(discriminate) H) as Hc.
      unfold parse_pspec. rewrite (split_concat (s :: segs)) by (try discriminate; exact H).
      destruct (String.concat "/" (s :: segs)) as [|a rest]; [reflexivity|].
      destruct a as [[|] [|] [|] [|] [|] [|] [|] [|]]; try reflexivity. contradiction.
  - unfold render_abs, join_slash. destruct segs as [|s segs].
    + reflexivity.
    + change ("/" ++ String.concat "/" (s :: segs)) with (String "/" (String.concat "/" (s :: segs))).
      unfold parse_pspec.
      change (String "/" (String.concat "/" (s :: segs)))
        with ("" ++ String "/" (String.concat "/" (s :: segs))).
      try rewrite split_on_sep by reflexivity.
      rewrite (split_concat (s :: segs)) by (try discriminate; exact H). reflexivity.
Qed.

Lemma parse_render_inc : forall cwd p, Forall seg_ok p ->
  parse_arg cwd (render_arg (AInc p)) = AInc (norm p).
Proof.
  intros cwd p H. unfold render_arg.
  change ("-I=" ++ render_abs p) with (String "-" (String "I" (String "=" (render_abs p)))).
  unfold parse_arg.
  change (prefix "--go_opt=M" (String "-" (String "I" (String "=" (render_abs p))))) with false.
  change (prefix "--go-vtproto_opt=M" (String "-" (String "I" (String "=" (render_abs p))))) with false.
  change (prefix "--go-grpc_opt=M" (String "-" (String "I" (String "=" (render_abs p))))) with false.
  cbv iota.
  change (String "-" (String "I" (String "=" (render_abs p)))) with ("-I=" ++ render_abs p).
  rewrite prefix_app. rewrite (drop_app "-I=").
  f_equal. apply (parse_render_pspec cwd (PAbs p)). exact H.
Qed.

Lemma parse_mapping_render : forall pl whole r k,
  r <> [] -> Forall seg_ok r -> Forall (fun s => has_char "=" s = false) r ->
  parse_mapping pl whole (render_rel r ++ "=" ++ k) = AMap pl r k.
Proof.
  intros pl whole r k Hne Hs He. unfold parse_mapping.
  change (render_rel r ++ "=" ++ k) with (render_rel r ++ String "=" k).
  rewrite cut_eq_app.
  - destruct r as [|s r]; [contradiction|]. unfold render_rel, join_slash.
    rewrite split_concat by (try discriminate; exact Hs). reflexivity.
  - destruct r as [|s r]; [contradiction|]. unfold render_rel, join_slash.
    apply has_char_concat; [reflexivity|exact He].
Qed.

Lemma parse_render_map : forall cwd pl r k,
  r <> [] -> Forall seg_ok r -> Forall (fun s => has_char "=" s = false) r ->
  parse_arg cwd (render_arg (AMap pl r k)) = AMap pl r k.
Proof.
  intros cwd pl r k Hne Hs He. unfold render_arg.
  set (rest := render_rel r ++ "=" ++ k).
  destruct pl; unfold opt_prefix, parse_arg.
  - change ("--go_opt=" ++ "M" ++ rest) with ("--go_opt=M" ++ rest).
    rewrite prefix_app, (drop_app "--go_opt=M"). apply parse_mapping_render; assumption.
  - change ("--go-vtproto_opt=" ++ "M" ++ rest) with ("--go-vtproto_opt=M" ++ rest).
    change (prefix "--go_opt=M" ("--go-vtproto_opt=M" ++ rest)) with false. cbv iota.
    rewrite prefix_app, (drop_app "--go-vtproto_opt=M"). apply parse_mapping_render; assumption.
  - change ("--go-grpc_opt=" ++ "M" ++ rest) with ("--go-grpc_opt=M" ++ rest).
    change (prefix "--go_opt=M" ("--go-grpc_opt=M" ++ rest)) with false.
    change (prefix "--go-vtproto_opt=M" ("--go-grpc_opt=M" ++ rest)) with false. cbv iota.
    rewrite prefix_app, (drop_app "--go-grpc_opt=M"). apply parse_mapping_render; assumption.
Qed.

Lemma parse_no_dash : forall cwd s, starts_dash s = false -> parse_arg cwd s = AFile (parse_pspec s).
Proof.
  intros cwd s H. unfold parse_arg.
  rewrite !(prefix_dash_false _ s H). reflexivity.
Qed.

Lemma render_abs_no_dash : forall p, starts_dash (render_abs p) = false.
Proof. intros p. reflexivity. Qed.

(* ------------------------------------------------------------------ the observables survive *)
Definition arg_equiv (cwd : path) (a' a : arg) : Prop :=
  match a with
  | AFile p => match a' with AFile p' => to_abs cwd p' = to_abs cwd p | _ => False end
  | _ => a' = a
  end.

Lemma parse_render_arg : forall cwd a, arg_ok a -> arg_equiv cwd (parse_arg cwd (render_arg a)) a.
Proof.
  intros cwd [s|p|pl r k|[segs|segs]] H; simpl in H.
  - exact (H cwd).
  - destruct H as [H1 H2]. unfold arg_equiv. rewrite parse_render_inc by exact H1. rewrite H2. reflexivity.
  - destruct H as (H1 & H2 & H3). unfold arg_equiv. apply parse_render_map; assumption.
  - destruct H as [H1 H2]. unfold arg_equiv, render_arg, render_pspec.
    rewrite parse_no_dash by exact H2. apply (parse_render_pspec cwd (PRel segs)). exact H1.
  - unfold arg_equiv, render_arg, render_pspec.
    rewrite parse_no_dash by apply render_abs_no_dash. apply (parse_render_pspec cwd (PAbs segs)). exact H.
Qed.

Lemma equiv_obs : forall cwd l' l, Forall2 (arg_equiv cwd) l' l ->
  map (to_abs cwd) (files_of l') = map (to_abs cwd) (files_of l)
  /\ includes_of l' = includes_of l
  /\ (forall pl, mappings_of pl l' = mappings_of pl l)
  /\ (forall pl, requests pl l' = requests pl l).
Proof.
  intros cwd l' l H. induction H as [|a' a l' l Ha Hl (IH1 & IH2 & IH3 & IH4)].
  - repeat split.
  - destruct a as [s|p|q r k|p]; simpl in Ha.
    + subst a'. simpl. repeat split; auto. intros pl. rewrite IH4. reflexivity.
    + subst a'. simpl. repeat split; auto. rewrite IH2. reflexivity.
    + subst a'. repeat split; auto. intros pl. simpl. rewrite IH3. reflexivity.
    + destruct a' as [s'|p'|q' r' k'|p']; try contradiction.
      simpl. repeat split; auto. rewrite Ha, IH1. reflexivity.
Qed.

Theorem parse_render_obs : forall cwd argv,
  Forall arg_ok argv ->
  obs_of_args cwd (map (parse_arg cwd) (map render_arg argv)) = obs_of_args cwd argv.
Proof.
  intros cwd argv H.
  assert (HE : Forall2 (arg_equiv cwd) (map (parse_arg cwd) (map render_arg argv)) argv).
  { induction H as [|a l Ha Hl IH]; simpl; constructor; auto. apply parse_render_arg. exact Ha. }
  destruct (equiv_obs cwd _ _ HE) as (E1 & E2 & E3 & E4).
  unfold obs_of_args. rewrite E1, E2, !E3, !E4. reflexivity.
Qed.

(* the flags the model emits are flags for the parser *)
Lemma plugin_flags_ok : forall cfg, Forall arg_ok (plugin_flags cfg).
Proof.
  intros cfg. unfold plugin_flags. destruct (c_vt cfg), (c_grpc cfg);
    repeat constructor; intros cwd; reflexivity.
Qed.

(* ------------------------------------------------------------------ the model's own output is well-formed *)
Definition str_ok (s : string) : Prop := seg_ok s /\ has_char "=" s = false.

Fixpoint all_names (Q : string -> Prop) (n : node) : Prop :=
  match n with
  | File _ _ _ => True
  | Dir _ ch =>
      Forall (fun c => Q (node_name c)) ch
      /\ fold_right (fun c acc => all_names Q c /\ acc) True ch
  end.

Lemma all_names_dir : forall Q s ch,
  all_names Q (Dir s ch) <-> Forall (fun c => Q (node_name c)) ch /\ Forall (all_names Q) ch.
Proof. intros Q s ch. simpl. rewrite fold_right_and_Forall. tauto. Qed.

Lemma all_names_lookup : forall Q p n m, all_names Q n -> lookup n p = Some m -> all_names Q m.
Proof.
  induction p as [|s p IH]; intros n m Hn H; simpl in H.
  - inversion H; subst. exact Hn.
  - destruct n as [x g rg|x ch]; try discriminate.
    destruct (find_child s ch) as [c|] eqn:E; try discriminate.
    apply find_child_In in E. destruct E as [Hin _].
    apply all_names_dir in Hn. destruct Hn as [_ Hn]. rewrite Forall_forall in Hn.
    eapply IH; [|exact H]. apply Hn. exact Hin.
Qed.

Lemma below_all_names : forall Q n, all_names Q n ->
  forall r x, In (r, x) (below n) -> Forall Q r.
Proof.
  intros Q. induction n as [s g rg|s ch IH] using node_ind'; intros Hn r x H.
  - simpl in H. contradiction.
  - apply all_names_dir in Hn. destruct Hn as [Hq Hsub].
    rewrite below_dir in H. apply in_flat_map in H. destruct H as (c & Hc & H).
    rewrite Forall_forall in IH, Hq, Hsub. destruct H as [H|H].
    + inversion H; subst. constructor; [apply Hq; assumption|constructor].
    + apply in_map_iff in H. destruct H as ([r' x'] & H & Hin). simpl in H. inversion H; subst.
      constructor; [apply Hq; assumption|]. eapply IH; eauto.
Qed.

Lemma children_all_names : forall Q n, all_names Q n ->
  forall r x, In (r, x) (children_of n) -> Forall Q r.
Proof.
  intros Q [s g rg|s ch] Hn r x H; simpl in H; [contradiction|].
  apply all_names_dir in Hn. destruct Hn as [Hq _]. rewrite Forall_forall in Hq.
  apply in_map_iff in H. destruct H as (c & E & Hc). inversion E; subst.
  constructor; [apply Hq; exact Hc|constructor].
Qed.

Lemma fold_norm_segs : forall p acc, Forall seg_ok p -> Forall seg_ok acc ->
  Forall seg_ok (fold_left norm_step p acc).
Proof.
  induction p as [|s p IH]; intros acc Hp H; simpl; auto.
  inversion Hp; subst. apply IH; auto. unfold norm_step.
  destruct (String.eqb s "" || String.eqb s "."); auto.
  destruct (String.eqb s ".."); [apply Forall_removelast; exact H|].
  apply Forall_app. split; auto.
Qed.

Lemma to_abs_segs : forall cwd p,
  Forall seg_ok cwd -> match p with PRel s => Forall seg_ok s | PAbs s => Forall seg_ok s end ->
  Forall seg_ok (to_abs cwd p).
Proof.
  intros cwd [s|s] Hc Hs; simpl; unfold norm; apply fold_norm_segs; auto.
  apply Forall_app. split; assumption.
Qed.

Definition pspec_segs_ok (p : pspec) : Prop :=
  match p with PRel s => Forall seg_ok s | PAbs s => Forall seg_ok s end.

Lemma mapping_items_ok : forall pkg_of cfg a prefix L,
  (forall r x, In (r, x) L -> r <> [] /\ Forall str_ok r) ->
  Forall arg_ok (mapping_items pkg_of cfg a prefix L).
Proof.
  intros pkg_of cfg a prefix L H. unfold mapping_items. apply Forall_forall. intros y Hy.
  apply in_flat_map in Hy. destruct Hy as ([r x] & Hin & Hy). cbn [fst snd] in Hy.
  destruct (has_go_package x); [contradiction|].
  destruct (H r x Hin) as [Hne Hr].
  unfold mapping_args in Hy.
  assert (Hm : forall pl k, arg_ok (AMap pl r k)).
  { intros pl k. simpl. repeat split; auto.
    - apply Forall_forall. intros s Hs. rewrite Forall_forall in Hr. apply (Hr s Hs).
    - apply Forall_forall. intros s Hs. rewrite Forall_forall in Hr. apply (Hr s Hs). }
  repeat (apply in_app_or in Hy; destruct Hy as [Hy|Hy]);
    try (destruct (c_vt cfg)); try (destruct (c_grpc cfg));
    simpl in Hy; repeat (destruct Hy as [Hy|Hy]); try contradiction; subst y; apply Hm.
Qed.

Lemma str_ok_segs : forall r, Forall str_ok r -> Forall seg_ok r.
Proof. intros r H. apply Forall_forall. intros s Hs. rewrite Forall_forall in H. apply (H s Hs). Qed.

Section RunOk.
  Variable pkg_of : path -> result string.

  Lemma include_args_ok : forall cfg inc l,
    wf_node (c_root cfg) -> dirs_ok cfg -> In inc (include_paths cfg) ->
    all_names str_ok (c_root cfg) -> Forall seg_ok (c_cwd cfg) -> pspec_segs_ok (fst inc) ->
    include_args pkg_of cfg inc = Ok l -> Forall arg_ok l.
  Proof.
    intros cfg inc l Hwf Hdirs Hin Hnames Hcwd Hseg H. unfold include_args in H.
    set (a := to_abs (c_cwd cfg) (fst inc)) in *.
    destruct (Hdirs inc Hin) as (s & ch & Hn). fold a in Hn.
    assert (Ha : Forall name_ok a) by apply to_abs_names.
    assert (Hwfn : wf_node (Dir s ch)) by (eapply wf_lookup; eauto).
    rewrite (find_protos_include cfg a s ch Hwf Hdirs Ha Hn) in H.
    set (L := filter (fun rx => is_proto_file (snd rx)) (below (Dir s ch))) in *.
    assert (HL : forall r x, In (r, x) L -> Forall name_ok r /\ lookup (Dir s ch) r = Some x).
    { intros r x Hx. apply filter_In in Hx. destruct Hx as [Hx _]. split.
      - eapply below_names; eauto.
      - apply (below_lookup _ Hwfn) in Hx. apply Hx. }
    pose proof (include_files_spec pkg_of cfg a (snd inc) (Dir s ch) L Ha Hn HL) as HS.
    destruct (include_files pkg_of cfg a (snd inc) _) as [m|]; [|discriminate].
    assert (l = AInc a :: m) by congruence. subst l m. constructor.
    - simpl. split; [apply to_abs_segs; assumption|apply norm_ok_id; exact Ha].
    - apply mapping_items_ok. intros r x Hx. apply filter_In in Hx. destruct Hx as [Hx _]. split.
      + eapply below_nonempty; eauto.
      + eapply below_all_names; [|exact Hx]. eapply all_names_lookup; eauto.
  Qed.

  Lemma includes_args_ok : forall cfg incs l,
    wf_node (c_root cfg) -> dirs_ok cfg -> (forall i, In i incs -> In i (include_paths cfg)) ->
    all_names str_ok (c_root cfg) -> Forall seg_ok (c_cwd cfg) ->
    (forall i, In i incs -> pspec_segs_ok (fst i)) ->
    includes_args pkg_of cfg incs = Ok l -> Forall arg_ok l.
  Proof.
    intros cfg incs. induction incs as [|i incs IH]; intros l Hwf Hdirs Hsub Hnames Hcwd Hsegs H;
      cbn [includes_args] in H.
    - assert (l = []) by congruence. subst. constructor.
    - destruct (include_args pkg_of cfg i) as [x|] eqn:Ex; try discriminate.
      destruct (includes_args pkg_of cfg incs) as [y|] eqn:Ey; try discriminate.
      assert (l = (x ++ y)%list) by congruence. subst l. apply Forall_app. split.
      + eapply include_args_ok; eauto; [apply Hsub|apply Hsegs]; left; reflexivity.
      + apply IH; auto; intros j Hj; [apply Hsub|apply Hsegs]; right; exact Hj.
  Qed.

  Lemma find_protos_input_form : forall cfg paths n,
    lookup (c_root cfg) (to_abs (c_cwd cfg) (c_input cfg)) = Some n ->
    find_protos cfg (c_input cfg) (c_recurse cfg) = Ok paths ->
    paths = map (fun rx => pjoins (c_input cfg) (fst rx))
                (filter (fun rx => is_proto_file (snd rx))
                        (if c_recurse cfg then below n else children_of n)).
  Proof.
    intros cfg paths n El H. unfold find_protos in H. rewrite El in H.
    assert (Hp : paths = fst (walk_node (callback (c_input cfg) (c_recurse cfg)) (c_input cfg) n))
      by congruence.
    clear H. subst paths. destruct (c_recurse cfg).
    - rewrite walk_recurse; [reflexivity|rewrite callback_input; reflexivity|].
      intros r x Hin. apply below_nonempty in Hin. rewrite callback_normal; auto.
      + apply pjoins_neq_dot; exact Hin.
      + apply pjoins_neq_self; exact Hin.
    - apply walk_input_norecurse.
  Qed.

  (* what the model renders is, for the judge's parser, what the model meant *)
  Theorem run_args_ok : forall cfg argv,
    wf_node (c_root cfg) -> dirs_ok cfg ->
    all_names str_ok (c_root cfg) -> Forall seg_ok (c_cwd cfg) ->
    (forall i, In i (include_paths cfg) -> pspec_segs_ok (fst i)) ->
    run pkg_of cfg = Ok argv ->
    (forall q, In q (files_of argv) -> starts_dash (render_pspec q) = false) ->
    Forall arg_ok argv.
  Proof.
    intros cfg argv Hwf Hdirs Hnames Hcwd Hsegs Hrun Hdash.
    pose proof Hrun as Hrun'. unfold run in Hrun'.
    destruct (find_protos cfg (c_input cfg) (c_recurse cfg)) as [paths|] eqn:Ef; [|discriminate].
    destruct (includes_args pkg_of cfg (include_paths cfg)) as [incs|] eqn:Ei; [|discriminate].
    assert (Hargv : argv = (plugin_flags cfg ++ incs ++ map AFile paths)%list) by congruence.
    clear Hrun'.
    assert (Hfiles : files_of argv = paths).
    { rewrite Hargv, !files_of_app, files_of_files, (includes_args_no_files _ _ _ _ Ei).
      destruct (plugin_flags_proj cfg PGo) as (E & _). rewrite E. reflexivity. }
    rewrite Hfiles in Hdash. subst argv.
    apply Forall_app. split; [apply plugin_flags_ok|]. apply Forall_app. split.
    - eapply includes_args_ok; eauto.
    - destruct (Hdirs (c_input cfg, None) (or_introl eq_refl)) as (s & ch & Hl). cbn [fst] in Hl.
      pose proof (find_protos_input_form cfg paths _ Hl Ef) as Hform.
      assert (Hn : all_names str_ok (Dir s ch)) by (eapply all_names_lookup; eauto).
      pose proof (Hsegs (c_input cfg, None) (or_introl eq_refl)) as Hin. cbn [fst] in Hin.
      apply Forall_forall. intros y Hy. apply in_map_iff in Hy. destruct Hy as (p & <- & Hp).
      pose proof (Hdash p Hp) as Hd. rewrite Hform in Hp. apply in_map_iff in Hp.
      destruct Hp as ([r x] & <- & Hrx). cbn [fst] in *. apply filter_In in Hrx. destruct Hrx as [Hrx _].
      assert (Hr : Forall seg_ok r).
      { apply str_ok_segs. destruct (c_recurse cfg).
        - eapply below_all_names; eauto.
        - eapply children_all_names; eauto. }
      destruct (c_input cfg) as [segs|segs]; simpl in *.
      + split; [apply Forall_app; split; assumption|exact Hd].
      + apply Forall_app; split; assumption.
  Qed.

  (* hence: parsing the rendering of the model's output yields exactly its observables, which
     are the specification's *)
  Theorem judge_reads_model : forall cfg argv,
    wf_node (c_root cfg) -> dirs_ok cfg ->
    all_names str_ok (c_root cfg) -> Forall seg_ok (c_cwd cfg) ->
    (forall i, In i (include_paths cfg) -> pspec_segs_ok (fst i)) ->
    run pkg_of cfg = Ok argv ->
    (forall q, In q (files_of argv) -> starts_dash (render_pspec q) = false) ->
    let o := obs_of_args (c_cwd cfg) (map (parse_arg (c_cwd cfg)) (map render_arg argv)) in
    o_files o = spec_files cfg /\ o_incs o = spec_includes cfg
    /\ o_go o = scan_mappings pkg_of cfg PGo /\ o_vt o = scan_mappings pkg_of cfg PVt
    /\ o_grpc o = scan_mappings pkg_of cfg PGrpc /\ o_req o = (true, c_vt cfg, c_grpc cfg).
  Proof.
    intros cfg argv Hwf Hdirs Hnames Hcwd Hsegs Hrun Hdash o. unfold o.
    rewrite (parse_render_obs (c_cwd cfg) argv)
      by (eapply run_args_ok; eauto).
    destruct (run_includes_part pkg_of cfg argv Hwf Hdirs Hrun) as (I & R & M).
    unfold obs_of_args. cbn [o_files o_incs o_go o_vt o_grpc o_req].
    rewrite (run_files pkg_of cfg argv Hwf Hrun), I, !M, !R. repeat split.
  Qed.
End RunOk.
