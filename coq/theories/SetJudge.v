(* SetJudge.v — judgement of observed Set[T] behaviour (no proofs).  Elements are mapped to
   their index in the harness' universe, so one instance (T := Z) serves int, string and
   struct element types. *)
From Coq Require Import ZArith List Bool.
From GT Require Import Base.Verdict SetModel.
Import ListNotations.

(* what the harness records after every operation *)
Record set_obs := {
  so_ret : bool;             (* boolean result of the operation (false when it has none) *)
  so_members : list Z;       (* Slice(), mapped to indices and sorted ascending *)
  so_nil : bool;             (* Slice() == nil *)
  so_has : list bool;        (* Has(u) for every u of the universe *)
  so_hasany : list bool      (* HasAny(u) for every u of the universe *)
}.

Record set_case := { sc_univ : list Z; sc_ops : list (sop Z); sc_obs : list set_obs }.

Definition obs_eqb (a b : set_obs) : bool :=
  Bool.eqb (so_ret a) (so_ret b)
  && (if list_eq_dec Z.eq_dec (so_members a) (so_members b) then true else false)
  && Bool.eqb (so_nil a) (so_nil b)
  && (if list_eq_dec bool_dec (so_has a) (so_has b) then true else false)
  && (if list_eq_dec bool_dec (so_hasany a) (so_hasany b) then true else false).

Fixpoint all_eqb (a b : list set_obs) : bool :=
  match a, b with
  | [], [] => true
  | x :: a', y :: b' => obs_eqb x y && all_eqb a' b'
  | _, _ => false
  end.

Definition model_obs (univ : list Z) (r : sset Z * bool) : set_obs :=
  let s := fst r in
  {| so_ret := snd r;
     so_members := filter (fun u => memb Z.eqb u (elems s)) univ;
     so_nil := match s_slice s with None => true | Some _ => false end;
     so_has := map (fun u => s_has Z.eqb s [u]) univ;
     so_hasany := map (fun u => s_hasany Z.eqb s [u]) univ |}.

Definition spec_obs (univ : list Z) (r : (Z -> bool) * bool) : set_obs :=
  let p := fst r in
  {| so_ret := snd r;
     so_members := filter p univ;
     so_nil := negb (existsb p univ);
     so_has := map p univ;
     so_hasany := map p univ |}.

Fixpoint spec_run (univ : list Z) (p : Z -> bool) (ops : list (sop Z)) : list set_obs :=
  match ops with
  | [] => []
  | o :: rest => let a := a_step Z.eqb p univ o in spec_obs univ a :: spec_run univ (fst a) rest
  end.

Definition set_judge (c : set_case) : nat :=
  verdict (all_eqb (sc_obs c) (spec_run (sc_univ c) a_empty (sc_ops c)))
          (all_eqb (sc_obs c) (map (model_obs (sc_univ c)) (s_run Z.eqb s_nil (sc_ops c)))).

(* ---- several set variables (SetMultiModel): after every operation all variables are probed ---- *)
From GT Require Import SetMultiModel.

Record mset_case := {
  mc_univ : list Z; mc_vars : nat; mc_ops : list (mop Z); mc_obs : list (list set_obs)
}.

Fixpoint all_eqb2 (a b : list (list set_obs)) : bool :=
  match a, b with
  | [], [] => true
  | x :: a', y :: b' => all_eqb x y && all_eqb2 a' b'
  | _, _ => false
  end.

Fixpoint mspec_run (univ : list Z) (ps : list (Z -> bool)) (ops : list (mop Z)) : list (list set_obs) :=
  match ops with
  | [] => []
  | o :: rest =>
      let a := am_step Z.eqb ps univ o in
      map (fun p => spec_obs univ (p, snd a)) (fst a) :: mspec_run univ (fst a) rest
  end.

Definition mset_judge (c : mset_case) : nat :=
  verdict
    (all_eqb2 (mc_obs c) (mspec_run (mc_univ c) (repeat a_empty (mc_vars c)) (mc_ops c)))
    (all_eqb2 (mc_obs c)
       (map (fun r => map (fun s => model_obs (mc_univ c) (s, snd r)) (fst r))
            (m_run Z.eqb (repeat s_nil (mc_vars c)) (mc_ops c)))).
