(* GSortJudge.v — judgement of what the compiled output of the real gsort CLI was observed to
   do (no proofs).  One case = one sorter of one generated struct definition:

   gc_type, gc_fields, gc_sorter   the definition as the harness wrote it (tags already split
                                   into sorter name / priority / accessor) and the sorter judged
   gc_raw, gc_wellformed           the same fields as the generator's parser sees them: the struct
                                   tag of every field as key/value pairs in source order (option
                                   text exactly as written); gc_wellformed = the harness wrote
                                   only well-formed gsort tags, so that parsing gc_raw must give
                                   gc_fields (the intended definition)
   gc_gen_ok                       the CLI exited 0 and the package compiled
   gc_text                         the sorter's block of the generated file, one trimmed line
                                   each (informational: compared with render_sorter)
   gc_vals                         per struct field the 2-3 values used for it, each as its two
                                   views [read plainly; read through the accessor] (ranks /
                                   bools; a dummy where a view is never read; one dummy value
                                   for an untagged field); gc_univ = all combinations
   gc_seen_t / gc_seen_f           row a, bit b: Less(i,j) returned true / false for some slice
                                   and positions with s[i] = univ[a], s[j] = univ[b] (all slices
                                   of <= 4 elements over gc_univ when exhaustive)
   gc_lenswap                      Len() returned the slice length and Swap(i,j) exchanged exactly
                                   elements i and j, on every slice the driver built
   gc_runs                         random slices (indices into gc_univ; element p carries id p)
                                   with the ids after sort.Sort and after sort.Stable

   Verdict: 1 when an observation contradicts the specification (lexicographic order of the
   tagged fields in ascending priority, false < true; sort.Sort yields a sorted permutation,
   sort.Stable the stable one), 2 when it satisfies the specification but not the model.     *)
From Coq Require Import List Bool ZArith NArith String Arith.
From GT Require Import Base.Verdict.
From GT Require Import GSortModel GSortTagModel GSortTextModel Base.SortU.
Import ListNotations.

(* a list of small numbers (indices, ids) is written as a string, three lower-case hexadecimal
   digits per entry (string literals are cheap to parse, long list or number literals are not) *)
Record gs_run := { sr_in : string; sr_sort : string; sr_stable : string }.
Record gs_case := {
  gc_type : string; gc_fields : list fieldT; gc_sorter : string;
  gc_raw : list rfieldT; gc_wellformed : bool;
  gc_gen_ok : bool;
  gc_text : list string;
  gc_vals : list (list (list val));
  gc_seen_t : list N; gc_seen_f : list N;
  gc_lenswap : bool;
  gc_runs : list gs_run }.

Definition hexv (c : Ascii.ascii) : nat :=
  let n := Ascii.nat_of_ascii c in if Nat.ltb n 58 then n - 48 else n - 87.
Fixpoint unpack (s : string) : list nat :=
  match s with
  | String a (String b (String c r)) => (hexv a * 256 + hexv b * 16 + hexv c) :: unpack r
  | _ => []
  end.

(* all combinations of the per-field values; field 0 varies fastest *)
Fixpoint univ_of (vals : list (list (list val))) : list elem :=
  match vals with
  | [] => [[]]
  | vs :: rest => flat_map (fun tl => map (fun v => v ++ tl) vs) (univ_of rest)
  end.
Definition gc_univ (c : gs_case) : list elem := univ_of (gc_vals c).

Definition ltT := elem -> elem -> bool.

(* ---- Less on all observed pairs *)
Fixpoint row_ok (lt : ltT) (a : elem) (rt rf : N) (j : N) (univ : list elem) : bool :=
  match univ with
  | [] => true
  | b :: r => let x := lt a b in
              implb (N.testbit rt j) x && implb (N.testbit rf j) (negb x)
              && row_ok lt a rt rf (N.succ j) r
  end.
Fixpoint rows_ok (lt : ltT) (univ : list elem) (rows : list elem) (ts fs : list N) : bool :=
  match rows, ts, fs with
  | [], [], [] => true
  | a :: ar, t :: tr, f :: fr => row_ok lt a t f 0%N univ && rows_ok lt univ ar tr fr
  | _, _, _ => false
  end.
(* every ordered pair of the universe was observed at least once *)
Fixpoint row_cov (rt rf : N) (j : N) (univ : list elem) : bool :=
  match univ with
  | [] => true
  | _ :: r => (N.testbit rt j || N.testbit rf j) && row_cov rt rf (N.succ j) r
  end.
Fixpoint rows_cov (univ rows : list elem) (ts fs : list N) : bool :=
  match rows, ts, fs with
  | [], [], [] => true
  | _ :: ar, t :: tr, f :: fr => row_cov t f 0%N univ && rows_cov univ ar tr fr
  | _, _, _ => false
  end.

(* ---- sort.Sort / sort.Stable on slices whose element p carries id p *)
Definition elems_of (univ : list elem) (input : list nat) : list (nat * elem) :=
  combine (seq 0 (List.length input)) (map (fun i => nth i univ []) input).
Definition lt_id (lt : ltT) (x y : nat * elem) : bool := lt (snd x) (snd y).
Definition ref_ids (lt : ltT) (univ : list elem) (input : list nat) : list nat :=
  map fst (isort (lt_id lt) (elems_of univ input)).
(* binary numbers for the n^2 membership test (unary nat comparison is slow in the VM) *)
Definition is_perm_ids (o : list nat) (n : nat) : bool :=
  let o' := map N.of_nat o in
  Nat.eqb (List.length o) n
  && forallb (fun i => existsb (N.eqb i) o') (map N.of_nat (seq 0 n)).
Definition elem_at (univ : list elem) (input : list nat) (id : nat) : elem :=
  nth (nth id input 0) univ [].
Fixpoint nats_eqb (a b : list nat) : bool :=
  match a, b with
  | [], [] => true
  | x :: a', y :: b' => Nat.eqb x y && nats_eqb a' b'
  | _, _ => false
  end.
Fixpoint all2 {A} (f : A -> A -> bool) (a b : list A) : bool :=
  match a, b with
  | [], [] => true
  | x :: a', y :: b' => f x y && all2 f a' b'
  | _, _ => false
  end.
(* sort.Sort: an ascending permutation of the input *)
Definition sort_ok (lt : ltT) (univ : list elem) (input o : list nat) : bool :=
  is_perm_ids o (List.length input) && sorted_adj_b lt (map (elem_at univ input) o).
(* ... which then agrees with the reference sort up to ties (C08_any_sort) *)
Definition ties_agree (lt : ltT) (univ : list elem) (input o : list nat) : bool :=
  all2 (eqv lt) (map (elem_at univ input) o) (map (elem_at univ input) (ref_ids lt univ input)).
(* sort.Stable: exactly the reference (stable insertion) sort *)
Definition stable_ok (lt : ltT) (univ : list elem) (input o : list nat) : bool :=
  nats_eqb o (ref_ids lt univ input).

Definition run_ok (lt : ltT) (univ : list elem) (r : gs_run) : bool :=
  let input := unpack (sr_in r) in
  let o := unpack (sr_sort r) in
  sort_ok lt univ input o && ties_agree lt univ input o
  && stable_ok lt univ input (unpack (sr_stable r)).

Definition obs_ok (lt : ltT) (c : gs_case) : bool :=
  let u := gc_univ c in
  rows_ok lt u u (gc_seen_t c) (gc_seen_f c) && forallb (run_ok lt u) (gc_runs c)
  && gc_lenswap c.
Definition obs_cov (c : gs_case) : bool :=
  let u := gc_univ c in rows_cov u u (gc_seen_t c) (gc_seen_f c).

(* ---- the generated TEXT, given a meaning inside Coq (GSortTextModel.v): the Less body of the
   sorter's block is parsed into the emitted Go statements and evaluated on every pair of the
   universe.  0 = parsed and equal to `lt` everywhere, 1 = parsed and different somewhere (or
   an operand ill-typed), 2 = the text is not of the form the parser knows (re-spelled template:
   no judgement from the text, the compiled behaviour is still judged) *)
Definition text_sem (fs : list fieldT) (lt : ltT) (c : gs_case) : nat :=
  match text_less fs (gc_text c) with
  | None => 2
  | Some f =>
      let u := gc_univ c in
      if forallb (fun a => forallb (fun b => match f a b with
                                             | Some v => Bool.eqb v (lt a b)
                                             | None => false
                                             end) u) u
      then 0 else 1
  end.

(* Len / Swap of the generated type (sort.Interface): observed on every run slice by the
   driver: Len() = number of elements, Swap(i,j) exchanges exactly the two elements *)

(* the definition is inside the property's quantifier: some tag, every sorter's priorities
   pairwise distinct, and no sorter name used in both forms (`S` and `*S` would both declare the
   slice type S; refused by the generator since ac707f2) *)
Definition in_domain (fs : list fieldT) : bool :=
  negb (Nat.eqb (List.length (all_sfds fs)) 0)
  && forallb (fun n => prios_distinct n fs) (sorter_names fs)
  && forms_ok (collect "" fs).

Definition gs_judge_with
  (model : string -> list fieldT -> string -> option ltT) (c : gs_case) : nat :=
  let intended := gc_fields c in
  let parsed := parse_fields (gc_raw c) in            (* the model of the tag parser *)
  let m := match parsed with
           | Some fs => model (gc_type c) fs (gc_sorter c)
           | None => None
           end in
  if negb (gc_gen_ok c) then
    if gc_wellformed c && in_domain intended then 1
    else match m with None => 0 | Some _ => 2 end
  else
    match m, parsed with
    | Some lt, Some fs =>
        if gc_wellformed c && negb (fields_eqb fs intended) then 2
        else let dfs := if gc_wellformed c then intended else fs in
             verdict (obs_ok (spec_less (gc_sorter c) dfs) c)
                     (obs_ok lt c && obs_cov c
                      && negb (Nat.eqb (text_sem dfs (spec_less (gc_sorter c) dfs) c) 1))
    | _, _ => 2
    end.
Definition gs_judge := gs_judge_with gen_less.
Definition gs_judge_orig := gs_judge_with gen_less_orig.

(* informational: does the generated text equal the model's rendering (current / pinned)? *)
Fixpoint strs_eqb (a b : list string) : bool :=
  match a, b with
  | [], [] => true
  | x :: a', y :: b' => String.eqb x y && strs_eqb a' b'
  | _, _ => false
  end.
Definition text_ok_with (str : cmpline -> string) (c : gs_case) : bool :=
  match match parse_fields (gc_raw c) with
        | Some fs => create (gc_type c) fs
        | None => None
        end with
  | None => negb (gc_gen_ok c)
  | Some ds => match find_sorter (gc_sorter c) ds with
               | None => false
               | Some d => strs_eqb (gc_text c) (render_sorter str d)
               end
  end.
Definition gs_text_ok := text_ok_with cl_string.
(* informational: was the text of the case given a meaning (parsed)? *)
Definition gs_text_parsed (c : gs_case) : bool :=
  negb (gc_gen_ok c)
  || match text_less (gc_fields c) (gc_text c) with Some _ => true | None => false end.
Definition gs_text_orig_ok := text_ok_with cl_string_orig.
