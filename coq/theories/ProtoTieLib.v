(* ProtoTieLib.v — lemmas and tactics for the translator tie of C20 (coq/ties/Tie_C20.v).

   The regenerated functions (GTgen.ProtoGen) are in accumulator / control-flow form
   (loop_range with Ret / Cont, fs_walk_dir with an explicit state); the hand model
   ProtoStrModel.v is compositional (s_collect, s_walk, existsb).  The lemmas here turn the
   first form into the second whenever the loop body has the required *meaning*:

     [fs_walk_dir_append]   a WalkDir callback that appends [snd (cb p d e)] to its state and
                            returns [fst (cb p d e)]         →  s_walk_root cb
     [loop_range_collect]   a loop body that appends [l] when [step x = inl l] and returns
                            [mk e] when [step x = inr e]     →  s_collect step
     [loop_range_find]      a body that returns [r] at the first [q x]  →  existsb q
     [loop_range_or], [loop_while_or]   a flag that is set by [q x]     →  existsb q

   The side conditions are equations between the generated body and the hand-written step,
   proved by [crush]: case analysis on every primitive call / boolean atom the two sides
   scrutinise, then normalisation of ++ — so they go through for any generated body that
   computes the same thing in a different arrangement (renamed locals, helpers, inverted guards,
   early continue vs nested if, index loops, accumulation in a slice of its own, …).           *)
From Coq Require Import String List Bool Arith Ascii ZArith Lia.
From GT Require Import ProtoStrModel.
Import ListNotations.
Local Open Scope string_scope.
Local Open Scope list_scope.

(* ------------------------------------------------------------------ strings *)
Lemma str_app_assoc : forall a b c : string, ((a ++ b) ++ c = a ++ (b ++ c))%string.
Proof. induction a as [|x a IH]; intros b c; simpl; [reflexivity|]. rewrite IH. reflexivity. Qed.

Lemma str_app_nil_r : forall a : string, (a ++ "")%string = a.
Proof. induction a as [|x a IH]; simpl; [reflexivity|]. rewrite IH. reflexivity. Qed.

Lemma prefix_nil_contains : forall s, str_contains "" s = true.
Proof. intros [|c s]; reflexivity. Qed.

Lemma str_index_ge_m1 : forall sub s, (-1 <= str_index sub s)%Z.
Proof.
  intros sub. induction s as [|c s IH]; cbn [str_index].
  - destruct (prefix sub ""); lia.
  - destruct (prefix sub (String c s)); [lia|]. destruct (str_index sub s); lia.
Qed.

(* strings.Index(s, sub) >= 0  is  strings.Contains(s, sub) *)
Lemma str_index_geb : forall sub s, Z.geb (str_index sub s) 0 = str_contains sub s.
Proof.
  intros sub. induction s as [|c s IH]; cbn [str_index str_contains].
  - destruct (prefix sub ""); reflexivity.
  - destruct (prefix sub (String c s)); [reflexivity|]. cbn [orb]. rewrite <- IH.
    destruct (str_index sub s) as [|k|k]; reflexivity.
Qed.

Lemma str_index_leb : forall sub s, Z.leb 0 (str_index sub s) = str_contains sub s.
Proof. intros. rewrite <- str_index_geb. rewrite Z.geb_leb. reflexivity. Qed.

Lemma ext_scan_none_suffix : forall suf s c,
  ext_scan s = None -> str_has_suffix (String "." suf) (String c s) = String.eqb (String "." suf) (String c s).
Proof.
  intros suf. induction s as [|x s IH]; intros c H.
  - cbn [str_has_suffix]. change (String.eqb (String "." suf) "") with false.
    rewrite !orb_false_r. reflexivity.
  - cbn [str_has_suffix]. cbn [ext_scan] in H.
    destruct (ext_scan s) eqn:E; [discriminate|].
    destruct (Ascii.eqb x ".") eqn:Ex; [discriminate|].
    change ((String "." suf =? String x s) || str_has_suffix (String "." suf) s)
      with (str_has_suffix (String "." suf) (String x s)).
    rewrite (IH x eq_refl).
    assert (String.eqb (String "." suf) (String x s) = false) as ->.
    { cbn [String.eqb]. rewrite Ascii.eqb_sym, Ex. reflexivity. }
    rewrite orb_false_r. reflexivity.
Qed.

(* strings.HasSuffix(name, ".proto")  is  filepath.Ext(name) == ".proto" *)
Lemma has_suffix_proto_ext : forall s, str_has_suffix ".proto" s = String.eqb (fp_ext s) ".proto".
Proof.
  unfold fp_ext. induction s as [|c s IH]; [reflexivity|].
  cbn [ext_scan]. destruct (ext_scan s) as [e|] eqn:E.
  - cbn [str_has_suffix]. rewrite IH.
    destruct (String.eqb ".proto" (String c s)) eqn:Q; [|reflexivity].
    apply String.eqb_eq in Q. inversion Q; subst. discriminate.
  - rewrite (ext_scan_none_suffix "proto" s c E).
    destruct (Ascii.eqb c ".") eqn:Ec.
    + apply String.eqb_sym.
    + assert (Q : String.eqb ".proto" (String c s) = false)
        by (cbn [String.eqb]; rewrite Ascii.eqb_sym, Ec; reflexivity).
      rewrite Q. destruct (Ascii.eqb c "/"); reflexivity.
Qed.

(* ------------------------------------------------------------------ WalkDir *)
Section WalkAppend.
  Variable fn : list string -> string -> node -> gerror -> list string * gerror.
  Variable cb : string -> node -> gerror -> gerror * list string.
  Hypothesis Hfn : forall st p d e, fn st p d e = (st ++ snd (cb p d e), fst (cb p d e)).

  Lemma fs_walk_node_append : forall n p st,
    fs_walk_node fn p n st = (st ++ fst (s_walk cb p n), snd (s_walk cb p n)).
  Proof.
    fix IH 1. intros [name lines reg|name ch] p st.
    - cbn [fs_walk_node s_walk]. rewrite Hfn. reflexivity.
    - cbn [fs_walk_node s_walk]. rewrite Hfn.
      destruct (fst (cb p (Dir name ch) ENil)); cbn [fst snd]; try reflexivity.
      set (out := snd (cb p (Dir name ch) ENil)).
      assert (HL : forall l st',
        (fix walk_list (l : list node) (st : list string) {struct l} : list string * gerror :=
           match l with
           | [] => (st, ENil)
           | c :: r =>
               let '(st2, e2) := fs_walk_node fn (fp_join p (node_name c)) c st in
               match e2 with
               | ENil => walk_list r st2
               | ESkipDir => (st2, ENil)
               | EFail => (st2, EFail)
               end
           end) l st'
        = (st' ++ fst ((fix walk_list (l : list node) : list string * gerror :=
                 match l with
                 | [] => ([], ENil)
                 | c :: r =>
                     let '(o, e) := s_walk cb (fp_join p (node_name c)) c in
                     match e with
                     | ENil => let '(o2, e2) := walk_list r in (o ++ o2, e2)
                     | ESkipDir => (o, ENil)
                     | EFail => (o, EFail)
                     end
                 end) l),
           snd ((fix walk_list (l : list node) : list string * gerror :=
                 match l with
                 | [] => ([], ENil)
                 | c :: r =>
                     let '(o, e) := s_walk cb (fp_join p (node_name c)) c in
                     match e with
                     | ENil => let '(o2, e2) := walk_list r in (o ++ o2, e2)
                     | ESkipDir => (o, ENil)
                     | EFail => (o, EFail)
                     end
                 end) l))).
      { induction l as [|c r IHl]; intros st'.
        - cbn [fst snd]. rewrite app_nil_r. reflexivity.
        - rewrite (IH c). destruct (s_walk cb (fp_join p (node_name c)) c) as [o e]. cbn [fst snd].
          destruct e; cbn [fst snd]; try reflexivity.
          rewrite IHl.
          match goal with |- context [let '(o2, e2) := ?X in _] => destruct X as [o2 e2] end.
          cbn [fst snd]. rewrite app_assoc. reflexivity. }
      rewrite HL.
      match goal with |- context [let '(l, e) := ?X in _] => destruct X as [l e] end.
      cbn [fst snd]. rewrite app_assoc. reflexivity.
  Qed.

  Lemma fs_walk_dir_append : forall W root st,
    fs_walk_dir fn W root st = (st ++ fst (s_walk_root cb W root), snd (s_walk_root cb W root)).
  Proof.
    intros W root st. unfold fs_walk_dir, s_walk_root. destruct (fs_resolve W root) as [n|].
    - rewrite fs_walk_node_append. destruct (s_walk cb root n) as [l e]. reflexivity.
    - rewrite Hfn. reflexivity.
  Qed.
End WalkAppend.

(* ------------------------------------------------------------------ loops *)
(* inside a loop body `continue` and falling off the end are the same thing *)
Definition cont_to_next {L R : Type} (c : ctl L L R) : ctl L L R :=
  match c with Cont l => Next l | x => x end.

Lemma loop_range_collect : forall (A L' R : Type) (step : A -> list string + gerror)
    (mk : gerror -> R) (xs : list A) (body : list string -> A -> ctl (list string) (list string) R) acc,
  (forall acc x, cont_to_next (body acc x) = match step x with
                                             | inl l => Next (acc ++ l)
                                             | inr e => Ret (mk e)
                                             end) ->
  @loop_range_aux A (list string) L' R body xs acc
  = match s_collect step xs with
    | inl l => Next (acc ++ l)
    | inr e => Ret (mk e)
    end.
Proof.
  intros A L' R step mk xs body acc H. revert acc.
  induction xs as [|x r IH]; intros acc; cbn [loop_range_aux s_collect].
  - rewrite app_nil_r. reflexivity.
  - specialize (H acc x). destruct (body acc x) as [l'|v|l'|l']; cbn [cont_to_next] in H;
      destruct (step x) as [l|e]; try discriminate; inversion H; subst.
    + rewrite IH. destruct (s_collect step r); [rewrite app_assoc|]; reflexivity.
    + reflexivity.
    + rewrite IH. destruct (s_collect step r); [rewrite app_assoc|]; reflexivity.
Qed.

(* for i, x := range xs  from index k >= 1 on: the body may test its index against 0 *)
Lemma loop_range_enum_collect : forall (L' R : Type) (step : string -> list string + gerror)
    (mk : gerror -> R) (k : Z) (xs : list string)
    (body : list string -> Z * string -> ctl (list string) (list string) R) acc,
  (1 <= k)%Z ->
  (forall acc i x, (1 <= i)%Z ->
     cont_to_next (body acc (i, x)) = match step x with
                                      | inl l => Next (acc ++ l)
                                      | inr e => Ret (mk e)
                                      end) ->
  @loop_range_aux (Z * string) (list string) L' R body (enumerate k xs) acc
  = match s_collect step xs with
    | inl l => Next (acc ++ l)
    | inr e => Ret (mk e)
    end.
Proof.
  intros L' R step mk k xs body acc Hk H. revert k acc Hk.
  induction xs as [|x r IH]; intros k acc Hk; cbn [enumerate loop_range_aux s_collect].
  - rewrite app_nil_r. reflexivity.
  - specialize (H acc k x Hk). destruct (body acc (k, x)) as [l'|v|l'|l']; cbn [cont_to_next] in H;
      destruct (step x) as [l|e]; try discriminate; inversion H; subst.
    + rewrite IH by lia. destruct (s_collect step r); [rewrite app_assoc|]; reflexivity.
    + reflexivity.
    + rewrite IH by lia. destruct (s_collect step r); [rewrite app_assoc|]; reflexivity.
Qed.

(* for i, x := range x0 :: xs: the first entry (i = 0) has a step of its own *)
Lemma loop_range_enum0_collect : forall (L' R : Type) (step0 step : string -> list string + gerror)
    (mk : gerror -> R) (x0 : string) (xs : list string)
    (body : list string -> Z * string -> ctl (list string) (list string) R) acc,
  (forall acc x, cont_to_next (body acc (0%Z, x)) = match step0 x with
                                                   | inl l => Next (acc ++ l)
                                                   | inr e => Ret (mk e)
                                                   end) ->
  (forall acc i x, (1 <= i)%Z ->
     cont_to_next (body acc (i, x)) = match step x with
                                      | inl l => Next (acc ++ l)
                                      | inr e => Ret (mk e)
                                      end) ->
  @loop_range_aux (Z * string) (list string) L' R body (enumerate 0 (x0 :: xs)) acc
  = match (match step0 x0 with
           | inr e => inr e
           | inl l => match s_collect step xs with
                      | inr e => inr e
                      | inl m => inl (l ++ m)
                      end
           end) with
    | inl l => Next (acc ++ l)
    | inr e => Ret (mk e)
    end.
Proof.
  intros L' R step0 step mk x0 xs body acc H0 H1. cbn [enumerate loop_range_aux].
  specialize (H0 acc x0). destruct (body acc (0%Z, x0)) as [l'|v|l'|l']; cbn [cont_to_next] in H0;
    destruct (step0 x0) as [l|e]; try discriminate; inversion H0; subst; try reflexivity;
    (rewrite (loop_range_enum_collect L' R step mk (0 + 1) xs body (acc ++ l)) by (try lia; exact H1);
     destruct (s_collect step xs); [rewrite app_assoc|]; reflexivity).
Qed.

(* an error that comes out of s_collect is one of the steps' errors; if those are never nil … *)
Lemma s_collect_err : forall (A : Type) (step : A -> list string + gerror) xs e,
  (forall x e, step x = inr e -> err_is_nil e = false) ->
  s_collect step xs = inr e -> err_is_nil e = false.
Proof.
  intros A step xs e H. induction xs as [|x r IH]; cbn [s_collect]; [discriminate|].
  destruct (step x) as [l|e1] eqn:E.
  - destruct (s_collect step r) as [m|e2]; [discriminate|]. intros Q. apply IH. congruence.
  - intros Q. apply (H x). congruence.
Qed.

Lemma loop_range_find : forall (A L L' R : Type) (q : A -> bool) (r : R) (xs : list A)
    (body : L -> A -> ctl L L R) l,
  (forall l x, body l x = if q x then Ret r else Next l) ->
  @loop_range_aux A L L' R body xs l = if existsb q xs then Ret r else Next l.
Proof.
  intros A L L' R q r xs body l H. induction xs as [|x xs IH]; cbn [loop_range_aux existsb]; [reflexivity|].
  rewrite H. destruct (q x); [reflexivity|]. exact IH.
Qed.

Lemma loop_range_or : forall (A L' R : Type) (q : A -> bool) (xs : list A)
    (body : bool -> A -> ctl bool bool R) d,
  (forall d x, body d x = Next (d || q x)) ->
  @loop_range_aux A bool L' R body xs d = Next (d || existsb q xs).
Proof.
  intros A L' R q xs body d H. revert d. induction xs as [|x xs IH]; intros d; cbn [loop_range_aux existsb].
  - rewrite orb_false_r. reflexivity.
  - rewrite H, IH, orb_assoc. reflexivity.
Qed.

Lemma loop_while_or : forall (A L' R : Type) (q : A -> bool) (xs : list A) (cond : bool -> bool)
    (body : bool -> A -> ctl bool bool R) d,
  (forall d, cond d = negb d) ->
  (forall x, body false x = Next (q x)) ->
  @loop_while_range_aux A bool L' R body cond xs d = Next (d || existsb q xs).
Proof.
  intros A L' R q xs cond body d Hc Hb. revert d.
  induction xs as [|x xs IH]; intros d; cbn [loop_while_range_aux existsb].
  - rewrite orb_false_r. reflexivity.
  - rewrite Hc. destruct d; cbn [negb orb]; [reflexivity|]. rewrite Hb, IH. reflexivity.
Qed.

(* ------------------------------------------------------------------ a directory walk by hand *)
(* [fold_entries F p ch st]: call F on every entry in order, stop at the first error *)
Section ManualWalk.
  Variable F : string -> node -> list string -> gerror * list string.

  Fixpoint fold_entries (p : string) (ch : list node) (st : list string) : gerror * list string :=
    match ch with
    | [] => (ENil, st)
    | c :: r =>
        let '(e, st') := F (fp_join p (node_name c)) c st in
        if err_is_nil e then fold_entries p r st' else (e, st')
    end.

  (* a loop that calls F on each entry and returns its error is fold_entries *)
  Lemma loop_range_fold_entries : forall (L' R : Type) (mk : gerror -> list string -> R) p ch
      (body : list string -> node -> ctl (list string) (list string) R) st,
    (forall st c, cont_to_next (body st c) =
                  let '(e, st') := F (fp_join p (node_name c)) c st in
                  if err_is_nil e then Next st' else Ret (mk e st')) ->
    @loop_range_aux node (list string) L' R body ch st
    = let '(e, st') := fold_entries p ch st in
      if err_is_nil e then Next st' else Ret (mk e st').
  Proof.
    intros L' R mk p ch body st H. revert st.
    induction ch as [|c r IH]; intros st; cbn [loop_range_aux fold_entries]; [reflexivity|].
    specialize (H st c). destruct (F (fp_join p (node_name c)) c st) as [e st'].
    destruct (body st c) as [l|v|l|l]; cbn [cont_to_next] in H; destruct (err_is_nil e) eqn:E;
      try discriminate; inversion H; subst; try apply IH.
    rewrite E. reflexivity.
  Qed.

  Variable cb : string -> node -> gerror -> gerror * list string.
  (* the callback never fails without being told an error, and says SkipDir only of directories *)
  Hypothesis Hcb : forall p n, fst (cb p n ENil) = ENil \/ (is_dir n = true /\ fst (cb p n ENil) = ESkipDir).
  Hypothesis HFfile : forall p s c r st,
    F p (File s c r) st = (ENil, st ++ snd (cb p (File s c r) ENil)).
  Hypothesis HFdir : forall p s ch st,
    F p (Dir s ch) st =
    match fst (cb p (Dir s ch) ENil) with
    | ENil => fold_entries p ch (st ++ snd (cb p (Dir s ch) ENil))
    | _ => (ENil, st ++ snd (cb p (Dir s ch) ENil))
    end.

  (* then F is the stateless walk with that callback *)
  Lemma manual_walk_eq : forall n p st,
    F p n st = (ENil, st ++ fst (s_walk cb p n)) /\ snd (s_walk cb p n) = ENil.
  Proof.
    fix IH 1. intros [s c r|s ch] p st.
    - rewrite HFfile. cbn [s_walk fst snd]. split; [reflexivity|].
      destruct (Hcb p (File s c r)) as [H|[H _]]; [exact H|discriminate].
    - rewrite HFdir. cbn [s_walk].
      destruct (Hcb p (Dir s ch)) as [H|[_ H]]; rewrite H; [|split; reflexivity].
      set (out := snd (cb p (Dir s ch) ENil)).
      assert (HL : forall l st',
        fold_entries p l st'
        = (ENil, st' ++ fst ((fix walk_list (l : list node) : list string * gerror :=
               match l with
               | [] => ([], ENil)
               | c :: r =>
                   let '(o, e) := s_walk cb (fp_join p (node_name c)) c in
                   match e with
                   | ENil => let '(o2, e2) := walk_list r in (o ++ o2, e2)
                   | ESkipDir => (o, ENil)
                   | EFail => (o, EFail)
                   end
               end) l))
        /\ snd ((fix walk_list (l : list node) : list string * gerror :=
               match l with
               | [] => ([], ENil)
               | c :: r =>
                   let '(o, e) := s_walk cb (fp_join p (node_name c)) c in
                   match e with
                   | ENil => let '(o2, e2) := walk_list r in (o ++ o2, e2)
                   | ESkipDir => (o, ENil)
                   | EFail => (o, EFail)
                   end
               end) l) = ENil).
      { induction l as [|c r IHl]; intros st'.
        - cbn [fold_entries fst snd]. rewrite app_nil_r. split; reflexivity.
        - cbn [fold_entries]. destruct (IH c (fp_join p (node_name c)) st') as [E1 E2]. rewrite E1.
          cbn [err_is_nil]. destruct (s_walk cb (fp_join p (node_name c)) c) as [o e].
          cbn [fst snd] in *. subst e.
          destruct (IHl (st' ++ o)) as [E3 E4]. rewrite E3.
          match goal with |- context [let '(o2, e2) := ?X in _] => destruct X as [o2 e2] end.
          cbn [fst snd] in *. rewrite app_assoc. split; [reflexivity|exact E4]. }
      destruct (HL ch (st ++ out)) as [E1 E2]. rewrite E1.
      match goal with |- context [let '(l, e) := ?X in _] => destruct X as [l e] end.
      cbn [fst snd] in *. rewrite app_assoc. split; [reflexivity|exact E2].
  Qed.
End ManualWalk.

(* the hand callback of findProtos has the shape [manual_walk_eq] asks for *)
Lemma s_cb_shape : forall input rec p n,
  fst (s_cb input rec p n ENil) = ENil \/ (is_dir n = true /\ fst (s_cb input rec p n ENil) = ESkipDir).
Proof.
  intros input rec p n. unfold s_cb. cbn [err_is_nil negb orb].
  destruct (String.eqb p "." || String.eqb p input); [left; reflexivity|].
  destruct (is_dir n) eqn:Ed; cbn [andb].
  - destruct (negb rec); [right; split; reflexivity|].
    destruct (is_regular n && String.eqb (fp_ext (node_name n)) ".proto"); left; reflexivity.
  - destruct (is_regular n && String.eqb (fp_ext (node_name n)) ".proto"); left; reflexivity.
Qed.

(* ------------------------------------------------------------------ tactics *)
Ltac norm_lists :=
  repeat rewrite app_nil_r; repeat rewrite <- app_assoc; repeat rewrite str_app_assoc;
  cbn [app append].

Ltac prim_rewrites :=
  repeat first [ rewrite str_index_geb | rewrite str_index_leb | rewrite has_suffix_proto_ext ].

Ltac red_ctl :=
  cbn [bind_ctl fn_result fst snd negb andb orb err_is_nil err_eqb exec_run unskip
       nth length Z.of_nat Z.eqb Pos.of_succ_nat Pos.succ Pos.eqb app
       is_dir is_regular node_name
       g_InputDir g_ProtocPath g_Recurse g_VTProto g_GRPC g_Include].

(* loops over lists that are known by now (e.g. the option prefixes of the requested plugins) *)
Ltac red_loops :=
  cbn [bind_ctl fn_result fst snd negb andb orb err_is_nil err_eqb exec_run unskip
       loop_range_aux loop_while_range_aux s_collect existsb cont_to_next enumerate
       Z.add Z.gtb Z.ltb Z.leb Z.geb Z.compare Pos.compare Pos.add
       nth length Z.of_nat Z.eqb Pos.of_succ_nat Pos.succ Pos.eqb app
       is_dir is_regular node_name
       g_InputDir g_ProtocPath g_Recurse g_VTProto g_GRPC g_Include].

(* one case split on something both sides scrutinise *)
Ltac no_loop T :=
  lazymatch T with
  | context [@loop_range_aux] => fail
  | context [@loop_while_range_aux] => fail
  | context [@fs_walk_dir] => fail
  | context [@s_collect] => fail
  | _ => idtac
  end.

Ltac split_atom :=
  match goal with
  | |- context [err_is_nil ?e] => destruct (err_is_nil e) eqn:?
  | |- context [String.eqb ?a ?b] => destruct (String.eqb a b) eqn:?
  | |- context [is_dir ?d] => destruct (is_dir d) eqn:?
  | |- context [is_regular ?d] => destruct (is_regular d) eqn:?
  | |- context [str_contains ?a ?b] => destruct (str_contains a b) eqn:?
  | |- context [cut_eq ?s] => destruct (cut_eq s) as [[? ?]|] eqn:?
  | |- context [if ?b then _ else _] => is_var b; destruct b
  | |- context [negb ?b] => is_var b; destruct b
  | |- context [existsb ?f ?l] => destruct (existsb f l) eqn:?
  | |- context [negb ?T] =>
      lazymatch T with
      | context [match _ with _ => _ end] => fail
      | _ => no_loop T; destruct T eqn:?
      end
  | |- context [s_collect ?f ?xs] =>
      (* only once the loop over xs has been turned into this s_collect *)
      lazymatch goal with
      | |- context [loop_range_aux _ xs _] => fail
      | |- context [loop_range_aux _ (enumerate _ xs) _] => fail
      | _ => idtac
      end;
      let H := fresh "Hcol" in
      let e := fresh "ecol" in
      destruct (s_collect f xs) as [?|e] eqn:H;
      [ | (* the error a sequence of steps ends with is not nil when no step's is *)
          try (assert (err_is_nil e = false)
                 by (apply (s_collect_err _ f xs e); [ err_premise | exact H ])) ]
  | |- context [match ?T with _ => _ end] =>
      lazymatch T with
      | context [match _ with _ => _ end] => fail
      | _ => idtac
      end;
      no_loop T;
      lazymatch type of T with
      | bool => fail
      | _ => destruct T eqn:?
      end
  | |- context [if ?T then _ else _] =>
      lazymatch T with
      | context [match _ with _ => _ end] => fail
      | _ => no_loop T; destruct T eqn:?
      end
  end
with err_premise :=
  let x := fresh "x" in let e := fresh "e" in
  intros x e; cbv beta; red_loops; repeat (split_atom; red_loops);
  intros; first [ congruence | cbn [negb] in *; congruence ].

(* tests of a loop index that is known to be >= 1 *)
Ltac index_facts :=
  repeat match goal with
  | Hi : (1 <= ?i)%Z |- context [Z.gtb ?i 0] =>
      replace (Z.gtb i 0) with true by (symmetry; apply Z.gtb_lt; lia)
  | Hi : (1 <= ?i)%Z |- context [Z.ltb 0 ?i] =>
      replace (Z.ltb 0 i) with true by (symmetry; apply Z.ltb_lt; lia)
  | Hi : (1 <= ?i)%Z |- context [Z.geb ?i 1] =>
      replace (Z.geb i 1) with true by (symmetry; apply Z.geb_le; lia)
  | Hi : (1 <= ?i)%Z |- context [Z.leb 1 ?i] =>
      replace (Z.leb 1 i) with true by (symmetry; apply Z.leb_le; lia)
  | Hi : (1 <= ?i)%Z |- context [Z.eqb ?i 0] =>
      replace (Z.eqb i 0) with false by (symmetry; apply Z.eqb_neq; lia)
  end.

Ltac unfold_hand :=
  unfold s_run, s_argv, s_file_args, s_mapping_args, s_plugin_flags, s_protoc,
         s_has_go_package, str_cut, str_splitn2.

Ltac inj_pairs :=
  repeat match goal with
  | H : (_, _) = (_, _) |- _ => injection H as ? ?; subst
  | H : inl _ = inl _ |- _ => injection H as ?; subst
  | H : inr _ = inr _ |- _ => injection H as ?; subst
  end.

(* facts about the primitives that a case split forgets: a nil error is ENil; a directory entry
   is not a regular file *)
Ltac prim_facts :=
  repeat match goal with
  | H : err_is_nil ?e = true |- ?G =>
      is_var e; tryif has_evar G then fail else (destruct e; try discriminate H; clear H)
  end;
  try match goal with
  | H1 : is_dir ?d = true, H2 : is_regular ?d = true |- _ =>
      exfalso; destruct d; cbn [is_dir is_regular] in *; discriminate
  end.

Ltac close_goal :=
  inj_pairs; prim_facts; norm_lists;
  first [ reflexivity | congruence | contradiction | exfalso; congruence
        | exfalso; cbn [negb andb orb] in *; congruence ].

Ltac crush :=
  intros; repeat match goal with u : unit |- _ => destruct u end;
  cbv beta; unfold str_cut, str_splitn2; prim_rewrites; red_loops;
  repeat (split_atom; red_loops);
  try solve [close_goal].
