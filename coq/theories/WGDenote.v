(* WGDenote.v — the machines of WGModel.v ARE the denotations of the IR terms of WGProg.v.

   [wg_mem] / [wgo_mem] say what the atomic operations on the wait group's fields, close and
   the global closedChan do on the shared memory of the current / pinned machine (a pointer to
   the immutable wgState is modelled as identity + fields; a *chan pointer as the channel it
   points to).  [dwg_*] is the machine obtained from an IR program by the generic denotation
   of Base/ConcIR.v (locals = environment + continuation).  [R] relates the program counters
   of the hand-written machine to environments/continuations of the denotation; [R_step]
   shows, pc by pc, that the two machines make the same micro-step; by the generic lockstep
   lemma (ConcFacts.sim_exec) every client program under every schedule has the same memory
   and the same trace on both.  So every theorem about traces of wg_exec is a theorem about
   the denotation of hand_prog, which the check ties to the source by
   `gen_prog = hand_prog := eq_refl`.                                                        *)
From Coq Require Import List String ZArith Bool Arith Lia.
From GT Require Import Base.Conc.
From GT Require Import Base.ConcFacts.
From GT Require Import Base.ConcIR.
From GT Require Import WGModel WGSpec WGProg.
Import ListNotations.
Local Open Scope string_scope.
Local Open Scope list_scope.
Local Open Scope Z_scope.

(* ---------------------------------------------------------------- memory of the current code *)
Definition wg_global (g : string) : option value :=
  if String.eqb g "closedChan" then Some (VChan (Some 0%nat)) else None.

Definition wg_atomic (a : aop) (f : string) (args : list value) (s : shared)
  : option (shared * value) :=
  if negb (String.eqb f "state") then None else
  match a, args with
  | ALoad, [] =>
      Some (s, VRef (ver s) [("count", VInt (cnt s)); ("wChan", VChan (Some (chn s)))])
  | ACAS, [VRef ov _; VNew fs] =>
      match lookup "count" fs, lookup "wChan" fs with
      | Some (VInt n), Some (VChan c) =>
          if Nat.eqb (ver s) ov then
            match c with
            | Some x => Some (Shared (S (ver s)) n x (closed s) (nextc s), VBool true)
            | None => Some (Shared (S (ver s)) n (nextc s) (closed s) (S (nextc s)), VBool true)
            end
          else Some (s, VBool false)
      | _, _ => None
      end
  | _, _ => None
  end.

Definition wg_close (c : option nat) (s : shared) : option (shared * bool) :=
  match c with
  | Some x => if memb x (closed s) then Some (s, false)
              else Some (Shared (ver s) (cnt s) (chn s) (x :: closed s) (nextc s), true)
  | None => Some (Shared (ver s) (cnt s) (chn s) (nextc s :: closed s) (S (nextc s)), true)
  end.

Definition wg_mem : mem shared := Mem shared wg_atomic wg_close wg_global.

(* ---------------------------------------------------------------- memory of the pinned code *)
Definition wgo_atomic (a : aop) (f : string) (args : list value) (s : shared_o)
  : option (shared_o * value) :=
  if String.eqb f "count" then
    match a, args with
    | AAdd, [VInt d] =>
        Some (SharedO (ocnt s + d) (owch s) (oclosed s) (onextc s), VInt (ocnt s + d))
    | ALoad, [] => Some (s, VInt (ocnt s))
    | _, _ => None
    end
  else if String.eqb f "wChan" then
    match a, args with
    | ALoad, [] => Some (s, VPtrChan (Some (owch s)))
    | ASwap, [VPtrChan (Some x)] =>
        Some (SharedO (ocnt s) x (oclosed s) (onextc s), VPtrChan (Some (owch s)))
    | ACAS, [VPtrChan (Some a0); VPtrChan c] =>
        if Nat.eqb (owch s) a0 then
          match c with
          | Some x => Some (SharedO (ocnt s) x (oclosed s) (onextc s), VBool true)
          | None => Some (SharedO (ocnt s) (onextc s) (oclosed s) (S (onextc s)), VBool true)
          end
        else Some (s, VBool false)
    | _, _ => None
    end
  else None.

Definition wgo_close (c : option nat) (s : shared_o) : option (shared_o * bool) :=
  match c with
  | Some x => if memb x (oclosed s) then Some (s, false)
              else Some (SharedO (ocnt s) (owch s) (x :: oclosed s) (onextc s), true)
  | None => Some (SharedO (ocnt s) (owch s) (onextc s :: oclosed s) (S (onextc s)), true)
  end.

Definition wgo_mem : mem shared_o := Mem shared_o wgo_atomic wgo_close wg_global.

(* ---------------------------------------------------------------- the denoted machines *)
Definition ret_of (v : value) : ret :=
  match v with
  | VInt z => RInt z
  | VChan (Some x) => RChan x
  | _ => RPanic
  end.

Definition stuck_loc : dloc := DLoc [] [IStmt (SOther None "stuck")].

Definition call_entry (c : call) : string * list value :=
  match c with
  | CAdd d => ("Add", [VInt d])
  | CWait => ("Wait", [])
  | CCount => ("Count", [])
  end.

Section Machine.
  Variable Sh : Type.
  Variable M : mem Sh.
  Variable s0 : Sh.          (* only to run the memory-free prefix of a call before its first site *)
  Variable p : prog.

  Definition d_begin (c : call) : dloc :=
    match find_func (fst (call_entry c)) p with
    | Some f => match dbegin Sh M f (snd (call_entry c)) s0 with OPark l => l | _ => stuck_loc end
    | None => stuck_loc
    end.

  Definition d_mstep (c : call) (l : dloc) (s : Sh) : Sh * (dloc + ret) :=
    match dstep Sh M l s with
    | (s', OPark l') => (s', inl l')
    | (s', ORet v) => (s', inr (ret_of v))
    | (s', OPanic) => (s', inr RPanic)
    | (s', OStuck) => (s', inr RPanic)
    end.

  Definition d_site (c : call) (l : dloc) : nat := dsite l.
End Machine.

Definition dwg_exec (p : prog) (progs : list (list call)) (sched : list nat)
  : config shared dloc call ret obs :=
  exec (d_begin shared wg_mem wg_init p) (d_mstep shared wg_mem) wg_fatal wg_observe d_site
       wg_init progs sched.

Definition dwgo_exec (p : prog) (progs : list (list call)) (sched : list nat)
  : config shared_o dloc call ret obs :=
  exec (d_begin shared_o wgo_mem wgo_init p) (d_mstep shared_o wgo_mem) wg_fatal wgo_observe d_site
       wgo_init progs sched.

(* ---------------------------------------------------------------- continuations at the sites *)
Definition park_k {Sh} (o : Sh * outcome) : list item :=
  match snd o with OPark l => d_k l | _ => [] end.

Definition loc_of {Sh} (o : Sh * outcome) : dloc :=
  match snd o with OPark l => l | _ => stuck_loc end.

Notation DB := (d_begin shared wg_mem wg_init hand_prog).
Notation DM := (d_mstep shared wg_mem).
Notation DS := (dstep shared wg_mem).

(* computed once from hand_prog by running the denotation on sample inputs; the proofs below
   check that they are the continuations for all inputs *)
Definition k100 : list item := Eval vm_compute in d_k (DB (CAdd 0)).
Definition k101 : list item := Eval vm_compute in park_k (DS (DB (CAdd 1)) wg_init).
Definition k102 : list item :=
  Eval vm_compute in
    let s1 := Shared 5 1 1%nat [0%nat] 2 in
    park_k (DS (loc_of (DS (DB (CAdd (-1))) s1)) s1).
Definition k200 : list item := Eval vm_compute in d_k (DB CWait).
Definition k300 : list item := Eval vm_compute in d_k (DB CCount).

Definition fld (c : Z) (ch : option nat) : list (string * value) :=
  [("count", VInt c); ("wChan", VChan ch)].

(* the channel field of `next` as computed between the load and the CAS *)
Definition nchv (d oc : Z) (och : nat) : option nat :=
  if oc + d =? 0 then Some 0%nat else if Nat.eqb och 0 then None else Some och.

Definition dl_A0 (d : Z) : dloc := DLoc [("v1", VInt d)] k100.
Definition dl_A1 (d : Z) (ov : nat) (oc : Z) (och : nat) : dloc :=
  DLoc [("v1", VInt d); ("v2", VRef ov (fld oc (Some och)));
        ("v3", VNew (fld (oc + d) (nchv d oc och)))] k101.
Definition dl_A2 (d : Z) (ov : nat) (oc : Z) (x : nat) : dloc :=
  DLoc [("v1", VInt d); ("v2", VRef ov (fld oc (Some x)));
        ("v3", VNew (fld (oc + d) (Some 0%nat)))] k102.
Definition dl_W0 : dloc := DLoc [] k200.
Definition dl_C0 : dloc := DLoc [] k300.

(* program counters of the hand-written machine vs. states of the denotation *)
Definition R (c : call) (l : loc) (dl : dloc) : Prop :=
  match c, l with
  | CAdd d, A0 => dl = dl_A0 d
  | CAdd d, A1 ov oc och => dl = dl_A1 d ov oc och
  | CAdd d, A2 x n => exists ov oc, n = oc + d /\ dl = dl_A2 d ov oc x
  | CWait, W0 => dl = dl_W0
  | CCount, C0 => dl = dl_C0
  | _, _ => False
  end.

Lemma R_begin : forall c, R c (wg_begin c) (DB c).
Proof. intros [d| |]; reflexivity. Qed.

Lemma R_site : forall c l dl, R c l dl -> wg_site c l = d_site c dl.
Proof.
  intros c l dl H. destruct c; destruct l; simpl in H; try contradiction; subst; try reflexivity.
  destruct H as (ov & oc & _ & ->). reflexivity.
Qed.

Ltac dn_unfold :=
  unfold step_rel, d_mstep, dstep, FUEL, dl_A0, dl_A1, dl_A2, dl_W0, dl_C0,
         k100, k101, k102, k200, k300, nchv, fld.
Ltac dn_absurd :=
  try discriminate;
  try (match goal with
       | H : negb ?b = _, H' : ?b = _ |- _ => rewrite H' in H; discriminate
       end).
Ltac dn_if :=
  match goal with
  | |- context [if ?b then _ else _] => destruct b eqn:?; cbn
  end.

Lemma R_step : forall c l dl s, R c l dl ->
  step_rel shared loc dloc call ret R c (wg_mstep c l s) (DM c dl s).
Proof.
  intros c l dl [v n ch cl nx] H.
  destruct c as [d| |]; destruct l as [|ov oc och|x n0| |]; simpl in H; try contradiction.
  - (* load *)
    subst dl. dn_unfold. cbn. dn_unfold. cbn. repeat dn_if; dn_absurd; (split; [reflexivity|]); reflexivity.
  - (* compare-and-swap *)
    subst dl. dn_unfold. cbn. dn_unfold. cbn. repeat dn_if; dn_absurd; (split; [reflexivity|]); try reflexivity.
    all: eexists _, _; split; reflexivity.
  - (* close *)
    destruct H as (ov & oc & -> & ->). dn_unfold. cbn.
    dn_unfold. cbn. repeat dn_if; dn_absurd; (split; [reflexivity|]); reflexivity.
  - subst dl. dn_unfold. cbn. split; reflexivity.
  - subst dl. dn_unfold. cbn. split; reflexivity.
Qed.

(* every client program under every schedule: same memory, same trace *)
Theorem denote_current : forall progs sched,
  sh (dwg_exec hand_prog progs sched) = sh (wg_exec progs sched) /\
  tr (dwg_exec hand_prog progs sched) = tr (wg_exec progs sched).
Proof.
  intros progs sched.
  destruct (sim_exec shared loc dloc call ret obs wg_begin DB wg_mstep DM wg_fatal wg_observe
              wg_site d_site R R_begin R_site R_step wg_init progs sched) as (H1 & H2 & _).
  split; symmetry; assumption.
Qed.

(* ================================================================ the pinned code *)
Notation DBo := (d_begin shared_o wgo_mem wgo_init hand_prog_orig).
Notation DMo := (d_mstep shared_o wgo_mem).
Notation DSo := (dstep shared_o wgo_mem).

Definition ko100 : list item := Eval vm_compute in d_k (DBo (CAdd 0)).
Definition ko101 : list item := Eval vm_compute in park_k (DSo (DBo (CAdd 0)) wgo_init).
Definition ko102 : list item :=
  Eval vm_compute in
    park_k (DSo (loc_of (DSo (DBo (CAdd 0)) wgo_init)) (SharedO 0 1%nat [0%nat] 2)).
Definition ko103 : list item := Eval vm_compute in park_k (DSo (DBo (CAdd 1)) wgo_init).
Definition ko104 : list item :=
  Eval vm_compute in
    park_k (DSo (loc_of (DSo (DBo (CAdd 1)) wgo_init)) (SharedO 1 1%nat [0%nat] 2)).
Definition ko200 : list item := Eval vm_compute in d_k (DBo CWait).
Definition ko201 : list item := Eval vm_compute in park_k (DSo (DBo CWait) wgo_init).
Definition ko300 : list item := Eval vm_compute in d_k (DBo CCount).

Definition dlo_A0 (d : Z) : dloc := DLoc [("v1", VInt d)] ko100.
Definition dlo_A1 (d n : Z) : dloc := DLoc [("v1", VInt d); ("v2", VInt n)] ko101.
Definition dlo_A2 (d : Z) (x : nat) (n : Z) : dloc :=
  DLoc [("v1", VInt d); ("v2", VInt n); ("v3", VPtrChan (Some x))] ko102.
Definition dlo_A3 (d n : Z) : dloc :=
  DLoc [("v1", VInt d); ("v2", VInt n); ("v4", VChan None)] ko103.
Definition dlo_A4 (d n : Z) : dloc :=
  DLoc [("v1", VInt d); ("v2", VInt n); ("v4", VChan None)] ko104.
Definition dlo_W0 : dloc := DLoc [] ko200.
Definition dlo_W1 (c : Z) : dloc := DLoc [("v1", VInt c)] ko201.
Definition dlo_C0 : dloc := DLoc [] ko300.

Definition Ro (c : call) (l : loc_o) (dl : dloc) : Prop :=
  match c, l with
  | CAdd d, OA0 => dl = dlo_A0 d
  | CAdd d, OA1 n => dl = dlo_A1 d n
  | CAdd d, OA2 x n => dl = dlo_A2 d x n
  | CAdd d, OA3 n => dl = dlo_A3 d n
  | CAdd d, OA4 n => dl = dlo_A4 d n
  | CWait, OW0 => dl = dlo_W0
  | CWait, OW1 c0 => dl = dlo_W1 c0
  | CCount, OC0 => dl = dlo_C0
  | _, _ => False
  end.

Lemma Ro_begin : forall c, Ro c (wgo_begin c) (DBo c).
Proof. intros [d| |]; reflexivity. Qed.

Lemma Ro_site : forall c l dl, Ro c l dl -> wgo_site c l = d_site c dl.
Proof.
  intros c l dl H. destruct c; destruct l; simpl in H; try contradiction; subst; reflexivity.
Qed.

Ltac dno_unfold :=
  unfold step_rel, d_mstep, dstep, FUEL, dlo_A0, dlo_A1, dlo_A2, dlo_A3, dlo_A4, dlo_W0, dlo_W1,
         dlo_C0, ko100, ko101, ko102, ko103, ko104, ko200, ko201, ko300, o_close, memb.

Lemma Ro_step : forall c l dl s, Ro c l dl ->
  step_rel shared_o loc_o dloc call ret Ro c (wgo_mstep c l s) (DMo c dl s).
Proof.
  intros c l dl [n ch cl nx] H.
  destruct c as [d| |]; destruct l; simpl in H; try contradiction; subst dl;
    dno_unfold; cbn; dno_unfold; cbn;
    repeat dn_if; dn_absurd; (split; [reflexivity|]); reflexivity.
Qed.

Theorem denote_pinned : forall progs sched,
  sh (dwgo_exec hand_prog_orig progs sched) = sh (wgo_exec progs sched) /\
  tr (dwgo_exec hand_prog_orig progs sched) = tr (wgo_exec progs sched).
Proof.
  intros progs sched.
  destruct (sim_exec shared_o loc_o dloc call ret obs wgo_begin DBo wgo_mstep DMo wg_fatal
              wgo_observe wgo_site d_site Ro Ro_begin Ro_site Ro_step wgo_init progs sched)
    as (H1 & H2 & _).
  split; symmetry; assumption.
Qed.
