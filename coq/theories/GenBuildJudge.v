(* GenBuildJudge.v — judgement of one build-farm observation (no proofs).
   spec: the generator either reported an error or produced a gofmt-clean file that builds with
   its package and the compile-time interface assertions — i.e. the observation is not ObsBad.
   model: [predict] over the tables regenerated from the current tree, and [refs_ok]: every
   trait type is referenced in the generated file exactly as the model of ExtractTypeRef renders it.                         *)
From Coq Require Import String List Bool.
From GT Require Import Base.Verdict GenBuildModel.
Import ListNotations.
Local Open Scope string_scope.

Definition spec_ok (c : gb_case) : bool := negb (obs_eqb (gc_obs c) ObsBad).

Definition model_eq (T : tmpl_tables) (ks : list bkind) (r : rexpr) (c : gb_case) : bool :=
  match predict T ks r c, gc_obs c with
  | PAny, _ => true
  | PBuilt, ObsBuilt | PErr, ObsErr | PBad, ObsBad => true
  | _, _ => false
  end
  && refs_ok ks r c.

Definition gb_judge (T : tmpl_tables) (ks : list bkind) (r : rexpr) (c : gb_case) : nat :=
  verdict (spec_ok c) (model_eq T ks r c).

(* non-trivial: an option differs from its default, or the definition carries a shape/kind *)
Definition gb_nontrivial (c : gb_case) : bool :=
  let e := flag_of (gc_flags c) in
  match gc_tool c with
  | TGenum => negb (e "GenJSON" && e "GenYAML" && e "GenText") || e "CaseInsensitive"
              || e "DisableTraits" || gc_parsable c
              || negb (Nat.eqb (length (gc_kinds c) + length (gc_shapes c)) 0)
  | TGerror => e "SkipConvertGen" || negb (Nat.eqb (length (gc_shapes c)) 0)
  | TGsort => negb (Nat.eqb (length (gc_shapes c)) 0)
  | TMulti => true
  end.
