(* IFaceAliasProofs.v — the names of the imports an ImportHandler hands out are pairwise distinct
   and differ from the package-level names of the package generated for: proved from calcImports'
   and addNamed's algorithm (imports.go, with fixes/C19-import-alias-collision.patch), for every
   state FindInterface can reach — instead of being assumed (alias_injective). *)
From Coq Require Import List Bool String Ascii NArith Arith Lia.
From GT Require Import IFaceModel IFaceNamesProofs IFaceEmbProofs IFaceRefProofs.
Import ListNotations.
Local Open Scope string_scope.

(* ------------------------------------------------------------------ unusedName *)
Lemma dkeys_const (taken : list string) : dkeys (map (fun a => (a, 0%N)) taken) = taken.
Proof. unfold dkeys. rewrite map_map. simpl. apply map_id. Qed.

(* the numbering loop of unusedName ends on a name that is not bound *)
Lemma unused_name_fresh taken name : ~ In (unused_name taken name) taken.
Proof.
  unfold unused_name. destruct (mem name taken) eqn:E.
  - set (d := map (fun a => (a, 0%N)) taken).
    pose proof (number_name_fresh d name 2%N) as H.
    assert (Hl : List.length d = List.length taken) by (unfold d; apply map_length).
    rewrite Hl in H. intros Hin.
    assert (Hk : dmem d (fst (number_name (S (List.length taken)) d name 2)) = true).
    { apply dmem_In. unfold d. rewrite dkeys_const. assumption. }
    congruence.
  - apply mem_false. assumption.
Qed.

Lemma unused_name_id taken name : ~ In name taken -> unused_name taken name = name.
Proof. intros H. unfold unused_name. apply mem_false in H. rewrite H. reflexivity. Qed.

(* ------------------------------------------------------------------ the table *)
Lemma tset_alias_same : forall st i j,
  tget st (i_path j) = Some i -> i_alias j = i_alias i -> map i_alias (tset st j) = map i_alias st.
Proof.
  induction st as [|k r IH]; intros i j Hg Ha; simpl in *; [discriminate|].
  destruct (String.eqb (i_path j) (i_path k)); simpl.
  - injection Hg as <-. rewrite Ha. reflexivity.
  - f_equal. eapply IH; eauto.
Qed.

Lemma tset_new : forall st j, tget st (i_path j) = None -> tset st j = (st ++ [j])%list.
Proof.
  induction st as [|k r IH]; intros j Hg; simpl in *; [reflexivity|].
  destruct (String.eqb (i_path j) (i_path k)); [discriminate|]. f_equal. apply IH. assumption.
Qed.

Lemma tget_none_path st p : tget st p = None <-> ~ In p (map i_path st).
Proof.
  induction st as [|k r IH]; simpl; [tauto|].
  destruct (String.eqb p (i_path k)) eqn:E.
  - apply String.eqb_eq in E. split; [discriminate|]. intros H. exfalso. apply H. left. congruence.
  - apply String.eqb_neq in E. rewrite IH. split; [intros H [H1|H1]; [congruence|auto]|tauto].
Qed.

(* the invariant: the import names of the handler are pairwise distinct and none is a
   package-level name *)
Definition table_ok (e : env) (st : table) : Prop :=
  NoDup (map i_alias st) /\ forall a, In a (map i_alias st) -> ~ In a (e_locals e).

Lemma add_named_ok e st pkg : e_unique_alias e = true ->
  table_ok e st -> table_ok e (snd (add_named e st pkg)).
Proof.
  intros Hu [Hnd Hloc]. unfold add_named. destruct pkg as [[p pn]|]; [|split; assumption].
  destruct (String.eqb p (e_self e)); [split; assumption|].
  destruct (tget st p) as [i|] eqn:Eg; cbn [snd].
  - assert (Hm : map i_alias (tset st (Imp p (i_alias i) (i_alias_is_pkg i) true)) = map i_alias st).
    { apply (tset_alias_same st i); [simpl; assumption|reflexivity]. }
    unfold table_ok. rewrite Hm. split; assumption.
  - destruct (match assoc (e_pkg_imports e) p with
              | Some n => if String.eqb pn "" then (n, true) else (pn, has_suffix p pn)
              | None => (pn, has_suffix p pn)
              end) as [al0 isp0].
    cbv zeta. rewrite Hu. cbn [snd].
    set (al := unused_name (taken_names e st) al0).
    rewrite tset_new by (simpl; assumption).
    pose proof (unused_name_fresh (taken_names e st) al0) as Hf. fold al in Hf.
    unfold taken_names in Hf. unfold table_ok. rewrite map_app. cbn [map i_alias]. split.
    + apply NoDup_app_intro; [assumption|repeat constructor; intros []|].
      intros x Hx [<-|[]]. apply Hf. apply in_or_app. auto.
    + intros a Ha. apply in_app_or in Ha as [Ha|[<-|[]]]; [auto|].
      intros Hl. apply Hf. apply in_or_app. right. apply in_or_app. auto.
Qed.

(* ------------------------------------------------------------------ through ExtractTypeRef *)
Section Keep.
  Variable e : env.
  Variable P : table -> Prop.
  Hypothesis P_add : forall st pkg, P st -> P (snd (add_named e st pkg)).

  Definition keeps (t : ty) : Prop := forall st, P st -> P (snd (extract e st t)).

  Lemma extract_list_keeps : forall l, Forall keeps l -> forall st, P st -> P (snd (extract_list e st l)).
  Proof.
    induction l as [|t r IH]; intros Hk st Hst; simpl; [assumption|].
    inversion Hk as [|? ? Ht Hr]; subst.
    destruct (extract e st t) as [x s1] eqn:E1. destruct (extract_list e s1 r) as [xr s2] eqn:E2.
    simpl. pose proof (Ht st Hst) as H1. rewrite E1 in H1.
    pose proof (IH Hr s1 H1) as H2. rewrite E2 in H2. exact H2.
  Qed.

  Lemma tuple_keeps : forall l, Forall (fun p : pinfo * ty => keeps (snd p)) l ->
    forall st v, P st -> P (snd (params_from_tuple e st v l)).
  Proof.
    induction l as [|[pi t] r IH]; intros Hk st v Hst; simpl; [assumption|].
    inversion Hk as [|? ? Ht Hr]; subst. simpl in Ht.
    destruct (extract e st t) as [x s1] eqn:E1. destruct (params_from_tuple e s1 v r) as [xr s2] eqn:E2.
    simpl. pose proof (Ht st Hst) as H1. rewrite E1 in H1.
    pose proof (IH Hr s1 v H1) as H2. rewrite E2 in H2. exact H2.
  Qed.

  Lemma extract_keeps : forall t, keeps t.
  Proof.
    induction t as [s|pkg n targs IH|y IH|y IH|k y IH|k v IHk IHv|ps v rs IHp IHr] using ty_ind';
      intros st Hst.
    - assumption.
    - rewrite extract_named. destruct (add_named e st pkg) as [q st1] eqn:Ea.
      destruct (extract_list e st1 targs) as [args st2] eqn:El. simpl.
      assert (H1 : P st1) by (pose proof (P_add st pkg Hst) as H; rewrite Ea in H; exact H).
      pose proof (extract_list_keeps targs IH st1 H1) as H2. rewrite El in H2. exact H2.
    - simpl. specialize (IH st Hst). destruct (extract e st y). exact IH.
    - simpl. specialize (IH st Hst). destruct (extract e st y). exact IH.
    - simpl. specialize (IH st Hst). destruct (extract e st y). exact IH.
    - simpl. specialize (IHk st Hst). destruct (extract e st k) as [rk s1].
      specialize (IHv s1 IHk). destruct (extract e s1 v) as [rv s2]. exact IHv.
    - rewrite extract_func.
      destruct (params_from_tuple e st v ps) as [xi s1] eqn:E1.
      destruct (params_from_tuple e s1 false rs) as [xo s2] eqn:E2.
      destruct (ensure_param_names (map fst ps) (map fst rs)) as [ni no]. simpl.
      pose proof (tuple_keeps ps IHp st v Hst) as H1. rewrite E1 in H1.
      pose proof (tuple_keeps rs IHr s1 false H1) as H2. rewrite E2 in H2. exact H2.
  Qed.

  Variables priv emb flt : bool.

  Lemma render_methods_keeps : forall ms st, P st -> P (snd (render_methods e st ms)).
  Proof.
    induction ms as [|m r IH]; intros st Hst; simpl; [assumption|].
    destruct (render_method e st m) as [x s1] eqn:E1.
    destruct (render_methods e s1 r) as [xs s2] eqn:E2. simpl.
    assert (H1 : P s1).
    { pose proof (extract_keeps (meth_ty m) st Hst) as H.
      rewrite render_method_func in E1. destruct (extract e st (meth_ty m)) as [y sy].
      injection E1 as _ <-. exact H. }
    pose proof (IH s1 H1) as H2. rewrite E2 in H2. exact H2.
  Qed.

  Lemma to_iface_keeps : forall t st, P st -> P (snd (to_iface_gen e priv emb flt st t)).
  Proof.
    induction t as [self own embs IH] using IFaceEmbProofs.tree_ind'. intros st Hst.
    rewrite to_iface_unfold.
    destruct (extract e st self) as [xs st1] eqn:E0.
    destruct (render_methods e st1 (filter (visible priv) own)) as [own' st2] eqn:E1.
    assert (H1 : P st1) by (pose proof (extract_keeps self st Hst) as H; rewrite E0 in H; exact H).
    assert (H2 : P st2).
    { pose proof (render_methods_keeps (filter (visible priv) own) st1 H1) as H. rewrite E1 in H. exact H. }
    destruct (negb emb); [exact H2|].
    assert (G : forall l acc st0, (forall f, In f l -> In f embs) -> P st0 ->
                P (snd (emb_loop e priv emb flt acc st0 l))).
    { induction l as [|f r IHl]; intros acc st0 Hsub Hst0; simpl; [assumption|].
      destruct (to_iface_gen e priv emb flt st0 f) as [ms s1] eqn:Ef.
      apply IHl; [intros g Hg; apply Hsub; right; assumption|].
      rewrite Forall_forall in IH.
      pose proof (IH f (Hsub f (or_introl eq_refl)) st0 Hst0) as H. rewrite Ef in H. exact H. }
    specialize (G embs ([], map rm_name own') st2 (fun f H => H) H2).
    destruct (emb_loop e priv emb flt ([], map rm_name own') st2 embs) as [acc st3]. exact G.
  Qed.
End Keep.

(* ------------------------------------------------------------------ calcImports *)
Lemma calc_import_path e s : i_path (calc_import e s) = fst s.
Proof.
  destruct s as [p [n|]]; simpl; [reflexivity|]. destruct (assoc (e_pkg_imports e) p); reflexivity.
Qed.

Lemma nodupb_NoDup l : nodupb l = true <-> NoDup l.
Proof.
  induction l as [|x r IH]; simpl; [split; [constructor|reflexivity]|].
  rewrite andb_true_iff, negb_true_iff, mem_false, IH. split.
  - intros [H1 H2]. constructor; assumption.
  - intros H. inversion H; subst. auto.
Qed.

(* a spec that overwrites an entry (same path imported again) replaces one name by another *)
Lemma tset_aliases_In : forall st i a,
  In a (map i_alias (tset st i)) -> a = i_alias i \/ In a (map i_alias st).
Proof.
  induction st as [|k r IH]; intros i a H; simpl in *.
  - destruct H as [H|[]]; auto.
  - destruct (String.eqb (i_path i) (i_path k)); simpl in H.
    + destruct H as [H|H]; auto.
    + destruct H as [H|H]; [auto|]. apply IH in H as [H|H]; auto.
Qed.

Lemma tset_aliases_NoDup : forall st i,
  NoDup (map i_alias st) -> ~ In (i_alias i) (map i_alias st) -> NoDup (map i_alias (tset st i)).
Proof.
  induction st as [|k r IH]; intros i Hnd Hni; simpl in *.
  - repeat constructor. intros [].
  - inversion Hnd as [|? ? Hk Hr]; subst.
    destruct (String.eqb (i_path i) (i_path k)); simpl.
    + constructor; [|assumption]. intros H. apply Hni. right. assumption.
    + constructor.
      * intros H. apply tset_aliases_In in H as [H|H]; [|auto]. apply Hni. left. auto.
      * apply IH; [assumption|]. intros H. apply Hni. right. assumption.
Qed.

(* a file that compiles (specs_okb, a predicate on the input; one path may be imported several
   times) gives a good table: the later spec of a path wins, names stay pairwise distinct *)
Lemma calc_imports_ok e specs : specs_okb e specs = true -> table_ok e (calc_imports e specs).
Proof.
  unfold specs_okb. rewrite andb_true_iff. intros [Hn Hl]. apply nodupb_NoDup in Hn.
  unfold calc_imports.
  assert (G : forall l st, NoDup (map (spec_name e) l) ->
            (forall s, In s l -> ~ In (spec_name e s) (e_locals e)) ->
            NoDup (map i_alias st) ->
            (forall a, In a (map i_alias st) -> ~ In a (map (spec_name e) l) /\ ~ In a (e_locals e)) ->
            table_ok e (fold_left (fun t s => tset t (calc_import e s)) l st)).
  { induction l as [|s r IH]; intros st Hnd Hloc Hst Hdis; cbn [fold_left].
    - split; [assumption|]. intros a Ha. apply (Hdis a Ha).
    - cbn [map] in Hnd. inversion Hnd as [|? ? Hs Hr]; subst. apply IH.
      + assumption.
      + intros s0 H0. apply Hloc. right. assumption.
      + apply tset_aliases_NoDup; [assumption|]. intros H. destruct (Hdis _ H) as [H1 _]. apply H1. left. reflexivity.
      + intros a Ha. apply tset_aliases_In in Ha as [->|Ha].
        * split; [exact Hs|]. apply Hloc. left. reflexivity.
        * destruct (Hdis a Ha) as [H1 H2]. split; [|assumption]. intros H. apply H1. right. assumption. }
  apply G; [assumption| |constructor|intros a []].
  intros s Hs. rewrite forallb_forall in Hl. specialize (Hl s Hs).
  rewrite !andb_true_iff, !negb_true_iff in Hl. destruct Hl as [[Hl _] _].
  apply mem_false. assumption.
Qed.

(* ------------------------------------------------------------------ FindInterface *)
Lemma table_ok_active e st : table_ok e st ->
  alias_injective (active st) /\ forall i, In i (active st) -> ~ In (i_alias i) (e_locals e).
Proof.
  intros [Hnd Hloc]. split.
  - unfold alias_injective, active. apply NoDup_map_filter. assumption.
  - intros i Hi. apply active_In in Hi as [Hi _]. apply Hloc. apply in_map. assumption.
Qed.

Lemma to_iface_table_ok e priv emb flt st t : e_unique_alias e = true ->
  table_ok e st -> table_ok e (snd (to_iface_gen e priv emb flt st t)).
Proof.
  intros Hu. apply (to_iface_keeps e (table_ok e)). intros st0 pkg. apply add_named_ok. assumption.
Qed.

(* the imports FindInterface returns bind pairwise distinct names, none of them a package-level
   name of the package — for every file that compiles, every tree, every option combination *)
Lemma find_interface_aliases e specs priv emb t :
  e_unique_alias e = true -> specs_okb e specs = true ->
  alias_injective (snd (find_interface e specs priv emb t)) /\
  forall i, In i (snd (find_interface e specs priv emb t)) -> ~ In (i_alias i) (e_locals e).
Proof.
  intros Hu Hs. unfold find_interface, to_iface.
  set (e' := handler_env e specs).
  assert (Hok : table_ok e' (calc_imports e specs)).
  { destruct (calc_imports_ok e specs Hs) as [H1 H2]. split; assumption. }
  pose proof (to_iface_table_ok e' priv emb true (calc_imports e specs) t Hu Hok) as H.
  destruct (to_iface_gen e' priv emb true (calc_imports e specs) t) as [ms st]. cbn [snd] in *.
  apply (table_ok_active e'). assumption.
Qed.

(* the whole pipeline without the hypothesis alias_injective *)
Lemma interface_closed e local specs priv emb t rs act :
  e_unique_alias e = true -> specs_okb e specs = true ->
  find_interface e specs priv emb t = (rs, act) ->
  map rm_name rs = iface_names priv emb t /\
  alias_injective act /\ (forall i, In i act -> ~ In (i_alias i) (e_locals e)) /\
  Forall (fun m => exists m0, In m0 (all_meths t) /\ rm_name m = m_name m0 /\
            (forall a, In a (qualifiers (rmeth_expr m)) -> has_alias act a) /\
            (wf_ty (e_self e) local (meth_ty m0) ->
             denote (e_self e) local act (rmeth_expr m) = Some (erase (meth_ty m0)))) rs.
Proof.
  intros Hu Hs Hf.
  destruct (find_interface_aliases e specs priv emb t Hu Hs) as [Hinj Hloc]. rewrite Hf in Hinj, Hloc.
  cbn [snd] in *. unfold find_interface in Hf.
  destruct (to_iface (handler_env e specs) priv emb (calc_imports e specs) t) as [ms st] eqn:Ei.
  injection Hf as <- <-.
  destruct (interface_ok (handler_env e specs) local priv emb _ _ _ _ Ei) as [Hn Hall].
  split; [assumption|]. split; [assumption|]. split; [assumption|].
  eapply Forall_impl; [|exact Hall]. intros m [m0 [H1 [H2 [H3 H4]]]].
  exists m0. split; [assumption|]. split; [assumption|]. split; [assumption|]. auto.
Qed.

(* ------------------------------------------------------------------ the rule before the fix *)
(* import ("x/a/util"; "x/sib"); type Original struct{ sib.E }; func (sib.E) M(t util.T) with util
   = "x/b/util"; func (Original) Own(x util.X) with util = "x/a/util" *)
Definition ex_clash_env (unique : bool) : env :=
  Env "x/p" [("x/a/util", "util"); ("x/sib", "sib")] ["Original"] unique [].
Definition ex_clash_specs : list (string * option string) := [("x/a/util", None); ("x/sib", None)].
Definition ex_clash_tree : tree :=
  Tr (TNamed (Some ("x/p", "p")) "Original" [])
     [M "Own" [(PI "x" false false, TNamed (Some ("x/a/util", "util")) "X" [])] false [] false]
     [Tr (TNamed (Some ("x/sib", "sib")) "E" [])
         [M "M" [(PI "t" false false, TNamed (Some ("x/b/util", "util")) "T" [])] false [] false] []].

Lemma alias_orig_refuted :
  specs_okb (ex_clash_env false) ex_clash_specs = true /\
  map import_string (snd (find_interface (ex_clash_env false) ex_clash_specs false true ex_clash_tree))
    = ["""x/a/util"""; """x/sib"""; """x/b/util"""] /\
  ~ alias_injective (snd (find_interface (ex_clash_env false) ex_clash_specs false true ex_clash_tree)) /\
  map signature (fst (find_interface (ex_clash_env false) ex_clash_specs false true ex_clash_tree))
    = ["Own(x util.X) "; "M(t util.T) "] /\
  map import_string (snd (find_interface (ex_clash_env true) ex_clash_specs false true ex_clash_tree))
    = ["""x/a/util"""; """x/sib"""; "util2 ""x/b/util"""] /\
  map signature (fst (find_interface (ex_clash_env true) ex_clash_specs false true ex_clash_tree))
    = ["Own(x util.X) "; "M(t util2.T) "].
Proof.
  split; [vm_compute; reflexivity|]. split; [vm_compute; reflexivity|]. split.
  - vm_compute. intros H. inversion H as [|? ? Hx Hr]; subst. apply Hx. simpl. auto.
  - vm_compute. repeat split; reflexivity.
Qed.

(* ------------------------------------------------------------------ rendering twice *)
(* ParamsFromSignatureTuple renders the type arguments of a generic parameter type a second time
   (Param.TypeArgNames).  A type whose packages are all in use already is rendered without
   touching the table, and after a type has been rendered its packages are in use — for good. *)
Definition covered (e : env) (st : table) (pp : string * string) : Prop :=
  String.eqb (fst pp) (e_self e) = true \/ exists i, tget st (fst pp) = Some i /\ i_in_use i = true.
Definition covers (e : env) (st : table) (t : ty) : Prop := forall pp, In pp (ty_pkgs t) -> covered e st pp.

Lemma tset_same : forall st i, tget st (i_path i) = Some i -> tset st i = st.
Proof.
  induction st as [|k r IH]; intros i H; simpl in *; [discriminate|].
  destruct (String.eqb (i_path i) (i_path k)); [injection H as ->; reflexivity|]. f_equal. apply IH. assumption.
Qed.

Lemma add_named_covered e st pp : covered e st pp -> snd (add_named e st (Some pp)) = st.
Proof.
  destruct pp as [p pn]. intros [H|[i [Hg Hu]]]; unfold add_named; cbn [fst] in *.
  - rewrite H. reflexivity.
  - destruct (String.eqb p (e_self e)); [reflexivity|]. rewrite Hg. cbn [snd].
    pose proof (tget_path _ _ _ Hg) as Hp. apply tset_same. cbn [i_path].
    rewrite Hg. destruct i as [ip ia ik iu]. cbn in *. subst. reflexivity.
Qed.

Lemma covered_extends e st st' pp : extends st st' -> covered e st pp -> covered e st' pp.
Proof.
  intros Hx [H|[i [Hg Hu]]]; [left; assumption|]. right.
  destruct (Hx _ _ Hg Hu) as [i' [Hg' [Hu' _]]]. eauto.
Qed.

Lemma covered_add e st pkg pp : covered e st pp -> covered e (snd (add_named e st pkg)) pp.
Proof.
  intros H. destruct (add_named e st pkg) as [q st1] eqn:Ea.
  destruct (add_named_spec _ _ _ _ _ Ea) as [Hx _]. eapply covered_extends; eauto.
Qed.

Lemma add_named_covers e st pp : covered e (snd (add_named e st (Some pp))) pp.
Proof.
  destruct (add_named e st (Some pp)) as [q st1] eqn:Ea.
  destruct (add_named_spec _ _ _ _ _ Ea) as [_ Hq]. unfold qual_ok in Hq. destruct pp as [p pn]. unfold covered. cbn [fst snd].
  destruct (String.eqb p (e_self e)); [left; reflexivity|]. right.
  destruct Hq as [i [_ [Hg Hu]]]. eauto.
Qed.

Section Twice.
  Variable e : env.

  Definition idem (t : ty) : Prop := forall st, covers e st t -> snd (extract e st t) = st.

  Lemma extract_list_idem : forall l, Forall idem l ->
    forall st, (forall t, In t l -> covers e st t) -> snd (extract_list e st l) = st.
  Proof.
    induction l as [|t r IH]; intros Hk st Hc; simpl; [reflexivity|].
    inversion Hk as [|? ? Ht Hr]; subst.
    pose proof (Ht st (Hc t (or_introl eq_refl))) as H1.
    destruct (extract e st t) as [x s1]. cbn [snd] in H1. subst s1.
    pose proof (IH Hr st (fun u Hu => Hc u (or_intror Hu))) as H2.
    destruct (extract_list e st r) as [xr s2]. exact H2.
  Qed.

  Lemma tuple_idem : forall l, Forall (fun p : pinfo * ty => idem (snd p)) l ->
    forall st v, (forall p, In p l -> covers e st (snd p)) -> snd (params_from_tuple e st v l) = st.
  Proof.
    induction l as [|[pi t] r IH]; intros Hk st v Hc; simpl; [reflexivity|].
    inversion Hk as [|? ? Ht Hr]; subst. cbn [snd] in Ht.
    pose proof (Ht st (Hc _ (or_introl eq_refl))) as H1.
    destruct (extract e st t) as [x s1]. cbn [snd] in H1. subst s1.
    pose proof (IH Hr st v (fun u Hu => Hc u (or_intror Hu))) as H2.
    destruct (params_from_tuple e st v r) as [xr s2]. exact H2.
  Qed.

  Lemma extract_idem : forall t, idem t.
  Proof.
    induction t as [s|pkg n targs IH|y IH|y IH|k y IH|k v IHk IHv|ps v rs IHp IHr] using ty_ind';
      intros st Hc.
    - reflexivity.
    - rewrite extract_named.
      assert (H1 : snd (add_named e st pkg) = st).
      { destruct pkg as [pp|]; [|reflexivity]. apply add_named_covered. apply Hc. simpl. left. reflexivity. }
      destruct (add_named e st pkg) as [q st1]. cbn [snd] in H1. subst st1.
      pose proof (extract_list_idem targs IH st) as H2.
      destruct (extract_list e st targs) as [args st2]. apply H2.
      intros t Ht pp Hpp. apply Hc. simpl. apply in_or_app. right. apply in_flat_map. eauto.
    - simpl. specialize (IH st Hc). destruct (extract e st y). exact IH.
    - simpl. specialize (IH st Hc). destruct (extract e st y). exact IH.
    - simpl. specialize (IH st Hc). destruct (extract e st y). exact IH.
    - simpl. assert (Hk : covers e st k) by (intros pp H; apply Hc; simpl; apply in_or_app; auto).
      assert (Hv : covers e st v) by (intros pp H; apply Hc; simpl; apply in_or_app; auto).
      specialize (IHk st Hk). destruct (extract e st k) as [rk s1]. cbn [snd] in IHk. subst s1.
      specialize (IHv st Hv). destruct (extract e st v) as [rv s2]. exact IHv.
    - rewrite extract_func.
      pose proof (tuple_idem ps IHp st v) as H1.
      destruct (params_from_tuple e st v ps) as [xi s1]. cbn [snd] in H1.
      rewrite H1 in *.
      2:{ intros p Hin pp Hpp. apply Hc. simpl. apply in_or_app. left. apply in_flat_map. eauto. }
      pose proof (tuple_idem rs IHr st false) as H2.
      destruct (params_from_tuple e st false rs) as [xo s2]. cbn [snd] in H2.
      destruct (ensure_param_names (map fst ps) (map fst rs)) as [ni no]. apply H2.
      intros p Hin pp Hpp. apply Hc. simpl. apply in_or_app. right. apply in_flat_map. eauto.
  Qed.

  (* once rendered, covered *)
  Definition covered_after (t : ty) : Prop := forall st, covers e (snd (extract e st t)) t.

  Lemma keeps_covered pp t st : covered e st pp -> covered e (snd (extract e st t)) pp.
  Proof.
    apply (extract_keeps e (fun s => covered e s pp) (fun s pk => covered_add e s pk pp)).
  Qed.

  Lemma extract_list_covered : forall l, Forall covered_after l ->
    forall st t, In t l -> covers e (snd (extract_list e st l)) t.
  Proof.
    induction l as [|u r IH]; intros Hk st t Hin; [contradiction|].
    inversion Hk as [|? ? Hu Hr]; subst. simpl.
    pose proof (Hu st) as H1.
    destruct (extract e st u) as [x s1] eqn:E1. cbn [snd] in H1.
    pose proof (IH Hr s1) as H2.
    assert (K : forall pp, covered e s1 pp -> covered e (snd (extract_list e s1 r)) pp).
    { intros pp Hcv. apply (extract_list_keeps e (fun s => covered e s pp) r); [|exact Hcv].
      apply Forall_forall. intros z _ s0 Hs. apply keeps_covered. exact Hs. }
    destruct (extract_list e s1 r) as [xr s2]. cbn [snd] in *.
    destruct Hin as [<-|Hin]; [intros pp Hpp; apply K, H1; assumption|apply H2; assumption].
  Qed.

  Lemma tuple_covered : forall l, Forall (fun p : pinfo * ty => covered_after (snd p)) l ->
    forall st v p, In p l -> covers e (snd (params_from_tuple e st v l)) (snd p).
  Proof.
    induction l as [|[pi u] r IH]; intros Hk st v p Hin; [contradiction|].
    inversion Hk as [|? ? Hu Hr]; subst. cbn [snd] in Hu. simpl.
    pose proof (Hu st) as H1.
    destruct (extract e st u) as [x s1] eqn:E1. cbn [snd] in H1.
    pose proof (IH Hr s1 v) as H2.
    assert (K : forall pp, covered e s1 pp -> covered e (snd (params_from_tuple e s1 v r)) pp).
    { intros pp Hcv. apply (tuple_keeps e (fun s => covered e s pp) r); [|exact Hcv].
      apply Forall_forall. intros z _ s0 Hs. apply keeps_covered. exact Hs. }
    destruct (params_from_tuple e s1 v r) as [xr s2]. cbn [snd] in *.
    destruct Hin as [<-|Hin]; [cbn [snd]; intros pp Hpp; apply K, H1; assumption|apply H2; assumption].
  Qed.

  Lemma extract_covered : forall t, covered_after t.
  Proof.
    induction t as [s|pkg n targs IH|y IH|y IH|k y IH|k v IHk IHv|ps v rs IHp IHr] using ty_ind';
      intros st.
    - intros pp [].
    - rewrite extract_named.
      pose proof (extract_list_covered targs IH) as HL.
      destruct (add_named e st pkg) as [q st1] eqn:Ea.
      assert (K : forall pp, covered e st1 pp -> covered e (snd (extract_list e st1 targs)) pp).
      { intros pp Hcv. apply (extract_list_keeps e (fun s => covered e s pp) targs); [|exact Hcv].
        apply Forall_forall. intros z _ s0 Hs. apply keeps_covered. exact Hs. }
      specialize (HL st1).
      destruct (extract_list e st1 targs) as [args st2]. cbn [snd] in *.
      intros pp Hpp. simpl in Hpp. apply in_app_or in Hpp as [Hpp|Hpp].
      + destruct pkg as [p0|]; [|contradiction]. destruct Hpp as [<-|[]].
        apply K. pose proof (add_named_covers e st p0) as H. rewrite Ea in H. exact H.
      + apply in_flat_map in Hpp as [t [Ht Hpp]]. apply (HL t Ht). assumption.
    - simpl. specialize (IH st). destruct (extract e st y). exact IH.
    - simpl. specialize (IH st). destruct (extract e st y). exact IH.
    - simpl. specialize (IH st). destruct (extract e st y). exact IH.
    - simpl. specialize (IHk st). destruct (extract e st k) as [rk s1] eqn:Ek. cbn [snd] in IHk.
      specialize (IHv s1). pose proof (fun pp => keeps_covered pp v s1) as K.
      destruct (extract e s1 v) as [rv s2]. cbn [snd] in *.
      intros pp Hpp. simpl in Hpp. apply in_app_or in Hpp as [Hpp|Hpp]; [apply K, IHk; assumption|apply IHv; assumption].
    - rewrite extract_func.
      pose proof (tuple_covered ps IHp st v) as H1.
      destruct (params_from_tuple e st v ps) as [xi s1] eqn:E1. cbn [snd] in H1.
      pose proof (tuple_covered rs IHr s1 false) as H2.
      assert (K : forall pp, covered e s1 pp -> covered e (snd (params_from_tuple e s1 false rs)) pp).
      { intros pp Hcv. apply (tuple_keeps e (fun s => covered e s pp) rs); [|exact Hcv].
        apply Forall_forall. intros z _ s0 Hs. apply keeps_covered. exact Hs. }
      destruct (params_from_tuple e s1 false rs) as [xo s2]. cbn [snd] in *.
      destruct (ensure_param_names (map fst ps) (map fst rs)) as [ni no]. cbn [snd].
      intros pp Hpp. simpl in Hpp. apply in_app_or in Hpp as [Hpp|Hpp]; apply in_flat_map in Hpp as [p [Hp Hpp]].
      + apply K. apply (H1 p Hp). assumption.
      + apply (H2 p Hp). assumption.
  Qed.

  (* rendering a type again, right after it (or anything containing it) was rendered, changes nothing *)
  Lemma extract_again t st u : (forall pp, In pp (ty_pkgs u) -> In pp (ty_pkgs t)) ->
    snd (extract e (snd (extract e st t)) u) = snd (extract e st t).
  Proof.
    intros Hsub. apply extract_idem. intros pp Hpp. apply (extract_covered t st). apply Hsub. assumption.
  Qed.
End Twice.

(* ------------------------------------------------------------------ rendering is injective *)
(* two types that are rendered as the same reference by one handler (in whatever states, as long
   as both states are extended by one state with distinct active aliases) are the same type, up
   to the parameter names inside func types: different types never render alike *)
Lemma render_injective e local t1 t2 st1 st1' st2 st2' x st'' :
  extract e st1 t1 = (x, st1') -> extract e st2 t2 = (x, st2') ->
  extends st1' st'' -> extends st2' st'' ->
  wf_ty (e_self e) local t1 -> wf_ty (e_self e) local t2 -> alias_injective (active st'') ->
  erase t1 = erase t2.
Proof.
  intros E1 E2 X1 X2 W1 W2 Hinj.
  pose proof (typeref_denotes e local t1 st1 x st1' E1 st'' X1 W1 Hinj) as D1.
  pose proof (typeref_denotes e local t2 st2 x st2' E2 st'' X2 W2 Hinj) as D2.
  congruence.
Qed.

(* IncludePrivate adds exactly the unexported ones *)
Lemma private_adds_unexported emb t n : wf_tree t ->
  (In n (iface_names true emb t) <->
   In n (iface_names false emb t) \/ (In n (iface_names true emb t) /\ exported n = false)).
Proof.
  intros Hwf. pose proof (iface_names_private emb t n Hwf) as H.
  destruct (exported n) eqn:E; split.
  - intros Hin. left. apply H. auto.
  - intros [Hin|[Hin _]]; [apply H in Hin; tauto|assumption].
  - intros Hin. right. auto.
  - intros [Hin|[Hin _]]; [apply H in Hin as [_ Hx]; discriminate|assumption].
Qed.
