(* ProtoJudge.v — judgement of one observed run of the real gogenproto CLI (no proofs).

   A case holds the directory tree as the harness read it back from disk, the flag settings,
   the PackageNameFromPath oracle recorded per directory, and what the recording protoc stub
   saw: how many times it ran, its working directory and its raw argument strings.

   The raw strings are classified and parsed *here* ([parse_arg]): plugin output flags, -I
   include paths, M mappings per plugin, everything not starting with '-' is a file.  File
   and include paths are resolved against the stub's working directory ([to_abs]) — that is
   what protoc would do — so a harmless change of spelling (relative vs absolute file names)
   is not a difference.  The observables compared are exactly the property's: the multiset of
   files, the multiset of include paths, the multiset of (relative path, package) mappings
   per plugin, which plugins are requested, "ran exactly once".
   Other flags (--fatal_warnings, paths=source_relative, vtproto features) are not compared;
   [exact_argv] reports, for information only, whether the whole vector equals the model's.   *)
From Coq Require Import String List Bool Arith Ascii.
From GT Require Import Base.Verdict ProtoModel ProtoStrModel.
Import ListNotations.
Local Open Scope string_scope.
Local Open Scope list_scope.

(* ------------------------------------------------------------------ strings → arguments *)
Definition parse_pspec (s : string) : pspec :=
  match s with
  | String "/" _ => PAbs (split_on "/" s)
  | _ => PRel (split_on "/" s)
  end.

Definition drop (n : nat) (s : string) : string := substring n (String.length s - n) s.

Definition parse_mapping (pl : plugin) (whole rest : string) : arg :=
  match cut_eq rest with
  | Some (r, k) => AMap pl (split_on "/" r) k
  | None => AFlag whole
  end.

Definition parse_arg (cwd : path) (s : string) : arg :=
  if prefix "--go_opt=M" s then parse_mapping PGo s (drop 10 s)
  else if prefix "--go-vtproto_opt=M" s then parse_mapping PVt s (drop 18 s)
  else if prefix "--go-grpc_opt=M" s then parse_mapping PGrpc s (drop 15 s)
  else if prefix "-I=" s then AInc (to_abs cwd (parse_pspec (drop 3 s)))
  else if prefix "--proto_path=" s then AInc (to_abs cwd (parse_pspec (drop 13 s)))
  else if prefix "-I" s then AInc (to_abs cwd (parse_pspec (drop 2 s)))
  else if prefix "-" s then AFlag s
  else AFile (parse_pspec s).

(* ------------------------------------------------------------------ observables *)
Record obs : Type := {
  o_files : list path;                   (* resolved, absolute *)
  o_incs : list path;
  o_go : list (path * string);
  o_vt : list (path * string);
  o_grpc : list (path * string);
  o_req : bool * bool * bool
}.

Definition obs_of_args (cwd : path) (argv : list arg) : obs :=
  {| o_files := map (to_abs cwd) (files_of argv);
     o_incs := includes_of argv;
     o_go := mappings_of PGo argv;
     o_vt := mappings_of PVt argv;
     o_grpc := mappings_of PGrpc argv;
     o_req := (requests PGo argv, requests PVt argv, requests PGrpc argv) |}.

Definition mapping_eqb (a b : path * string) : bool :=
  path_eqb (fst a) (fst b) && String.eqb (snd a) (snd b).

Section MS.
  Context {A : Type} (eqb : A -> A -> bool).
  Definition count (x : A) (l : list A) : nat := length (filter (eqb x) l).
  Definition multiset_eqb (l1 l2 : list A) : bool :=
    Nat.eqb (length l1) (length l2)
    && forallb (fun x => Nat.eqb (count x l1) (count x l2)) l1.
End MS.

Definition req_eqb (a b : bool * bool * bool) : bool :=
  Bool.eqb (fst (fst a)) (fst (fst b)) && Bool.eqb (snd (fst a)) (snd (fst b))
  && Bool.eqb (snd a) (snd b).

Definition obs_eqb (a b : obs) : bool :=
  multiset_eqb path_eqb (o_files a) (o_files b)
  && multiset_eqb path_eqb (o_incs a) (o_incs b)
  && multiset_eqb mapping_eqb (o_go a) (o_go b)
  && multiset_eqb mapping_eqb (o_vt a) (o_vt b)
  && multiset_eqb mapping_eqb (o_grpc a) (o_grpc b)
  && req_eqb (o_req a) (o_req b).

(* ------------------------------------------------------------------ cases *)
Record pcase : Type := {
  pc_cfg : config;
  pc_gen : Generate;                     (* the command line as typed (flags after parsing) *)
  pc_oracle : list (path * string);      (* PackageNameFromPath per absolute directory *)
  pc_runs : nat;                         (* how many times the stub was executed *)
  pc_stub_cwd : path;                    (* working directory seen by the stub (last run) *)
  pc_argv : list string                  (* raw arguments seen by the stub (last run) *)
}.

Definition oracle_of (o : list (path * string)) (d : path) : result string :=
  match find (fun e => path_eqb (fst e) d) o with
  | Some e => Ok (snd e)
  | None => Err
  end.

(* protoc also accepts "-I dir" / "--proto_path dir" as two arguments: glue them first, so a
   harmless change of spelling in the tool is not a difference *)
Fixpoint merge_inc (l : list string) : list string :=
  match l with
  | a :: ((b :: rest) as tl) =>
      if String.eqb a "-I" || String.eqb a "--proto_path"
      then ("-I=" ++ b)%string :: merge_inc rest
      else a :: merge_inc tl
  | _ => l
  end.

Definition observed (c : pcase) : obs :=
  obs_of_args (pc_stub_cwd c) (map (parse_arg (pc_stub_cwd c)) (merge_inc (pc_argv c))).

(* what the property demands, from the specification objects alone *)
Definition spec_obs (c : pcase) : obs :=
  let cfg := pc_cfg c in
  let o := oracle_of (pc_oracle c) in
  {| o_files := spec_files cfg;
     o_incs := spec_includes cfg;
     o_go := spec_mappings o cfg PGo;
     o_vt := spec_mappings o cfg PVt;
     o_grpc := spec_mappings o cfg PGrpc;
     o_req := (true, c_vt cfg, c_grpc cfg) |}.

Definition spec_ok (c : pcase) : bool :=
  Nat.eqb (pc_runs c) 1 && obs_eqb (observed c) (spec_obs c).

Definition model_eq (c : pcase) : bool :=
  match run (oracle_of (pc_oracle c)) (pc_cfg c) with
  | Ok argv =>
      Nat.eqb (pc_runs c) 1 && obs_eqb (observed c) (obs_of_args (c_cwd (pc_cfg c)) argv)
  | Err => Nat.eqb (pc_runs c) 0
  end.

(* informational: the whole argument vector, in order, equals the rendered model output *)
Fixpoint strs_eqb (a b : list string) : bool :=
  match a, b with
  | [], [] => true
  | x :: a', y :: b' => String.eqb x y && strs_eqb a' b'
  | _, _ => false
  end.

(* the string-level model (ProtoStrModel.s_run, the one the translator tie is about) on the raw
   command line: same observables *)
Definition world_of (c : pcase) : world :=
  {| w_root := c_root (pc_cfg c);
     w_cwd := render_abs (c_cwd (pc_cfg c));
     w_pkg := fun s => oracle_of (pc_oracle c) (abs_segs s);
     w_exec := fun _ _ => ENil |}.

Definition str_model_eq (c : pcase) : bool :=
  match snd (s_run (world_of c) (pc_gen c)) with
  | [inv] =>
      Nat.eqb (pc_runs c) 1
      && obs_eqb (observed c)
                 (obs_of_args (c_cwd (pc_cfg c)) (map (parse_arg (c_cwd (pc_cfg c))) (merge_inc (snd inv))))
  | [] => Nat.eqb (pc_runs c) 0
  | _ => false
  end.

(* informational: the recorded vector is literally the string-level model's *)
Definition str_exact (c : pcase) : bool :=
  match snd (s_run (world_of c) (pc_gen c)) with
  | [inv] => strs_eqb (snd inv) (pc_argv c)
  | [] => Nat.eqb (pc_runs c) 0
  | _ => false
  end.

(* protoc is started in the tool's own working directory (exec.Command without Dir) *)
Definition cwd_eq (c : pcase) : bool :=
  match pc_runs c with
  | 0 => true
  | _ => path_eqb (pc_stub_cwd c) (c_cwd (pc_cfg c))
  end.

Definition proto_judge (c : pcase) : nat :=
  verdict (spec_ok c) (model_eq c && str_model_eq c && cwd_eq c).

Definition exact_argv (c : pcase) : bool :=
  match run (oracle_of (pc_oracle c)) (pc_cfg c) with
  | Ok argv => strs_eqb (map render_arg argv) (pc_argv c)
  | Err => Nat.eqb (pc_runs c) 0
  end.

(* used by the near-miss stream: 0 agrees with the model, 1 differs (never gates) *)
Definition proto_model_only (c : pcase) : nat := if model_eq c then 0 else 1.

(* which observables depart from the specification (for reports and minimisation) *)
Definition spec_diff (c : pcase) : list string :=
  let o := observed c in
  let s := spec_obs c in
  (if Nat.eqb (pc_runs c) 1 then [] else ["runs"])
  ++ (if multiset_eqb path_eqb (o_files o) (o_files s) then [] else ["files"])
  ++ (if multiset_eqb path_eqb (o_incs o) (o_incs s) then [] else ["includes"])
  ++ (if multiset_eqb mapping_eqb (o_go o) (o_go s) then [] else ["mappings_go"])
  ++ (if multiset_eqb mapping_eqb (o_vt o) (o_vt s) then [] else ["mappings_vtproto"])
  ++ (if multiset_eqb mapping_eqb (o_grpc o) (o_grpc s) then [] else ["mappings_grpc"])
  ++ (if req_eqb (o_req o) (o_req s) then [] else ["plugins"]).

(* do the hypotheses of the theorems of Props/C20.v hold of this case?  (reported as coverage) *)
Definition hyps_hold (c : pcase) : bool :=
  wf_nodeb (c_root (pc_cfg c)) && dirs_okb (pc_cfg c) && tree_agreesb (c_root (pc_cfg c)).
(* one number per case for the evidence: 1 tree is a file system | 2 directories exist |
   4 the scan is right about every proto | 8 exact argv = structured model | 16 = string model *)
Definition case_bits (c : pcase) : nat :=
  (if wf_nodeb (c_root (pc_cfg c)) then 1 else 0) + (if dirs_okb (pc_cfg c) then 2 else 0)
  + (if tree_agreesb (c_root (pc_cfg c)) then 4 else 0).
Definition exact_and_hyps (c : pcase) : bool := exact_argv c && hyps_hold c.

(* verdict and the differing observables in one number, for reports and minimisation:
   verdict + 4 * (1 runs | 2 files | 4 includes | 8 go mappings | 16 vtproto mappings
                  | 32 grpc mappings | 64 plugins)                                            *)
Definition spec_diff_bits (c : pcase) : nat :=
  let o := observed c in
  let s := spec_obs c in
  (if Nat.eqb (pc_runs c) 1 then 0 else 1)
  + (if multiset_eqb path_eqb (o_files o) (o_files s) then 0 else 2)
  + (if multiset_eqb path_eqb (o_incs o) (o_incs s) then 0 else 4)
  + (if multiset_eqb mapping_eqb (o_go o) (o_go s) then 0 else 8)
  + (if multiset_eqb mapping_eqb (o_vt o) (o_vt s) then 0 else 16)
  + (if multiset_eqb mapping_eqb (o_grpc o) (o_grpc s) then 0 else 32)
  + (if req_eqb (o_req o) (o_req s) then 0 else 64).

(* everything the driver wants to know about a case in one number (never 0):
   1 + domain bits (1 wf, 2 dirs, 4 scan agrees) + 8 exact argv (structured model)
     + 16 exact argv (string model) + 32 * proto_judge_sig *)
Definition proto_case_info_with (sig : nat) (c : pcase) : nat :=
  1 + case_bits c + (if exact_argv c then 8 else 0) + (if str_exact c then 16 else 0) + 32 * sig.

Definition proto_judge_sig (c : pcase) : nat :=
  match proto_judge c with
  | 0 => 0
  | k => k + 4 * spec_diff_bits c
  end.

Definition proto_case_info (c : pcase) : nat := proto_case_info_with (proto_judge_sig c) c.

(* ------------------------------------------------------------------ the byte scanner alone *)
(* one run of protoFileHasGoPackage on a file with the given content (scan stream of the check:
   exhaustive over short fragment sequences, fragments inserted into the gaps of a declaration,
   random longer ones) — the tie of ProtoLex.scan_go_package to declaresGoPackage *)
Record scase : Type := {
  sc_content : string;
  sc_got : bool;        (* what the function returned *)
  sc_err : bool         (* it returned an error *)
}.

Definition scan_judge (c : scase) : nat :=
  verdict (negb (sc_err c) && Bool.eqb (sc_got c) (declares_go_package (sc_content c)))
          (negb (sc_err c) && Bool.eqb (sc_got c) (scan_go_package (sc_content c))).

(* coverage: the content declares the option *)
Definition scan_declares (c : scase) : bool := declares_go_package (sc_content c).
