(* GenDetProofs.v — lemmas about GenDetModel.v: the tables the generators hand to their templates
   do not depend on map iteration order (`pi`, any permutation) nor on what the unstable sorts do
   with ties (`srt`, any correct sort).  Property theorems are restated in Props/C14.v.

   Plan: (1) generic facts (permutation-invariance of filter / commutative folds, uniqueness of
   the sorted arrangement when ties only occur between equal elements, first-match lookups);
   (2) gsort; (3) genum; (4) gencommon imports; (5) gerror; (6) the hypotheses are satisfiable
   (str_lt is a strict weak order, isort is a sort_ok function). *)
From Coq Require Import List Bool ZArith String Ascii Lia Permutation Sorted.
From GT Require Import GSortModel GSortProofs GenDetModel Base.SortU.
Import ListNotations.

(* ------------------------------------------------------------------------------------
   1. Generic facts                                                                      *)

Lemma str_compare_refl : forall a, String.compare a a = Eq.
Proof.
  induction a as [|c a IH]; [reflexivity|].
  cbn [String.compare]. unfold Ascii.compare. rewrite N.compare_refl. exact IH.
Qed.

Lemma str_lt_irrefl : forall a, str_lt a a = false.
Proof. intros a. unfold str_lt, String.ltb. rewrite str_compare_refl. reflexivity. Qed.

Lemma str_lt_total : forall a b, str_lt a b = false -> str_lt b a = false -> a = b.
Proof.
  intros a b H1 H2. unfold str_lt, String.ltb in *.
  rewrite String.compare_antisym in H2.
  destruct (String.compare a b) eqn:E.
  - apply String.compare_eq_iff. exact E.
  - discriminate H1.
  - cbn [CompOpp] in H2. discriminate H2.
Qed.

Lemma filter_perm : forall A (f : A -> bool) l l',
  Permutation l l' -> Permutation (filter f l) (filter f l').
Proof.
  intros A f l l' HP. induction HP as [|x l1 l2 _ IH|x y l|l1 l2 l3 _ IH1 _ IH2].
  - apply perm_nil.
  - cbn [filter]. destruct (f x); [apply perm_skip|]; exact IH.
  - cbn [filter]. destruct (f x), (f y); try apply Permutation_refl. apply perm_swap.
  - eapply perm_trans; [exact IH1|exact IH2].
Qed.

Lemma fold_left_perm_comm : forall A B (f : B -> A -> B),
  (forall b x y, f (f b x) y = f (f b y) x) ->
  forall l l', Permutation l l' -> forall b, fold_left f l b = fold_left f l' b.
Proof.
  intros A B f Hc l l' HP. induction HP as [|x l1 l2 _ IH|x y l|l1 l2 l3 _ IH1 _ IH2]; intros b.
  - reflexivity.
  - cbn [fold_left]. apply IH.
  - cbn [fold_left]. rewrite Hc. reflexivity.
  - rewrite IH1. apply IH2.
Qed.

Lemma sort_choice_unique : forall A (lt : A -> A -> bool) srt srt' l l',
  sort_ok lt srt -> sort_ok lt srt' -> Permutation l l' ->
  (forall a b, In a l -> In b l -> lt a b = false -> lt b a = false -> a = b) ->
  srt l = srt' l'.
Proof.
  intros A lt srt srt' l l' H1 H2 HP Hanti.
  destruct (H1 l) as [P1 S1]. destruct (H2 l') as [P2 S2].
  apply (sorted_perm_unique_lt lt).
  - eapply perm_trans; [exact P1|]. eapply perm_trans; [exact HP|]. apply Permutation_sym, P2.
  - intros a b Ha Hb. apply Hanti; eapply Permutation_in; try exact P1; assumption.
  - exact S1.
  - exact S2.
Qed.

Lemma nodup_key_inj : forall A B (f : A -> B) l a b,
  NoDup (map f l) -> In a l -> In b l -> f a = f b -> a = b.
Proof.
  intros A B f. induction l as [|x r IH]; intros a b ND Ha Hb E; [destruct Ha|].
  cbn [map] in ND. inversion ND as [|? ? Hnin ND']; subst.
  destruct Ha as [->|Ha], Hb as [->|Hb].
  - reflexivity.
  - exfalso. apply Hnin. rewrite E. apply in_map, Hb.
  - exfalso. apply Hnin. rewrite <- E. apply in_map, Ha.
  - apply IH; assumption.
Qed.

(* a sort on keys that are pairwise distinct has one possible outcome *)
Lemma sort_by_key_unique : forall A B (key : A -> B) (lt : A -> A -> bool) srt srt' l l',
  sort_ok lt srt -> sort_ok lt srt' -> Permutation l l' -> NoDup (map key l) ->
  (forall a b, lt a b = false -> lt b a = false -> key a = key b) ->
  srt l = srt' l'.
Proof.
  intros A B key lt srt srt' l l' H1 H2 HP ND Htie.
  apply (sort_choice_unique A lt); try assumption.
  intros a b Ha Hb E1 E2. apply (nodup_key_inj A B key l); try assumption.
  apply Htie; assumption.
Qed.

(* the same, speaking only about the two outputs for the list at hand (no assumption on what the
   sort routine does on other lists) *)
Definition sorts_list {A} (lt : A -> A -> bool) (l out : list A) : Prop :=
  Permutation out l /\ sorted lt out.

Lemma sort_ok_sorts_list : forall A (lt : A -> A -> bool) srt l,
  sort_ok lt srt -> sorts_list lt l (srt l).
Proof. intros A lt srt l H. exact (H l). Qed.

Lemma sorts_list_unique : forall A (lt : A -> A -> bool) l out out',
  sorts_list lt l out -> sorts_list lt l out' ->
  (forall a b, In a l -> In b l -> lt a b = false -> lt b a = false -> a = b) ->
  out = out'.
Proof.
  intros A lt l out out' [P1 S1] [P2 S2] Hanti.
  apply (sorted_perm_unique_lt lt); try assumption.
  - eapply perm_trans; [exact P1|apply Permutation_sym, P2].
  - intros a b Ha Hb. apply Hanti; eapply Permutation_in; try exact P1; assumption.
Qed.

Lemma sorts_list_key_unique : forall A B (key : A -> B) (lt : A -> A -> bool) l out out',
  sorts_list lt l out -> sorts_list lt l out' -> NoDup (map key l) ->
  (forall a b, lt a b = false -> lt b a = false -> key a = key b) ->
  out = out'.
Proof.
  intros A B key lt l out out' H1 H2 ND Htie.
  apply (sorts_list_unique A lt l); try assumption.
  intros a b Ha Hb E1 E2. apply (nodup_key_inj A B key l); try assumption.
  apply Htie; assumption.
Qed.

Lemma find_perm_unique : forall A (p : A -> bool) l l',
  Permutation l l' ->
  (forall x y, In x l -> In y l -> p x = true -> p y = true -> x = y) ->
  find p l = find p l'.
Proof.
  intros A p l l' HP Hu.
  destruct (find p l) as [x|] eqn:E1.
  - apply find_some in E1. destruct E1 as [Hx Px].
    destruct (find p l') as [y|] eqn:E2.
    + apply find_some in E2. destruct E2 as [Hy Py]. f_equal. apply Hu; try assumption.
      apply (Permutation_in _ (Permutation_sym HP)). exact Hy.
    + exfalso. pose proof (find_none p l' E2 x (Permutation_in _ HP Hx)) as H.
      rewrite Px in H. discriminate.
  - destruct (find p l') as [y|] eqn:E2; [|reflexivity].
    apply find_some in E2. destruct E2 as [Hy Py]. exfalso.
    pose proof (find_none p l E1 y (Permutation_in _ (Permutation_sym HP) Hy)) as H.
    rewrite Py in H. discriminate.
Qed.

Lemma lookup_first_indep : forall A (p : A -> bool) m pi pi',
  iter_ok pi -> iter_ok pi' ->
  (forall x y, In x m -> In y m -> p x = true -> p y = true -> x = y) ->
  lookup_first pi p m = lookup_first pi' p m.
Proof.
  intros A p m pi pi' H1 H2 Hu. unfold lookup_first. apply find_perm_unique.
  - eapply perm_trans; [apply H1|apply Permutation_sym, H2].
  - intros x y Hx Hy. apply Hu; eapply Permutation_in; try apply H1; assumption.
Qed.

Lemma iter_perm : forall A (pi pi' : list A -> list A) m,
  iter_ok pi -> iter_ok pi' -> Permutation (pi m) (pi' m).
Proof.
  intros A pi pi' m H1 H2. eapply perm_trans; [apply H1|apply Permutation_sym, H2].
Qed.

(* ------------------------------------------------------------------------------------
   2. gsort                                                                              *)

Lemma upsert_type : forall ty fd descs,
  (forall d, In d descs -> sd_type d = ty) ->
  forall d, In d (upsert ty fd descs) -> sd_type d = ty.
Proof.
  intros ty fd. induction descs as [|e r IH]; intros H d Hin.
  - cbn [upsert In] in Hin. destruct Hin as [<-|[]]. reflexivity.
  - cbn [upsert] in Hin. destruct (String.eqb (sd_sorter e) (sf_sorter fd)).
    + destruct Hin as [<-|Hin].
      * cbn [sd_type]. apply H. left. reflexivity.
      * apply H. right. exact Hin.
    + destruct Hin as [<-|Hin].
      * apply H. left. reflexivity.
      * apply IH; [|exact Hin]. intros d' Hd'. apply H. right. exact Hd'.
Qed.

Lemma collect_type : forall ty fs d, In d (collect ty fs) -> sd_type d = ty.
Proof.
  intros ty fs. unfold collect.
  assert (G : forall L acc, (forall d, In d acc -> sd_type d = ty) ->
              forall d, In d (fold_left (fun descs fd => upsert ty fd descs) L acc) ->
                        sd_type d = ty).
  { induction L as [|x L IH]; intros acc H d Hin; cbn [fold_left] in Hin.
    - apply H, Hin.
    - apply (IH (upsert ty x acc)); [|exact Hin]. apply upsert_type. exact H. }
  apply G. intros d [].
Qed.

Lemma desc_lt_tie : forall a b, desc_lt a b = false -> desc_lt b a = false ->
  sd_type a = sd_type b /\ sd_sorter a = sd_sorter b.
Proof.
  intros a b H1 H2. unfold desc_lt in *.
  rewrite (String.eqb_sym (sd_type b) (sd_type a)) in H2.
  destruct (String.eqb (sd_type a) (sd_type b)) eqn:E.
  - apply String.eqb_eq in E. split; [exact E|]. apply str_lt_total; assumption.
  - exfalso. apply String.eqb_neq in E. apply E. apply str_lt_total; assumption.
Qed.

Lemma collect_nodup : forall ty fs, NoDup (map sd_sorter (collect ty fs)).
Proof. intros ty fs. unfold collect. apply collect_names_nodup. Qed.

(* both runs fail together; when they succeed the collected descs are permutations of each
   other and every desc stems from one of the listed types *)
Lemma gsort_collect_rel : forall pis pis',
  (forall n, iter_ok (pis n)) -> (forall n, iter_ok (pis' n)) ->
  forall types n n',
  match gsort_collect pis n types, gsort_collect pis' n' types with
  | Some l, Some l' =>
      Permutation l l' /\
      (forall d, In d l -> exists ty fs, In (ty, fs) types /\ In d (collect ty fs))
  | None, None => True
  | _, _ => False
  end.
Proof.
  intros pis pis' H1 H2. induction types as [|[ty fs] r IH]; intros n n'.
  - cbn [gsort_collect]. split; [apply perm_nil|]. intros d [].
  - cbn [gsort_collect]. unfold gsort_type_descs.
    destruct (forallb (fun d => validate (sd_fields d)) (collect ty fs)); [|exact I].
    destruct (forms_ok (collect ty fs)); [|exact I].
    specialize (IH (S n) (S n')).
    destruct (gsort_collect pis (S n) r) as [l|], (gsort_collect pis' (S n') r) as [l'|];
      try exact IH.
    destruct IH as [HP Hmem]. split.
    + apply Permutation_app; [|exact HP]. apply iter_perm; [apply H1|apply H2].
    + intros d Hin. apply in_app_or in Hin. destruct Hin as [Hin|Hin].
      * exists ty, fs. split; [left; reflexivity|].
        eapply Permutation_in; [apply H1|exact Hin].
      * destruct (Hmem d Hin) as [ty' [fs' [Ht Hd]]]. exists ty', fs'.
        split; [right; exact Ht|exact Hd].
Qed.

Lemma gsort_indep : forall types,
  (forall t f1 f2, In (t, f1) types -> In (t, f2) types -> f1 = f2) ->
  forall pis pis' srt srt',
  (forall n, iter_ok (pis n)) -> (forall n, iter_ok (pis' n)) ->
  sort_ok desc_lt srt -> sort_ok desc_lt srt' ->
  gsort_tables pis srt types = gsort_tables pis' srt' types.
Proof.
  intros types Hfun pis pis' srt srt' H1 H2 S1 S2. unfold gsort_tables.
  pose proof (gsort_collect_rel pis pis' H1 H2 types 0 0) as R.
  destruct (gsort_collect pis 0 types) as [l|], (gsort_collect pis' 0 types) as [l'|];
    try (exfalso; exact R); [|reflexivity].
  destruct R as [HP Hmem]. f_equal.
  apply (sort_choice_unique _ desc_lt); try assumption.
  intros a b Ha Hb E1 E2.
  destruct (desc_lt_tie a b E1 E2) as [Et Es].
  destruct (Hmem a Ha) as [ta [fa [Hta Hda]]].
  destruct (Hmem b Hb) as [tb [fb [Htb Hdb]]].
  pose proof (collect_type _ _ _ Hda) as Ta. pose proof (collect_type _ _ _ Hdb) as Tb.
  assert (Eab : tb = ta) by congruence. rewrite Eab in Htb, Hdb.
  assert (fb = fa) by (apply (Hfun ta); assumption). subst fb.
  apply (nodup_key_inj _ _ sd_sorter (collect ta fa)); try assumption.
  apply collect_nodup.
Qed.

(* ------------------------------------------------------------------------------------
   3. genum                                                                              *)

Lemma filter_comm : forall A (f g : A -> bool) l,
  filter f (filter g l) = filter g (filter f l).
Proof.
  intros A f g. induction l as [|x r IH]; [reflexivity|].
  cbn [filter]. destruct (g x) eqn:Eg, (f x) eqn:Ef; cbn [filter];
    rewrite ?Eg, ?Ef, IH; reflexivity.
Qed.

Lemma strip_comm : forall p1 p2 td, strip p1 (strip p2 td) = strip p2 (strip p1 td).
Proof.
  intros p1 p2 td. unfold strip. cbn [td_name td_typeref td_parsable td_insts].
  f_equal. apply filter_comm.
Qed.

Lemma apply_group_comm : forall g1 g2 tr,
  apply_group g1 (apply_group g2 tr) = apply_group g2 (apply_group g1 tr).
Proof.
  intros g1 g2 tr. unfold apply_group.
  destruct (get_primary (snd g1)) as [[p1 [|]]|]; destruct (get_primary (snd g2)) as [[p2 [|]]|];
    try reflexivity.
  rewrite !map_map. apply map_ext. intros td. apply strip_comm.
Qed.

Lemma dups_fold_indep : forall pi pi' vals traits,
  iter_ok pi -> iter_ok pi' ->
  fold_left (fun tr g => apply_group g tr) (pi (groups vals)) traits =
  fold_left (fun tr g => apply_group g tr) (pi' (groups vals)) traits.
Proof.
  intros pi pi' vals traits H1 H2. apply fold_left_perm_comm.
  - intros b x y. apply apply_group_comm.
  - apply iter_perm; assumption.
Qed.

Lemma process_dups_fixed_sort : forall pi pi' srt vals traits,
  iter_ok pi -> iter_ok pi' ->
  process_dups pi srt vals traits = process_dups pi' srt vals traits.
Proof.
  intros pi pi' srt vals traits H1 H2. unfold process_dups. f_equal.
  apply dups_fold_indep; assumption.
Qed.

Lemma apply_group_names : forall g tr, map td_name (apply_group g tr) = map td_name tr.
Proof.
  intros g tr. unfold apply_group.
  destruct (get_primary (snd g)) as [[p [|]]|]; try reflexivity.
  rewrite map_map. apply map_ext. intros td. reflexivity.
Qed.

Lemma dups_fold_names : forall gs tr,
  map td_name (fold_left (fun tr g => apply_group g tr) gs tr) = map td_name tr.
Proof.
  induction gs as [|g gs IH]; intros tr; cbn [fold_left]; [reflexivity|].
  rewrite IH. apply apply_group_names.
Qed.

Lemma trait_lt_tie : forall a b, trait_lt a b = false -> trait_lt b a = false ->
  td_name a = td_name b.
Proof. intros a b. unfold trait_lt. apply str_lt_total. Qed.

Lemma process_dups_indep : forall pi pi' srt srt' vals traits,
  iter_ok pi -> iter_ok pi' -> sort_ok trait_lt srt -> sort_ok trait_lt srt' ->
  NoDup (map td_name traits) ->
  process_dups pi srt vals traits = process_dups pi' srt' vals traits.
Proof.
  intros pi pi' srt srt' vals traits H1 H2 S1 S2 ND. unfold process_dups.
  rewrite (dups_fold_indep pi pi' vals traits H1 H2).
  apply (sort_by_key_unique _ _ td_name trait_lt); try assumption.
  - apply Permutation_refl.
  - rewrite dups_fold_names. exact ND.
  - exact trait_lt_tie.
Qed.

Lemma value_lt_tie : forall a b, value_lt a b = false -> value_lt b a = false ->
  ev_name a = ev_name b.
Proof.
  intros a b H1 H2. unfold value_lt in *.
  rewrite (orb_comm (ev_signed b) (ev_signed a)) in H2.
  destruct (ev_signed a || ev_signed b).
  - rewrite (Z.eqb_sym (as_int64 (ev_value b))) in H2.
    destruct (as_int64 (ev_value a) =? as_int64 (ev_value b))%Z eqn:E.
    + apply str_lt_total; assumption.
    + exfalso. apply Z.eqb_neq in E. apply Z.ltb_ge in H1, H2. lia.
  - rewrite (Z.eqb_sym (ev_value b)) in H2.
    destruct (ev_value a =? ev_value b)%Z eqn:E.
    + apply str_lt_total; assumption.
    + exfalso. apply Z.eqb_neq in E. apply Z.ltb_ge in H1, H2. lia.
Qed.

Lemma genum_values_indep : forall srt srt' vals,
  NoDup (map ev_name vals) -> sort_ok value_lt srt -> sort_ok value_lt srt' ->
  genum_values srt vals = genum_values srt' vals.
Proof.
  intros srt srt' vals ND S1 S2. unfold genum_values.
  apply (sort_by_key_unique _ _ ev_name value_lt); try assumption.
  - apply Permutation_refl.
  - exact value_lt_tie.
Qed.

Lemma genum_insts_indep : forall (srt srt' : list tinst -> list tinst) insts,
  NoDup (map (fun t => ev_name (ti_owner t)) insts) ->
  sort_ok inst_lt srt -> sort_ok inst_lt srt' ->
  srt insts = srt' insts.
Proof.
  intros srt srt' insts ND S1 S2.
  apply (sort_by_key_unique _ _ (fun t => ev_name (ti_owner t)) inst_lt); try assumption.
  - apply Permutation_refl.
  - intros a b. unfold inst_lt. apply value_lt_tie.
Qed.

(* Value.Less compares as int64 as soon as ONE side is signed, as uint64 otherwise.  With values
   of mixed signedness this is not an order (a 3-cycle below), no arrangement of such a list is
   sorted, and so NO function satisfies `sort_ok value_lt` on all lists: the two statements
   above are about an empty set of sort functions.  The statements that carry content speak
   about the outputs for the list at hand only (`sorts_list`); for lists of one signedness
   (all values of one enum type) such outputs exist (section 6). *)
Lemma genum_values_indep_local : forall vals out out',
  NoDup (map ev_name vals) ->
  sorts_list value_lt vals out -> sorts_list value_lt vals out' -> out = out'.
Proof.
  intros vals out out' ND H1 H2.
  apply (sorts_list_key_unique _ _ ev_name value_lt vals); try assumption.
  exact value_lt_tie.
Qed.

Lemma genum_insts_indep_local : forall insts out out',
  NoDup (map (fun t => ev_name (ti_owner t)) insts) ->
  sorts_list inst_lt insts out -> sorts_list inst_lt insts out' -> out = out'.
Proof.
  intros insts out out' ND H1 H2.
  apply (sorts_list_key_unique _ _ (fun t => ev_name (ti_owner t)) inst_lt insts);
    try assumption.
  intros a b. unfold inst_lt. apply value_lt_tie.
Qed.

Definition mx_a : evalue :=
  {| ev_name := "A"; ev_value := 18446744073709551615; ev_signed := true; ev_depr := false |}.
Definition mx_b : evalue :=
  {| ev_name := "B"; ev_value := 9223372036854775808; ev_signed := false; ev_depr := false |}.
Definition mx_c : evalue :=
  {| ev_name := "C"; ev_value := 5; ev_signed := false; ev_depr := false |}.

Lemma value_lt_mixed_cycle :
  value_lt mx_b mx_a = true /\ value_lt mx_a mx_c = true /\ value_lt mx_c mx_b = true.
Proof. vm_compute. repeat split. Qed.

Lemma sort_ok_value_lt_unsat : forall srt, ~ sort_ok value_lt srt.
Proof.
  intros srt H. destruct (H [mx_a; mx_b; mx_c]) as [P S].
  pose proof (Permutation_length P) as HL. cbn [length] in HL.
  destruct (srt [mx_a; mx_b; mx_c]) as [|x [|y [|z [|w r]]]]; try discriminate HL.
  assert (Hx : In x [mx_a; mx_b; mx_c]) by (eapply Permutation_in; [exact P|left; reflexivity]).
  assert (Hy : In y [mx_a; mx_b; mx_c])
    by (eapply Permutation_in; [exact P|right; left; reflexivity]).
  assert (Hz : In z [mx_a; mx_b; mx_c])
    by (eapply Permutation_in; [exact P|right; right; left; reflexivity]).
  assert (ND : NoDup [x; y; z]).
  { apply (Permutation_NoDup (Permutation_sym P)).
    repeat constructor; cbn [In]; intros K; repeat destruct K as [K|K]; try discriminate K;
      exact K. }
  assert (Nxy : x <> y).
  { intros ->. inversion ND as [|? ? N _]. apply N. left. reflexivity. }
  assert (Nxz : x <> z).
  { intros ->. inversion ND as [|? ? N _]. apply N. right. left. reflexivity. }
  assert (Nyz : y <> z).
  { intros ->. inversion ND as [|? ? _ ND']. inversion ND' as [|? ? N _]. apply N. left.
    reflexivity. }
  apply sorted_cons_iff in S. destruct S as [S Fx].
  apply sorted_cons_iff in S. destruct S as [_ Fy].
  rewrite Forall_forall in Fx, Fy.
  pose proof (Fx y (or_introl eq_refl)) as Lyx.
  pose proof (Fx z (or_intror (or_introl eq_refl))) as Lzx.
  pose proof (Fy z (or_introl eq_refl)) as Lzy.
  clear - Hx Hy Hz Nxy Nxz Nyz Lyx Lzx Lzy.
  destruct Hx as [<-|[<-|[<-|[]]]]; destruct Hy as [<-|[<-|[<-|[]]]];
    destruct Hz as [<-|[<-|[<-|[]]]];
    first [ congruence | vm_compute in Lyx; discriminate Lyx
          | vm_compute in Lzx; discriminate Lzx | vm_compute in Lzy; discriminate Lzy ].
Qed.

(* the warnings on stderr (not part of the generated file) do depend on the map order *)
Definition wv (n : string) (z : Z) : evalue :=
  {| ev_name := n; ev_value := z; ev_signed := false; ev_depr := false |}.
Definition warn_vals : list evalue :=
  [wv "A1" 1; wv "A2" 1; wv "B1" 2; wv "B2" 2]%string.

Lemma iter_ok_id : forall A, iter_ok (fun l : list A => l).
Proof. intros A m. apply Permutation_refl. Qed.
Lemma iter_ok_rev : forall A, iter_ok (@rev A).
Proof. intros A m. apply Permutation_sym, Permutation_rev. Qed.

Lemma warning_order_is_choice :
  exists pi pi' vals, iter_ok pi /\ iter_ok pi' /\ dup_warnings pi vals <> dup_warnings pi' vals.
Proof.
  exists (fun l => l), (@rev _), warn_vals.
  split; [apply iter_ok_id|]. split; [apply iter_ok_rev|].
  vm_compute. discriminate.
Qed.

(* ------------------------------------------------------------------------------------
   4. gencommon imports                                                                  *)

Definition imap_inv (m : imap) : Prop :=
  NoDup (map fst m) /\ forall k v, In (k, v) m -> im_path v = k.

Lemma imap_set_keys : forall k v m x,
  In x (map fst (imap_set k v m)) -> x = k \/ In x (map fst m).
Proof.
  intros k v. induction m as [|[k' v'] r IH]; intros x Hin.
  - cbn [imap_set map fst In] in Hin. destruct Hin as [<-|[]]. left. reflexivity.
  - cbn [imap_set] in Hin. destruct (String.eqb k' k) eqn:E.
    + apply String.eqb_eq in E. subst k'. right. exact Hin.
    + cbn [map fst In] in Hin. destruct Hin as [<-|Hin].
      * right. left. reflexivity.
      * destruct (IH x Hin) as [->|H]; [left; reflexivity|right; right; exact H].
Qed.

Lemma imap_set_in : forall k v m k1 v1,
  In (k1, v1) (imap_set k v m) -> (k1, v1) = (k, v) \/ In (k1, v1) m.
Proof.
  intros k v. induction m as [|[k' v'] r IH]; intros k1 v1 Hin.
  - cbn [imap_set In] in Hin. destruct Hin as [<-|[]]. left. reflexivity.
  - cbn [imap_set] in Hin. destruct (String.eqb k' k).
    + destruct Hin as [<-|Hin]; [left; reflexivity|right; right; exact Hin].
    + destruct Hin as [<-|Hin]; [right; left; reflexivity|].
      destruct (IH k1 v1 Hin) as [H|H]; [left; exact H|right; right; exact H].
Qed.

Lemma imap_set_nodup : forall k v m, NoDup (map fst m) -> NoDup (map fst (imap_set k v m)).
Proof.
  intros k v. induction m as [|[k' v'] r IH]; intros ND.
  - cbn [imap_set map fst]. constructor; [intros []|constructor].
  - cbn [map fst] in ND. inversion ND as [|? ? Hnin ND']; subst.
    cbn [imap_set]. destruct (String.eqb k' k) eqn:E.
    + apply String.eqb_eq in E. subst k'. cbn [map fst]. constructor; assumption.
    + cbn [map fst]. constructor; [|apply IH, ND'].
      intros Hin. apply imap_set_keys in Hin. destruct Hin as [->|Hin].
      * rewrite String.eqb_refl in E. discriminate.
      * apply Hnin, Hin.
Qed.

Lemma imap_set_inv : forall k v m, imap_inv m -> im_path v = k -> imap_inv (imap_set k v m).
Proof.
  intros k v m [ND Hp] Hv. split.
  - apply imap_set_nodup, ND.
  - intros k1 v1 Hin. apply imap_set_in in Hin. destruct Hin as [E|Hin].
    + injection E as -> ->. exact Hv.
    + apply Hp, Hin.
Qed.

Lemma imap_inv_nil : imap_inv [].
Proof. split; [constructor|intros k v []]. Qed.

Lemma calc_handler_inv : forall specs, imap_inv (ih_imports (calc_handler specs)).
Proof.
  intros specs. unfold calc_handler.
  assert (G : forall L h, imap_inv (ih_imports h) -> imap_inv (ih_imports (fold_left calc_step L h))).
  { induction L as [|[[path alias] ispkg] L IH]; intros h Hh; cbn [fold_left]; [exact Hh|].
    apply IH. cbn [calc_step ih_imports]. apply imap_set_inv; [exact Hh|reflexivity]. }
  apply G. cbn [ih_imports]. apply imap_inv_nil.
Qed.

Lemma imap_get_in : forall k m d, imap_get k m = Some d -> In (k, d) m.
Proof.
  intros k. induction m as [|[k' v'] r IH]; intros d H; [discriminate|].
  cbn [imap_get] in H. destruct (String.eqb k' k) eqn:E.
  - apply String.eqb_eq in E. injection H as ->. subst k'. left. reflexivity.
  - right. apply IH, H.
Qed.

Lemma add_named_inv : forall path name ispkg m,
  imap_inv m -> imap_inv (add_named path name ispkg m).
Proof.
  intros path name ispkg m Hm. unfold add_named.
  destruct (imap_get path m) as [d|] eqn:E.
  - apply imap_set_inv; [exact Hm|]. cbn [im_path]. apply imap_get_in in E.
    destruct Hm as [_ Hp]. apply Hp, E.
  - apply imap_set_inv; [exact Hm|reflexivity].
Qed.

(* sort.Slice less of GetActive: PkgPath, then Alias *)
Lemma import_lt_tie : forall a b, import_lt a b = false -> import_lt b a = false ->
  im_path a = im_path b /\ im_alias a = im_alias b.
Proof.
  intros a b H1 H2. unfold import_lt in *.
  rewrite (String.eqb_sym (im_path b) (im_path a)) in H2.
  destruct (String.eqb (im_path a) (im_path b)) eqn:E.
  - apply String.eqb_eq in E. split; [exact E|]. apply str_lt_total; assumption.
  - exfalso. apply String.eqb_neq in E. apply E. apply str_lt_total; assumption.
Qed.

Lemma filter_map_nodup : forall A B (key : A -> B) (f : A -> bool) l,
  NoDup (map key l) -> NoDup (map key (filter f l)).
Proof.
  intros A B key f. induction l as [|x r IH]; intros ND; [constructor|].
  cbn [map] in ND. inversion ND as [|? ? Hnin ND']; subst.
  cbn [filter]. destruct (f x); [|apply IH, ND'].
  cbn [map]. constructor; [|apply IH, ND'].
  intros Hin. apply Hnin. apply in_map_iff in Hin. destruct Hin as [y [Ey Hy]].
  apply filter_In in Hy. destruct Hy as [Hy _]. rewrite <- Ey. apply in_map, Hy.
Qed.

(* --- UseName: flag writes through the map, in map order ---------------------------------- *)

(* a write to a key the map has, keys pairwise distinct: replace that entry in place *)
Definition set_entry (k : string) (v : import_desc) (e : string * import_desc)
  : string * import_desc := if String.eqb (fst e) k then (k, v) else e.

Lemma set_entry_notin : forall k v r, ~ In k (map fst r) -> map (set_entry k v) r = r.
Proof.
  intros k v. induction r as [|e r IH]; intros H; [reflexivity|].
  cbn [map]. rewrite IH; [|intros K; apply H; right; exact K].
  unfold set_entry. destruct (String.eqb (fst e) k) eqn:E; [|reflexivity].
  exfalso. apply H. left. apply String.eqb_eq. exact E.
Qed.

Lemma imap_set_as_map : forall k v m,
  NoDup (map fst m) -> In k (map fst m) -> imap_set k v m = map (set_entry k v) m.
Proof.
  intros k v. induction m as [|[k' v0] r IH]; intros ND Hin; [destruct Hin|].
  cbn [map fst] in ND. inversion ND as [|? ? Hnin ND']; subst.
  cbn [imap_set map]. unfold set_entry at 1. cbn [fst].
  destruct (String.eqb k' k) eqn:E.
  - apply String.eqb_eq in E. subst k'. rewrite set_entry_notin; [reflexivity|exact Hnin].
  - f_equal. apply IH; [exact ND'|]. destruct Hin as [Hin|Hin]; [|exact Hin].
    cbn [fst] in Hin. subst k'. rewrite String.eqb_refl in E. discriminate.
Qed.

Lemma set_entry_keys : forall k v m, map fst (map (set_entry k v) m) = map fst m.
Proof.
  intros k v m. rewrite map_map. apply map_ext. intros e. unfold set_entry.
  destruct (String.eqb (fst e) k) eqn:E; [|reflexivity].
  apply String.eqb_eq in E. cbn [fst]. symmetry. exact E.
Qed.

Lemma set_entry_comm : forall k1 v1 k2 v2 e, k1 <> k2 ->
  set_entry k1 v1 (set_entry k2 v2 e) = set_entry k2 v2 (set_entry k1 v1 e).
Proof.
  intros k1 v1 k2 v2 e Hne. unfold set_entry.
  destruct (String.eqb (fst e) k2) eqn:E2, (String.eqb (fst e) k1) eqn:E1; cbn [fst];
    rewrite ?E1, ?E2, ?String.eqb_refl.
  - apply String.eqb_eq in E1, E2. exfalso. apply Hne. congruence.
  - destruct (String.eqb k2 k1) eqn:E; [|reflexivity].
    apply String.eqb_eq in E. exfalso. apply Hne. symmetry. exact E.
  - destruct (String.eqb k1 k2) eqn:E; [|reflexivity].
    apply String.eqb_eq in E. exfalso. apply Hne. exact E.
  - reflexivity.
Qed.

(* the loop body of UseName *)
Definition use_step (name : string) (m : imap) (kv : string * import_desc) : imap :=
  if String.eqb (im_alias (snd kv)) name then imap_set (fst kv) (mark_used (snd kv)) m else m.
(* its net effect on one entry *)
Definition use_entry (name : string) (kv : string * import_desc) : string * import_desc :=
  (fst kv, if String.eqb (im_alias (snd kv)) name then mark_used (snd kv) else snd kv).

(* a fold whose steps commute on the states that can arise does not depend on the order *)
Lemma fold_left_perm_inv : forall A B (f : B -> A -> B) (P : B -> Prop) (l : list A),
  (forall b x, P b -> In x l -> P (f b x)) ->
  (forall b x y, P b -> In x l -> In y l -> f (f b x) y = f (f b y) x) ->
  forall l1 l2, Permutation l1 l2 -> (forall x, In x l1 -> In x l) ->
  forall b, P b -> fold_left f l1 b = fold_left f l2 b.
Proof.
  intros A B f P l Hp Hc l1 l2 HP.
  induction HP as [|x l1 l2 HP IH|x y l0|l1 l2 l3 HP1 IH1 HP2 IH2]; intros Hin b Hb.
  - reflexivity.
  - cbn [fold_left]. apply IH.
    + intros z Hz. apply Hin. right. exact Hz.
    + apply Hp; [exact Hb|apply Hin; left; reflexivity].
  - cbn [fold_left]. rewrite Hc; [reflexivity|exact Hb| |].
    + apply Hin. left. reflexivity.
    + apply Hin. right. left. reflexivity.
  - rewrite IH1; [|exact Hin|exact Hb]. apply IH2; [|exact Hb].
    intros z Hz. apply Hin. apply (Permutation_in _ (Permutation_sym HP1)). exact Hz.
Qed.

Lemma use_step_keys : forall name m0 b x,
  NoDup (map fst m0) -> map fst b = map fst m0 -> In x m0 ->
  map fst (use_step name b x) = map fst m0.
Proof.
  intros name m0 b x ND Hb Hx. unfold use_step.
  destruct (String.eqb (im_alias (snd x)) name); [|exact Hb].
  rewrite imap_set_as_map.
  - rewrite set_entry_keys. exact Hb.
  - rewrite Hb. exact ND.
  - rewrite Hb. apply in_map, Hx.
Qed.

Lemma use_step_comm : forall name m0 b x y,
  NoDup (map fst m0) -> map fst b = map fst m0 -> In x m0 -> In y m0 ->
  use_step name (use_step name b x) y = use_step name (use_step name b y) x.
Proof.
  intros name m0 b x y ND Hb Hx Hy.
  destruct (String.eqb (fst x) (fst y)) eqn:E.
  - apply String.eqb_eq in E.
    assert (x = y) by (apply (nodup_key_inj _ _ fst m0); assumption). subst y. reflexivity.
  - apply String.eqb_neq in E.
    pose proof (use_step_keys name m0 b x ND Hb Hx) as Kx.
    pose proof (use_step_keys name m0 b y ND Hb Hy) as Ky.
    unfold use_step in *.
    destruct (String.eqb (im_alias (snd x)) name), (String.eqb (im_alias (snd y)) name);
      try reflexivity.
    assert (NDb : NoDup (map fst b)) by (rewrite Hb; exact ND).
    assert (Ix : In (fst x) (map fst b)) by (rewrite Hb; apply in_map, Hx).
    assert (Iy : In (fst y) (map fst b)) by (rewrite Hb; apply in_map, Hy).
    rewrite (imap_set_as_map (fst x) _ b NDb Ix) in *.
    rewrite (imap_set_as_map (fst y) _ b NDb Iy) in *.
    rewrite imap_set_as_map; [|rewrite Kx; exact ND|rewrite Kx; apply in_map, Hy].
    rewrite imap_set_as_map; [|rewrite Ky; exact ND|rewrite Ky; apply in_map, Hx].
    rewrite !map_map. apply map_ext. intros e. apply set_entry_comm.
    intros K. apply E. symmetry. exact K.
Qed.

Lemma imap_set_skip : forall k v v0 P r, ~ In k (map fst P) ->
  imap_set k v (P ++ (k, v0) :: r) = P ++ (k, v) :: r.
Proof.
  intros k v v0. induction P as [|[k' v'] P IH]; intros r H.
  - cbn [app imap_set]. rewrite String.eqb_refl. reflexivity.
  - cbn [app imap_set]. destruct (String.eqb k' k) eqn:E.
    + exfalso. apply H. left. apply String.eqb_eq. exact E.
    + f_equal. apply IH. intros K. apply H. right. exact K.
Qed.

(* in the map's own order: entry after entry *)
Lemma use_fold_self : forall name L P, NoDup (map fst (P ++ L)) ->
  fold_left (use_step name) L (P ++ L) = P ++ map (use_entry name) L.
Proof.
  intros name. induction L as [|[k v] L IH]; intros P ND; [reflexivity|].
  cbn [fold_left map].
  assert (Hk : ~ In k (map fst P)).
  { rewrite map_app in ND. cbn [map fst] in ND. apply NoDup_remove_2 in ND.
    intros K. apply ND. apply in_or_app. left. exact K. }
  assert (E : use_step name (P ++ (k, v) :: L) (k, v) = (P ++ [use_entry name (k, v)]) ++ L).
  { unfold use_step, use_entry. cbn [fst snd]. rewrite <- app_assoc. cbn [app].
    destruct (String.eqb (im_alias v) name); [|reflexivity].
    apply imap_set_skip. exact Hk. }
  rewrite E. rewrite IH.
  - rewrite <- app_assoc. reflexivity.
  - rewrite <- app_assoc. cbn [app]. rewrite map_app in *. cbn [map] in *. exact ND.
Qed.

Lemma use_fold_canon : forall pi name m, NoDup (map fst m) -> iter_ok pi ->
  fold_left (use_step name) (pi m) m = map (use_entry name) m.
Proof.
  intros pi name m ND Hpi.
  rewrite (fold_left_perm_inv _ _ (use_step name) (fun b => map fst b = map fst m) m) with (l2 := m).
  - apply (use_fold_self name m []). exact ND.
  - intros b x Hb Hx. apply use_step_keys; assumption.
  - intros b x y Hb Hx Hy. apply (use_step_comm name m); assumption.
  - apply Hpi.
  - intros x Hx. apply (Permutation_in _ (Hpi m)). exact Hx.
  - reflexivity.
Qed.

Lemma use_name_canon : forall pi name h, imap_inv (ih_imports h) -> iter_ok pi ->
  ih_imports (use_name pi name h) =
  map (fun kv => (fst kv, if String.eqb (im_alias (snd kv)) name then mark_used (snd kv)
                          else snd kv)) (ih_imports h).
Proof.
  intros pi name h [ND _] Hpi. unfold use_name. cbn [ih_imports].
  exact (use_fold_canon pi name (ih_imports h) ND Hpi).
Qed.

Lemma use_name_indep : forall pi pi' name h, imap_inv (ih_imports h) -> iter_ok pi ->
  iter_ok pi' -> use_name pi name h = use_name pi' name h.
Proof.
  intros pi pi' name h Hh H1 H2.
  pose proof (use_name_canon pi name h Hh H1) as E1.
  pose proof (use_name_canon pi' name h Hh H2) as E2.
  unfold use_name in *. cbn [ih_imports] in E1, E2. rewrite E1, E2. reflexivity.
Qed.

Lemma use_name_inv : forall pi name h, imap_inv (ih_imports h) -> iter_ok pi ->
  imap_inv (ih_imports (use_name pi name h)).
Proof.
  intros pi name h Hh Hpi. rewrite (use_name_canon pi name h Hh Hpi).
  destruct Hh as [ND Hp]. split.
  - rewrite map_map. cbn [fst]. exact ND.
  - intros k v Hin. apply in_map_iff in Hin. destruct Hin as [[k0 v0] [E Hin]].
    cbn [fst snd] in E. injection E as <- <-. specialize (Hp k0 v0 Hin).
    destruct (String.eqb (im_alias v0) name); [|exact Hp]. cbn [mark_used im_path]. exact Hp.
Qed.

(* --- GetActive ---------------------------------------------------------------------------- *)

Lemma get_active_indep : forall h,
  (forall a b, In a (map snd (ih_imports h) ++ ih_shadowed h) ->
               In b (map snd (ih_imports h) ++ ih_shadowed h) ->
               im_path a = im_path b -> im_alias a = im_alias b -> a = b) ->
  forall pi pi' srt srt', iter_ok pi -> iter_ok pi' ->
  sort_ok import_lt srt -> sort_ok import_lt srt' ->
  get_active pi srt h = get_active pi' srt' h.
Proof.
  intros h Hu pi pi' srt srt' H1 H2 S1 S2. unfold get_active.
  apply (sort_choice_unique _ import_lt); try assumption.
  - apply Permutation_app_tail, filter_perm, Permutation_map, iter_perm; assumption.
  - assert (M : forall a, In a (filter im_inuse (map snd (pi (ih_imports h))) ++
                               filter im_inuse (ih_shadowed h)) ->
                          In a (map snd (ih_imports h) ++ ih_shadowed h)).
    { intros a Ha. apply in_app_or in Ha. apply in_or_app. destruct Ha as [Ha|Ha].
      - left. apply filter_In in Ha. destruct Ha as [Ha _].
        apply (Permutation_in _ (Permutation_map snd (H1 (ih_imports h)))). exact Ha.
      - right. apply filter_In in Ha. apply Ha. }
    intros a b Ha Hb E1 E2. destruct (import_lt_tie a b E1 E2) as [Ep Ea].
    apply Hu; try assumption; apply M; assumption.
Qed.

Lemma get_active_indep_nodup : forall h,
  NoDup (map (fun d => (im_path d, im_alias d)) (map snd (ih_imports h) ++ ih_shadowed h)) ->
  forall pi pi' srt srt', iter_ok pi -> iter_ok pi' ->
  sort_ok import_lt srt -> sort_ok import_lt srt' ->
  get_active pi srt h = get_active pi' srt' h.
Proof.
  intros h ND. apply get_active_indep. intros a b Ha Hb Ep Ea.
  apply (nodup_key_inj _ _ (fun d => (im_path d, im_alias d))
           (map snd (ih_imports h) ++ ih_shadowed h)); try assumption.
  cbn beta. rewrite Ep, Ea. reflexivity.
Qed.

(* ------------------------------------------------------------------------------------
   5. gerror                                                                             *)

Lemma efield_lt_tie : forall a b, efield_lt a b = false -> efield_lt b a = false ->
  ef_name a = ef_name b.
Proof. intros a b. unfold efield_lt. apply str_lt_total. Qed.

Lemma gerror_fields_indep : forall srt srt' fs,
  NoDup (map ef_name fs) -> sort_ok efield_lt srt -> sort_ok efield_lt srt' ->
  gerror_fields srt fs = gerror_fields srt' fs.
Proof.
  intros srt srt' fs ND S1 S2. unfold gerror_fields.
  apply (sort_by_key_unique _ _ ef_name efield_lt); try assumption.
  - apply Permutation_refl.
  - exact efield_lt_tie.
Qed.

Lemma gerror_filtered_indep : forall (f : efield -> bool) srt srt' srt2 srt2' fs,
  NoDup (map ef_name fs) ->
  sort_ok efield_lt srt -> sort_ok efield_lt srt' ->
  sort_ok efield_lt srt2 -> sort_ok efield_lt srt2' ->
  srt2 (filter f (gerror_fields srt fs)) = srt2' (filter f (gerror_fields srt' fs)).
Proof.
  intros f srt srt' srt2 srt2' fs ND S1 S2 T1 T2.
  rewrite (gerror_fields_indep srt srt' fs ND S1 S2).
  apply (sort_by_key_unique _ _ ef_name efield_lt); try assumption.
  - apply Permutation_refl.
  - apply filter_map_nodup. unfold gerror_fields.
    apply (Permutation_NoDup (l := map ef_name fs)); [|exact ND].
    apply Permutation_map, Permutation_sym. apply (proj1 (S2 fs)).
  - exact efield_lt_tie.
Qed.

Lemma fields_to_print_indep : forall srt srt' srt2 srt2' fs,
  NoDup (map ef_name fs) ->
  sort_ok efield_lt srt -> sort_ok efield_lt srt' ->
  sort_ok efield_lt srt2 -> sort_ok efield_lt srt2' ->
  fields_to_print srt srt2 fs = fields_to_print srt' srt2' fs.
Proof. intros. unfold fields_to_print. apply gerror_filtered_indep; assumption. Qed.

Lemma fields_to_clone_indep : forall srt srt' srt2 srt2' fs,
  NoDup (map ef_name fs) ->
  sort_ok efield_lt srt -> sort_ok efield_lt srt' ->
  sort_ok efield_lt srt2 -> sort_ok efield_lt srt2' ->
  fields_to_clone srt srt2 fs = fields_to_clone srt' srt2' fs.
Proof. intros. unfold fields_to_clone. apply gerror_filtered_indep; assumption. Qed.

(* ------------------------------------------------------------------------------------
   5b. gencommon Interface.Methods (promoted embedded methods appended in map order)     *)

Lemma method_lt_tie : forall a b, method_lt a b = false -> method_lt b a = false ->
  gm_exported a = gm_exported b /\ gm_name a = gm_name b.
Proof.
  intros a b H1 H2. unfold method_lt in *.
  destruct (gm_exported a), (gm_exported b); cbn [Bool.eqb negb andb] in *;
    try discriminate H1; try discriminate H2;
    (split; [reflexivity|apply str_lt_total; assumption]).
Qed.

Lemma iface_methods_perm : forall pi pi' promoted own to_add,
  iter_ok pi -> iter_ok pi' ->
  Permutation (iface_methods pi promoted own to_add) (iface_methods pi' promoted own to_add).
Proof.
  intros pi pi' promoted own to_add H1 H2. unfold iface_methods.
  apply Permutation_app_head, Permutation_map, filter_perm, iter_perm; assumption.
Qed.

(* dropping entries of the appended part keeps the keys pairwise distinct *)
Lemma app_filter_nodup : forall A B C (g : B -> C) (q : A * B -> bool) l1 (X : list (A * B)),
  NoDup (map g (l1 ++ map snd X)) -> NoDup (map g (l1 ++ map snd (filter q X))).
Proof.
  intros A B C g q. induction l1 as [|x l1 IH]; intros X ND.
  - cbn [app] in *. rewrite map_map in *.
    apply (filter_map_nodup _ _ (fun kv => g (snd kv))). exact ND.
  - cbn [app map] in *. inversion ND as [|? ? Hnin ND']; subst. constructor; [|apply IH, ND'].
    intros Hin. apply Hnin. rewrite map_app, in_app_iff in *.
    destruct Hin as [Hin|Hin]; [left; exact Hin|right].
    apply in_map_iff in Hin. destruct Hin as [y [Ey Hy]].
    apply in_map_iff in Hy. destruct Hy as [kv [Ekv Hkv]].
    apply filter_In in Hkv. destruct Hkv as [Hkv _].
    rewrite <- Ey, <- Ekv. apply in_map, in_map, Hkv.
Qed.

Lemma iface_methods_nodup : forall pi promoted own to_add,
  iter_ok pi -> NoDup (map gm_name (own ++ map snd to_add)) ->
  NoDup (map gm_name (iface_methods pi promoted own to_add)).
Proof.
  intros pi promoted own to_add H ND. unfold iface_methods. apply app_filter_nodup.
  apply (Permutation_NoDup (l := map gm_name (own ++ map snd to_add))); [|exact ND].
  apply Permutation_map, Permutation_app_head, Permutation_map, Permutation_sym, H.
Qed.

Lemma iface_methods_sorted_indep : forall pi pi' srt srt' promoted own to_add,
  iter_ok pi -> iter_ok pi' -> sort_ok method_lt srt -> sort_ok method_lt srt' ->
  NoDup (map gm_name (own ++ map snd to_add)) ->
  srt (iface_methods pi promoted own to_add) = srt' (iface_methods pi' promoted own to_add).
Proof.
  intros pi pi' srt srt' promoted own to_add H1 H2 S1 S2 ND.
  apply (sort_by_key_unique _ _ gm_name method_lt); try assumption.
  - apply iface_methods_perm; assumption.
  - apply iface_methods_nodup; assumption.
  - intros a b E1 E2. apply (method_lt_tie a b E1 E2).
Qed.

Lemma comment_of_perm : forall name ms ms',
  Permutation ms ms' -> NoDup (map gm_name ms) -> comment_of name ms = comment_of name ms'.
Proof.
  intros name ms ms' HP ND. unfold comment_of. f_equal. apply find_perm_unique.
  - eapply perm_trans; [apply Permutation_sym, Permutation_rev|].
    eapply perm_trans; [exact HP|apply Permutation_rev].
  - intros x y Hx Hy Px Py. apply in_rev in Hx, Hy.
    apply String.eqb_eq in Px, Py.
    apply (nodup_key_inj _ _ gm_name ms); try assumption. congruence.
Qed.

Lemma iface_comment_indep : forall name pi pi' promoted own to_add,
  iter_ok pi -> iter_ok pi' -> NoDup (map gm_name (own ++ map snd to_add)) ->
  comment_of name (iface_methods pi promoted own to_add) =
  comment_of name (iface_methods pi' promoted own to_add).
Proof.
  intros name pi pi' promoted own to_add H1 H2 ND. apply comment_of_perm.
  - apply iface_methods_perm; assumption.
  - apply iface_methods_nodup; assumption.
Qed.

(* ------------------------------------------------------------------------------------
   6. The hypotheses are satisfiable: str_lt is a strict (total) order, insertion sort is a
      sort_ok function for every strict weak order                                        *)

Lemma ascii_compare_refl : forall c, Ascii.compare c c = Eq.
Proof. intros c. unfold Ascii.compare. apply N.compare_refl. Qed.

Lemma ascii_compare_lt_trans : forall a b c,
  Ascii.compare a b = Lt -> Ascii.compare b c = Lt -> Ascii.compare a c = Lt.
Proof.
  intros a b c. unfold Ascii.compare. rewrite !N.compare_lt_iff. apply N.lt_trans.
Qed.

Lemma str_compare_lt_trans : forall a b c,
  String.compare a b = Lt -> String.compare b c = Lt -> String.compare a c = Lt.
Proof.
  induction a as [|x a IH]; intros [|y b] [|z c] H1 H2; cbn [String.compare] in *;
    try discriminate; try reflexivity.
  destruct (Ascii.compare x y) eqn:E1; try discriminate;
    destruct (Ascii.compare y z) eqn:E2; try discriminate.
  - apply Ascii.compare_eq_iff in E1, E2. subst y z. rewrite ascii_compare_refl.
    apply IH with b; assumption.
  - apply Ascii.compare_eq_iff in E1. subst y. rewrite E2. reflexivity.
  - apply Ascii.compare_eq_iff in E2. subst z. rewrite E1. reflexivity.
  - rewrite (ascii_compare_lt_trans x y z E1 E2). reflexivity.
Qed.

Lemma str_lt_swo : swo str_lt.
Proof.
  constructor.
  - apply str_lt_irrefl.
  - intros a b c. unfold str_lt, String.ltb.
    destruct (String.compare a b) eqn:E1; try discriminate.
    destruct (String.compare b c) eqn:E2; try discriminate.
    rewrite (str_compare_lt_trans a b c E1 E2). reflexivity.
  - intros a b c H1 H2. apply eqv_true_iff in H1, H2.
    destruct H1 as [A1 A2]. destruct H2 as [B1 B2].
    assert (a = b) by (apply str_lt_total; assumption).
    assert (b = c) by (apply str_lt_total; assumption). subst b c.
    apply eqv_true_iff. split; apply str_lt_irrefl.
Qed.

Lemma isort_sort_ok : forall A (lt : A -> A -> bool), swo lt -> sort_ok lt (isort lt).
Proof.
  intros A lt H l. split; [apply isort_perm|apply isort_sorted, H].
Qed.

Lemma trait_lt_swo : swo trait_lt.
Proof. exact (swo_proj td_name str_lt str_lt_swo). Qed.
Lemma efield_lt_swo : swo efield_lt.
Proof. exact (swo_proj ef_name str_lt str_lt_swo). Qed.

Lemma desc_lt_swo : swo desc_lt.
Proof.
  constructor.
  - intros a. unfold desc_lt. rewrite String.eqb_refl. apply str_lt_irrefl.
  - intros a b c. unfold desc_lt.
    destruct (String.eqb (sd_type a) (sd_type b)) eqn:E1.
    + apply String.eqb_eq in E1. rewrite E1.
      destruct (String.eqb (sd_type b) (sd_type c)); [|intros _ H; exact H].
      apply (swo_trans _ str_lt_swo).
    + destruct (String.eqb (sd_type b) (sd_type c)) eqn:E2.
      * apply String.eqb_eq in E2. rewrite <- E2, E1. intros H _. exact H.
      * intros H1 H2. pose proof (swo_trans _ str_lt_swo _ _ _ H1 H2) as H3.
        destruct (String.eqb (sd_type a) (sd_type c)) eqn:E3; [|exact H3].
        apply String.eqb_eq in E3. rewrite E3 in H3. rewrite str_lt_irrefl in H3. discriminate.
  - intros a b c H1 H2. apply eqv_true_iff in H1, H2.
    destruct H1 as [A1 A2]. destruct H2 as [B1 B2].
    destruct (desc_lt_tie a b A1 A2) as [Ta Sa]. destruct (desc_lt_tie b c B1 B2) as [Tb Sb].
    apply eqv_true_iff. unfold desc_lt. rewrite <- Tb, <- Ta, <- Sb, <- Sa.
    rewrite String.eqb_refl. split; apply str_lt_irrefl.
Qed.

Lemma import_lt_swo : swo import_lt.
Proof.
  constructor.
  - intros a. unfold import_lt. rewrite String.eqb_refl. apply str_lt_irrefl.
  - intros a b c. unfold import_lt.
    destruct (String.eqb (im_path a) (im_path b)) eqn:E1.
    + apply String.eqb_eq in E1. rewrite E1.
      destruct (String.eqb (im_path b) (im_path c)); [|intros _ H; exact H].
      apply (swo_trans _ str_lt_swo).
    + destruct (String.eqb (im_path b) (im_path c)) eqn:E2.
      * apply String.eqb_eq in E2. rewrite <- E2, E1. intros H _. exact H.
      * intros H1 H2. pose proof (swo_trans _ str_lt_swo _ _ _ H1 H2) as H3.
        destruct (String.eqb (im_path a) (im_path c)) eqn:E3; [|exact H3].
        apply String.eqb_eq in E3. rewrite E3 in H3. rewrite str_lt_irrefl in H3. discriminate.
  - intros a b c H1 H2. apply eqv_true_iff in H1, H2.
    destruct H1 as [A1 A2]. destruct H2 as [B1 B2].
    destruct (import_lt_tie a b A1 A2) as [Pa Aa]. destruct (import_lt_tie b c B1 B2) as [Pb Ab].
    apply eqv_true_iff. unfold import_lt. rewrite <- Pb, <- Pa, <- Ab, <- Aa.
    rewrite String.eqb_refl. split; apply str_lt_irrefl.
Qed.

Lemma sort_ok_trait : sort_ok trait_lt (isort trait_lt).
Proof. apply isort_sort_ok, trait_lt_swo. Qed.
Lemma sort_ok_import : sort_ok import_lt (isort import_lt).
Proof. apply isort_sort_ok, import_lt_swo. Qed.
Lemma sort_ok_efield : sort_ok efield_lt (isort efield_lt).
Proof. apply isort_sort_ok, efield_lt_swo. Qed.
Lemma sort_ok_desc : sort_ok desc_lt (isort desc_lt).
Proof. apply isort_sort_ok, desc_lt_swo. Qed.

(* genum: Value.Less restricted to values of one signedness is a lexicographic order on
   (numeric key, name), and insertion sort by value_lt sorts every such list *)
Definition zs_lt {A} (k : A -> Z) (n : A -> string) (a b : A) : bool :=
  if (k a =? k b)%Z then str_lt (n a) (n b) else (k a <? k b)%Z.

Lemma zs_lt_tie : forall A (k : A -> Z) (n : A -> string) a b,
  zs_lt k n a b = false -> zs_lt k n b a = false -> k a = k b /\ n a = n b.
Proof.
  intros A k n a b H1 H2. unfold zs_lt in *. rewrite (Z.eqb_sym (k b)) in H2.
  destruct (k a =? k b)%Z eqn:E.
  - apply Z.eqb_eq in E. split; [exact E|]. apply str_lt_total; assumption.
  - exfalso. apply Z.eqb_neq in E. apply Z.ltb_ge in H1, H2. lia.
Qed.

Lemma zs_lt_swo : forall A (k : A -> Z) (n : A -> string), swo (zs_lt k n).
Proof.
  intros A k n. constructor.
  - intros a. unfold zs_lt. rewrite Z.eqb_refl. apply str_lt_irrefl.
  - intros a b c H1 H2. unfold zs_lt in *.
    destruct (Z.eqb_spec (k a) (k b)) as [E1|E1], (Z.eqb_spec (k b) (k c)) as [E2|E2],
             (Z.eqb_spec (k a) (k c)) as [E3|E3];
      try (apply Z.ltb_lt in H1); try (apply Z.ltb_lt in H2); try lia;
      try (apply Z.ltb_lt; lia).
    apply (swo_trans _ str_lt_swo) with (n b); assumption.
  - intros a b c H1 H2. apply eqv_true_iff in H1, H2.
    destruct H1 as [A1 A2]. destruct H2 as [B1 B2].
    destruct (zs_lt_tie _ k n a b A1 A2) as [Ka Na].
    destruct (zs_lt_tie _ k n b c B1 B2) as [Kb Nb].
    apply eqv_true_iff. unfold zs_lt. rewrite <- Kb, <- Ka, <- Nb, <- Na.
    rewrite Z.eqb_refl. split; apply str_lt_irrefl.
Qed.

Lemma insert_ext_in : forall A (lt lt' : A -> A -> bool) x l,
  (forall y, In y l -> lt y x = lt' y x) -> insert lt x l = insert lt' x l.
Proof.
  intros A lt lt' x. induction l as [|y r IH]; intros H; [reflexivity|].
  cbn [insert]. rewrite <- (H y (or_introl eq_refl)).
  rewrite IH; [reflexivity|]. intros z Hz. apply H. right. exact Hz.
Qed.

Lemma isort_ext_in : forall A (lt lt' : A -> A -> bool) l,
  (forall a b, In a l -> In b l -> lt a b = lt' a b) -> isort lt l = isort lt' l.
Proof.
  intros A lt lt'. induction l as [|x l IH]; intros H; [reflexivity|].
  rewrite !isort_cons. rewrite IH.
  - apply insert_ext_in. intros y Hy. apply isort_in in Hy.
    apply H; [right; exact Hy|left; reflexivity].
  - intros a b Ha Hb. apply H; right; assumption.
Qed.

Lemma sorted_ext_in : forall A (lt lt' : A -> A -> bool) l,
  (forall a b, In a l -> In b l -> lt a b = lt' a b) -> sorted lt' l -> sorted lt l.
Proof.
  intros A lt lt'. induction l as [|x l IH]; intros H S; [apply sorted_nil|].
  apply sorted_cons_iff in S. destruct S as [S F]. apply sorted_cons_iff. split.
  - apply IH; [|exact S]. intros a b Ha Hb. apply H; right; assumption.
  - rewrite Forall_forall in *. intros b Hb. rewrite H; [apply F, Hb|right; exact Hb|].
    left. reflexivity.
Qed.

Lemma isort_sorts_on : forall A (lt lt' : A -> A -> bool) l,
  swo lt' -> (forall a b, In a l -> In b l -> lt a b = lt' a b) ->
  sorts_list lt l (isort lt l).
Proof.
  intros A lt lt' l Hs H. split; [apply isort_perm|].
  rewrite (isort_ext_in A lt lt' l H).
  apply (sorted_ext_in A lt lt').
  - intros a b Ha Hb. apply isort_in in Ha, Hb. apply H; assumption.
  - apply isort_sorted, Hs.
Qed.

Definition vkey (sg : bool) (v : evalue) : Z :=
  if sg then as_int64 (ev_value v) else ev_value v.

Lemma value_lt_uniform : forall sg a b, ev_signed a = sg -> ev_signed b = sg ->
  value_lt a b = zs_lt (vkey sg) ev_name a b.
Proof.
  intros sg a b Ha Hb. unfold value_lt, zs_lt, vkey. rewrite Ha, Hb.
  destruct sg; reflexivity.
Qed.

Lemma value_lt_sorts_uniform : forall sg vals,
  (forall v, In v vals -> ev_signed v = sg) ->
  sorts_list value_lt vals (isort value_lt vals).
Proof.
  intros sg vals H. apply (isort_sorts_on _ value_lt (zs_lt (vkey sg) ev_name)).
  - apply zs_lt_swo.
  - intros a b Ha Hb. apply value_lt_uniform; apply H; assumption.
Qed.

Lemma inst_lt_sorts_uniform : forall sg insts,
  (forall t, In t insts -> ev_signed (ti_owner t) = sg) ->
  sorts_list inst_lt insts (isort inst_lt insts).
Proof.
  intros sg insts H.
  apply (isort_sorts_on _ inst_lt
           (zs_lt (fun t => vkey sg (ti_owner t)) (fun t => ev_name (ti_owner t)))).
  - apply zs_lt_swo.
  - intros a b Ha Hb. unfold inst_lt.
    rewrite (value_lt_uniform sg); [reflexivity|apply H; assumption|apply H; assumption].
Qed.

Lemma imap_inv_unfold : forall m,
  imap_inv m <-> (NoDup (map fst m) /\ forall k v, In (k, v) m -> im_path v = k).
Proof. intros m. unfold imap_inv. split; intros H; exact H. Qed.

(* generated Methods.Less: bool (false before true), then name *)
Lemma method_lt_swo : swo method_lt.
Proof.
  constructor.
  - intros a. unfold method_lt. rewrite Bool.eqb_reflx. apply str_lt_irrefl.
  - intros a b c. unfold method_lt.
    destruct (gm_exported a), (gm_exported b), (gm_exported c); cbn [Bool.eqb negb andb];
      intros H1 H2; try discriminate H1; try discriminate H2; try reflexivity;
      exact (swo_trans _ str_lt_swo _ _ _ H1 H2).
  - intros a b c H1 H2. apply eqv_true_iff in H1, H2.
    destruct H1 as [A1 A2]. destruct H2 as [B1 B2].
    destruct (method_lt_tie a b A1 A2) as [Xa Na]. destruct (method_lt_tie b c B1 B2) as [Xb Nb].
    apply eqv_true_iff. unfold method_lt. rewrite <- Xb, <- Xa, <- Nb, <- Na.
    rewrite Bool.eqb_reflx. split; apply str_lt_irrefl.
Qed.
Lemma sort_ok_method : sort_ok method_lt (isort method_lt).
Proof. apply isort_sort_ok, method_lt_swo. Qed.

(* ------------------------------------------------------------------ unusedName *)
Lemma existsb_perm : forall A (f : A -> bool) l l', Permutation l l' -> existsb f l = existsb f l'.
Proof.
  intros A f l l' P. induction P; cbn [existsb].
  - reflexivity.
  - rewrite IHP. reflexivity.
  - destruct (f x), (f y); reflexivity.
  - rewrite IHP1. exact IHP2.
Qed.

Theorem name_bound_indep : forall pi pi' scope cand h, iter_ok pi -> iter_ok pi' ->
  name_bound pi scope cand h = name_bound pi' scope cand h.
Proof.
  intros pi pi' scope cand h Hp Hp'. unfold name_bound.
  rewrite (existsb_perm _ _ _ _ (Hp (ih_imports h))).
  rewrite (existsb_perm _ _ _ _ (Hp' (ih_imports h))). reflexivity.
Qed.

Theorem unused_name_indep : forall itoa pis pis' scope name h fuel,
  (forall n, iter_ok (pis n)) -> (forall n, iter_ok (pis' n)) ->
  unused_name itoa pis scope name h fuel = unused_name itoa pis' scope name h fuel.
Proof.
  intros itoa pis pis' scope name h fuel Hp Hp'. unfold unused_name.
  rewrite (name_bound_indep (pis 1) (pis' 1) scope name h (Hp 1) (Hp' 1)).
  destruct (name_bound (pis' 1) scope name h); [|reflexivity].
  generalize 2. induction fuel as [|f IH]; intros n; cbn [unused_from]; [reflexivity|].
  rewrite (name_bound_indep (pis n) (pis' n) scope _ h (Hp n) (Hp' n)).
  destruct (name_bound (pis' n) scope _ h); [apply IH|reflexivity].
Qed.
