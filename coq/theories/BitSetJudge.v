(* BitSetJudge.v — judgement of observed BitSet behaviour (no proofs). *)
From Coq Require Import NArith List Bool.
From GT Require Import Base.Verdict BitSetModel.
Import ListNotations.

Definition obs_eqb (a b : list (N * bool)) : bool :=
  Nat.eqb (length a) (length b) &&
  forallb (fun p => N.eqb (fst (fst p)) (fst (snd p)) && Bool.eqb (snd (fst p)) (snd (snd p)))
          (combine a b).

(* a case: initial bits, operation sequence, (bits, bool) observed after every operation *)
Record bs_case := { bc_init : N; bc_ops : list bs_op; bc_obs : list (N * bool) }.

Definition bs_judge (c : bs_case) : nat :=
  verdict (obs_eqb (bc_obs c) (spec_run (bc_init c) (bc_ops c)))
          (obs_eqb (bc_obs c) (bs_run (bc_init c) (bc_ops c))).
