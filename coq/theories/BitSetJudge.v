(* BitSetJudge.v — judgement of observed BitSet behaviour (no proofs). *)
From Coq Require Import NArith List Bool.
From GT Require Import Base.Verdict BitSetModel.
Import ListNotations.

Definition obs_eqb (a b : list (N * bool)) : bool :=
  Nat.eqb (length a) (length b) &&
  forallb (fun p => N.eqb (fst (fst p)) (fst (snd p)) && Bool.eqb (snd (fst p)) (snd (snd p)))
          (combine a b).

(* a case: initial bits, operation sequence, (bits, bool) observed after every operation *)
Record bs_case := { bc_init : N; bc_ops : list bs_op; bc_obs : list (N * bool) }.

Definition bs_judge (c : bs_case) : nat :=
  verdict (obs_eqb (bc_obs c) (spec_run (bc_init c) (bc_ops c)))
          (obs_eqb (bc_obs c) (bs_run (bc_init c) (bc_ops c))).

(* ---- exhaustive (set, flag, flag) triples of the 8-bit type, compared through a checksum ----
   For a stored value s the harness folds the outcomes of Add(f, g) and Remove(f, g) from
   state s over all 65536 (f, g) into one number; the same fold over the model and over the
   spec is computed here.  A differing checksum is localised by the driver with a detailed run. *)
Local Open Scope N_scope.
Definition cks (h v : N) : N := (h * 1000003 + v) mod 2147483647.
Definition b2n (b : bool) : N := if b then 1 else 0.
Definition triple_val (step : N -> bs_op -> N * bool) (s f g : N) : N :=
  let a := step s (BAdd [f; g]) in
  let r := step s (BRemove [f; g]) in
  fst a + 256 * fst r + 65536 * b2n (snd a) + 131072 * b2n (snd r).
Definition range256 : list N := map N.of_nat (seq 0 256).
Definition triple_sum (step : N -> bs_op -> N * bool) (s : N) : N :=
  fold_left (fun h f => fold_left (fun h g => cks h (triple_val step s f g)) range256 h) range256 0.

Record tri_case := { tc_s : N; tc_sum : N }.
Definition tri_judge (c : tri_case) : nat :=
  verdict (N.eqb (tc_sum c) (triple_sum spec_step (tc_s c)))
          (N.eqb (tc_sum c) (triple_sum bs_step (tc_s c))).
