(* GT.Base.SortU: sorting with respect to a boolean strict weak order.

   Generic facts used by the sort-related models:
     - a reference stable sort (insertion sort) with permutation, sortedness and stability;
     - any two sorted arrangements of one multiset agree position by position up to ties;
     - a sorted and stable arrangement is unique (so every stable sort equals [isort]);
     - with pairwise distinct keys the sorted arrangement is unique (determinism of unstable sorts).
   Plain stdlib only, everything proved. *)

From Coq Require Import List Bool Arith Lia Permutation Sorted.
Import ListNotations.

Section SWO.
  Context {A : Type}.
  Variable lt : A -> A -> bool.

  (* strict weak order, boolean *)
  Definition eqv (a b : A) : bool := negb (lt a b) && negb (lt b a).
  Definition leb (a b : A) : bool := negb (lt b a).          (* "a may stand before b" *)
  Record swo : Prop := {
    swo_irrefl : forall a, lt a a = false;
    swo_trans  : forall a b c, lt a b = true -> lt b c = true -> lt a c = true;
    swo_eqv_trans : forall a b c, eqv a b = true -> eqv b c = true -> eqv a c = true }.

  (* what a Go sort guarantees about its result: no later element is Less than an earlier one *)
  Definition sorted (l : list A) : Prop := StronglySorted (fun a b => lt b a = false) l.
  Fixpoint sorted_adj_b (l : list A) : bool :=      (* adjacent-pair check, executable *)
    match l with
    | a :: ((b :: _) as r) => negb (lt b a) && sorted_adj_b r
    | _ => true
    end.

  (* reference algorithm: stable insertion sort (insert x in front of the sorted tail: x stood before
     all of the tail's elements in the input, so it goes before every element it ties with) *)
  Fixpoint insert (x : A) (l : list A) : list A :=
    match l with
    | [] => [x]
    | y :: r => if lt y x then y :: insert x r else x :: y :: r
    end.
  Definition isort (l : list A) : list A := fold_right insert [] l.

  (* stability of l' w.r.t. l: every tie class appears in l' in the same order as in l *)
  Definition stable_wrt (l' l : list A) : Prop := forall x, filter (eqv x) l' = filter (eqv x) l.

  (* ---------------------------------------------------------------- *)
  (* facts that need no order laws *)

  Lemma eqv_sym : forall a b, eqv a b = eqv b a.
  Proof. intros a b. unfold eqv. apply andb_comm. Qed.

  Lemma eqv_true_iff : forall a b, eqv a b = true <-> lt a b = false /\ lt b a = false.
  Proof. intros a b. unfold eqv. rewrite andb_true_iff, !negb_true_iff. tauto. Qed.

  Lemma eqv_false_iff : forall a b, eqv a b = false <-> lt a b = true \/ lt b a = true.
  Proof.
    intros a b. unfold eqv. rewrite andb_false_iff, !negb_false_iff. tauto.
  Qed.

  Lemma leb_true_iff : forall a b, leb a b = true <-> lt b a = false.
  Proof. intros a b. unfold leb. apply negb_true_iff. Qed.

  Lemma sorted_nil : sorted [].
  Proof. constructor. Qed.

  Lemma sorted_cons_iff : forall a l,
    sorted (a :: l) <-> sorted l /\ Forall (fun b => lt b a = false) l.
  Proof.
    intros a l. split.
    - intros H. apply StronglySorted_inv in H. exact H.
    - intros [H1 H2]. constructor; assumption.
  Qed.

  Lemma sorted_tail : forall a l, sorted (a :: l) -> sorted l.
  Proof. intros a l H. apply sorted_cons_iff in H. apply H. Qed.

  Lemma isort_nil : isort [] = [].
  Proof. reflexivity. Qed.

  Lemma isort_cons : forall x l, isort (x :: l) = insert x (isort l).
  Proof. reflexivity. Qed.

  Lemma insert_perm : forall x l, Permutation (insert x l) (x :: l).
  Proof.
    intros x l. induction l as [|y r IH]; cbn [insert].
    - apply Permutation_refl.
    - destruct (lt y x).
      + eapply perm_trans; [apply perm_skip, IH | apply perm_swap].
      + apply Permutation_refl.
  Qed.

  Theorem isort_perm : forall l, Permutation (isort l) l.
  Proof.
    induction l as [|x l IH].
    - apply Permutation_refl.
    - rewrite isort_cons. eapply perm_trans; [apply insert_perm | apply perm_skip, IH].
  Qed.

  Lemma isort_length : forall l, length (isort l) = length l.
  Proof. intros l. apply Permutation_length, isort_perm. Qed.

  Lemma isort_in : forall l x, In x (isort l) <-> In x l.
  Proof.
    intros l x. split; apply Permutation_in; [|apply Permutation_sym]; apply isort_perm.
  Qed.

  Lemma stable_wrt_refl : forall l, stable_wrt l l.
  Proof. intros l x. reflexivity. Qed.

  Lemma stable_wrt_trans : forall l1 l2 l3,
    stable_wrt l1 l2 -> stable_wrt l2 l3 -> stable_wrt l1 l3.
  Proof. intros l1 l2 l3 H1 H2 x. rewrite H1. apply H2. Qed.

  Lemma filter_length_pos : forall (f : A -> bool) l,
    length (filter f l) <> 0 -> exists y, In y l /\ f y = true.
  Proof.
    intros f l. destruct (filter f l) as [|y r] eqn:E.
    - intros H. exfalso. apply H. reflexivity.
    - intros _. exists y. apply filter_In. rewrite E. left. reflexivity.
  Qed.

  Lemma perm_filter_length : forall (f : A -> bool) l1 l2,
    Permutation l1 l2 -> length (filter f l1) = length (filter f l2).
  Proof.
    intros f l1 l2 HP. induction HP as [|x l1 l2 _ IH|x y l|l1 l2 l3 _ IH1 _ IH2].
    - reflexivity.
    - cbn [filter]. destruct (f x); cbn [length]; rewrite IH; reflexivity.
    - cbn [filter]. destruct (f x), (f y); reflexivity.
    - rewrite IH1. exact IH2.
  Qed.

  (* ---------------------------------------------------------------- *)
  Section WithSwo.
  Hypothesis Hswo : swo.

  Theorem swo_asym : forall a b, lt a b = true -> lt b a = false.
  Proof.
    intros a b H. destruct (lt b a) eqn:E; [|reflexivity].
    pose proof (swo_trans Hswo _ _ _ H E) as H1.
    rewrite (swo_irrefl Hswo) in H1. discriminate.
  Qed.

  Theorem eqv_refl : forall a, eqv a a = true.
  Proof. intros a. unfold eqv. rewrite (swo_irrefl Hswo). reflexivity. Qed.

  Theorem leb_refl : forall a, leb a a = true.
  Proof. intros a. unfold leb. rewrite (swo_irrefl Hswo). reflexivity. Qed.

  (* negative transitivity *)
  Theorem leb_trans : forall a b c, leb a b = true -> leb b c = true -> leb a c = true.
  Proof.
    intros a b c Hab Hbc. rewrite leb_true_iff in *.
    destruct (lt c a) eqn:Hca; [|reflexivity]. exfalso.
    destruct (lt a b) eqn:Hab'.
    - pose proof (swo_trans Hswo _ _ _ Hca Hab') as H. rewrite Hbc in H. discriminate.
    - destruct (lt b c) eqn:Hbc'.
      + pose proof (swo_trans Hswo _ _ _ Hbc' Hca) as H. rewrite Hab in H. discriminate.
      + assert (E1 : eqv a b = true) by (apply eqv_true_iff; split; assumption).
        assert (E2 : eqv b c = true) by (apply eqv_true_iff; split; assumption).
        pose proof (swo_eqv_trans Hswo _ _ _ E1 E2) as E3.
        apply eqv_true_iff in E3. destruct E3 as [_ E3]. rewrite Hca in E3. discriminate.
  Qed.

  Theorem leb_total : forall a b, leb a b = true \/ leb b a = true.
  Proof.
    intros a b. rewrite !leb_true_iff. destruct (lt a b) eqn:E.
    - left. apply swo_asym. exact E.
    - right. reflexivity.
  Qed.

  (* the same, stated on lt *)
  Lemma lt_false_trans : forall a b c, lt b a = false -> lt c b = false -> lt c a = false.
  Proof.
    intros a b c H1 H2. apply leb_true_iff. apply leb_trans with b; apply leb_true_iff; assumption.
  Qed.

  Theorem lt_eqv_l : forall a a' b, eqv a a' = true -> lt a b = lt a' b.
  Proof.
    intros a a' b He. apply eqv_true_iff in He. destruct He as [H1 H2].
    destruct (lt a b) eqn:E1, (lt a' b) eqn:E2; try reflexivity; exfalso.
    - (* lt a' b = false, lt a a' = false  =>  lt a b = false *)
      pose proof (lt_false_trans _ _ _ E2 H1) as H. rewrite E1 in H. discriminate.
    - pose proof (lt_false_trans _ _ _ E1 H2) as H. rewrite E2 in H. discriminate.
  Qed.

  Theorem lt_eqv_r : forall a b b', eqv b b' = true -> lt a b = lt a b'.
  Proof.
    intros a b b' He. apply eqv_true_iff in He. destruct He as [H1 H2].
    destruct (lt a b) eqn:E1, (lt a b') eqn:E2; try reflexivity; exfalso.
    - (* lt b' b = false, lt a b' = false => lt a b = false *)
      pose proof (lt_false_trans _ _ _ H2 E2) as H. rewrite E1 in H. discriminate.
    - pose proof (lt_false_trans _ _ _ H1 E1) as H. rewrite E2 in H. discriminate.
  Qed.

  Lemma eqv_trans : forall a b c, eqv a b = true -> eqv b c = true -> eqv a c = true.
  Proof. exact (swo_eqv_trans Hswo). Qed.

  (* eqv respects tie classes in both arguments *)
  Lemma eqv_eqv_r : forall x a b, eqv a b = true -> eqv x a = eqv x b.
  Proof.
    intros x a b He. destruct (eqv x a) eqn:E1, (eqv x b) eqn:E2; try reflexivity; exfalso.
    - pose proof (eqv_trans _ _ _ E1 He) as H. rewrite E2 in H. discriminate.
    - rewrite eqv_sym in He. pose proof (eqv_trans _ _ _ E2 He) as H.
      rewrite E1 in H. discriminate.
  Qed.

  Lemma eqv_eqv_l : forall x a b, eqv a b = true -> eqv a x = eqv b x.
  Proof. intros x a b He. rewrite (eqv_sym a x), (eqv_sym b x). apply eqv_eqv_r, He. Qed.

  (* ---- adjacent check ---- *)

  Theorem sorted_adj_b_iff : forall l, sorted_adj_b l = true <-> sorted l.
  Proof.
    induction l as [|a r IH].
    - split; intros _; [apply sorted_nil | reflexivity].
    - destruct r as [|b r'].
      + split; intros _; [|reflexivity]. constructor; constructor.
      + cbn [sorted_adj_b]. rewrite andb_true_iff, negb_true_iff, IH. split.
        * intros [Hba Hs]. constructor; [exact Hs|].
          constructor; [exact Hba|].
          apply sorted_cons_iff in Hs. destruct Hs as [_ Hf].
          eapply Forall_impl; [|exact Hf]. cbn beta. intros x Hx.
          apply lt_false_trans with b; assumption.
        * intros Hs. apply sorted_cons_iff in Hs. destruct Hs as [Hs Hf]. split; [|exact Hs].
          apply Forall_inv in Hf. exact Hf.
  Qed.

  (* ---- insertion sort: sortedness ---- *)

  Lemma insert_sorted : forall x l, sorted l -> sorted (insert x l).
  Proof.
    intros x l. induction l as [|y r IH]; intros Hs; cbn [insert].
    - constructor; constructor.
    - apply sorted_cons_iff in Hs. destruct Hs as [Hs Hf].
      destruct (lt y x) eqn:E.
      + apply sorted_cons_iff. split; [apply IH, Hs|].
        rewrite Forall_forall in *. intros z Hz.
        apply (Permutation_in _ (insert_perm x r)) in Hz. destruct Hz as [<-|Hz].
        * apply swo_asym, E.
        * apply Hf, Hz.
      + apply sorted_cons_iff. split.
        * apply sorted_cons_iff. split; assumption.
        * constructor; [exact E|].
          eapply Forall_impl; [|exact Hf]. cbn beta. intros z Hz.
          apply lt_false_trans with y; assumption.
  Qed.

  Theorem isort_sorted : forall l, sorted (isort l).
  Proof.
    induction l as [|x l IH].
    - apply sorted_nil.
    - rewrite isort_cons. apply insert_sorted, IH.
  Qed.

  (* ---- insertion sort: stability ---- *)

  Lemma filter_insert : forall x y l,
    filter (eqv x) (insert y l) = if eqv x y then y :: filter (eqv x) l else filter (eqv x) l.
  Proof.
    intros x y l. induction l as [|z r IH]; cbn [insert].
    - cbn [filter]. reflexivity.
    - destruct (lt z y) eqn:E.
      + cbn [filter]. rewrite IH. destruct (eqv x y) eqn:Exy; [|reflexivity].
        assert (Exz : eqv x z = false).
        { destruct (eqv x z) eqn:Exz; [|reflexivity]. exfalso.
          rewrite eqv_sym in Exz. rewrite (lt_eqv_l _ _ y Exz) in E.
          apply eqv_true_iff in Exy. destruct Exy as [Exy _]. rewrite Exy in E. discriminate. }
        rewrite Exz. reflexivity.
      + cbn [filter]. reflexivity.
  Qed.

  Theorem isort_stable : forall l, stable_wrt (isort l) l.
  Proof.
    intros l x. induction l as [|y l IH].
    - reflexivity.
    - rewrite isort_cons, filter_insert, IH. cbn [filter]. reflexivity.
  Qed.

  (* ---- two sorted arrangements of one multiset ---- *)

  Lemma sorted_head_min : forall b r x, sorted (b :: r) -> In x (b :: r) -> lt x b = false.
  Proof.
    intros b r x Hs [<-|Hin].
    - apply (swo_irrefl Hswo).
    - apply sorted_cons_iff in Hs. destruct Hs as [_ Hf].
      rewrite Forall_forall in Hf. apply Hf, Hin.
  Qed.

  Lemma heads_lt_false : forall a r1 b r2,
    sorted (b :: r2) ->
    length (filter (eqv a) (a :: r1)) = length (filter (eqv a) (b :: r2)) ->
    lt a b = false.
  Proof.
    intros a r1 b r2 S2 Hc.
    destruct (filter_length_pos (eqv a) (b :: r2)) as [a' [Hin He]].
    - rewrite <- Hc. cbn [filter]. rewrite eqv_refl. cbn [length]. discriminate.
    - rewrite (lt_eqv_l a a' b He). apply sorted_head_min with r2; assumption.
  Qed.

  Lemma heads_tied : forall a r1 b r2,
    sorted (a :: r1) -> sorted (b :: r2) ->
    (forall x, length (filter (eqv x) (a :: r1)) = length (filter (eqv x) (b :: r2))) ->
    eqv a b = true.
  Proof.
    intros a r1 b r2 S1 S2 Hc. apply eqv_true_iff. split.
    - apply heads_lt_false with r1 r2; [exact S2 | apply Hc].
    - apply heads_lt_false with r2 r1; [exact S1 | symmetry; apply Hc].
  Qed.

  Lemma sorted_count_eqv : forall l1 l2,
    (forall x, length (filter (eqv x) l1) = length (filter (eqv x) l2)) ->
    sorted l1 -> sorted l2 -> Forall2 (fun a b => eqv a b = true) l1 l2.
  Proof.
    induction l1 as [|a r1 IH]; intros l2 Hc S1 S2.
    - destruct l2 as [|b r2]; [constructor|]. exfalso.
      specialize (Hc b). cbn [filter] in Hc. rewrite eqv_refl in Hc. cbn [length] in Hc.
      discriminate.
    - destruct l2 as [|b r2].
      + exfalso. specialize (Hc a). cbn [filter] in Hc. rewrite eqv_refl in Hc.
        cbn [length] in Hc. discriminate.
      + assert (Hab : eqv a b = true) by (apply heads_tied with r1 r2; assumption).
        constructor; [exact Hab|].
        apply IH; [|apply sorted_tail with a, S1|apply sorted_tail with b, S2].
        intros x. specialize (Hc x). cbn [filter] in Hc.
        rewrite (eqv_eqv_r x a b Hab) in Hc. destruct (eqv x b); cbn [length] in Hc.
        * injection Hc as Hc. exact Hc.
        * exact Hc.
  Qed.

  Theorem sorted_perm_eqv : forall l1 l2,
    Permutation l1 l2 -> sorted l1 -> sorted l2 -> Forall2 (fun a b => eqv a b = true) l1 l2.
  Proof.
    intros l1 l2 HP. apply sorted_count_eqv. intros x. apply perm_filter_length, HP.
  Qed.

  Theorem sorted_stable_unique : forall l1 l2,
    sorted l1 -> sorted l2 -> (forall x, filter (eqv x) l1 = filter (eqv x) l2) -> l1 = l2.
  Proof.
    induction l1 as [|a r1 IH]; intros l2 S1 S2 Hf.
    - destruct l2 as [|b r2]; [reflexivity|]. exfalso.
      specialize (Hf b). cbn [filter] in Hf. rewrite eqv_refl in Hf. discriminate.
    - destruct l2 as [|b r2].
      + exfalso. specialize (Hf a). cbn [filter] in Hf. rewrite eqv_refl in Hf. discriminate.
      + assert (Hab : eqv a b = true).
        { apply heads_tied with r1 r2; try assumption. intros x. rewrite Hf. reflexivity. }
        assert (a = b).
        { specialize (Hf a). cbn [filter] in Hf. rewrite eqv_refl, Hab in Hf.
          injection Hf as Hf _. exact Hf. }
        subst b. f_equal.
        apply IH; [apply sorted_tail with a, S1|apply sorted_tail with a, S2|].
        intros x. specialize (Hf x). cbn [filter] in Hf. destruct (eqv x a).
        * injection Hf as Hf. exact Hf.
        * exact Hf.
  Qed.

  Theorem any_sort_eqv : forall l l',
    Permutation l' l -> sorted l' -> Forall2 (fun a b => eqv a b = true) l' (isort l).
  Proof.
    intros l l' HP Hs. apply sorted_perm_eqv.
    - eapply perm_trans; [exact HP | apply Permutation_sym, isort_perm].
    - exact Hs.
    - apply isort_sorted.
  Qed.

  Theorem any_stable_sort_eq : forall l l', sorted l' -> stable_wrt l' l -> l' = isort l.
  Proof.
    intros l l' Hs Hst. apply sorted_stable_unique.
    - exact Hs.
    - apply isort_sorted.
    - intros x. rewrite Hst. symmetry. apply isort_stable.
  Qed.

  Theorem isort_idem_sorted : forall l, sorted l -> isort l = l.
  Proof.
    intros l Hs. symmetry. apply any_stable_sort_eq; [exact Hs | apply stable_wrt_refl].
  Qed.

  Corollary isort_idem : forall l, isort (isort l) = isort l.
  Proof. intros l. apply isort_idem_sorted, isort_sorted. Qed.

  (* a stable arrangement is in particular a permutation *)
  Corollary isort_perm_invariant_eqv : forall l1 l2,
    Permutation l1 l2 -> Forall2 (fun a b => eqv a b = true) (isort l1) (isort l2).
  Proof.
    intros l1 l2 HP. apply any_sort_eqv; [|apply isort_sorted].
    eapply perm_trans; [apply isort_perm | exact HP].
  Qed.

  End WithSwo.
End SWO.

(* ------------------------------------------------------------------ *)
(* Uniqueness of the sorted arrangement when ties are only between equal elements. *)

Section TotalPre.
  Context {A : Type}.
  Variable le : A -> A -> bool.          (* a "less or equal"-style test *)
  Definition sorted_le (l : list A) : Prop := StronglySorted (fun a b => le a b = true) l.

  Theorem sorted_perm_unique : forall l1 l2,
    Permutation l1 l2 ->
    (forall a b, In a l1 -> In b l1 -> le a b = true -> le b a = true -> a = b) ->
    sorted_le l1 -> sorted_le l2 -> l1 = l2.
  Proof.
    induction l1 as [|a r1 IH]; intros l2 HP Hanti S1 S2.
    - apply Permutation_nil in HP. symmetry. exact HP.
    - destruct l2 as [|b r2].
      + apply Permutation_sym, Permutation_nil in HP. discriminate.
      + assert (Hb : In b (a :: r1)).
        { apply (Permutation_in _ (Permutation_sym HP)). left. reflexivity. }
        assert (Ha : In a (b :: r2)).
        { apply (Permutation_in _ HP). left. reflexivity. }
        apply StronglySorted_inv in S1. destruct S1 as [S1 F1].
        apply StronglySorted_inv in S2. destruct S2 as [S2 F2].
        rewrite Forall_forall in F1, F2.
        assert (Hab : a = b).
        { destruct Hb as [Hb|Hb]; [exact Hb|].
          destruct Ha as [Ha|Ha]; [symmetry; exact Ha|].
          apply Hanti.
          - left. reflexivity.
          - right. exact Hb.
          - apply F1, Hb.
          - apply F2, Ha. }
        subst b. f_equal. apply IH.
        * apply Permutation_cons_inv with a. exact HP.
        * intros x y Hx Hy. apply Hanti; right; assumption.
        * exact S1.
        * exact S2.
  Qed.

  Theorem Sorted_sorted_le :
    (forall a b c, le a b = true -> le b c = true -> le a c = true) ->
    forall l, Sorted (fun a b => le a b = true) l -> sorted_le l.
  Proof.
    intros Htr l Hs. apply Sorted_StronglySorted; [|exact Hs].
    intros a b c. apply Htr.
  Qed.
End TotalPre.

Lemma StronglySorted_impl : forall {A : Type} (R R' : A -> A -> Prop),
  (forall a b, R a b -> R' a b) ->
  forall l, StronglySorted R l -> StronglySorted R' l.
Proof.
  intros A R R' HR l. induction l as [|a l IH]; intros H.
  - constructor.
  - apply StronglySorted_inv in H. destruct H as [H1 H2]. constructor.
    + apply IH, H1.
    + eapply Forall_impl; [|exact H2]. apply HR.
Qed.

Theorem sorted_is_sorted_le : forall {A : Type} (lt : A -> A -> bool) l,
  sorted lt l <-> sorted_le (fun a b => negb (lt b a)) l.
Proof.
  intros A lt l. unfold sorted, sorted_le. split; apply StronglySorted_impl; intros a b H.
  - rewrite H. reflexivity.
  - apply negb_true_iff in H. exact H.
Qed.

Theorem sorted_perm_unique_lt : forall {A : Type} (lt : A -> A -> bool) l1 l2,
  Permutation l1 l2 ->
  (forall a b, In a l1 -> In b l1 -> lt a b = false -> lt b a = false -> a = b) ->
  sorted lt l1 -> sorted lt l2 -> l1 = l2.
Proof.
  intros A lt l1 l2 HP Hanti S1 S2.
  apply (sorted_perm_unique (fun a b => negb (lt b a))).
  - exact HP.
  - intros a b Ha Hb H1 H2. apply negb_true_iff in H1, H2. apply Hanti; assumption.
  - apply sorted_is_sorted_le, S1.
  - apply sorted_is_sorted_le, S2.
Qed.

(* ------------------------------------------------------------------ *)
(* Examples: pairs (key, id) ordered by key only. *)

Definition ex_lt (a b : nat * nat) : bool := fst a <? fst b.

Example ex_isort_stable :
  isort ex_lt [(2,0);(1,1);(2,2);(1,3)] = [(1,1);(1,3);(2,0);(2,2)].
Proof. vm_compute. reflexivity. Qed.

Example ex_isort_adj :
  sorted_adj_b ex_lt (isort ex_lt [(3,0);(1,1);(2,2);(1,3);(3,4);(0,5)]) = true.
Proof. vm_compute. reflexivity. Qed.

Example ex_unsorted_adj : sorted_adj_b ex_lt [(2,0);(1,1)] = false.
Proof. vm_compute. reflexivity. Qed.

Example ex_eqv_tie : eqv ex_lt (2,0) (2,7) = true /\ eqv ex_lt (2,0) (3,0) = false.
Proof. split; vm_compute; reflexivity. Qed.

Example ex_filter_class :
  filter (eqv ex_lt (2,9)) (isort ex_lt [(2,0);(1,1);(2,2);(1,3)]) =
  filter (eqv ex_lt (2,9)) [(2,0);(1,1);(2,2);(1,3)].
Proof. vm_compute. reflexivity. Qed.

Lemma ex_lt_swo : swo ex_lt.
Proof.
  unfold ex_lt. constructor.
  - intros a. apply Nat.ltb_irrefl.
  - intros a b c. rewrite !Nat.ltb_lt. lia.
  - intros a b c. unfold eqv. rewrite !andb_true_iff, !negb_true_iff, !Nat.ltb_ge. lia.
Qed.

Example ex_isort_sorted : forall l, sorted ex_lt (isort ex_lt l).
Proof. apply isort_sorted, ex_lt_swo. Qed.
