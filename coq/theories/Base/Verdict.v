(* Verdict.v — shared shape of the correspondence judgement evaluated inside Coq.

   Each generated cases file holds a list of cases (inputs + what the implementation was
   observed to do).  A per-property [judge] maps a case to a code:
     0  implementation = model on this case and the observation satisfies the spec
     1  the observation violates the property's specification  (a failing input)
     2  the observation satisfies the spec but differs from the model (broken correspondence)
   [bad_cases] lists (index, code) of the non-zero ones; the driver parses that list.        *)
From Coq Require Import List Arith.
Import ListNotations.

Definition verdict (spec_ok model_eq : bool) : nat :=
  if negb spec_ok then 1 else if negb model_eq then 2 else 0.

Fixpoint bad_cases_from {A} (judge : A -> nat) (n : nat) (cs : list A) : list (nat * nat) :=
  match cs with
  | [] => []
  | c :: rest =>
      match judge c with
      | 0 => bad_cases_from judge (S n) rest
      | k => (n, k) :: bad_cases_from judge (S n) rest
      end
  end.
Definition bad_cases {A} (judge : A -> nat) (cs : list A) : list (nat * nat) :=
  bad_cases_from judge 0 cs.

(* how many cases took a "non-trivial" path according to a per-property predicate *)
Definition count_if {A} (p : A -> bool) (cs : list A) : nat := length (filter p cs).
