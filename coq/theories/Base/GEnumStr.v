(* GEnumStr.v — Go string operations used by the genum model (definitions only).

   Go                                   here
   -----------------------------------  ------------------------------------------
   a < b   on strings (bytewise)        str_ltb  (= String.ltb, lexicographic on bytes)
   strings.ToLower                      to_lower  (on UTF-8 over the alphabet ASCII + Latin-1 Supplement +
                                                  U+0130, U+0178, U+1E9E, U+212A KELVIN SIGN, U+212B ANGSTROM SIGN;
                                                  other code points are left unchanged)
   strings.TrimPrefix(s, "_")           trim_underscore
   fmt.Sprintf("%d", n)                 dec
   "\"" + s + "\""  (quoting of a plain identifier / simple literal)   quote           *)
From Coq Require Import String Ascii ZArith List Bool DecimalString.
Import ListNotations.
Local Open Scope string_scope.

Definition str_ltb (a b : string) : bool := String.ltb a b.
Definition str_eqb (a b : string) : bool := String.eqb a b.

Definition lower_ascii (c : ascii) : ascii :=
  let n := N_of_ascii c in
  if (N.leb 65 n && N.leb n 90)%bool then ascii_of_N (n + 32) else c.

(* strings.ToLower maps code points, not bytes: U+212A KELVIN SIGN (E2 84 AA) lower-cases to "k", U+0130
   (C4 B0) to "i" — so "K" is a case variant of the name "K" — U+212B (E2 84 AB) to U+00E5, U+1E9E (E1 BA 9E) to
   U+00DF, U+0178 (C5 B8) to U+00FF, and the Latin-1 capitals U+00C0..U+00DE except U+00D7 (C3 80 .. C3 9E) to
   U+00E0..U+00FE (second byte + 32) *)
Definition byte (n : N) : ascii := ascii_of_N n.
Fixpoint to_lower (s : string) : string :=
  match s with
  | EmptyString => EmptyString
  | String c1 r1 =>
      let n1 := N_of_ascii c1 in
      match r1 with
      | EmptyString => String (lower_ascii c1) EmptyString
      | String c2 r2 =>
          let n2 := N_of_ascii c2 in
          if (N.eqb n1 195 && N.leb 128 n2 && N.leb n2 158 && negb (N.eqb n2 151))%bool
          then String c1 (String (byte (n2 + 32)) (to_lower r2))
          else if (N.eqb n1 196 && N.eqb n2 176)%bool then String (byte 105) (to_lower r2)
          else if (N.eqb n1 197 && N.eqb n2 184)%bool then String (byte 195) (String (byte 191) (to_lower r2))
          else match r2 with
               | EmptyString => String (lower_ascii c1) (String (lower_ascii c2) EmptyString)
               | String c3 r3 =>
                   let n3 := N_of_ascii c3 in
                   if (N.eqb n1 226 && N.eqb n2 132 && N.eqb n3 170)%bool then String (byte 107) (to_lower r3)
                   else if (N.eqb n1 226 && N.eqb n2 132 && N.eqb n3 171)%bool
                        then String (byte 195) (String (byte 165) (to_lower r3))
                   else if (N.eqb n1 225 && N.eqb n2 186 && N.eqb n3 158)%bool
                        then String (byte 195) (String (byte 159) (to_lower r3))
                   else String (lower_ascii c1) (to_lower r1)
               end
      end
  end.

Definition trim_underscore (s : string) : string :=
  match s with
  | String "_"%char r => r
  | _ => s
  end.

(* decimal rendering of an integer, as %d *)
Definition dec (z : Z) : string := NilZero.string_of_int (Z.to_int z).

Definition quote (s : string) : string := """" ++ s ++ """".

(* list helpers on strings *)
Definition str_mem (s : string) (l : list string) : bool := existsb (String.eqb s) l.

Fixpoint str_nodupb (l : list string) : bool :=
  match l with
  | [] => true
  | x :: r => negb (str_mem x r) && str_nodupb r
  end.
