(* GEnumStr.v — Go string operations used by the genum model (definitions only).

   Go                                   here
   -----------------------------------  ------------------------------------------
   a < b   on strings (bytewise)        str_ltb  (= String.ltb, lexicographic on bytes)
   strings.ToLower (ASCII input)        to_lower
   strings.TrimPrefix(s, "_")           trim_underscore
   fmt.Sprintf("%d", n)                 dec
   "\"" + s + "\""  (quoting of a plain identifier / simple literal)   quote           *)
From Coq Require Import String Ascii ZArith List Bool DecimalString.
Import ListNotations.
Local Open Scope string_scope.

Definition str_ltb (a b : string) : bool := String.ltb a b.
Definition str_eqb (a b : string) : bool := String.eqb a b.

Definition lower_ascii (c : ascii) : ascii :=
  let n := N_of_ascii c in
  if (N.leb 65 n && N.leb n 90)%bool then ascii_of_N (n + 32) else c.

Fixpoint to_lower (s : string) : string :=
  match s with
  | EmptyString => EmptyString
  | String c r => String (lower_ascii c) (to_lower r)
  end.

Definition trim_underscore (s : string) : string :=
  match s with
  | String "_"%char r => r
  | _ => s
  end.

(* decimal rendering of an integer, as %d *)
Definition dec (z : Z) : string := NilZero.string_of_int (Z.to_int z).

Definition quote (s : string) : string := """" ++ s ++ """".

(* list helpers on strings *)
Definition str_mem (s : string) (l : list string) : bool := existsb (String.eqb s) l.

Fixpoint str_nodupb (l : list string) : bool :=
  match l with
  | [] => true
  | x :: r => negb (str_mem x r) && str_nodupb r
  end.
