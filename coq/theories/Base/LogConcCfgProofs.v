(* LogConcCfgProofs.v — soundness of the bisimulation check of LogConcCfg.v:
   machines whose per-operation graphs pass [bisim_ok] run in lockstep under every schedule
   (same cell and stamp counter after every step, same linearisation events, same operations
   still pending per thread); the flat instruction lists of LogConc.v embed into graphs.
   Consequence (used by LogCtxProofs / Props/C18.v): every theorem about the hand-written
   programs holds verbatim of whatever graphs the translator regenerates from the source, as
   long as [prog_equiv generated (embed hand) = true] — which ./check C18 evaluates.           *)
From Coq Require Import List Arith Bool Lia.
From GT Require Import Base.LogConc.
From GT Require Import Base.LogConcCfg.
Import ListNotations.

Section Lockstep.
  Variables (O V F : Type).
  Variable pure : F -> O -> V -> V.
  Variable ident : F -> O -> bool.
  Variable feqb : F -> F -> bool.
  Hypothesis feqb_eq : forall f g, feqb f g = true -> f = g.

  Variables gp1 gp2 : O -> list (ginstr F).
  Hypothesis Hbis : forall o, exists R, bisim_ok F feqb R (gp1 o) (gp2 o) = true.

  Notation thread := (thread O V).
  Notation mstate := (mstate O V).

  Lemma pair_mem_In : forall x l, pair_mem x l = true -> In x l.
  Proof.
    intros [a b] l H. unfold pair_mem in H. apply existsb_exists in H as ([c d] & Hin & E).
    cbn in E. apply andb_true_iff in E as [E1 E2].
    apply Nat.eqb_eq in E1. apply Nat.eqb_eq in E2. subst. exact Hin.
  Qed.

  Lemma bisim_match : forall R p q ij,
    bisim_ok F feqb R p q = true -> pair_mem ij R = true -> match_pair F feqb R p q ij = true.
  Proof.
    intros R p q ij H Hm. unfold bisim_ok in H. apply andb_true_iff in H as [_ H].
    rewrite forallb_forall in H. apply H. apply pair_mem_In. exact Hm.
  Qed.

  Lemma bisim_start : forall R p q, bisim_ok F feqb R p q = true -> pair_mem (0, 0) R = true.
  Proof. intros R p q H. unfold bisim_ok in H. apply andb_true_iff in H as [H _]. exact H. Qed.

  (* two threads are related: same pending operations, same register, and program counters
     paired by a bisimulation of the graphs of the operation in progress *)
  Definition trel (th1 th2 : thread) : Prop :=
    t_ops th1 = t_ops th2 /\ t_reg th1 = t_reg th2 /\
    match t_ops th1 with
    | [] => True
    | o :: _ => exists R, bisim_ok F feqb R (gp1 o) (gp2 o) = true
                          /\ pair_mem (t_pc th1, t_pc th2) R = true
    end.

  Lemma trel_fresh : forall ops r,
    trel {| t_ops := ops; t_pc := 0; t_reg := r |} {| t_ops := ops; t_pc := 0; t_reg := r |}.
  Proof.
    intros ops r. unfold trel. cbn. repeat split. destruct ops as [|o rest]; [exact I|].
    destruct (Hbis o) as [R HR]. exists R. split; [exact HR | eapply bisim_start; exact HR].
  Qed.

  Lemma gadvance_rel : forall R o rest th1 th2 a b r,
    bisim_ok F feqb R (gp1 o) (gp2 o) = true ->
    rel_ok F R (gp1 o) (gp2 o) a b = true ->
    trel (gadvance O V F gp1 th1 o rest a r) (gadvance O V F gp2 th2 o rest b r).
  Proof.
    intros R o rest th1 th2 a b r HR H. unfold rel_ok, gexit in H. unfold gadvance.
    apply orb_true_iff in H as [H | H].
    - apply andb_true_iff in H as [H1 H2]. rewrite H1, H2. apply trel_fresh.
    - apply andb_true_iff in H as [H H3]. apply andb_true_iff in H as [H1 H2].
      apply negb_true_iff in H1. apply negb_true_iff in H2. rewrite H1, H2.
      unfold trel. cbn. repeat split. exists R. split; assumption.
  Qed.

  Lemma gstep_thread_lockstep : forall cell next th1 th2, trel th1 th2 ->
    exists c n th1' th2' ev,
      gstep_thread O V F pure ident gp1 cell next th1 = (c, n, th1', ev)
      /\ gstep_thread O V F pure ident gp2 cell next th2 = (c, n, th2', ev)
      /\ trel th1' th2'.
  Proof.
    intros cell next th1 th2 H. pose proof H as (Hops & Hreg & Hpc). unfold gstep_thread.
    rewrite <- Hops, <- Hreg.
    destruct (t_ops th1) as [|o rest] eqn:E1.
    { do 5 eexists. split; [reflexivity | split; [reflexivity | exact H]]. }
    destruct Hpc as (R & HR & Hm).
    pose proof (bisim_match R _ _ _ HR Hm) as M. unfold match_pair in M. cbn [fst snd] in M.
    destruct (nth_error (gp1 o) (t_pc th1)) as [[a | a | f a | f a a'] |];
      destruct (nth_error (gp2 o) (t_pc th2)) as [[b | b | g b | g b b'] |]; try discriminate M.
    - do 5 eexists. split; [reflexivity | split; [reflexivity|]]. eapply gadvance_rel; eassumption.
    - do 5 eexists. split; [reflexivity | split; [reflexivity|]]. eapply gadvance_rel; eassumption.
    - apply andb_true_iff in M as [Mf Mr]. apply feqb_eq in Mf. subst g.
      destruct (new_ptr O V F pure ident next f o (t_reg th1)) as [c' n'].
      do 5 eexists. split; [reflexivity | split; [reflexivity|]]. eapply gadvance_rel; eassumption.
    - apply andb_true_iff in M as [M Mr']. apply andb_true_iff in M as [Mf Mr].
      apply feqb_eq in Mf. subst g.
      destruct (fst cell =? fst (t_reg th1)).
      + destruct (new_ptr O V F pure ident next f o (t_reg th1)) as [c' n'].
        do 5 eexists. split; [reflexivity | split; [reflexivity|]]. eapply gadvance_rel; eassumption.
      + do 5 eexists. split; [reflexivity | split; [reflexivity|]]. eapply gadvance_rel; eassumption.
    - do 5 eexists. split; [reflexivity | split; [reflexivity|]]. apply trel_fresh.
  Qed.

  Definition srel (st1 st2 : mstate) : Prop :=
    m_cell st1 = m_cell st2 /\ m_next st1 = m_next st2 /\ Forall2 trel (m_threads st1) (m_threads st2).

  Lemma Forall2_nth_error : forall {A B} (P : A -> B -> Prop) l1 l2 n,
    Forall2 P l1 l2 ->
    match nth_error l1 n, nth_error l2 n with
    | Some x, Some y => P x y
    | None, None => True
    | _, _ => False
    end.
  Proof.
    intros A B P l1 l2 n H. revert n. induction H as [|x y l1 l2 Hxy H IH]; intros [|n]; cbn; auto.
    apply IH.
  Qed.

  Lemma Forall2_set_nth : forall {A B} (P : A -> B -> Prop) l1 l2 n x y,
    Forall2 P l1 l2 -> P x y -> Forall2 P (set_nth n x l1) (set_nth n y l2).
  Proof.
    intros A B P l1 l2 n x y H Hxy. revert n. induction H as [|a b l1 l2 Hab H IH]; intros [|n]; cbn;
      constructor; auto.
  Qed.

  Lemma gstep_lockstep : forall st1 st2 tid, srel st1 st2 ->
    exists st1' st2' ev,
      gstep O V F pure ident gp1 st1 tid = (st1', ev)
      /\ gstep O V F pure ident gp2 st2 tid = (st2', ev) /\ srel st1' st2'.
  Proof.
    intros st1 st2 tid (Hc & Hn & Hth). unfold gstep.
    pose proof (Forall2_nth_error trel _ _ tid Hth) as Hnth.
    destruct (nth_error (m_threads st1) tid) as [th1|];
      destruct (nth_error (m_threads st2) tid) as [th2|]; try contradiction.
    - rewrite <- Hc, <- Hn.
      destruct (gstep_thread_lockstep (m_cell st1) (m_next st1) th1 th2 Hnth)
        as (c & n & th1' & th2' & ev & E1 & E2 & Hrel).
      rewrite E1, E2. do 3 eexists. split; [reflexivity | split; [reflexivity|]].
      unfold srel. cbn. repeat split. apply Forall2_set_nth; assumption.
    - do 3 eexists. split; [reflexivity | split; [reflexivity|]]. repeat split; assumption.
  Qed.

  Lemma grun_lockstep : forall sched st1 st2, srel st1 st2 ->
    exists st1' st2' tr,
      grun O V F pure ident gp1 st1 sched = (st1', tr)
      /\ grun O V F pure ident gp2 st2 sched = (st2', tr) /\ srel st1' st2'.
  Proof.
    induction sched as [|t sched IH]; intros st1 st2 H; cbn.
    - do 3 eexists. split; [reflexivity | split; [reflexivity | exact H]].
    - destruct (gstep_lockstep st1 st2 t H) as (a & b & ev & E1 & E2 & Hab). rewrite E1, E2.
      destruct (IH a b Hab) as (a' & b' & tr & E1' & E2' & Hab'). rewrite E1', E2'.
      do 3 eexists. split; [reflexivity | split; [reflexivity | exact Hab']].
  Qed.

  Lemma grun_obs_lockstep : forall sched st1 st2, srel st1 st2 ->
    grun_obs O V F pure ident gp1 st1 sched = grun_obs O V F pure ident gp2 st2 sched.
  Proof.
    induction sched as [|t sched IH]; intros st1 st2 H; cbn; [reflexivity|].
    destruct (gstep_lockstep st1 st2 t H) as (a & b & ev & E1 & E2 & Hab). rewrite E1, E2. cbn.
    destruct Hab as (Hc & Hn & Hth). rewrite Hc. f_equal. apply IH. repeat split; assumption.
  Qed.

  Lemma srel_init : forall v0 progs, srel (init_state O V v0 progs) (init_state O V v0 progs).
  Proof.
    intros v0 progs. unfold srel, init_state. cbn. repeat split.
    induction progs as [|p progs IH]; cbn; constructor; [apply trel_fresh | exact IH].
  Qed.

  Lemma srel_returned : forall st1 st2, srel st1 st2 -> all_returned O V st1 = all_returned O V st2.
  Proof.
    intros st1 st2 (_ & _ & H). unfold all_returned.
    induction H as [|x y l1 l2 (Hops & _) H IH]; cbn; [reflexivity|]. rewrite Hops, IH. reflexivity.
  Qed.

  (* MAIN: bisimilar graphs are indistinguishable under every schedule *)
  Theorem bisim_sound : forall v0 progs sched st1 tr1 st2 tr2,
    grun O V F pure ident gp1 (init_state O V v0 progs) sched = (st1, tr1) ->
    grun O V F pure ident gp2 (init_state O V v0 progs) sched = (st2, tr2) ->
    tr1 = tr2 /\ m_cell st1 = m_cell st2
    /\ all_returned O V st1 = all_returned O V st2
    /\ map (t_ops (O:=O) (V:=V)) (m_threads st1) = map (t_ops (O:=O) (V:=V)) (m_threads st2)
    /\ grun_obs O V F pure ident gp1 (init_state O V v0 progs) sched
       = grun_obs O V F pure ident gp2 (init_state O V v0 progs) sched.
  Proof.
    intros v0 progs sched st1 tr1 st2 tr2 H1 H2.
    destruct (grun_lockstep sched _ _ (srel_init v0 progs)) as (a & b & tr & E1 & E2 & Hab).
    rewrite E1 in H1. rewrite E2 in H2. inversion H1; inversion H2; subst.
    split; [reflexivity|]. split; [apply Hab|]. split; [apply srel_returned; exact Hab|].
    split; [| apply grun_obs_lockstep; apply srel_init].
    destruct Hab as (_ & _ & H). induction H as [|x y l1 l2 (Hops & _) H IH]; cbn; [reflexivity|].
    rewrite Hops, IH. reflexivity.
  Qed.
End Lockstep.

(* ---------------- the flat machine is the graph machine on the embedded programs ---------------- *)
Section EmbedProofs.
  Variables (O V F : Type).
  Variable pure : F -> O -> V -> V.
  Variable ident : F -> O -> bool.
  Variable prog : O -> list (instr F).
  (* every retry target is an instruction of the program *)
  Hypothesis Hwf : forall o i f k, nth_error (prog o) i = Some (ICas f k) -> k < length (prog o).

  Lemma embed_from_length : forall (p : list (instr F)) i, length (embed_from F i p) = length p.
  Proof. induction p as [|x p IH]; intros i; cbn; [reflexivity | rewrite IH; reflexivity]. Qed.

  Lemma embed_length : forall p : list (instr F), length (embed F p) = length p.
  Proof. intros p. apply embed_from_length. Qed.

  Lemma nth_error_embed_from : forall (p : list (instr F)) i j,
    nth_error (embed_from F i p) j = option_map (embed1 F (i + j)) (nth_error p j).
  Proof.
    induction p as [|x p IH]; intros i [|j]; cbn; try reflexivity.
    - rewrite Nat.add_0_r. reflexivity.
    - rewrite IH. rewrite Nat.add_succ_r. reflexivity.
  Qed.

  Definition eprog (o : O) : list (ginstr F) := embed F (prog o).

  Lemma gstep_thread_embed : forall cell next th,
    gstep_thread O V F pure ident eprog cell next th = step_thread O V F pure ident prog cell next th.
  Proof.
    intros cell next th. unfold gstep_thread, step_thread.
    destruct (t_ops th) as [|o rest]; [reflexivity|].
    unfold eprog, embed. rewrite nth_error_embed_from. cbn [Nat.add].
    destruct (nth_error (prog o) (t_pc th)) as [[| f | f k |]|] eqn:E; cbn [option_map embed1];
      unfold gadvance, advance, eprog, embed; rewrite ?embed_from_length; try reflexivity.
    destruct (fst cell =? fst (t_reg th)); [reflexivity|].
    pose proof (Hwf o _ f k E) as Hk. apply Nat.leb_gt in Hk. rewrite Hk. reflexivity.
  Qed.

  Lemma gstep_embed : forall st tid,
    gstep O V F pure ident eprog st tid = step O V F pure ident prog st tid.
  Proof.
    intros st tid. unfold gstep, step. destruct (nth_error (m_threads st) tid); [|reflexivity].
    rewrite gstep_thread_embed. reflexivity.
  Qed.

  Lemma grun_embed : forall sched st,
    grun O V F pure ident eprog st sched = run O V F pure ident prog st sched.
  Proof.
    induction sched as [|t sched IH]; intros st; cbn; [reflexivity|].
    rewrite gstep_embed. destruct (step O V F pure ident prog st t) as [st1 ev]. rewrite IH. reflexivity.
  Qed.

  Lemma grun_obs_embed : forall sched st,
    grun_obs O V F pure ident eprog st sched = run_obs O V F pure ident prog st sched.
  Proof.
    induction sched as [|t sched IH]; intros st; cbn; [reflexivity|].
    rewrite gstep_embed, IH. reflexivity.
  Qed.
End EmbedProofs.

(* ---------------- prog_equiv gives a bisimulation ---------------- *)
Lemma prog_equiv_bisim : forall F feqb (p q : list (ginstr F)),
  prog_equiv F feqb p q = true -> exists R, bisim_ok F feqb R p q = true.
Proof.
  intros F feqb p q H. unfold prog_equiv in H.
  destruct (explore F p q _ _ _) as [R|]; [exists R; exact H | discriminate].
Qed.
