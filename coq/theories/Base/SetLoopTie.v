(* Base/SetLoopTie.v — loop combinator, fold lemmas and the shape-independent tactics of the
   translator ties of the set group (coq/ties/Tie_C07.v, Tie_C11.v, Tie_C17.v).

   The regenerated files (harness/internal/setxl) render a Go loop without return/break as a
   [fold_left] over the tuple of variables the body assigns, and a loop with return/break as
   [loop_ret] whose body answers LNext (go on) / LBreak (leave the loop) / LRet (leave the
   function).  The tactics below prove `generated = model` without looking at the shape of the
   generated term: loops are related by a simulation whose state map is FOUND by trying the
   re-arrangements of the state tuple (identity, swap, projections), conditions are split on
   their boolean atoms, and early-return loops go by induction on the list.  A tie lemma proved
   this way fails only when the regenerated function really differs from the model (or leaves
   what the tactics can decide), never because of a renaming, another tuple order, `if c {f =
   true}` instead of `f = f || c`, a helper that was introduced or inlined, guard clauses…    *)
From Coq Require Import List Bool Arith NArith.
Import ListNotations.

Inductive lstep (S R : Type) : Type :=
| LNext (s : S)
| LBreak (s : S)
| LRet (r : R).
Arguments LNext {S R}. Arguments LBreak {S R}. Arguments LRet {S R}.

Fixpoint loop_ret {X S R : Type} (body : S -> X -> lstep S R) (l : list X) (s : S) : S + R :=
  match l with
  | [] => inl s
  | x :: r =>
      match body s x with
      | LNext s' => loop_ret body r s'
      | LBreak s' => inl s'
      | LRet v => inr v
      end
  end.

Definition pid {A : Type} (a : A) : A := a.
Definition pswap {A B : Type} (p : A * B) : B * A := (snd p, fst p).

Lemma fold_left_sim {A B X : Type} (h : A -> B) (F : A -> X -> A) (G : B -> X -> B) :
  (forall a x, h (F a x) = G (h a) x) ->
  forall l a, h (fold_left F l a) = fold_left G l (h a).
Proof.
  intros H l. induction l as [|x r IH]; intros a; [reflexivity|].
  cbn [fold_left]. rewrite IH, H. reflexivity.
Qed.

Lemma loop_ret_ext {X S R : Type} (b1 b2 : S -> X -> lstep S R) :
  (forall s x, b1 s x = b2 s x) -> forall l s, loop_ret b1 l s = loop_ret b2 l s.
Proof.
  intros H l. induction l as [|x r IH]; intros s; [reflexivity|].
  cbn [loop_ret]. rewrite H. destruct (b2 s x); auto.
Qed.

(* a loop that never leaves early is a fold *)
Lemma loop_ret_fold {X S R : Type} (F : S -> X -> S) :
  forall l s, loop_ret (fun s x => @LNext S R (F s x)) l s = inl (fold_left F l s).
Proof. induction l as [|x r IH]; intros s; [reflexivity|]. cbn [loop_ret fold_left]. apply IH. Qed.

(* guards on a length: all spellings of "is empty" *)
Lemma ltb_1_eqb_0 n : Nat.ltb n 1 = Nat.eqb n 0.
Proof. destruct n as [|[|n]]; reflexivity. Qed.
Lemma leb_0_eqb_0 n : Nat.leb n 0 = Nat.eqb n 0.
Proof. destruct n; reflexivity. Qed.
Lemma ltb_0_eqb_0 n : Nat.ltb 0 n = negb (Nat.eqb n 0).
Proof. destruct n; reflexivity. Qed.
Lemma leb_1_eqb_0 n : Nat.leb 1 n = negb (Nat.eqb n 0).
Proof. destruct n; reflexivity. Qed.
Lemma eqb_0_l n : Nat.eqb 0 n = Nat.eqb n 0.
Proof. destruct n; reflexivity. Qed.
Ltac norm_len_guards :=
  rewrite ?ltb_1_eqb_0, ?leb_0_eqb_0, ?ltb_0_eqb_0, ?leb_1_eqb_0, ?eqb_0_l.

(* ---- tactics ---- *)

(* split a tuple-typed variable into its components *)
Ltac destruct_tuple a :=
  lazymatch type of a with
  | (_ * _)%type =>
      let x := fresh "a" in let y := fresh "b" in
      destruct a as [x y]; destruct_tuple x; destruct_tuple y
  | unit => destruct a
  | _ => idtac
  end.

(* the first boolean atom (not built from the connectives) of a boolean term, destructed *)
Ltac bool_atom t :=
  lazymatch t with
  | true => fail
  | false => fail
  | negb ?a => bool_atom a
  | orb ?a ?b => first [bool_atom a | bool_atom b]
  | andb ?a ?b => first [bool_atom a | bool_atom b]
  | xorb ?a ?b => first [bool_atom a | bool_atom b]
  | Bool.eqb ?a ?b => first [bool_atom a | bool_atom b]
  | (if ?c then ?a else ?b) => first [bool_atom c | bool_atom a | bool_atom b]
  | _ => let E := fresh "Eatom" in destruct t eqn:E
  end.

Ltac bool_step :=
  match goal with
  | |- context [if ?c then _ else _] => bool_atom c
  | |- context [negb ?c] => bool_atom c
  | |- context [orb ?a ?b] => first [bool_atom a | bool_atom b]
  | |- context [andb ?a ?b] => first [bool_atom a | bool_atom b]
  | |- context [xorb ?a ?b] => first [bool_atom a | bool_atom b]
  end.

Ltac simp_core := cbv beta iota zeta; unfold pid, pswap; cbn [negb orb andb xorb fst snd].

(* decide an equation between terms built from if/negb/orb/andb over common atoms *)
Ltac bool_crush :=
  simp_core; repeat (bool_step; simp_core);
  try reflexivity; try assumption; try congruence.

(* [fold_tie]: the goal is  C1[fold_left F l i] = C2[fold_left G l j]  (C2 possibly empty).  Find
   the map h between the loop states among the tuple re-arrangements, prove the step simulation,
   replace the right fold by h (left fold) and finish by cases on the left fold's value. *)
Ltac fold_tie_h F G l i j h :=
  let E := fresh "Efold" in
  assert (E : fold_left G l j = h (fold_left F l i));
  [ transitivity (fold_left G l (h i));
    [ reflexivity
    | symmetry; apply (fold_left_sim h F G);
      let a := fresh "st" in let x := fresh "x" in
      intros a x; destruct_tuple a; bool_crush ]
  | rewrite E; clear E;
    let p := fresh "p" in
    generalize (fold_left F l i); intros p; destruct_tuple p; bool_crush ].

Ltac fold_tie :=
  match goal with
  | |- ?L = ?R =>
      match L with
      | context [fold_left ?F ?l ?i] =>
          match R with
          | context [fold_left ?G l ?j] =>
              let A := type of i in
              first
                [ solve [ fold_tie_h F G l i j (@pid A) ]
                | lazymatch A with
                  | (?A1 * ?A2)%type =>
                      first [ solve [ fold_tie_h F G l i j (@pswap A1 A2) ]
                            | solve [ fold_tie_h F G l i j (@fst A1 A2) ]
                            | solve [ fold_tie_h F G l i j (@snd A1 A2) ] ]
                  end ]
          end
      end
  end.

(* guards on the argument list (`if len(items) == 0 { return … }`): cases on the list *)
Ltac list_guard_cases :=
  match goal with
  | |- context [length ?l] =>
      is_var l; destruct l; cbn [length Nat.eqb Nat.ltb Nat.leb negb]; cbv beta iota zeta
  end.

(* fold_tie, if need be after a case split on an argument list whose length is tested *)
Ltac fold_tie_g :=
  first [ fold_tie | list_guard_cases; first [ reflexivity | fold_tie ] ].

(* [loop_tie unfolder]: the goal mentions  loop_ret B l i ; induction on l, generalising the loop
   state, one step of both sides, cases on the atoms, induction hypothesis *)
Ltac loop_tie_with simp :=
  match goal with
  | |- context [loop_ret ?B ?l ?i] =>
      let IH := fresh "IH" in
      (tryif is_var i then revert i else idtac);
      induction l as [|? ? IH];
      [ intros; simp; bool_crush
      | intros; simp;
        repeat (bool_step; simp_core; simp);
        try reflexivity; try assumption; try (rewrite IH; reflexivity); try (apply IH); try congruence ]
  end.
