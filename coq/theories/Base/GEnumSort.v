(* GEnumSort.v — sorting and searching as used by the genum generator and its output
   (definitions only; facts are in GEnumSortFacts.v).

   Go                                         here
   -----------------------------------------  -------------------------------------------
   sort.Sort(values)   (unstable; any         isort ltb l — one particular sorted
   sorted permutation may result)             permutation; GEnumSortFacts.sorted_perm_unique
                                              shows every sorted permutation equals it when
                                              the keys are pairwise distinct
   slices.BinarySearch(x, target)             binsearch x target  (same loop: i, j := 0, n;
     for i < j { h := (i+j)/2;                 h; cmp.Less(x[h], target) ? i = h+1 : j = h),
       if x[h] < target { i = h+1 }            result (i, i < n && x[i] == target)
       else { j = h } }                                                                     *)
From Coq Require Import List ZArith Bool Arith.
Import ListNotations.

Section Sort.
  Context {A : Type} (ltb : A -> A -> bool).

  Fixpoint insert (a : A) (l : list A) : list A :=
    match l with
    | [] => [a]
    | b :: r => if ltb a b then a :: b :: r else b :: insert a r
    end.

  Fixpoint isort (l : list A) : list A :=
    match l with
    | [] => []
    | a :: r => insert a (isort r)
    end.
End Sort.

(* slices.BinarySearch on a list of integers; fuel = number of loop iterations allowed *)
Fixpoint bs_loop (fuel : nat) (x : list Z) (target : Z) (i j : nat) : nat :=
  match fuel with
  | O => i
  | S f =>
      if Nat.ltb i j then
        let h := Nat.div2 (i + j) in
        if Z.ltb (nth h x 0%Z) target then bs_loop f x target (S h) j
        else bs_loop f x target i h
      else i
  end.

Definition binsearch (x : list Z) (target : Z) : nat * bool :=
  let n := length x in
  let i := bs_loop (S n) x target 0 n in
  (i, Nat.ltb i n && Z.eqb (nth i x 0%Z) target).
