(* GEnumSortFacts.v — facts about the sorting / searching definitions of GEnumSort.v.

   - isort is a sorting function (permutation, sorted output when keys are distinct);
   - with pairwise distinct keys, ANY sorted permutation (the result of Go's unstable
     sort.Sort) equals isort's result (sorted_perm_unique);
   - binsearch (slices.BinarySearch) on a strictly ascending list finds exactly the members
     and agrees with a linear scan.                                                        *)
From Coq Require Import List ZArith Bool Arith Lia Permutation Sorted.
From GT Require Import Base.GEnumSort.
Import ListNotations.

Section SortFacts.
  Context {A : Type} (ltb : A -> A -> bool) (P : A -> Prop).
  Hypothesis ltb_irrefl : forall a, P a -> ltb a a = false.
  Hypothesis ltb_trans : forall a b c, P a -> P b -> P c ->
      ltb a b = true -> ltb b c = true -> ltb a c = true.
  Hypothesis ltb_total : forall a b, P a -> P b -> a <> b -> ltb a b = true \/ ltb b a = true.

  Lemma insert_perm : forall a l, Permutation (insert ltb a l) (a :: l).
  Proof.
    intros a l. induction l as [|b r IH]; simpl.
    - apply Permutation_refl.
    - destruct (ltb a b).
      + apply Permutation_refl.
      + apply perm_trans with (b :: a :: r).
        * apply perm_skip. exact IH.
        * apply perm_swap.
  Qed.

  Lemma isort_perm : forall l, Permutation (isort ltb l) l.
  Proof.
    induction l as [|a r IH]; simpl.
    - apply perm_nil.
    - eapply perm_trans.
      + apply insert_perm.
      + apply perm_skip. exact IH.
  Qed.

  Lemma isort_in : forall l a, In a (isort ltb l) <-> In a l.
  Proof.
    intros l a. split; apply Permutation_in.
    - apply isort_perm.
    - apply Permutation_sym. apply isort_perm.
  Qed.

  Lemma isort_length : forall l, length (isort ltb l) = length l.
  Proof.
    intros l. apply Permutation_length. apply isort_perm.
  Qed.

  Lemma insert_sorted : forall a l, P a -> Forall P l -> ~ In a l ->
      StronglySorted (fun a b => ltb a b = true) l ->
      StronglySorted (fun a b => ltb a b = true) (insert ltb a l).
  Proof.
    intros a l Pa. induction l as [|b r IH]; intros HP Hnin Hs; simpl.
    - constructor; constructor.
    - inversion HP as [|? ? Pb Pr]; subst.
      inversion Hs as [|? ? Hsr Hbr]; subst.
      destruct (ltb a b) eqn:Hab.
      + constructor; [exact Hs|].
        constructor; [exact Hab|].
        rewrite Forall_forall in *. intros c Hc.
        apply (ltb_trans a b c); auto.
      + assert (Hne : a <> b) by (intro E; apply Hnin; left; symmetry; exact E).
        assert (Hba : ltb b a = true).
        { destruct (ltb_total a b Pa Pb Hne) as [H|H]; [congruence|exact H]. }
        constructor.
        * apply IH; auto. intro Hin. apply Hnin. right. exact Hin.
        * apply (Permutation_Forall (Permutation_sym (insert_perm a r))).
          constructor; assumption.
  Qed.

  Lemma isort_sorted : forall l, Forall P l -> NoDup l ->
      StronglySorted (fun a b => ltb a b = true) (isort ltb l).
  Proof.
    induction l as [|a r IH]; intros HP Hnd; simpl.
    - constructor.
    - inversion HP as [|? ? Pa Pr]; subst.
      inversion Hnd as [|? ? Hnin Hndr]; subst.
      apply insert_sorted.
      + exact Pa.
      + apply (Permutation_Forall (Permutation_sym (isort_perm r))). exact Pr.
      + intro Hin. apply Hnin. apply isort_in. exact Hin.
      + apply IH; assumption.
  Qed.

  (* two strictly sorted lists with the same elements are equal *)
  Lemma sorted_lt_unique : forall l1 l2, Forall P l1 ->
      StronglySorted (fun a b => ltb a b = true) l1 ->
      StronglySorted (fun a b => ltb a b = true) l2 ->
      Permutation l1 l2 -> l1 = l2.
  Proof.
    induction l1 as [|a r1 IH]; intros l2 HP H1 H2 Hp.
    - apply Permutation_nil in Hp. symmetry. exact Hp.
    - destruct l2 as [|b r2].
      + apply Permutation_sym in Hp. apply Permutation_nil_cons in Hp. contradiction.
      + inversion HP as [|? ? Pa Pr]; subst.
        inversion H1 as [|? ? Hs1 Hf1]; subst.
        inversion H2 as [|? ? Hs2 Hf2]; subst.
        assert (Hab : a = b).
        { assert (Ha : In a (b :: r2)) by (apply (Permutation_in a Hp); left; reflexivity).
          assert (Hb : In b (a :: r1))
            by (apply (Permutation_in b (Permutation_sym Hp)); left; reflexivity).
          destruct Ha as [Ha|Ha]; [symmetry; exact Ha|].
          destruct Hb as [Hb|Hb]; [exact Hb|].
          exfalso.
          rewrite Forall_forall in Hf1, Hf2, Pr.
          pose proof (Hf1 b Hb) as Lab.
          pose proof (Hf2 a Ha) as Lba.
          pose proof (ltb_trans a b a Pa (Pr b Hb) Pa Lab Lba) as Laa.
          rewrite (ltb_irrefl a Pa) in Laa. discriminate. }
        subst b. f_equal.
        apply IH; auto.
        apply Permutation_cons_inv with (a := a). exact Hp.
  Qed.

  (* "no later element is less than an earlier one" + distinctness gives strict sortedness *)
  Lemma sorted_nlt_lt : forall s, Forall P s -> NoDup s ->
      StronglySorted (fun a b => ltb b a = false) s ->
      StronglySorted (fun a b => ltb a b = true) s.
  Proof.
    induction s as [|a r IH]; intros HP Hnd Hs.
    - constructor.
    - inversion HP as [|? ? Pa Pr]; subst.
      inversion Hnd as [|? ? Hnin Hndr]; subst.
      inversion Hs as [|? ? Hsr Hfr]; subst.
      constructor.
      + apply IH; assumption.
      + rewrite Forall_forall in *. intros b Hb.
        assert (Hne : a <> b) by (intro E; subst b; contradiction).
        destruct (ltb_total a b Pa (Pr b Hb) Hne) as [H|H]; [exact H|].
        rewrite (Hfr b Hb) in H. discriminate.
  Qed.

  Lemma sorted_perm_unique : forall l s, Forall P l -> NoDup l -> Permutation s l ->
      StronglySorted (fun a b => ltb b a = false) s -> s = isort ltb l.
  Proof.
    intros l s HP Hnd Hp Hs.
    assert (HPs : Forall P s) by (apply (Permutation_Forall (Permutation_sym Hp)); exact HP).
    assert (Hnds : NoDup s) by (apply (Permutation_NoDup (Permutation_sym Hp)); exact Hnd).
    apply sorted_lt_unique.
    - exact HPs.
    - apply sorted_nlt_lt; assumption.
    - apply isort_sorted; assumption.
    - apply perm_trans with l; [exact Hp|].
      apply Permutation_sym. apply isort_perm.
  Qed.
End SortFacts.

(* ---------------------------------------------------------------------------------- *)
(* binary search                                                                      *)

Lemma div2_mid : forall i j : nat, i < j -> i <= Nat.div2 (i + j) /\ Nat.div2 (i + j) < j.
Proof.
  intros i j Hij.
  pose proof (Nat.div2_odd (i + j)) as H.
  destruct (Nat.odd (i + j)); simpl Nat.b2n in H; lia.
Qed.

Lemma sorted_nth_lt : forall x, StronglySorted Z.lt x ->
    forall a b : nat, a < b -> b < length x -> (nth a x 0 < nth b x 0)%Z.
Proof.
  intros x Hs. induction Hs as [|h l Hsl IH Hf]; intros a b Hab Hb; simpl in Hb.
  - lia.
  - destruct b as [|b']; [lia|].
    destruct a as [|a']; simpl.
    + rewrite Forall_forall in Hf. apply Hf. apply nth_In. lia.
    + apply IH; lia.
Qed.

Lemma bs_loop_inv : forall x t,
    (forall a b : nat, a < b -> b < length x -> (nth a x 0 < nth b x 0)%Z) ->
    forall fuel i j,
      i <= j -> j <= length x -> j - i < fuel ->
      (forall k, k < i -> (nth k x 0 < t)%Z) ->
      (forall k, j <= k -> k < length x -> (t <= nth k x 0)%Z) ->
      bs_loop fuel x t i j <= length x /\
      (forall k, k < bs_loop fuel x t i j -> (nth k x 0 < t)%Z) /\
      (forall k, bs_loop fuel x t i j <= k -> k < length x -> (t <= nth k x 0)%Z).
Proof.
  intros x t Hmono. induction fuel as [|f IH]; intros i j Hij Hj Hfuel Hlo Hhi.
  - lia.
  - simpl. destruct (Nat.ltb i j) eqn:Hlt.
    + apply Nat.ltb_lt in Hlt.
      destruct (div2_mid i j Hlt) as [Hh1 Hh2].
      remember (Nat.div2 (i + j)) as h eqn:Eh. clear Eh.
      destruct (Z.ltb (nth h x 0%Z) t) eqn:Hc.
      * apply Z.ltb_lt in Hc.
        apply IH; try lia.
        -- intros k Hk.
           assert (k = h \/ k < h) as [E|L] by lia.
           ++ subst k. exact Hc.
           ++ pose proof (Hmono k h L ltac:(lia)). lia.
        -- exact Hhi.
      * apply Z.ltb_ge in Hc.
        apply IH; try lia.
        -- exact Hlo.
        -- intros k Hk1 Hk2.
           assert (k = h \/ h < k) as [E|L] by lia.
           ++ subst k. exact Hc.
           ++ pose proof (Hmono h k L Hk2). lia.
    + apply Nat.ltb_ge in Hlt.
      assert (i = j) by lia. subst j.
      split; [lia|]. split; [exact Hlo|exact Hhi].
Qed.

(* slices.BinarySearch on an ascending list without duplicates finds exactly the members *)
Lemma binsearch_found : forall x t, StronglySorted Z.lt x ->
    (snd (binsearch x t) = true <-> In t x).
Proof.
  intros x t Hs. unfold binsearch. cbv beta iota zeta delta [snd].
  pose proof (sorted_nth_lt x Hs) as Hmono.
  destruct (bs_loop_inv x t Hmono (S (length x)) 0 (length x)) as [Hr [Hlo Hhi]]; try lia.
  remember (bs_loop (S (length x)) x t 0 (length x)) as r eqn:Er. clear Er.
  split.
  - intro H. apply andb_true_iff in H. destruct H as [H1 H2].
    apply Nat.ltb_lt in H1. apply Z.eqb_eq in H2.
    rewrite <- H2. apply nth_In. exact H1.
  - intro Hin.
    destruct (In_nth x t 0%Z Hin) as [k [Hk Ek]].
    assert (Hrk : r = k).
    { destruct (Nat.lt_trichotomy k r) as [L|[E|L]].
      - pose proof (Hlo k L). lia.
      - symmetry. exact E.
      - pose proof (Hhi r (Nat.le_refl r) ltac:(lia)).
        pose proof (Hmono r k L Hk). lia. }
    subst r. apply andb_true_iff. split.
    + apply Nat.ltb_lt. exact Hk.
    + apply Z.eqb_eq. exact Ek.
Qed.

(* and the linear scan agrees with it *)
Lemma binsearch_existsb : forall x t, StronglySorted Z.lt x ->
    snd (binsearch x t) = existsb (Z.eqb t) x.
Proof.
  intros x t Hs.
  pose proof (binsearch_found x t Hs) as Hf.
  destruct (snd (binsearch x t)) eqn:Hb.
  - symmetry. apply existsb_exists. exists t. split.
    + apply Hf. reflexivity.
    + apply Z.eqb_refl.
  - destruct (existsb (Z.eqb t) x) eqn:He; [|reflexivity].
    apply existsb_exists in He. destruct He as [y [Hy Ey]].
    apply Z.eqb_eq in Ey. subst y.
    apply Hf in Hy. discriminate.
Qed.

Print Assumptions insert_perm.
Print Assumptions isort_perm.
Print Assumptions isort_in.
Print Assumptions isort_length.
Print Assumptions isort_sorted.
Print Assumptions sorted_perm_unique.
Print Assumptions binsearch_found.
Print Assumptions binsearch_existsb.
