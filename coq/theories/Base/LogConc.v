(* LogConc.v — a small interleaving machine for programs that update ONE shared atomic pointer
   cell (log/context_utils.go: the logHolder shared by the contexts of a subtree).
   Definitions only; the invariant proof is in LogConcProofs.v.  Independent of Base/Conc*.v.

   A thread runs a list of operations; the program of an operation is a flat list of
   shared-memory instructions (exactly the `sync/atomic` calls of the Go function, in evaluation
   order — regenerated from the source by harness/cmd/xlate_logconc and compared by eq_refl):

     ILoad            reg := cell                              (atomic.Pointer.Load)
     IRead            reg := cell, and that is all the operation does to the cell: a read-only
                      operation (ChildLogger: lh.Load().With(..) goes into a FRESH holder); it is
                      linearised at this Load
     IStore f         cell := f(reg)                           (atomic.Pointer.Store)
     ICas f k         if cell is still the pointer in reg then cell := f(reg)
                      else goto k                              (CompareAndSwap in a retry loop)

   One machine step = one instruction of one thread = one yield site of the schedule replay.
   Pointer identity: the cell holds (stamp, value); a derived value gets a fresh stamp unless
   the pure function returns its argument itself ([ident], zap's `Logger.With()` with no
   fields), so CompareAndSwap compares stamps exactly as Go compares pointers.
   A successful IStore / ICas is the linearisation point of its operation and is recorded,
   tagged with the thread id, in the trace returned by [run].                                *)
From Coq Require Import List Arith Bool.
Import ListNotations.

Section Machine.
  Variables (O V F : Type).
  Variable pure : F -> O -> V -> V.          (* value derived from the loaded one *)
  Variable ident : F -> O -> bool.           (* the derived pointer IS the loaded pointer *)

  Inductive instr := ILoad | IStore (f : F) | ICas (f : F) (retry : nat) | IRead.

  Variable prog : O -> list instr.

  Record thread := { t_ops : list O; t_pc : nat; t_reg : nat * V }.
  Record mstate := { m_cell : nat * V; m_next : nat; m_threads : list thread }.

  Definition new_ptr (next : nat) (f : F) (o : O) (r : nat * V) : (nat * V) * nat :=
    if ident f o then ((fst r, pure f o (snd r)), next)
    else ((next, pure f o (snd r)), S next).

  (* after an instruction: next pc, or the operation returns when the program is exhausted *)
  Definition advance (th : thread) (o : O) (rest : list O) (pc' : nat) (r : nat * V) : thread :=
    if length (prog o) <=? pc' then {| t_ops := rest; t_pc := 0; t_reg := r |}
    else {| t_ops := o :: rest; t_pc := pc'; t_reg := r |}.

  (* one instruction of one thread; Some o = operation o took effect (linearised) here *)
  Definition step_thread (cell : nat * V) (next : nat) (th : thread)
    : (nat * V) * nat * thread * option O :=
    match t_ops th with
    | [] => (cell, next, th, None)                       (* returned: stutter *)
    | o :: rest =>
        match nth_error (prog o) (t_pc th) with
        | None => (cell, next, {| t_ops := rest; t_pc := 0; t_reg := t_reg th |}, None)
        | Some ILoad => (cell, next, advance th o rest (S (t_pc th)) cell, None)
        | Some IRead => (cell, next, advance th o rest (S (t_pc th)) cell, Some o)
        | Some (IStore f) =>
            let '(c', n') := new_ptr next f o (t_reg th) in
            (c', n', advance th o rest (S (t_pc th)) (t_reg th), Some o)
        | Some (ICas f k) =>
            if fst cell =? fst (t_reg th) then
              let '(c', n') := new_ptr next f o (t_reg th) in
              (c', n', advance th o rest (S (t_pc th)) (t_reg th), Some o)
            else (cell, next, {| t_ops := o :: rest; t_pc := k; t_reg := t_reg th |}, None)
        end
    end.

  Fixpoint set_nth {A} (n : nat) (x : A) (l : list A) : list A :=
    match l, n with
    | [], _ => []
    | _ :: t, 0 => x :: t
    | h :: t, S k => h :: set_nth k x t
    end.

  Definition tag (tid : nat) (e : option O) : list (nat * O) :=
    match e with Some o => [(tid, o)] | None => [] end.

  Definition step (st : mstate) (tid : nat) : mstate * list (nat * O) :=
    match nth_error (m_threads st) tid with
    | None => (st, [])                                    (* no such thread: stutter *)
    | Some th =>
        let '(c, n, th', ev) := step_thread (m_cell st) (m_next st) th in
        ({| m_cell := c; m_next := n; m_threads := set_nth tid th' (m_threads st) |}, tag tid ev)
    end.

  (* run a schedule; returns the final state and the (thread, operation) pairs in
     linearisation order *)
  Fixpoint run (st : mstate) (sched : list nat) : mstate * list (nat * O) :=
    match sched with
    | [] => (st, [])
    | t :: rest =>
        let '(st1, ev) := step st t in
        let '(st2, tr) := run st1 rest in
        (st2, ev ++ tr)
    end.

  (* the cell value at every linearisation point, in linearisation order (index-aligned with
     the trace of [run]): the value an update installed, the value a read-only operation saw *)
  Fixpoint run_vals (st : mstate) (sched : list nat) : list V :=
    match sched with
    | [] => []
    | t :: rest =>
        let '(st1, ev) := step st t in
        map (fun _ => snd (m_cell st1)) ev ++ run_vals st1 rest
    end.

  (* the cell value after every step of the schedule (what the replay harness observes) *)
  Fixpoint run_obs (st : mstate) (sched : list nat) : list V :=
    match sched with
    | [] => []
    | t :: rest => let st1 := fst (step st t) in snd (m_cell st1) :: run_obs st1 rest
    end.

  Definition init_state (v0 : V) (progs : list (list O)) : mstate :=
    {| m_cell := (0, v0); m_next := 1;
       m_threads := map (fun ops => {| t_ops := ops; t_pc := 0; t_reg := (0, v0) |}) progs |}.

  (* the operations of one thread in a trace, and the trace without the tags *)
  Definition ops_of (tid : nat) (tr : list (nat * O)) : list O :=
    map snd (filter (fun e => fst e =? tid) tr).
  Definition untag (tr : list (nat * O)) : list O := map snd tr.

  (* how often a thread is scheduled *)
  Fixpoint occ (t : nat) (sched : list nat) : nat :=
    match sched with
    | [] => 0
    | s :: rest => (if s =? t then 1 else 0) + occ t rest
    end.

  (* own steps a thread still needs to complete its current operation when no other thread's
     update intervenes: Load, CAS from the start; one CAS when its loaded pointer is current;
     failing CAS, Load, CAS when it is stale *)
  Definition need (cell : nat * V) (th : thread) : nat :=
    if t_pc th =? 0 then 2 else if fst cell =? fst (t_reg th) then 1 else 3.

  Definition all_returned (st : mstate) : bool :=
    forallb (fun th => match t_ops th with [] => true | _ => false end) (m_threads st).
End Machine.

Arguments ILoad {F}.
Arguments IStore {F} f.
Arguments ICas {F} f retry.
Arguments IRead {F}.
Arguments t_ops {O V}.
Arguments t_pc {O V}.
Arguments t_reg {O V}.
Arguments m_cell {O V}.
Arguments m_next {O V}.
Arguments m_threads {O V}.
