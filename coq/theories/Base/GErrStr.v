(* Base/GErrStr.v — Go strings for the gerror models: lists of Unicode code points.

   Only valid UTF-8 strings are represented (the harnesses build every argument from runes),
   so concatenation of Go strings is concatenation of lists and strings.TrimSpace — which
   decodes runes and tests unicode.IsSpace — is [trim_space].  No proofs in this file.

   Go                                   here
   ----------------------------------   ---------------------------
   s == ""                              is_empty s
   unicode.IsSpace(r)                   is_space r   ('\t' '\n' '\v' '\f' '\r' ' ' U+0085 U+00A0
                                                      U+1680 U+2000..U+200A U+2028 U+2029 U+202F
                                                      U+205F U+3000)
   strings.TrimSpace(s)                 trim_space s
   strings.Join(l, sep)                 join sep l
   s < t  (byte order = code point order for valid UTF-8)    str_ltb s t                     *)
From Coq Require Import NArith List Bool String Ascii.
Import ListNotations.
Local Open Scope N_scope.

Definition str := list N.

Fixpoint str_eqb (a b : str) : bool :=
  match a, b with
  | [], [] => true
  | x :: a', y :: b' => N.eqb x y && str_eqb a' b'
  | _, _ => false
  end.

Fixpoint str_ltb (a b : str) : bool :=
  match a, b with
  | _, [] => false
  | [], _ :: _ => true
  | x :: a', y :: b' => if N.ltb x y then true else if N.eqb x y then str_ltb a' b' else false
  end.

Definition is_empty (s : str) : bool := match s with [] => true | _ => false end.
Definition nonempty (s : str) : bool := negb (is_empty s).

Definition is_space (c : N) : bool :=
  ((9 <=? c) && (c <=? 13)) || (c =? 32) || (c =? 133) || (c =? 160) || (c =? 5760)
  || ((8192 <=? c) && (c <=? 8202)) || (c =? 8232) || (c =? 8233) || (c =? 8239)
  || (c =? 8287) || (c =? 12288).

Fixpoint drop_space (s : str) : str :=
  match s with
  | [] => []
  | c :: r => if is_space c then drop_space r else s
  end.

(* TrimSpace: drop leading white space, then trailing white space *)
Definition trim_space (s : str) : str := rev (drop_space (rev (drop_space s))).

Fixpoint join (sep : str) (l : list str) : str :=
  match l with
  | [] => []
  | [x] => x
  | x :: r => x ++ sep ++ join sep r
  end.

Fixpoint first_nonempty (l : list str) : str :=
  match l with
  | [] => []
  | x :: r => if is_empty x then first_nonempty r else x
  end.

(* readable literals: the code points of an ASCII Coq string *)
Fixpoint s_of (s : string) : str :=
  match s with
  | EmptyString => []
  | String a r => N_of_ascii a :: s_of r
  end.

Definition sp : str := [32].
Definition dash : str := [45].

(* literals of the Error() renderers and of the tag parser *)
Definition lit_name : str := s_of "Name: ".
Definition lit_dtag : str := s_of "DTag: ".
Definition lit_source : str := s_of "Source: ".
Definition lit_message : str := s_of "Message: ".
Definition lit_sep : str := s_of ", ".
Definition lit_colon : str := s_of ": ".
Definition lit_print : str := s_of "print".
Definition lit_clone : str := s_of "clone".
Definition underscore : str := [95].
