(* GEnumStrFacts.v — the byte-wise string order is a strict total order; helpers on
   str_mem / str_nodupb / least names. *)
From Coq Require Import String Ascii ZArith List Bool OrderedTypeEx Lia.
From GT Require Import Base.GEnumStr.
Import ListNotations.

Lemma str_ltb_lt : forall a b, str_ltb a b = true <-> String_as_OT.lt a b.
Proof.
  intros a b. unfold str_ltb, String.ltb. rewrite <- String_as_OT.cmp_lt.
  unfold String_as_OT.cmp. destruct (String.compare a b); split; intro H; congruence.
Qed.

Lemma str_ltb_irrefl : forall a, str_ltb a a = false.
Proof.
  intros a. unfold str_ltb, String.ltb.
  assert (H : String.compare a a = Eq) by (apply String_as_OT.cmp_eq; reflexivity).
  rewrite H. reflexivity.
Qed.

Lemma str_ltb_trans : forall a b c, str_ltb a b = true -> str_ltb b c = true -> str_ltb a c = true.
Proof.
  intros a b c H1 H2. apply str_ltb_lt. apply str_ltb_lt in H1. apply str_ltb_lt in H2.
  eapply String_as_OT.lt_trans; eauto.
Qed.

Lemma str_ltb_total : forall a b, a <> b -> str_ltb a b = true \/ str_ltb b a = true.
Proof.
  intros a b Hne. unfold str_ltb, String.ltb.
  destruct (String.compare a b) eqn:E.
  - apply String.compare_eq_iff in E. contradiction.
  - left; reflexivity.
  - right. rewrite String.compare_antisym, E. reflexivity.
Qed.

Lemma str_ltb_asym : forall a b, str_ltb a b = true -> str_ltb b a = false.
Proof.
  intros a b H. destruct (str_ltb b a) eqn:E; [|reflexivity].
  pose proof (str_ltb_trans _ _ _ H E) as T. rewrite str_ltb_irrefl in T. discriminate.
Qed.

(* non-strict order *)
Definition str_leb (a b : string) : bool := negb (str_ltb b a).

Lemma str_leb_antisym : forall a b, str_leb a b = true -> str_leb b a = true -> a = b.
Proof.
  intros a b H1 H2. unfold str_leb in *. apply negb_true_iff in H1, H2.
  destruct (string_dec a b) as [|Hne]; [assumption|].
  destruct (str_ltb_total a b Hne) as [H|H]; congruence.
Qed.

Lemma str_leb_refl : forall a, str_leb a a = true.
Proof. intros. unfold str_leb. rewrite str_ltb_irrefl. reflexivity. Qed.

Lemma str_ltb_leb : forall a b, str_ltb a b = true -> str_leb a b = true.
Proof. intros a b H. unfold str_leb. rewrite (str_ltb_asym _ _ H). reflexivity. Qed.

Lemma str_leb_trans : forall a b c, str_leb a b = true -> str_leb b c = true -> str_leb a c = true.
Proof.
  intros a b c H1 H2. unfold str_leb in *. apply negb_true_iff in H1, H2. apply negb_true_iff.
  destruct (str_ltb c a) eqn:E; [|reflexivity].
  destruct (string_dec b c) as [->|Hne]; [congruence|].
  destruct (str_ltb_total b c Hne) as [H|H]; [|congruence].
  pose proof (str_ltb_trans _ _ _ H E). congruence.
Qed.

Lemma str_mem_In : forall s l, str_mem s l = true <-> In s l.
Proof.
  intros s l. unfold str_mem. rewrite existsb_exists. split.
  - intros [x [Hin Heq]]. apply String.eqb_eq in Heq. subst. assumption.
  - intros H. exists s. split; [assumption|apply String.eqb_refl].
Qed.

Lemma str_nodupb_NoDup : forall l, str_nodupb l = true <-> NoDup l.
Proof.
  induction l as [|x r IH]; simpl.
  - split; [constructor|reflexivity].
  - rewrite andb_true_iff, negb_true_iff, IH. split.
    + intros [Hn Hr]. constructor; [|assumption]. intro Hin. apply str_mem_In in Hin. congruence.
    + intros H. inversion H as [|? ? Hn Hr]; subst. split; [|assumption].
      destruct (str_mem x r) eqn:E; [|reflexivity]. apply str_mem_In in E. contradiction.
Qed.
