(* ConcIR.v — the tiny IR in which harness/cmd/xlate_conc lists the shared-memory operations
   of a Go function together with the branch structure between them.

   A site (Some n) marks a statement/condition before which the instrumented real code calls
   vsched.Yield n: one site = one micro-step of the machines of Base/Conc.v.  Conditions,
   returned expressions and the text of operation statements are kept as strings with local
   identifiers renamed (receiver = recv, then v0, v1, .. in order of first binding).        *)
From Coq Require Import List String.
Import ListNotations.

Inductive aop :=
| ALoad | AStore | ASwap | ACAS | AAdd | AAnd | AOr
| ALock | AUnlock | ARLock | ARUnlock | ATryLock.

Inductive op :=
| OAtomic (a : aop) (field : string)
| OClose
| OMake
| ORecv
| OSend
| OCallM (method : string).

Inductive stmt :=
| SOps (site : option nat) (ops : list op) (text : string)
| SIf (site : option nat) (ops : list op) (cond : string) (th el : list stmt)
| SLoop (site : option nat) (ops : list op) (cond : string) (body : list stmt)
| SSwitch (site : option nat) (ops : list op) (tag : string) (cases : list (string * list stmt))
| SSelect (site : option nat) (cases : list (list op * string * list stmt))
| SReturn (site : option nat) (ops : list op) (results : string)
| SDefer (ops : list op) (text : string)
| SBreak
| SContinue
| SMissing.

Definition func := (string * list stmt)%type.

(* all sites of a statement list, in source order *)
Definition osite (o : option nat) : list nat := match o with Some n => [n] | None => [] end.
Fixpoint sites (s : stmt) : list nat :=
  match s with
  | SOps o _ _ => osite o
  | SIf o _ _ th el => osite o ++ flat_map sites th ++ flat_map sites el
  | SLoop o _ _ b => osite o ++ flat_map sites b
  | SSwitch o _ _ cs => osite o ++ flat_map (fun c => flat_map sites (snd c)) cs
  | SSelect o cs => osite o ++ flat_map (fun c => flat_map sites (snd c)) cs
  | SReturn o _ _ => osite o
  | _ => []
  end.
Definition func_sites (f : func) : list nat := flat_map sites (snd f).

(* (site, operations at that site) in source order: which shared-memory operation each
   micro-step of a machine stands for *)
Definition osite_ops (o : option nat) (ops : list op) : list (nat * list op) :=
  match o with Some n => [(n, ops)] | None => [] end.
Fixpoint site_ops (s : stmt) : list (nat * list op) :=
  match s with
  | SOps o ops _ => osite_ops o ops
  | SIf o ops _ th el => osite_ops o ops ++ flat_map site_ops th ++ flat_map site_ops el
  | SLoop o ops _ b => osite_ops o ops ++ flat_map site_ops b
  | SSwitch o ops _ cs => osite_ops o ops ++ flat_map (fun c => flat_map site_ops (snd c)) cs
  | SSelect o cs => osite_ops o [] ++ flat_map (fun c => flat_map site_ops (snd c)) cs
  | SReturn o ops _ => osite_ops o ops
  | _ => []
  end.
Definition func_site_ops (f : func) : list (nat * list op) := flat_map site_ops (snd f).
