(* ConcIR.v — the IR in which harness/cmd/xlate_conc re-states a Go function that works on
   shared memory with sync/atomic operations, and its generic small-step denotation.

   The translator maps the Go AST one to one: expressions (locals renamed v0,v1,.. in order of
   first binding; the receiver's atomic fields only occur as the target of an atomic method
   call), definitions, assignments, close, if/else, `for { }`, return.  Anything else becomes
   [EUnknown]/[SOther], which denote "stuck".  A statement (or condition) containing a
   shared-memory operation carries [Some site]: the instrumented real code calls
   vsched.Yield site right before it.

   Denotation: a running call is an environment of locals and a continuation (a list of
   statements to run, loop markers, scope-end markers).  [run] executes from the statement a
   thread is parked at up to (excluding) the next statement that carries a site, or to the
   return: ONE micro-step = ONE shared-memory operation plus the local computation that
   follows it - exactly what runs between two yields of the instrumented code.
   The shared memory is abstract: [mem Sh] says what an atomic operation on a named field, a
   close and a global do (the component's model of its memory).

   Values: integers, booleans, channels, pointers to a channel variable, pointers to a
   published immutable struct (identity + fields) and to a struct not yet published.
   A channel made by make(chan) has no name until it is published or closed ([VChan None]):
   an unpublished channel is unobservable, so it is named when it first escapes.            *)
From Coq Require Import List String ZArith Bool Arith.
Import ListNotations.
Local Open Scope string_scope.
Local Open Scope list_scope.

Inductive aop :=
| ALoad | AStore | ASwap | ACAS | AAdd | AAnd | AOr
| ALock | AUnlock | ARLock | ARUnlock | ATryLock.

Inductive binop := BAdd | BSub | BEq | BNe | BLt | BLe | BGt | BGe | BAnd | BOr.

Inductive expr :=
| EVar (x : string)
| EInt (z : Z)
| EGlobal (g : string)
| EAddr (e : expr)
| EDeref (e : expr)
| EField (e : expr) (f : string)
| EBin (o : binop) (a b : expr)
| ENot (e : expr)
| EConv (e : expr)                                   (* int(x), int64(x): identity on Z *)
| ENew (ty : string) (fields : list (string * expr)) (* &T{f: e, ..} *)
| EMake                                              (* make(chan ..) *)
| EAtomic (a : aop) (field : string) (args : list expr)
| EUnknown (text : string).

Inductive lhs := LVar (x : string) | LField (x f : string).

Inductive stmt :=
| SDefine (site : option nat) (x : string) (e : expr)
| SAssign (site : option nat) (l : lhs) (e : expr)
| SClose (site : option nat) (e : expr)
| SExpr (site : option nat) (e : expr)
| SIf (site : option nat) (c : expr) (th el : list stmt)
| SLoop (body : list stmt)
| SReturn (site : option nat) (e : expr)
| SOther (site : option nat) (text : string).

Record func := Func { f_name : string; f_params : list string; f_body : list stmt }.

Definition prog := list func.

Fixpoint find_func (name : string) (p : prog) : option func :=
  match p with
  | [] => None
  | f :: r => if String.eqb (f_name f) name then Some f else find_func name r
  end.

(* ---------------------------------------------------------------- sites *)
Definition stmt_site (s : stmt) : option nat :=
  match s with
  | SDefine o _ _ | SAssign o _ _ | SClose o _ | SExpr o _ | SIf o _ _ _ | SReturn o _
  | SOther o _ => o
  | SLoop _ => None
  end.

Definition osite (o : option nat) : list nat := match o with Some n => [n] | None => [] end.

Fixpoint atomics (e : expr) : list (aop * string) :=
  match e with
  | EAddr a | EDeref a | EField a _ | ENot a | EConv a => atomics a
  | EBin _ a b => atomics a ++ atomics b
  | ENew _ fs => flat_map (fun p => atomics (snd p)) fs
  | EAtomic a f args => flat_map atomics args ++ [(a, f)]
  | _ => []
  end.

(* (site, kind of operation) in source order *)
Inductive opkind := KAtomic (a : aop) (field : string) | KClose | KOther.

Fixpoint site_ops (s : stmt) : list (nat * list opkind) :=
  let at_site o ks := match o with Some n => [(n, ks)] | None => [] end in
  let ks e := map (fun p => KAtomic (fst p) (snd p)) (atomics e) in
  match s with
  | SDefine o _ e | SAssign o _ e | SExpr o e | SReturn o e => at_site o (ks e)
  | SClose o e => at_site o (ks e ++ [KClose])
  | SIf o c th el => at_site o (ks c) ++ flat_map site_ops th ++ flat_map site_ops el
  | SLoop b => flat_map site_ops b
  | SOther o _ => at_site o [KOther]
  end.
Definition func_site_ops (f : func) : list (nat * list opkind) := flat_map site_ops (f_body f).

(* ---------------------------------------------------------------- values and memory *)
Inductive value :=
| VInt (z : Z)
| VBool (b : bool)
| VChan (c : option nat)
| VPtrChan (c : option nat)
| VRef (id : nat) (fields : list (string * value))
| VNew (fields : list (string * value))
| VUnit.

Definition env := list (string * value).

Fixpoint lookup {A} (x : string) (l : list (string * A)) : option A :=
  match l with
  | [] => None
  | (y, v) :: r => if String.eqb x y then Some v else lookup x r
  end.

Fixpoint update {A} (x : string) (v : A) (l : list (string * A)) : option (list (string * A)) :=
  match l with
  | [] => None
  | (y, w) :: r =>
      if String.eqb x y then Some ((y, v) :: r)
      else match update x v r with Some r' => Some ((y, w) :: r') | None => None end
  end.

Record mem (Sh : Type) := Mem {
  m_atomic : aop -> string -> list value -> Sh -> option (Sh * value);
  m_close : option nat -> Sh -> option (Sh * bool);      (* false = panic *)
  m_global : string -> option value
}.
Arguments m_atomic {Sh}.
Arguments m_close {Sh}.
Arguments m_global {Sh}.

Definition chan_eq (a b : option nat) : option bool :=
  match a, b with
  | Some x, Some y => Some (Nat.eqb x y)
  | None, Some _ | Some _, None => Some false     (* a fresh channel differs from any named one *)
  | None, None => None
  end.

Definition val_eq (a b : value) : option bool :=
  match a, b with
  | VInt x, VInt y => Some (Z.eqb x y)
  | VBool x, VBool y => Some (Bool.eqb x y)
  | VChan x, VChan y => chan_eq x y
  | VPtrChan x, VPtrChan y => chan_eq x y
  | VRef x _, VRef y _ => Some (Nat.eqb x y)
  | _, _ => None
  end.

Definition binop_val (o : binop) (a b : value) : option value :=
  match o with
  | BEq => option_map VBool (val_eq a b)
  | BNe => option_map (fun x => VBool (negb x)) (val_eq a b)
  | _ =>
      match a, b with
      | VInt x, VInt y =>
          match o with
          | BAdd => Some (VInt (x + y)) | BSub => Some (VInt (x - y))
          | BLt => Some (VBool (x <? y)) | BLe => Some (VBool (x <=? y))
          | BGt => Some (VBool (y <? x)) | BGe => Some (VBool (y <=? x))
          | _ => None
          end%Z
      | _, _ => None
      end
  end.

Section Denote.
  Variable Sh : Type.
  Variable M : mem Sh.

  Fixpoint eval (en : env) (e : expr) (s : Sh) : option (Sh * value) :=
    match e with
    | EVar x => option_map (fun v => (s, v)) (lookup x en)
    | EInt z => Some (s, VInt z)
    | EGlobal g => option_map (fun v => (s, v)) (m_global M g)
    | EAddr a =>
        match eval en a s with Some (s', VChan c) => Some (s', VPtrChan c) | _ => None end
    | EDeref a =>
        match eval en a s with Some (s', VPtrChan c) => Some (s', VChan c) | _ => None end
    | EField a f =>
        match eval en a s with
        | Some (s', VRef _ fs) | Some (s', VNew fs) => option_map (fun v => (s', v)) (lookup f fs)
        | _ => None
        end
    | EBin BAnd a b =>
        match eval en a s with
        | Some (s', VBool false) => Some (s', VBool false)
        | Some (s', VBool true) =>
            match eval en b s' with Some (s'', VBool y) => Some (s'', VBool y) | _ => None end
        | _ => None
        end
    | EBin BOr a b =>
        match eval en a s with
        | Some (s', VBool true) => Some (s', VBool true)
        | Some (s', VBool false) =>
            match eval en b s' with Some (s'', VBool y) => Some (s'', VBool y) | _ => None end
        | _ => None
        end
    | EBin o a b =>
        match eval en a s with
        | Some (s', va) =>
            match eval en b s' with
            | Some (s'', vb) => option_map (fun v => (s'', v)) (binop_val o va vb)
            | None => None
            end
        | None => None
        end
    | ENot a =>
        match eval en a s with Some (s', VBool x) => Some (s', VBool (negb x)) | _ => None end
    | EConv a =>
        match eval en a s with Some (s', VInt z) => Some (s', VInt z) | _ => None end
    | ENew _ fs =>
        let fix fields (l : list (string * expr)) (s : Sh) : option (Sh * list (string * value)) :=
          match l with
          | [] => Some (s, [])
          | (f, a) :: r =>
              match eval en a s with
              | Some (s', v) =>
                  match fields r s' with
                  | Some (s'', vs) => Some (s'', (f, v) :: vs)
                  | None => None
                  end
              | None => None
              end
          end in
        match fields fs s with Some (s', vs) => Some (s', VNew vs) | None => None end
    | EMake => Some (s, VChan None)
    | EAtomic a f args =>
        let fix evals (l : list expr) (s : Sh) : option (Sh * list value) :=
          match l with
          | [] => Some (s, [])
          | x :: r =>
              match eval en x s with
              | Some (s', v) =>
                  match evals r s' with
                  | Some (s'', vs) => Some (s'', v :: vs)
                  | None => None
                  end
              | None => None
              end
          end in
        match evals args s with
        | Some (s', vs) => m_atomic M a f vs s'
        | None => None
        end
    | EUnknown _ => None
    end.

  (* continuation items *)
  Inductive item := IStmt (s : stmt) | ILoop (body : list stmt) | IPop (n : nat).

  Record dloc := DLoc { d_env : env; d_k : list item }.

  Inductive outcome := OPark (l : dloc) | ORet (v : value) | OPanic | OStuck.

  Definition has_site (s : stmt) : bool :=
    match stmt_site s with Some _ => true | None => false end.

  Definition block (b : list stmt) (en : env) (k : list item) : list item :=
    map IStmt b ++ IPop (List.length en) :: k.

  Definition set_field (x f : string) (v : value) (en : env) : option env :=
    match lookup x en with
    | Some (VNew fs) =>
        match update f v fs with
        | Some fs' => update x (VNew fs') en
        | None => None
        end
    | _ => None
    end.

  (* [first] = the statement at the head is the one the thread is parked at: run it *)
  Fixpoint run (fuel : nat) (first : bool) (en : env) (k : list item) (s : Sh)
    : Sh * outcome :=
    match fuel with
    | O => (s, OStuck)
    | S fu =>
        match k with
        | [] => (s, ORet VUnit)
        | IPop n :: k' => run fu first (firstn n en) k' s
        | ILoop body :: k' => run fu first en (block body en (ILoop body :: k')) s
        | IStmt st :: k' =>
            if negb first && has_site st then (s, OPark (DLoc en k))
            else
              match st with
              | SDefine _ x e =>
                  match eval en e s with
                  | Some (s', v) => run fu false (en ++ [(x, v)]) k' s'
                  | None => (s, OStuck)
                  end
              | SAssign _ (LVar x) e =>
                  match eval en e s with
                  | Some (s', v) =>
                      match update x v en with
                      | Some en' => run fu false en' k' s'
                      | None => (s', OStuck)
                      end
                  | None => (s, OStuck)
                  end
              | SAssign _ (LField x f) e =>
                  match eval en e s with
                  | Some (s', v) =>
                      match set_field x f v en with
                      | Some en' => run fu false en' k' s'
                      | None => (s', OStuck)
                      end
                  | None => (s, OStuck)
                  end
              | SClose _ e =>
                  match eval en e s with
                  | Some (s', VChan c) =>
                      match m_close M c s' with
                      | Some (s'', true) => run fu false en k' s''
                      | Some (s'', false) => (s'', OPanic)
                      | None => (s', OStuck)
                      end
                  | _ => (s, OStuck)
                  end
              | SExpr _ e =>
                  match eval en e s with
                  | Some (s', _) => run fu false en k' s'
                  | None => (s, OStuck)
                  end
              | SIf _ c th el =>
                  match eval en c s with
                  | Some (s', VBool b) =>
                      (* the test stays outside the recursive call: with an undecided b both
                         branches still have a concrete continuation *)
                      if b then run fu false en (block th en k') s'
                      else run fu false en (block el en k') s'
                  | _ => (s, OStuck)
                  end
              | SLoop body => run fu false en (ILoop body :: k') s
              | SReturn _ e =>
                  match eval en e s with
                  | Some (s', v) => (s', ORet v)
                  | None => (s, OStuck)
                  end
              | SOther _ _ => (s, OStuck)
              end
        end
    end.

  Definition FUEL : nat := 64.

  (* one micro-step of a parked call *)
  Definition dstep (l : dloc) (s : Sh) : Sh * outcome := run FUEL true (d_env l) (d_k l) s.

  (* entering function f with arguments args: run the local prefix up to the first site *)
  Fixpoint bind (ps : list string) (args : list value) : env :=
    match ps, args with
    | p :: ps', a :: args' => (p, a) :: bind ps' args'
    | _, _ => []
    end.

  Definition dbegin (f : func) (args : list value) (s : Sh) : outcome :=
    snd (run FUEL false (bind (f_params f) args) (map IStmt (f_body f)) s).

  Definition dsite (l : dloc) : nat :=
    match d_k l with
    | IStmt st :: _ => match stmt_site st with Some n => n | None => 0 end
    | _ => 0
    end.
End Denote.

(* reduction tactics unfold [run] only when the fuel and the continuation are constructors: a
   continuation that depends on an undecided condition stays folded *)
Arguments run Sh M !fuel first en !k s.
