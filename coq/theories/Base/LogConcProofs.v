(* LogConcProofs.v — the Load / CompareAndSwap-retry programs of LogConc.v are linearisable:
   for any number of threads, any operation lists and any schedule, the cell always holds the
   sequential application (in the order of the successful CompareAndSwaps) of the operations
   linearised so far, every operation is linearised at most once, and once every thread has
   returned every operation has been linearised exactly once.                               *)
From Coq Require Import List Arith Bool Lia Permutation.
From GT Require Import Base.LogConc.
Import ListNotations.

Section Lin.
  Variables (O V F : Type).
  Variable pure : F -> O -> V -> V.
  Variable ident : F -> O -> bool.
  Variable prog : O -> list (instr F).
  Variable fn_of : O -> F.

  (* every operation is: reg := Load; retry from the Load until CAS(reg, f reg) succeeds *)
  Hypothesis Hprog : forall o, prog o = [ILoad; ICas (fn_of o) 0].
  (* when the derived pointer is the loaded pointer, the value is the loaded value *)
  Hypothesis Hident : forall f o v, ident f o = true -> pure f o v = v.

  Notation thread := (thread O V).
  Notation mstate := (mstate O V).
  Notation step := (step O V F pure ident prog).
  Notation run := (run O V F pure ident prog).
  Notation step_thread := (step_thread O V F pure ident prog).

  Definition apply_op (v : V) (o : O) : V := pure (fn_of o) o v.

  Definition pending (ths : list thread) : list O := concat (map t_ops ths).

  Definition thread_ok (cell : nat * V) (th : thread) : Prop :=
    t_pc th = 0 \/
    (t_pc th = 1 /\ fst (t_reg th) <= fst cell /\ (fst (t_reg th) = fst cell -> t_reg th = cell)).

  Notation untag := (untag O).
  Notation ops_of := (ops_of O).

  Definition Inv (v0 : V) (all : list O) (st : mstate) (tr : list (nat * O)) : Prop :=
    snd (m_cell st) = fold_left apply_op (untag tr) v0
    /\ Permutation (untag tr ++ pending (m_threads st)) all
    /\ fst (m_cell st) < m_next st
    /\ Forall (thread_ok (m_cell st)) (m_threads st).

  (* ---------------- list plumbing ---------------- *)
  Lemma set_nth_Forall : forall (P : thread -> Prop) l n x,
    Forall P l -> P x -> Forall P (set_nth n x l).
  Proof.
    intros P l. induction l as [|a l IH]; intros [|n] x Hl Hx; cbn; try exact Hl.
    - inversion Hl; subst. constructor; assumption.
    - inversion Hl; subst. constructor; [assumption | apply IH; assumption].
  Qed.

  Lemma pending_same : forall l n (th th' : thread),
    nth_error l n = Some th -> t_ops th' = t_ops th ->
    pending (set_nth n th' l) = pending l.
  Proof.
    intros l. induction l as [|a l IH]; intros [|n] th th' Hn Hops; cbn in *; try discriminate.
    - injection Hn as Ea. subst a. unfold pending. cbn. rewrite Hops. reflexivity.
    - unfold pending in *. cbn. f_equal. eapply IH; eassumption.
  Qed.

  Lemma pending_pop : forall l n (th th' : thread) o rest,
    nth_error l n = Some th -> t_ops th = o :: rest -> t_ops th' = rest ->
    Permutation (pending l) (o :: pending (set_nth n th' l)).
  Proof.
    intros l. induction l as [|a l IH]; intros [|n] th th' o rest Hn Ho Hr; cbn in *; try discriminate.
    - injection Hn as Ea. subst a. unfold pending. cbn. rewrite Ho, Hr. reflexivity.
    - unfold pending in *. cbn. specialize (IH n th th' o rest Hn Ho Hr).
      rewrite IH. apply Permutation_sym. apply Permutation_middle.
  Qed.

  Lemma nth_error_Forall : forall (P : thread -> Prop) l n x,
    Forall P l -> nth_error l n = Some x -> P x.
  Proof.
    intros P l n x Hl Hn. rewrite Forall_forall in Hl. apply Hl. eapply nth_error_In. eassumption.
  Qed.

  Lemma fold_left_snoc : forall tr v o, fold_left apply_op (tr ++ [o]) v = apply_op (fold_left apply_op tr v) o.
  Proof. intros tr v o. rewrite fold_left_app. reflexivity. Qed.

  (* ---------------- one step ---------------- *)
  Lemma untag_snoc : forall tr tid o, untag (tr ++ [(tid, o)]) = untag tr ++ [o].
  Proof. intros. unfold LogConc.untag. rewrite map_app. reflexivity. Qed.

  Lemma Inv_step : forall v0 all st tr tid st1 ev,
    Inv v0 all st tr -> step st tid = (st1, ev) -> Inv v0 all st1 (tr ++ ev).
  Proof.
    intros v0 all st tr tid st1 ev (Hcell & Hperm & Hnext & Hok) Hstep.
    unfold LogConc.step in Hstep.
    destruct (nth_error (m_threads st) tid) as [th|] eqn:Hth.
    2:{ inversion Hstep; subst. unfold Inv. cbn [m_cell m_next m_threads tag]. rewrite app_nil_r. repeat split; assumption. }
    pose proof (nth_error_Forall _ _ _ _ Hok Hth) as Hthok.
    unfold LogConc.step_thread in Hstep.
    destruct (t_ops th) as [|o rest] eqn:Hops.
    { (* returned thread: stutter *)
      inversion Hstep; subst. unfold Inv. cbn [m_cell m_next m_threads tag]. rewrite app_nil_r.
      repeat split; try assumption.
      - rewrite (pending_same _ _ th th Hth eq_refl). exact Hperm.
      - apply set_nth_Forall; assumption. }
    rewrite Hprog in Hstep.
    destruct Hthok as [Hpc | (Hpc & Hle & Heq)]; rewrite Hpc in Hstep; cbn [nth_error] in Hstep.
    - (* Load *)
      unfold advance in Hstep. rewrite Hprog in Hstep. cbn in Hstep.
      inversion Hstep; subst. unfold Inv. cbn [m_cell m_next m_threads tag]. rewrite app_nil_r.
      repeat split; try assumption.
      + erewrite pending_same; [exact Hperm | exact Hth | cbn; symmetry; exact Hops].
      + apply set_nth_Forall; [assumption|]. right. cbn. repeat split; auto.
    - (* CompareAndSwap *)
      destruct (fst (m_cell st) =? fst (t_reg th)) eqn:Hcmp.
      + apply Nat.eqb_eq in Hcmp. symmetry in Hcmp. specialize (Heq Hcmp).
        unfold new_ptr, advance in Hstep. rewrite Hprog in Hstep. cbn [length Nat.leb] in Hstep.
        destruct (ident (fn_of o) o) eqn:Hid.
        * (* the derived pointer is the loaded one: the cell does not change *)
          inversion Hstep; subst. unfold Inv. cbn [m_cell m_next m_threads tag].
          assert (Hsame : (fst (t_reg th), pure (fn_of o) o (snd (t_reg th))) = m_cell st).
          { rewrite Hident by exact Hid. rewrite <- Heq. destruct (t_reg th); reflexivity. }
          repeat split.
          -- rewrite untag_snoc, fold_left_snoc, <- Hcell, Heq. reflexivity.
          -- rewrite untag_snoc, <- app_assoc. cbn.
             eapply Permutation_trans; [|exact Hperm].
             apply Permutation_app_head. apply Permutation_sym.
             eapply pending_pop; [exact Hth | exact Hops | reflexivity].
          -- rewrite Hsame. exact Hnext.
          -- rewrite Hsame. apply set_nth_Forall; [assumption|]. left. reflexivity.
        * (* fresh pointer *)
          inversion Hstep; subst. unfold Inv. cbn [m_cell m_next m_threads tag].
          repeat split.
          -- rewrite untag_snoc, fold_left_snoc, <- Hcell, Heq. reflexivity.
          -- rewrite untag_snoc, <- app_assoc. cbn.
             eapply Permutation_trans; [|exact Hperm].
             apply Permutation_app_head. apply Permutation_sym.
             eapply pending_pop; [exact Hth | exact Hops | reflexivity].
          -- cbn. lia.
          -- apply set_nth_Forall; [|left; reflexivity].
             eapply Forall_impl; [|exact Hok].
             intros a [Ha | (Ha & Hale & Haeq)]; [left; exact Ha|].
             right. cbn. repeat split; [exact Ha | lia | intros E; lia].
      + (* CAS failed: back to the Load *)
        inversion Hstep; subst. unfold Inv. cbn [m_cell m_next m_threads tag]. rewrite app_nil_r.
        repeat split; try assumption.
        * erewrite pending_same; [exact Hperm | exact Hth | cbn; symmetry; exact Hops].
        * apply set_nth_Forall; [assumption|]. left. reflexivity.
  Qed.

  Lemma Inv_run : forall sched v0 all st tr0 st2 tr,
    Inv v0 all st tr0 -> run st sched = (st2, tr) -> Inv v0 all st2 (tr0 ++ tr).
  Proof.
    induction sched as [|t sched IH]; intros v0 all st tr0 st2 tr HI Hrun; cbn in Hrun.
    - inversion Hrun; subst. rewrite app_nil_r. exact HI.
    - destruct (step st t) as [st1 ev] eqn:Hs.
      destruct (run st1 sched) as [st3 tr3] eqn:Hr.
      inversion Hrun; subst.
      rewrite app_assoc. eapply IH; [|exact Hr]. eapply Inv_step; eassumption.
  Qed.

  Lemma Inv_init : forall v0 progs, Inv v0 (concat progs) (init_state O V v0 progs) [].
  Proof.
    intros v0 progs. unfold Inv, init_state. cbn. repeat split.
    - unfold pending. rewrite map_map. cbn. rewrite map_id. reflexivity.
    - lia.
    - rewrite Forall_forall. intros th Hin. apply in_map_iff in Hin as (p & <- & _). left. reflexivity.
  Qed.

  Lemma all_returned_pending : forall st, all_returned O V st = true -> pending (m_threads st) = [].
  Proof.
    intros st. unfold all_returned, pending. induction (m_threads st) as [|a l IH]; cbn; [reflexivity|].
    intros H. apply andb_true_iff in H as [Ha Hl]. destruct (t_ops a); [|discriminate].
    cbn. apply IH. exact Hl.
  Qed.

  (* ---------------- program order ---------------- *)
  Definition t_ops_of (tid : nat) (ths : list thread) : list O :=
    match nth_error ths tid with Some th => t_ops th | None => [] end.

  (* what a thread has had linearised, followed by what it still has to do, is its program *)
  Definition Ord (progs : list (list O)) (st : mstate) (tr : list (nat * O)) : Prop :=
    forall t, ops_of t tr ++ t_ops_of t (m_threads st) = nth t progs [].

  Lemma nth_error_set_nth_same : forall {A} (l : list A) n x y,
    nth_error l n = Some x -> nth_error (set_nth n y l) n = Some y.
  Proof.
    intros A l. induction l as [|a l IH]; intros [|n] x y H; cbn in *; try discriminate; [reflexivity|].
    eapply IH. eassumption.
  Qed.

  Lemma nth_error_set_nth_other : forall {A} (l : list A) n m y,
    n <> m -> nth_error (set_nth n y l) m = nth_error l m.
  Proof.
    intros A l. induction l as [|a l IH]; intros [|n] [|m] y H; cbn; try reflexivity; try congruence.
    apply IH. congruence.
  Qed.

  Lemma ops_of_snoc_same : forall t tr o, ops_of t (tr ++ [(t, o)]) = ops_of t tr ++ [o].
  Proof.
    intros t tr o. unfold LogConc.ops_of. rewrite filter_app, map_app. cbn. rewrite Nat.eqb_refl. reflexivity.
  Qed.

  Lemma ops_of_snoc_other : forall t t' tr o, t' <> t -> ops_of t (tr ++ [(t', o)]) = ops_of t tr.
  Proof.
    intros t t' tr o H. unfold LogConc.ops_of. rewrite filter_app, map_app. cbn.
    apply Nat.eqb_neq in H. rewrite H. cbn. apply app_nil_r.
  Qed.

  (* a step that keeps the operation list of the scheduled thread and linearises nothing *)
  Lemma Ord_keep : forall progs ths cell next tr tid th th' c n,
    Ord progs {| m_cell := cell; m_next := next; m_threads := ths |} tr ->
    nth_error ths tid = Some th -> t_ops th' = t_ops th ->
    Ord progs {| m_cell := c; m_next := n; m_threads := set_nth tid th' ths |} tr.
  Proof.
    intros progs ths cell next tr tid th th' c n HO Hth Hops t. specialize (HO t).
    cbn [m_threads] in *. unfold t_ops_of in *.
    destruct (Nat.eq_dec tid t) as [->|Hne].
    - rewrite (nth_error_set_nth_same _ _ _ th' Hth). rewrite Hth in HO. rewrite Hops. exact HO.
    - rewrite nth_error_set_nth_other by exact Hne. exact HO.
  Qed.

  (* a step that linearises the head operation of the scheduled thread and pops it *)
  Lemma Ord_pop : forall progs ths cell next tr tid th th' o rest c n,
    Ord progs {| m_cell := cell; m_next := next; m_threads := ths |} tr ->
    nth_error ths tid = Some th -> t_ops th = o :: rest -> t_ops th' = rest ->
    Ord progs {| m_cell := c; m_next := n; m_threads := set_nth tid th' ths |} (tr ++ [(tid, o)]).
  Proof.
    intros progs ths cell next tr tid th th' o rest c n HO Hth Ho Hr t. specialize (HO t).
    cbn [m_threads] in *. unfold t_ops_of in *.
    destruct (Nat.eq_dec tid t) as [->|Hne].
    - rewrite (nth_error_set_nth_same _ _ _ th' Hth), ops_of_snoc_same, Hr, <- app_assoc. cbn.
      rewrite Hth, Ho in HO. exact HO.
    - rewrite nth_error_set_nth_other by exact Hne. rewrite ops_of_snoc_other by exact Hne. exact HO.
  Qed.

  Lemma Ord_step : forall v0 all progs st tr tid st1 ev,
    Inv v0 all st tr -> Ord progs st tr -> step st tid = (st1, ev) -> Ord progs st1 (tr ++ ev).
  Proof.
    intros v0 all progs st tr tid st1 ev (_ & _ & _ & Hok) HO Hstep.
    destruct st as [cell next ths]. cbn [m_cell m_next m_threads] in *.
    unfold LogConc.step in Hstep. cbn [m_cell m_next m_threads] in Hstep.
    destruct (nth_error ths tid) as [th|] eqn:Hth.
    2:{ inversion Hstep; subst. rewrite app_nil_r. exact HO. }
    pose proof (nth_error_Forall _ _ _ _ Hok Hth) as Hthok.
    unfold LogConc.step_thread in Hstep.
    destruct (t_ops th) as [|o rest] eqn:Hops.
    { inversion Hstep; subst. cbn [tag]. rewrite app_nil_r.
      eapply Ord_keep; [exact HO | exact Hth | reflexivity]. }
    rewrite Hprog in Hstep.
    destruct Hthok as [Hpc | (Hpc & _ & _)]; rewrite Hpc in Hstep; cbn [nth_error] in Hstep.
    - unfold advance in Hstep. rewrite Hprog in Hstep. cbn in Hstep.
      inversion Hstep; subst. rewrite app_nil_r.
      eapply Ord_keep; [exact HO | exact Hth | cbn; symmetry; exact Hops].
    - destruct (fst cell =? fst (t_reg th)).
      + unfold new_ptr, advance in Hstep. rewrite Hprog in Hstep. cbn [length Nat.leb] in Hstep.
        destruct (ident (fn_of o) o); inversion Hstep; subst; cbn [tag];
          (eapply Ord_pop; [exact HO | exact Hth | exact Hops | reflexivity]).
      + inversion Hstep; subst. cbn [tag]. rewrite app_nil_r.
        eapply Ord_keep; [exact HO | exact Hth | cbn; symmetry; exact Hops].
  Qed.

  Lemma Inv_Ord_run : forall sched v0 all progs st tr0 st2 tr,
    Inv v0 all st tr0 -> Ord progs st tr0 -> run st sched = (st2, tr) ->
    Inv v0 all st2 (tr0 ++ tr) /\ Ord progs st2 (tr0 ++ tr).
  Proof.
    induction sched as [|t sched IH]; intros v0 all progs st tr0 st2 tr HI HO Hrun; cbn in Hrun.
    - inversion Hrun; subst. rewrite app_nil_r. split; assumption.
    - destruct (step st t) as [st1 ev] eqn:Hs.
      destruct (run st1 sched) as [st3 tr3] eqn:Hr.
      inversion Hrun; subst.
      rewrite app_assoc. eapply IH; [| |exact Hr].
      + eapply Inv_step; eassumption.
      + eapply Ord_step; eassumption.
  Qed.

  Lemma Ord_init : forall v0 progs, Ord progs (init_state O V v0 progs) [].
  Proof.
    intros v0 progs t. unfold init_state, t_ops_of. cbn.
    rewrite nth_error_map. revert t. induction progs as [|p progs IH]; intros [|t]; cbn; try reflexivity.
    apply IH.
  Qed.

  Lemma all_returned_t_ops : forall st t, all_returned O V st = true -> t_ops_of t (m_threads st) = [].
  Proof.
    intros st t. unfold all_returned, t_ops_of. revert t.
    induction (m_threads st) as [|a l IH]; intros [|t] H; cbn in *; try reflexivity;
      apply andb_true_iff in H as [Ha Hl].
    - destruct (t_ops a); [reflexivity | discriminate].
    - apply IH. exact Hl.
  Qed.

  (* at every moment the cell is the sequential application of the linearised operations,
     nothing is linearised that was not requested, nor twice, and every thread's operations
     are linearised in its program order *)
  Theorem run_cell : forall v0 progs sched st tr,
    run (init_state O V v0 progs) sched = (st, tr) ->
    snd (m_cell st) = fold_left apply_op (untag tr) v0
    /\ Permutation (untag tr ++ pending (m_threads st)) (concat progs)
    /\ forall t, ops_of t tr ++ t_ops_of t (m_threads st) = nth t progs [].
  Proof.
    intros v0 progs sched st tr Hrun.
    destruct (Inv_Ord_run sched v0 (concat progs) progs _ [] st tr (Inv_init v0 progs)
                (Ord_init v0 progs) Hrun) as [(H1 & H2 & _) H3].
    cbn in H1, H2, H3. repeat split; assumption.
  Qed.

  (* once all threads have returned, every operation has taken effect exactly once, each
     thread's in its own order *)
  Theorem run_linearisable : forall v0 progs sched st tr,
    run (init_state O V v0 progs) sched = (st, tr) -> all_returned O V st = true ->
    Permutation (untag tr) (concat progs)
    /\ snd (m_cell st) = fold_left apply_op (untag tr) v0
    /\ forall t, ops_of t tr = nth t progs [].
  Proof.
    intros v0 progs sched st tr Hrun Hret.
    destruct (run_cell v0 progs sched st tr Hrun) as (H1 & H2 & H3).
    rewrite (all_returned_pending st Hret), app_nil_r in H2. repeat split; try assumption.
    intros t. specialize (H3 t). rewrite (all_returned_t_ops st t Hret), app_nil_r in H3. exact H3.
  Qed.
End Lin.
