(* LogConcProofs.v — the Load / CompareAndSwap-retry programs of LogConc.v are linearisable:
   for any number of threads, any operation lists and any schedule, the cell always holds the
   sequential application (in the order of the successful CompareAndSwaps) of the operations
   linearised so far, every operation is linearised at most once, and once every thread has
   returned every operation has been linearised exactly once.                               *)
From Coq Require Import List Arith Bool Lia Permutation.
From GT Require Import Base.LogConc.
Import ListNotations.

Section Lin.
  Variables (O V F : Type).
  Variable pure : F -> O -> V -> V.
  Variable ident : F -> O -> bool.
  Variable prog : O -> list (instr F).
  Variable fn_of : O -> F.
  Variable is_read : O -> bool.

  (* every operation is either an update: reg := Load; retry from the Load until
     CAS(reg, f reg) succeeds - or read-only: one Load, at which it is linearised *)
  Hypothesis Hprog : forall o, prog o = if is_read o then [IRead] else [ILoad; ICas (fn_of o) 0].
  (* when the derived pointer is the loaded pointer, the value is the loaded value *)
  Hypothesis Hident : forall f o v, ident f o = true -> pure f o v = v.
  (* a read-only operation means the identity on the shared value *)
  Hypothesis Hread : forall o v, is_read o = true -> pure (fn_of o) o v = v.

  Notation thread := (thread O V).
  Notation mstate := (mstate O V).
  Notation step := (step O V F pure ident prog).
  Notation run := (run O V F pure ident prog).
  Notation step_thread := (step_thread O V F pure ident prog).

  Definition apply_op (v : V) (o : O) : V := pure (fn_of o) o v.

  Definition pending (ths : list thread) : list O := concat (map t_ops ths).

  Definition updating (th : thread) : Prop :=
    exists o rest, t_ops th = o :: rest /\ is_read o = false.

  Definition thread_ok (cell : nat * V) (th : thread) : Prop :=
    t_pc th = 0 \/
    (t_pc th = 1 /\ updating th
     /\ fst (t_reg th) <= fst cell /\ (fst (t_reg th) = fst cell -> t_reg th = cell)).

  Lemma Hprog_upd : forall o, is_read o = false -> prog o = [ILoad; ICas (fn_of o) 0].
  Proof. intros o H. rewrite Hprog, H. reflexivity. Qed.

  Lemma Hprog_read : forall o, is_read o = true -> prog o = [IRead].
  Proof. intros o H. rewrite Hprog, H. reflexivity. Qed.

  Lemma updating_head : forall th o rest, t_ops th = o :: rest -> updating th -> is_read o = false.
  Proof. intros th o rest H (o' & rest' & H' & Hr). rewrite H in H'. injection H' as -> _. exact Hr. Qed.

  Notation untag := (untag O).
  Notation ops_of := (ops_of O).

  Definition Inv (v0 : V) (all : list O) (st : mstate) (tr : list (nat * O)) : Prop :=
    snd (m_cell st) = fold_left apply_op (untag tr) v0
    /\ Permutation (untag tr ++ pending (m_threads st)) all
    /\ fst (m_cell st) < m_next st
    /\ Forall (thread_ok (m_cell st)) (m_threads st).

  (* ---------------- list plumbing ---------------- *)
  Lemma set_nth_Forall : forall (P : thread -> Prop) l n x,
    Forall P l -> P x -> Forall P (set_nth n x l).
  Proof.
    intros P l. induction l as [|a l IH]; intros [|n] x Hl Hx; cbn; try exact Hl.
    - inversion Hl; subst. constructor; assumption.
    - inversion Hl; subst. constructor; [assumption | apply IH; assumption].
  Qed.

  Lemma pending_same : forall l n (th th' : thread),
    nth_error l n = Some th -> t_ops th' = t_ops th ->
    pending (set_nth n th' l) = pending l.
  Proof.
    intros l. induction l as [|a l IH]; intros [|n] th th' Hn Hops; cbn in *; try discriminate.
    - injection Hn as Ea. subst a. unfold pending. cbn. rewrite Hops. reflexivity.
    - unfold pending in *. cbn. f_equal. eapply IH; eassumption.
  Qed.

  Lemma pending_pop : forall l n (th th' : thread) o rest,
    nth_error l n = Some th -> t_ops th = o :: rest -> t_ops th' = rest ->
    Permutation (pending l) (o :: pending (set_nth n th' l)).
  Proof.
    intros l. induction l as [|a l IH]; intros [|n] th th' o rest Hn Ho Hr; cbn in *; try discriminate.
    - injection Hn as Ea. subst a. unfold pending. cbn. rewrite Ho, Hr. reflexivity.
    - unfold pending in *. cbn. specialize (IH n th th' o rest Hn Ho Hr).
      rewrite IH. apply Permutation_sym. apply Permutation_middle.
  Qed.

  Lemma nth_error_Forall : forall (P : thread -> Prop) l n x,
    Forall P l -> nth_error l n = Some x -> P x.
  Proof.
    intros P l n x Hl Hn. rewrite Forall_forall in Hl. apply Hl. eapply nth_error_In. eassumption.
  Qed.

  Lemma fold_left_snoc : forall tr v o, fold_left apply_op (tr ++ [o]) v = apply_op (fold_left apply_op tr v) o.
  Proof. intros tr v o. rewrite fold_left_app. reflexivity. Qed.

  (* ---------------- one step ---------------- *)
  Lemma untag_snoc : forall tr tid o, untag (tr ++ [(tid, o)]) = untag tr ++ [o].
  Proof. intros. unfold LogConc.untag. rewrite map_app. reflexivity. Qed.

  Lemma Inv_step : forall v0 all st tr tid st1 ev,
    Inv v0 all st tr -> step st tid = (st1, ev) -> Inv v0 all st1 (tr ++ ev).
  Proof.
    intros v0 all st tr tid st1 ev (Hcell & Hperm & Hnext & Hok) Hstep.
    unfold LogConc.step in Hstep.
    destruct (nth_error (m_threads st) tid) as [th|] eqn:Hth.
    2:{ inversion Hstep; subst. unfold Inv. cbn [m_cell m_next m_threads tag]. rewrite app_nil_r. repeat split; assumption. }
    pose proof (nth_error_Forall _ _ _ _ Hok Hth) as Hthok.
    unfold LogConc.step_thread in Hstep.
    destruct (t_ops th) as [|o rest] eqn:Hops.
    { (* returned thread: stutter *)
      inversion Hstep; subst. unfold Inv. cbn [m_cell m_next m_threads tag]. rewrite app_nil_r.
      repeat split; try assumption.
      - rewrite (pending_same _ _ th th Hth eq_refl). exact Hperm.
      - apply set_nth_Forall; assumption. }
    destruct (is_read o) eqn:Hrd.
    { (* read-only operation: linearised at its Load, the cell stays as it is *)
      assert (Hpc : t_pc th = 0).
      { destruct Hthok as [Hpc | (_ & Hu & _)]; [exact Hpc|].
        rewrite (updating_head th o rest Hops Hu) in Hrd. discriminate. }
      rewrite (Hprog_read o Hrd), Hpc in Hstep. cbn [nth_error] in Hstep.
      unfold advance in Hstep. rewrite (Hprog_read o Hrd) in Hstep. cbn in Hstep.
      inversion Hstep; subst. unfold Inv. cbn [m_cell m_next m_threads tag].
      repeat split.
      - rewrite untag_snoc, fold_left_snoc, <- Hcell. unfold apply_op. rewrite Hread by exact Hrd. reflexivity.
      - rewrite untag_snoc, <- app_assoc. cbn.
        eapply Permutation_trans; [|exact Hperm].
        apply Permutation_app_head. apply Permutation_sym.
        eapply pending_pop; [exact Hth | exact Hops | reflexivity].
      - exact Hnext.
      - apply set_nth_Forall; [assumption|]. left. reflexivity. }
    rewrite (Hprog_upd o Hrd) in Hstep.
    destruct Hthok as [Hpc | (Hpc & _ & Hle & Heq)]; rewrite Hpc in Hstep; cbn [nth_error] in Hstep.
    - (* Load *)
      unfold advance in Hstep. rewrite (Hprog_upd o Hrd) in Hstep. cbn in Hstep.
      inversion Hstep; subst. unfold Inv. cbn [m_cell m_next m_threads tag]. rewrite app_nil_r.
      repeat split; try assumption.
      + erewrite pending_same; [exact Hperm | exact Hth | cbn; symmetry; exact Hops].
      + apply set_nth_Forall; [assumption|]. right. cbn. repeat split; auto.
        exists o, rest. split; [reflexivity | exact Hrd].
    - (* CompareAndSwap *)
      destruct (fst (m_cell st) =? fst (t_reg th)) eqn:Hcmp.
      + apply Nat.eqb_eq in Hcmp. symmetry in Hcmp. specialize (Heq Hcmp).
        unfold new_ptr, advance in Hstep. rewrite (Hprog_upd o Hrd) in Hstep. cbn [length Nat.leb] in Hstep.
        destruct (ident (fn_of o) o) eqn:Hid.
        * (* the derived pointer is the loaded one: the cell does not change *)
          inversion Hstep; subst. unfold Inv. cbn [m_cell m_next m_threads tag].
          assert (Hsame : (fst (t_reg th), pure (fn_of o) o (snd (t_reg th))) = m_cell st).
          { rewrite Hident by exact Hid. rewrite <- Heq. destruct (t_reg th); reflexivity. }
          repeat split.
          -- rewrite untag_snoc, fold_left_snoc, <- Hcell, Heq. reflexivity.
          -- rewrite untag_snoc, <- app_assoc. cbn.
             eapply Permutation_trans; [|exact Hperm].
             apply Permutation_app_head. apply Permutation_sym.
             eapply pending_pop; [exact Hth | exact Hops | reflexivity].
          -- rewrite Hsame. exact Hnext.
          -- rewrite Hsame. apply set_nth_Forall; [assumption|]. left. reflexivity.
        * (* fresh pointer *)
          inversion Hstep; subst. unfold Inv. cbn [m_cell m_next m_threads tag].
          repeat split.
          -- rewrite untag_snoc, fold_left_snoc, <- Hcell, Heq. reflexivity.
          -- rewrite untag_snoc, <- app_assoc. cbn.
             eapply Permutation_trans; [|exact Hperm].
             apply Permutation_app_head. apply Permutation_sym.
             eapply pending_pop; [exact Hth | exact Hops | reflexivity].
          -- cbn. lia.
          -- apply set_nth_Forall; [|left; reflexivity].
             eapply Forall_impl; [|exact Hok].
             intros a [Ha | (Ha & Hau & Hale & Haeq)]; [left; exact Ha|].
             right. cbn. repeat split; [exact Ha | exact Hau | lia | intros E; lia].
      + (* CAS failed: back to the Load *)
        inversion Hstep; subst. unfold Inv. cbn [m_cell m_next m_threads tag]. rewrite app_nil_r.
        repeat split; try assumption.
        * erewrite pending_same; [exact Hperm | exact Hth | cbn; symmetry; exact Hops].
        * apply set_nth_Forall; [assumption|]. left. reflexivity.
  Qed.

  Lemma Inv_run : forall sched v0 all st tr0 st2 tr,
    Inv v0 all st tr0 -> run st sched = (st2, tr) -> Inv v0 all st2 (tr0 ++ tr).
  Proof.
    induction sched as [|t sched IH]; intros v0 all st tr0 st2 tr HI Hrun; cbn in Hrun.
    - inversion Hrun; subst. rewrite app_nil_r. exact HI.
    - destruct (step st t) as [st1 ev] eqn:Hs.
      destruct (run st1 sched) as [st3 tr3] eqn:Hr.
      inversion Hrun; subst.
      rewrite app_assoc. eapply IH; [|exact Hr]. eapply Inv_step; eassumption.
  Qed.

  Lemma Inv_init : forall v0 progs, Inv v0 (concat progs) (init_state O V v0 progs) [].
  Proof.
    intros v0 progs. unfold Inv, init_state. cbn. repeat split.
    - unfold pending. rewrite map_map. cbn. rewrite map_id. reflexivity.
    - lia.
    - rewrite Forall_forall. intros th Hin. apply in_map_iff in Hin as (p & <- & _). left. reflexivity.
  Qed.

  Lemma all_returned_pending : forall st, all_returned O V st = true -> pending (m_threads st) = [].
  Proof.
    intros st. unfold all_returned, pending. induction (m_threads st) as [|a l IH]; cbn; [reflexivity|].
    intros H. apply andb_true_iff in H as [Ha Hl]. destruct (t_ops a); [|discriminate].
    cbn. apply IH. exact Hl.
  Qed.

  (* ---------------- program order ---------------- *)
  Definition t_ops_of (tid : nat) (ths : list thread) : list O :=
    match nth_error ths tid with Some th => t_ops th | None => [] end.

  (* what a thread has had linearised, followed by what it still has to do, is its program *)
  Definition Ord (progs : list (list O)) (st : mstate) (tr : list (nat * O)) : Prop :=
    forall t, ops_of t tr ++ t_ops_of t (m_threads st) = nth t progs [].

  Lemma nth_error_set_nth_same : forall {A} (l : list A) n x y,
    nth_error l n = Some x -> nth_error (set_nth n y l) n = Some y.
  Proof.
    intros A l. induction l as [|a l IH]; intros [|n] x y H; cbn in *; try discriminate; [reflexivity|].
    eapply IH. eassumption.
  Qed.

  Lemma nth_error_set_nth_other : forall {A} (l : list A) n m y,
    n <> m -> nth_error (set_nth n y l) m = nth_error l m.
  Proof.
    intros A l. induction l as [|a l IH]; intros [|n] [|m] y H; cbn; try reflexivity; try congruence.
    apply IH. congruence.
  Qed.

  Lemma ops_of_snoc_same : forall t tr o, ops_of t (tr ++ [(t, o)]) = ops_of t tr ++ [o].
  Proof.
    intros t tr o. unfold LogConc.ops_of. rewrite filter_app, map_app. cbn. rewrite Nat.eqb_refl. reflexivity.
  Qed.

  Lemma ops_of_snoc_other : forall t t' tr o, t' <> t -> ops_of t (tr ++ [(t', o)]) = ops_of t tr.
  Proof.
    intros t t' tr o H. unfold LogConc.ops_of. rewrite filter_app, map_app. cbn.
    apply Nat.eqb_neq in H. rewrite H. cbn. apply app_nil_r.
  Qed.

  (* a step that keeps the operation list of the scheduled thread and linearises nothing *)
  Lemma Ord_keep : forall progs ths cell next tr tid th th' c n,
    Ord progs {| m_cell := cell; m_next := next; m_threads := ths |} tr ->
    nth_error ths tid = Some th -> t_ops th' = t_ops th ->
    Ord progs {| m_cell := c; m_next := n; m_threads := set_nth tid th' ths |} tr.
  Proof.
    intros progs ths cell next tr tid th th' c n HO Hth Hops t. specialize (HO t).
    cbn [m_threads] in *. unfold t_ops_of in *.
    destruct (Nat.eq_dec tid t) as [->|Hne].
    - rewrite (nth_error_set_nth_same _ _ _ th' Hth). rewrite Hth in HO. rewrite Hops. exact HO.
    - rewrite nth_error_set_nth_other by exact Hne. exact HO.
  Qed.

  (* a step that linearises the head operation of the scheduled thread and pops it *)
  Lemma Ord_pop : forall progs ths cell next tr tid th th' o rest c n,
    Ord progs {| m_cell := cell; m_next := next; m_threads := ths |} tr ->
    nth_error ths tid = Some th -> t_ops th = o :: rest -> t_ops th' = rest ->
    Ord progs {| m_cell := c; m_next := n; m_threads := set_nth tid th' ths |} (tr ++ [(tid, o)]).
  Proof.
    intros progs ths cell next tr tid th th' o rest c n HO Hth Ho Hr t. specialize (HO t).
    cbn [m_threads] in *. unfold t_ops_of in *.
    destruct (Nat.eq_dec tid t) as [->|Hne].
    - rewrite (nth_error_set_nth_same _ _ _ th' Hth), ops_of_snoc_same, Hr, <- app_assoc. cbn.
      rewrite Hth, Ho in HO. exact HO.
    - rewrite nth_error_set_nth_other by exact Hne. rewrite ops_of_snoc_other by exact Hne. exact HO.
  Qed.

  Lemma Ord_step : forall v0 all progs st tr tid st1 ev,
    Inv v0 all st tr -> Ord progs st tr -> step st tid = (st1, ev) -> Ord progs st1 (tr ++ ev).
  Proof.
    intros v0 all progs st tr tid st1 ev (_ & _ & _ & Hok) HO Hstep.
    destruct st as [cell next ths]. cbn [m_cell m_next m_threads] in *.
    unfold LogConc.step in Hstep. cbn [m_cell m_next m_threads] in Hstep.
    destruct (nth_error ths tid) as [th|] eqn:Hth.
    2:{ inversion Hstep; subst. rewrite app_nil_r. exact HO. }
    pose proof (nth_error_Forall _ _ _ _ Hok Hth) as Hthok.
    unfold LogConc.step_thread in Hstep.
    destruct (t_ops th) as [|o rest] eqn:Hops.
    { inversion Hstep; subst. cbn [tag]. rewrite app_nil_r.
      eapply Ord_keep; [exact HO | exact Hth | reflexivity]. }
    destruct (is_read o) eqn:Hrd.
    { assert (Hpc : t_pc th = 0).
      { destruct Hthok as [Hpc | (_ & Hu & _)]; [exact Hpc|].
        rewrite (updating_head th o rest Hops Hu) in Hrd. discriminate. }
      rewrite (Hprog_read o Hrd), Hpc in Hstep. cbn [nth_error] in Hstep.
      unfold advance in Hstep. rewrite (Hprog_read o Hrd) in Hstep. cbn in Hstep.
      inversion Hstep; subst. cbn [tag].
      eapply Ord_pop; [exact HO | exact Hth | exact Hops | reflexivity]. }
    rewrite (Hprog_upd o Hrd) in Hstep.
    destruct Hthok as [Hpc | (Hpc & _ & _ & _)]; rewrite Hpc in Hstep; cbn [nth_error] in Hstep.
    - unfold advance in Hstep. rewrite (Hprog_upd o Hrd) in Hstep. cbn in Hstep.
      inversion Hstep; subst. rewrite app_nil_r.
      eapply Ord_keep; [exact HO | exact Hth | cbn; symmetry; exact Hops].
    - destruct (fst cell =? fst (t_reg th)).
      + unfold new_ptr, advance in Hstep. rewrite (Hprog_upd o Hrd) in Hstep. cbn [length Nat.leb] in Hstep.
        destruct (ident (fn_of o) o); inversion Hstep; subst; cbn [tag];
          (eapply Ord_pop; [exact HO | exact Hth | exact Hops | reflexivity]).
      + inversion Hstep; subst. cbn [tag]. rewrite app_nil_r.
        eapply Ord_keep; [exact HO | exact Hth | cbn; symmetry; exact Hops].
  Qed.

  Lemma Inv_Ord_run : forall sched v0 all progs st tr0 st2 tr,
    Inv v0 all st tr0 -> Ord progs st tr0 -> run st sched = (st2, tr) ->
    Inv v0 all st2 (tr0 ++ tr) /\ Ord progs st2 (tr0 ++ tr).
  Proof.
    induction sched as [|t sched IH]; intros v0 all progs st tr0 st2 tr HI HO Hrun; cbn in Hrun.
    - inversion Hrun; subst. rewrite app_nil_r. split; assumption.
    - destruct (step st t) as [st1 ev] eqn:Hs.
      destruct (run st1 sched) as [st3 tr3] eqn:Hr.
      inversion Hrun; subst.
      rewrite app_assoc. eapply IH; [| |exact Hr].
      + eapply Inv_step; eassumption.
      + eapply Ord_step; eassumption.
  Qed.

  Lemma Ord_init : forall v0 progs, Ord progs (init_state O V v0 progs) [].
  Proof.
    intros v0 progs t. unfold init_state, t_ops_of. cbn.
    rewrite nth_error_map. revert t. induction progs as [|p progs IH]; intros [|t]; cbn; try reflexivity.
    apply IH.
  Qed.

  Lemma all_returned_t_ops : forall st t, all_returned O V st = true -> t_ops_of t (m_threads st) = [].
  Proof.
    intros st t. unfold all_returned, t_ops_of. revert t.
    induction (m_threads st) as [|a l IH]; intros [|t] H; cbn in *; try reflexivity;
      apply andb_true_iff in H as [Ha Hl].
    - destruct (t_ops a); [reflexivity | discriminate].
    - apply IH. exact Hl.
  Qed.

  (* ---------------- progress ---------------- *)
  Notation need := (need O V).

  (* events carry the id of the scheduled thread *)
  Lemma step_event_tag : forall st s st1 ev e, step st s = (st1, ev) -> In e ev -> fst e = s.
  Proof.
    intros st s st1 ev e Hstep Hin. unfold LogConc.step in Hstep.
    destruct (nth_error (m_threads st) s) as [th|]; [|inversion Hstep; subst; destruct Hin].
    destruct (step_thread (m_cell st) (m_next st) th) as [[[c n] th'] [o|]];
      inversion Hstep; subst; cbn in Hin; [|destruct Hin].
    destruct Hin as [<- | []]. reflexivity.
  Qed.

  (* a step of another thread does not touch thread t *)
  Lemma step_other_thread : forall st s st1 ev t, s <> t -> step st s = (st1, ev) ->
    nth_error (m_threads st1) t = nth_error (m_threads st) t.
  Proof.
    intros st s st1 ev t Hne Hstep. unfold LogConc.step in Hstep.
    destruct (nth_error (m_threads st) s) as [th|]; [|inversion Hstep; subst; reflexivity].
    destruct (step_thread (m_cell st) (m_next st) th) as [[[c n] th'] e].
    inversion Hstep; subst. cbn. apply nth_error_set_nth_other. exact Hne.
  Qed.

  (* a step without a linearisation event leaves the cell as it is *)
  Lemma step_silent_cell : forall st s st1, step st s = (st1, []) -> m_cell st1 = m_cell st.
  Proof.
    intros st s st1 Hstep. unfold LogConc.step in Hstep.
    destruct (nth_error (m_threads st) s) as [th|]; [|inversion Hstep; subst; reflexivity].
    unfold LogConc.step_thread in Hstep.
    destruct (t_ops th) as [|o rest]; [inversion Hstep; subst; reflexivity|].
    destruct (nth_error (prog o) (t_pc th)) as [[|f|f k|]|].
    - inversion Hstep; subst. reflexivity.
    - destruct (new_ptr O V F pure ident (m_next st) f o (t_reg th)) as [c' n'].
      inversion Hstep.
    - destruct (fst (m_cell st) =? fst (t_reg th)).
      + destruct (new_ptr O V F pure ident (m_next st) f o (t_reg th)) as [c' n'].
        inversion Hstep.
      + inversion Hstep; subst. reflexivity.
    - inversion Hstep.
    - inversion Hstep; subst. reflexivity.
  Qed.

  (* the three kinds of own steps of a thread with a pending operation *)
  Lemma step_read : forall st t th o rest,
    nth_error (m_threads st) t = Some th -> t_ops th = o :: rest -> t_pc th = 0 -> is_read o = true ->
    exists st1, step st t = (st1, [(t, o)]).
  Proof.
    intros st t th o rest Hth Hops Hpc Hrd. unfold LogConc.step, LogConc.step_thread.
    rewrite Hth, Hops, (Hprog_read o Hrd), Hpc. cbn [nth_error]. eexists. reflexivity.
  Qed.

  Lemma step_load : forall st t th o rest,
    nth_error (m_threads st) t = Some th -> t_ops th = o :: rest -> t_pc th = 0 -> is_read o = false ->
    step st t = ({| m_cell := m_cell st; m_next := m_next st;
                    m_threads := set_nth t {| t_ops := o :: rest; t_pc := 1; t_reg := m_cell st |}
                                         (m_threads st) |}, []).
  Proof.
    intros st t th o rest Hth Hops Hpc Hrd. unfold LogConc.step, LogConc.step_thread.
    rewrite Hth, Hops, (Hprog_upd o Hrd), Hpc. cbn [nth_error]. unfold advance. rewrite (Hprog_upd o Hrd). reflexivity.
  Qed.

  Lemma step_cas_fail : forall st t th o rest,
    nth_error (m_threads st) t = Some th -> t_ops th = o :: rest -> t_pc th = 1 -> is_read o = false ->
    (fst (m_cell st) =? fst (t_reg th)) = false ->
    step st t = ({| m_cell := m_cell st; m_next := m_next st;
                    m_threads := set_nth t {| t_ops := o :: rest; t_pc := 0; t_reg := t_reg th |}
                                         (m_threads st) |}, []).
  Proof.
    intros st t th o rest Hth Hops Hpc Hrd Hne. unfold LogConc.step, LogConc.step_thread.
    rewrite Hth, Hops, (Hprog_upd o Hrd), Hpc. cbn [nth_error]. rewrite Hne. reflexivity.
  Qed.

  Lemma step_cas_ok : forall st t th o rest,
    nth_error (m_threads st) t = Some th -> t_ops th = o :: rest -> t_pc th = 1 -> is_read o = false ->
    (fst (m_cell st) =? fst (t_reg th)) = true ->
    exists st1, step st t = (st1, [(t, o)]) /\ t_ops_of t (m_threads st1) = rest.
  Proof.
    intros st t th o rest Hth Hops Hpc Hrd Heq. unfold LogConc.step, LogConc.step_thread.
    rewrite Hth, Hops, (Hprog_upd o Hrd), Hpc. cbn [nth_error]. rewrite Heq.
    unfold advance. rewrite (Hprog_upd o Hrd). cbn [length Nat.leb].
    destruct (new_ptr O V F pure ident (m_next st) (fn_of o) o (t_reg th)) as [c' n'].
    eexists. split; [reflexivity|]. cbn. unfold t_ops_of.
    rewrite (nth_error_set_nth_same _ _ _ _ Hth). reflexivity.
  Qed.

  (* MAIN PROGRESS LEMMA.  In a reachable state let thread t have the pending operation o and
     let the schedule give t at least [need] steps (2 from the start of the operation, 1 with
     a current loaded pointer, 3 with a stale one; always <= 3).  Then within that schedule
     either o is linearised, or an operation of ANOTHER thread is: a thread can only be held
     up by somebody else's success. *)
  Lemma progress_need : forall sched v0 all st tr0 t th o rest st' tr',
    Inv v0 all st tr0 ->
    nth_error (m_threads st) t = Some th -> t_ops th = o :: rest ->
    need (m_cell st) th <= occ t sched ->
    run st sched = (st', tr') ->
    In (t, o) tr' \/ exists t' o', t' <> t /\ In (t', o') tr'.
  Proof.
    induction sched as [|s sched IH]; intros v0 all st tr0 t th o rest st' tr' HI Hth Hops Hneed Hrun.
    { exfalso. unfold LogConc.need in Hneed. cbn in Hneed.
      destruct (t_pc th =? 0); [lia|]. destruct (fst (m_cell st) =? fst (t_reg th)); lia. }
    cbn [LogConc.run] in Hrun.
    destruct (step st s) as [st1 ev] eqn:Hs. destruct (run st1 sched) as [st2 tr2] eqn:Hr.
    inversion Hrun; subst st2 tr'. clear Hrun.
    pose proof (Inv_step _ _ _ _ _ _ _ HI Hs) as HI1.
    cbn [LogConc.occ] in Hneed.
    destruct (Nat.eq_dec s t) as [-> | Hne].
    - (* an own step *)
      rewrite Nat.eqb_refl in Hneed.
      destruct HI as (_ & _ & _ & Hok). pose proof (nth_error_Forall _ _ _ _ Hok Hth) as Hthok.
      unfold LogConc.need in Hneed.
      destruct (is_read o) eqn:Hrd.
      { (* a read-only operation completes with its one Load *)
        assert (Hpc : t_pc th = 0).
        { destruct Hthok as [Hpc | (_ & Hu & _)]; [exact Hpc|].
          rewrite (updating_head th o rest Hops Hu) in Hrd. discriminate. }
        destruct (step_read st t th o rest Hth Hops Hpc Hrd) as (st1' & Hs').
        rewrite Hs' in Hs. inversion Hs; subst. left. left. reflexivity. }
      destruct Hthok as [Hpc | (Hpc & _ & _)]; rewrite Hpc in Hneed; cbn [Nat.eqb] in Hneed.
      + (* Load: one CAS away afterwards *)
        rewrite (step_load st t th o rest Hth Hops Hpc Hrd) in Hs. inversion Hs; subst st1 ev. clear Hs.
        cbn [app].
        eapply (IH _ _ _ _ t {| t_ops := o :: rest; t_pc := 1; t_reg := m_cell st |} o rest _ _ HI1);
          [| reflexivity | | exact Hr].
        * cbn [m_threads]. apply (nth_error_set_nth_same _ _ _ _ Hth).
        * unfold LogConc.need. cbn. rewrite Nat.eqb_refl. lia.
      + destruct (fst (m_cell st) =? fst (t_reg th)) eqn:Hcmp.
        * (* CAS succeeds *)
          destruct (step_cas_ok st t th o rest Hth Hops Hpc Hrd Hcmp) as (st1' & Hs' & _).
          rewrite Hs' in Hs. inversion Hs; subst. left. left. reflexivity.
        * (* CAS fails: Load and CAS to go *)
          rewrite (step_cas_fail st t th o rest Hth Hops Hpc Hrd Hcmp) in Hs.
          inversion Hs; subst st1 ev. clear Hs.
          cbn [app].
          eapply (IH _ _ _ _ t {| t_ops := o :: rest; t_pc := 0; t_reg := t_reg th |} o rest _ _ HI1);
            [| reflexivity | | exact Hr].
          -- cbn [m_threads]. apply (nth_error_set_nth_same _ _ _ _ Hth).
          -- unfold LogConc.need. cbn. lia.
    - (* a step of another thread *)
      apply Nat.eqb_neq in Hne as Hneb. rewrite Hneb in Hneed. cbn [Nat.add] in Hneed.
      destruct ev as [|e ev].
      + (* silent: nothing changed for t *)
        cbn [app]. eapply (IH _ _ _ _ t th o rest _ _ HI1); [| exact Hops | | exact Hr].
        * rewrite (step_other_thread _ _ _ _ t Hne Hs). exact Hth.
        * rewrite (step_silent_cell _ _ _ Hs). exact Hneed.
      + (* the other thread linearised an operation *)
        right. destruct e as [t' o']. exists t', o'. split; [|left; reflexivity].
        pose proof (step_event_tag _ _ _ _ (t', o') Hs (or_introl eq_refl)) as E. cbn in E. congruence.
  Qed.

  Lemma need_le_3 : forall cell th, need cell th <= 3.
  Proof.
    intros cell th. unfold LogConc.need. destruct (t_pc th =? 0); [lia|].
    destruct (fst cell =? fst (t_reg th)); lia.
  Qed.

  Lemma occ_repeat : forall t k, occ t (repeat t k) = k.
  Proof. induction k as [|k IH]; cbn; [reflexivity|]. rewrite Nat.eqb_refl, IH. reflexivity. Qed.

  Lemma run_tags : forall sched st st' tr e, run st sched = (st', tr) -> In e tr -> In (fst e) sched.
  Proof.
    induction sched as [|s sched IH]; intros st st' tr e Hrun Hin; cbn in Hrun.
    - inversion Hrun; subst. destruct Hin.
    - destruct (step st s) as [st1 ev] eqn:Hs. destruct (run st1 sched) as [st2 tr2] eqn:Hr.
      inversion Hrun; subst. apply in_app_or in Hin as [Hin | Hin].
      + left. symmetry. eapply step_event_tag; eassumption.
      + right. eapply IH; eassumption.
  Qed.

  (* at every moment the cell is the sequential application of the linearised operations,
     nothing is linearised that was not requested, nor twice, and every thread's operations
     are linearised in its program order *)
  Theorem run_cell : forall v0 progs sched st tr,
    run (init_state O V v0 progs) sched = (st, tr) ->
    snd (m_cell st) = fold_left apply_op (untag tr) v0
    /\ Permutation (untag tr ++ pending (m_threads st)) (concat progs)
    /\ forall t, ops_of t tr ++ t_ops_of t (m_threads st) = nth t progs [].
  Proof.
    intros v0 progs sched st tr Hrun.
    destruct (Inv_Ord_run sched v0 (concat progs) progs _ [] st tr (Inv_init v0 progs)
                (Ord_init v0 progs) Hrun) as [(H1 & H2 & _) H3].
    cbn in H1, H2, H3. repeat split; assumption.
  Qed.

  (* once all threads have returned, every operation has taken effect exactly once, each
     thread's in its own order *)
  Theorem run_linearisable : forall v0 progs sched st tr,
    run (init_state O V v0 progs) sched = (st, tr) -> all_returned O V st = true ->
    Permutation (untag tr) (concat progs)
    /\ snd (m_cell st) = fold_left apply_op (untag tr) v0
    /\ forall t, ops_of t tr = nth t progs [].
  Proof.
    intros v0 progs sched st tr Hrun Hret.
    destruct (run_cell v0 progs sched st tr Hrun) as (H1 & H2 & H3).
    rewrite (all_returned_pending st Hret), app_nil_r in H2. repeat split; try assumption.
    intros t. specialize (H3 t). rewrite (all_returned_t_ops st t Hret), app_nil_r in H3. exact H3.
  Qed.

  (* ---------------- what every linearisation point sees ---------------- *)
  Lemma step_ev_cases : forall st t st1 ev, step st t = (st1, ev) -> ev = [] \/ exists o, ev = [(t, o)].
  Proof.
    intros st t st1 ev Hstep. unfold LogConc.step in Hstep.
    destruct (nth_error (m_threads st) t) as [th|]; [|inversion Hstep; left; reflexivity].
    destruct (step_thread (m_cell st) (m_next st) th) as [[[c n] th'] [o|]];
      inversion Hstep; subst; cbn; [right; exists o; reflexivity | left; reflexivity].
  Qed.

  Lemma firstn_untag_app : forall (a b : list (nat * O)),
    firstn (length a) (untag (a ++ b)) = untag a.
  Proof.
    intros a b. unfold LogConc.untag. rewrite map_app.
    rewrite <- (map_length snd a). rewrite firstn_app, Nat.sub_diag, firstn_all. cbn. apply app_nil_r.
  Qed.

  (* [run_vals] lists, in linearisation order, the shared value at each linearisation point
     (the value an update installed / the value a read-only operation loaded): it is the
     sequential application of exactly the operations linearised up to and including that one *)
  Lemma run_vals_from : forall sched v0 all st tr0 st2 tr,
    Inv v0 all st tr0 -> run st sched = (st2, tr) ->
    run_vals O V F pure ident prog st sched
    = map (fun k => fold_left apply_op (firstn k (untag (tr0 ++ tr))) v0)
          (seq (S (length tr0)) (length tr)).
  Proof.
    induction sched as [|t sched IH]; intros v0 all st tr0 st2 tr HI Hrun; cbn in Hrun.
    - inversion Hrun; subst. reflexivity.
    - cbn [LogConc.run_vals].
      destruct (step st t) as [st1 ev] eqn:Hs. destruct (run st1 sched) as [st3 tr3] eqn:Hr.
      inversion Hrun; subst st3 tr. clear Hrun.
      pose proof (Inv_step _ _ _ _ _ _ _ HI Hs) as HI1.
      rewrite (IH v0 all st1 (tr0 ++ ev) st2 tr3 HI1 Hr).
      destruct (step_ev_cases _ _ _ _ Hs) as [-> | (o & ->)].
      + cbn [map app]. rewrite !app_nil_r. reflexivity.
      + cbn [map app length]. rewrite app_length. cbn [length]. rewrite Nat.add_1_r.
        rewrite <- app_assoc. cbn [app]. f_equal.
        destruct HI1 as (Hc & _). rewrite Hc.
        replace (tr0 ++ (t, o) :: tr3) with ((tr0 ++ [(t, o)]) ++ tr3) by (rewrite <- app_assoc; reflexivity).
        replace (S (length tr0)) with (length (tr0 ++ [(t, o)])) by (rewrite app_length; cbn; lia).
        cbn [seq map]. rewrite firstn_untag_app. reflexivity.
  Qed.

  Theorem run_vals_spec : forall v0 progs sched st tr,
    run (init_state O V v0 progs) sched = (st, tr) ->
    length (run_vals O V F pure ident prog (init_state O V v0 progs) sched) = length tr
    /\ forall i, i < length tr ->
         nth i (run_vals O V F pure ident prog (init_state O V v0 progs) sched) v0
         = fold_left apply_op (firstn (S i) (untag tr)) v0.
  Proof.
    intros v0 progs sched st tr Hrun.
    rewrite (run_vals_from sched v0 (concat progs) _ [] st tr (Inv_init v0 progs) Hrun).
    cbn [length app]. split; [rewrite map_length, seq_length; reflexivity|].
    intros i Hi.
    set (g := fun k => fold_left apply_op (firstn k (untag tr)) v0).
    rewrite (nth_indep _ v0 (g 0)) by (rewrite map_length, seq_length; exact Hi).
    rewrite (map_nth g), seq_nth by exact Hi. reflexivity.
  Qed.

  (* ---------------- a sequential tail after the parallel part ---------------- *)
  Lemma run_app : forall s1 s2 st,
    run st (s1 ++ s2) =
    let '(st1, tr1) := run st s1 in let '(st2, tr2) := run st1 s2 in (st2, tr1 ++ tr2).
  Proof.
    induction s1 as [|t s1 IH]; intros s2 st; cbn.
    - destruct (run st s2) as [st2 tr2]. reflexivity.
    - destruct (step st t) as [sa ev]. rewrite IH.
      destruct (run sa s1) as [st1 tr1]. destruct (run st1 s2) as [st2 tr2].
      rewrite app_assoc. reflexivity.
  Qed.

  Lemma ops_of_notag : forall t (tr : list (nat * O)), (forall e, In e tr -> fst e <> t) -> ops_of t tr = [].
  Proof.
    intros t tr. unfold LogConc.ops_of. induction tr as [|[s o] tr IH]; intros H; cbn; [reflexivity|].
    destruct (s =? t) eqn:E.
    - apply Nat.eqb_eq in E. exfalso. apply (H (s, o)); [left; reflexivity | exact E].
    - apply IH. intros e He. apply H. right. exact He.
  Qed.

  Lemma ops_of_app : forall t (a b : list (nat * O)), ops_of t (a ++ b) = ops_of t a ++ ops_of t b.
  Proof. intros t a b. unfold LogConc.ops_of. rewrite filter_app, map_app. reflexivity. Qed.

  (* a trace in which only thread n has operations is that thread's operation list *)
  Lemma untag_single : forall n (tr : list (nat * O)),
    (forall t, t <> n -> ops_of t tr = []) -> untag tr = ops_of n tr.
  Proof.
    intros n tr. unfold LogConc.untag, LogConc.ops_of.
    induction tr as [|[s o] tr IH]; intros H; cbn; [reflexivity|].
    destruct (s =? n) eqn:E.
    - cbn. f_equal. apply IH. intros t Ht. specialize (H t Ht). cbn in H.
      destruct (s =? t); [discriminate H | exact H].
    - apply Nat.eqb_neq in E. specialize (H s E). cbn in H. rewrite Nat.eqb_refl in H. discriminate H.
  Qed.

  Lemma concat_single : forall (M : list (list O)) n x,
    (forall t, t <> n -> nth t M [] = []) -> nth n M [] = x -> concat M = x.
  Proof.
    induction M as [|m M IH]; intros n x H Hn; cbn.
    - destruct n; cbn in Hn; exact Hn.
    - destruct n as [|n].
      + cbn in Hn. subst m. replace (concat M) with (@nil O); [apply app_nil_r|].
        symmetry. clear IH. induction M as [|m M IHM]; [reflexivity|]. cbn.
        pose proof (H 1 (Nat.neq_succ_0 0)) as H1. cbn in H1. rewrite H1. cbn. apply IHM.
        intros [|t] Ht; [congruence|]. apply (H (S (S t))). congruence.
      + pose proof (H 0 (Nat.neq_0_succ n)) as H0. cbn in H0. subst m. cbn.
        apply (IH n); [|exact Hn]. intros t Ht. apply (H (S t)). congruence.
  Qed.

  Lemma t_ops_of_nth : forall t (ths : list thread), t_ops_of t ths = nth t (map t_ops ths) [].
  Proof.
    intros t ths. unfold t_ops_of. revert t. induction ths as [|a l IH]; intros [|t]; cbn; try reflexivity. apply IH.
  Qed.

  (* operations issued by one more thread AFTER all the others have returned: the others' part
     of the trace is a complete linearisation of their programs (in program order), and what
     follows is exactly the tail, in its order *)
  Theorem run_tail : forall v0 progs tail s1 s2 st1 tr1 st2 tr2,
    run (init_state O V v0 (progs ++ [tail])) s1 = (st1, tr1) -> run st1 s2 = (st2, tr2) ->
    (forall t, In t s1 -> t < length progs) ->
    (forall t, t < length progs -> t_ops_of t (m_threads st1) = []) ->
    all_returned O V st2 = true ->
    untag tr2 = tail
    /\ Permutation (untag tr1) (concat progs)
    /\ (forall t, ops_of t tr1 = nth t progs [])
    /\ snd (m_cell st2) = fold_left apply_op (untag tr1 ++ tail) v0.
  Proof.
    intros v0 progs tail s1 s2 st1 tr1 st2 tr2 H1 H2 Hs1 Hdone Hret.
    set (n := length progs).
    destruct (Inv_Ord_run s1 v0 (concat (progs ++ [tail])) (progs ++ [tail]) _ [] st1 tr1
                (Inv_init v0 (progs ++ [tail])) (Ord_init v0 (progs ++ [tail])) H1) as [HI1 HO1].
    cbn [app] in HI1, HO1.
    destruct (Inv_Ord_run s2 v0 _ _ st1 tr1 st2 tr2 HI1 HO1 H2) as [HI2 HO2].
    (* no event of the first part belongs to a thread >= n *)
    assert (Htag : forall t, n <= t -> ops_of t tr1 = []).
    { intros t Ht. apply ops_of_notag. intros e He.
      pose proof (run_tags _ _ _ _ e H1 He) as Hin. specialize (Hs1 _ Hin). fold n in Hs1. lia. }
    assert (Hnth_lt : forall t, t < n -> nth t (progs ++ [tail]) [] = nth t progs []).
    { intros t Ht. apply app_nth1. exact Ht. }
    assert (Hnth_n : nth n (progs ++ [tail]) [] = tail).
    { rewrite app_nth2 by (unfold n; lia). unfold n. rewrite Nat.sub_diag. reflexivity. }
    assert (Hnth_gt : forall t, n < t -> nth t (progs ++ [tail]) [] = []).
    { intros t Ht. apply nth_overflow. rewrite app_length. cbn. fold n. lia. }
    assert (Hc : forall t, ops_of t tr1 = nth t progs []).
    { intros t. destruct (Nat.lt_ge_cases t n) as [Hlt | Hge].
      - pose proof (HO1 t) as E. rewrite (Hdone t Hlt), app_nil_r, (Hnth_lt t Hlt) in E. exact E.
      - rewrite (Htag t Hge). symmetry. apply nth_overflow. exact Hge. }
    (* what is still pending after the first part is the tail *)
    assert (Hpend : pending (m_threads st1) = tail).
    { unfold pending. apply (concat_single _ n).
      - intros t Ht. rewrite <- t_ops_of_nth.
        destruct (Nat.lt_ge_cases t n) as [Hlt | Hge]; [apply Hdone; exact Hlt|].
        pose proof (HO1 t) as E. rewrite (Htag t Hge), (Hnth_gt t) in E by lia. exact E.
      - rewrite <- t_ops_of_nth. pose proof (HO1 n) as E.
        rewrite (Htag n (Nat.le_refl n)), Hnth_n in E. exact E. }
    assert (Hp : Permutation (untag tr1) (concat progs)).
    { destruct HI1 as (_ & Hperm & _). rewrite Hpend, concat_app in Hperm. cbn in Hperm.
      rewrite app_nil_r in Hperm. apply Permutation_app_inv_r in Hperm. exact Hperm. }
    (* the second part: only thread n *)
    assert (Hend : forall t, ops_of t (tr1 ++ tr2) = nth t (progs ++ [tail]) []).
    { intros t. pose proof (HO2 t) as E. rewrite (all_returned_t_ops st2 t Hret), app_nil_r in E. exact E. }
    assert (Hother : forall t, t <> n -> ops_of t tr2 = []).
    { intros t Ht. pose proof (Hend t) as E. rewrite ops_of_app in E.
      destruct (Nat.lt_ge_cases t n) as [Hlt | Hge].
      - rewrite (Hnth_lt t Hlt), <- (Hc t) in E.
        rewrite <- (app_nil_r (ops_of t tr1)) in E at 2. apply app_inv_head in E. exact E.
      - rewrite (Htag t Hge), (Hnth_gt t) in E by lia. exact E. }
    assert (Ht2 : untag tr2 = tail).
    { rewrite (untag_single n tr2 Hother). pose proof (Hend n) as E.
      rewrite ops_of_app, (Htag n (Nat.le_refl n)), Hnth_n in E. exact E. }
    split; [exact Ht2 | split; [exact Hp | split; [exact Hc|]]].
    destruct HI2 as (Hcell & _). rewrite Hcell. unfold LogConc.untag. rewrite map_app.
    fold (untag tr1). fold (untag tr2). rewrite Ht2. reflexivity.
  Qed.

  (* reachable = the state after some schedule from the initial state *)
  (* lock-freedom: whenever a thread with a pending operation gets three steps, some
     operation (its own or, if not, another thread's) is linearised in that stretch *)
  Theorem progress_lockfree : forall v0 progs sched0 st tr0 t o rest sched st' tr',
    run (init_state O V v0 progs) sched0 = (st, tr0) ->
    t_ops_of t (m_threads st) = o :: rest -> 3 <= occ t sched ->
    run st sched = (st', tr') ->
    In (t, o) tr' \/ exists t' o', t' <> t /\ In (t', o') tr'.
  Proof.
    intros v0 progs sched0 st tr0 t o rest sched st' tr' Hreach Hops Hocc Hrun.
    destruct (Inv_Ord_run sched0 v0 (concat progs) progs _ [] st tr0 (Inv_init v0 progs)
                (Ord_init v0 progs) Hreach) as [HI _].
    unfold t_ops_of in Hops. destruct (nth_error (m_threads st) t) as [th|] eqn:Hth; [|discriminate].
    eapply progress_need; [exact HI | exact Hth | exact Hops | | exact Hrun].
    pose proof (need_le_3 (m_cell st) th). lia.
  Qed.

  (* obstruction-freedom: if no other thread's operation is linearised in a stretch that gives
     t three steps, t's pending operation is *)
  Theorem progress_obstruction_free : forall v0 progs sched0 st tr0 t o rest sched st' tr',
    run (init_state O V v0 progs) sched0 = (st, tr0) ->
    t_ops_of t (m_threads st) = o :: rest -> 3 <= occ t sched ->
    run st sched = (st', tr') ->
    (forall e, In e tr' -> fst e = t) ->
    In (t, o) tr'.
  Proof.
    intros v0 progs sched0 st tr0 t o rest sched st' tr' Hreach Hops Hocc Hrun Honly.
    destruct (progress_lockfree _ _ _ _ _ _ _ _ _ _ _ Hreach Hops Hocc Hrun) as [H | (t' & o' & Hne & Hin)];
      [exact H|]. exfalso. apply Hne. apply (Honly _ Hin).
  Qed.

  (* in particular: running alone, a call completes within three of its own micro-steps *)
  Theorem progress_solo : forall v0 progs sched0 st tr0 t o rest st' tr',
    run (init_state O V v0 progs) sched0 = (st, tr0) ->
    t_ops_of t (m_threads st) = o :: rest ->
    run st (repeat t 3) = (st', tr') -> In (t, o) tr'.
  Proof.
    intros v0 progs sched0 st tr0 t o rest st' tr' Hreach Hops Hrun.
    eapply progress_obstruction_free; [exact Hreach | exact Hops | | exact Hrun |].
    - rewrite occ_repeat. lia.
    - intros e He. pose proof (run_tags _ _ _ _ e Hrun He) as Hin.
      apply repeat_spec in Hin. exact Hin.
  Qed.

  (* a failed CompareAndSwap is always somebody else's success: a thread that starts an
     operation (Load) and later attempts its CompareAndSwap — whatever the others do in
     between — either succeeds or another thread's operation was linearised since the Load *)
  Theorem progress_failed_cas : forall v0 progs sched0 st tr0 t th o rest mid st' tr',
    run (init_state O V v0 progs) sched0 = (st, tr0) ->
    nth_error (m_threads st) t = Some th -> t_ops th = o :: rest -> t_pc th = 0 ->
    run st (t :: mid ++ [t]) = (st', tr') ->
    In (t, o) tr' \/ exists t' o', t' <> t /\ In (t', o') tr'.
  Proof.
    intros v0 progs sched0 st tr0 t th o rest mid st' tr' Hreach Hth Hops Hpc Hrun.
    destruct (Inv_Ord_run sched0 v0 (concat progs) progs _ [] st tr0 (Inv_init v0 progs)
                (Ord_init v0 progs) Hreach) as [HI _].
    eapply progress_need; [exact HI | exact Hth | exact Hops | | exact Hrun].
    unfold LogConc.need. rewrite Hpc. cbn [Nat.eqb LogConc.occ]. rewrite Nat.eqb_refl.
    assert (G : forall l, 1 <= occ t (l ++ [t])).
    { induction l as [|x l IHl]; cbn; [rewrite Nat.eqb_refl; lia | lia]. }
    specialize (G mid). lia.
  Qed.
End Lin.
