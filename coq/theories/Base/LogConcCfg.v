(* LogConcCfg.v — control-flow graphs of atomic operations, and a checker that decides whether
   two such graphs are bisimilar.  Definitions only (proofs: LogConcCfgProofs.v).

   The translator (harness/cmd/xlate_logconc) no longer normalises the Go source towards the
   hand-written instruction lists of LogCtxModel.v.  It symbolically executes WithFields /
   SetLevel / ChildLogger (helper methods and closures inlined, locals abstracted) and emits,
   per function, the graph whose nodes are the atomic operations on the shared holder and
   whose edges say which atomic operation comes next (for a CompareAndSwap: after success /
   after failure).  A target >= the number of nodes means: the function returns.

     GLoad n          reg := cell; continue at n
     GRead n          the same, and this Load is all the function does to the shared cell
                      (read-only operation, linearised here)
     GStore f n       cell := f(reg); continue at n
     GCas f s k       if cell is still the pointer in reg then cell := f(reg), continue at s
                      else continue at k

   [prog_equiv p q] explores the product of two graphs from (0,0) and checks that the pairs
   reached form a bisimulation: same kind of operation, same pure function, successors paired
   again or both returning.  LogConcCfgProofs.v proves that machines running bisimilar graphs
   are in lockstep under EVERY schedule (same cell after every step, same linearisation trace,
   same returned threads), and that the flat instruction lists of LogConc.v embed into graphs.
   So `for { x := Load(); if CAS(x, f x) { break } }`,
   `x := Load(); for !CAS(x, f x) { x = Load() }`, a loop unrolled once, a retry loop moved
   into a helper taking the derivation as a closure ... all denote the same machine.          *)
From Coq Require Import List Arith Bool.
From GT Require Import Base.LogConc.
Import ListNotations.

Section Cfg.
  Variables (O V F : Type).
  Variable pure : F -> O -> V -> V.
  Variable ident : F -> O -> bool.

  Inductive ginstr :=
  | GLoad (next : nat)
  | GRead (next : nat)
  | GStore (f : F) (next : nat)
  | GCas (f : F) (succ fail : nat).

  Variable gprog : O -> list ginstr.

  Definition gadvance (th : thread O V) (o : O) (rest : list O) (pc' : nat) (r : nat * V) : thread O V :=
    if length (gprog o) <=? pc' then {| t_ops := rest; t_pc := 0; t_reg := r |}
    else {| t_ops := o :: rest; t_pc := pc'; t_reg := r |}.

  Definition gstep_thread (cell : nat * V) (next : nat) (th : thread O V)
    : (nat * V) * nat * thread O V * option O :=
    match t_ops th with
    | [] => (cell, next, th, None)
    | o :: rest =>
        match nth_error (gprog o) (t_pc th) with
        | None => (cell, next, {| t_ops := rest; t_pc := 0; t_reg := t_reg th |}, None)
        | Some (GLoad n) => (cell, next, gadvance th o rest n cell, None)
        | Some (GRead n) => (cell, next, gadvance th o rest n cell, Some o)
        | Some (GStore f n) =>
            let '(c', n') := new_ptr O V F pure ident next f o (t_reg th) in
            (c', n', gadvance th o rest n (t_reg th), Some o)
        | Some (GCas f s k) =>
            if fst cell =? fst (t_reg th) then
              let '(c', n') := new_ptr O V F pure ident next f o (t_reg th) in
              (c', n', gadvance th o rest s (t_reg th), Some o)
            else (cell, next, gadvance th o rest k (t_reg th), None)
        end
    end.

  Definition gstep (st : mstate O V) (tid : nat) : mstate O V * list (nat * O) :=
    match nth_error (m_threads st) tid with
    | None => (st, [])
    | Some th =>
        let '(c, n, th', ev) := gstep_thread (m_cell st) (m_next st) th in
        ({| m_cell := c; m_next := n; m_threads := set_nth tid th' (m_threads st) |}, tag O tid ev)
    end.

  Fixpoint grun (st : mstate O V) (sched : list nat) : mstate O V * list (nat * O) :=
    match sched with
    | [] => (st, [])
    | t :: rest =>
        let '(st1, ev) := gstep st t in
        let '(st2, tr) := grun st1 rest in
        (st2, ev ++ tr)
    end.

  Fixpoint grun_obs (st : mstate O V) (sched : list nat) : list V :=
    match sched with
    | [] => []
    | t :: rest => let st1 := fst (gstep st t) in snd (m_cell st1) :: grun_obs st1 rest
    end.
End Cfg.

Arguments GLoad {F} next.
Arguments GRead {F} next.
Arguments GStore {F} f next.
Arguments GCas {F} f succ fail.

(* ---- the flat instruction lists of LogConc.v as graphs ---- *)
Section Embed.
  Variable F : Type.

  Definition embed1 (i : nat) (x : instr F) : ginstr F :=
    match x with
    | ILoad => GLoad (S i)
    | IRead => GRead (S i)
    | IStore f => GStore f (S i)
    | ICas f k => GCas f (S i) k
    end.

  Fixpoint embed_from (i : nat) (p : list (instr F)) : list (ginstr F) :=
    match p with
    | [] => []
    | x :: r => embed1 i x :: embed_from (S i) r
    end.

  Definition embed (p : list (instr F)) : list (ginstr F) := embed_from 0 p.
End Embed.

(* ---- bisimulation check ---- *)
Section Bisim.
  Variable F : Type.
  Variable feqb : F -> F -> bool.

  Definition pair_mem (x : nat * nat) (l : list (nat * nat)) : bool :=
    existsb (fun y => (fst x =? fst y) && (snd x =? snd y)) l.

  Definition gexit (p : list (ginstr F)) (pc : nat) : bool := length p <=? pc.

  (* the two successors both return, or both continue at a pair that is in the relation *)
  Definition rel_ok (R : list (nat * nat)) (p q : list (ginstr F)) (a b : nat) : bool :=
    (gexit p a && gexit q b) || (negb (gexit p a) && negb (gexit q b) && pair_mem (a, b) R).

  Definition match_pair (R : list (nat * nat)) (p q : list (ginstr F)) (ij : nat * nat) : bool :=
    match nth_error p (fst ij), nth_error q (snd ij) with
    | Some (GLoad a), Some (GLoad b) => rel_ok R p q a b
    | Some (GRead a), Some (GRead b) => rel_ok R p q a b
    | Some (GStore f a), Some (GStore g b) => feqb f g && rel_ok R p q a b
    | Some (GCas f a a'), Some (GCas g b b') => feqb f g && rel_ok R p q a b && rel_ok R p q a' b'
    | None, None => true
    | _, _ => false
    end.

  Definition bisim_ok (R : list (nat * nat)) (p q : list (ginstr F)) : bool :=
    pair_mem (0, 0) R && forallb (match_pair R p q) R.

  (* successor pairs of a pair of nodes; None: the nodes do not match *)
  Definition succs (p q : list (ginstr F)) (ij : nat * nat) : option (list (nat * nat)) :=
    match nth_error p (fst ij), nth_error q (snd ij) with
    | Some (GLoad a), Some (GLoad b) => Some [(a, b)]
    | Some (GRead a), Some (GRead b) => Some [(a, b)]
    | Some (GStore _ a), Some (GStore _ b) => Some [(a, b)]
    | Some (GCas _ a a'), Some (GCas _ b b') => Some [(a, b); (a', b')]
    | None, None => Some []
    | _, _ => None
    end.

  Fixpoint explore (p q : list (ginstr F)) (fuel : nat) (todo seen : list (nat * nat))
    : option (list (nat * nat)) :=
    match todo with
    | [] => Some seen
    | ij :: rest =>
        match fuel with
        | 0 => None
        | S fuel' =>
            if pair_mem ij seen then explore p q fuel' rest seen
            else if gexit p (fst ij) && gexit q (snd ij) && negb ((fst ij =? 0) && (snd ij =? 0))
                 then explore p q fuel' rest seen
            else match succs p q ij with
                 | None => None
                 | Some l => explore p q fuel' (l ++ rest) (ij :: seen)
                 end
        end
    end.

  (* the result of the exploration is only a candidate: [bisim_ok] decides *)
  Definition prog_equiv (p q : list (ginstr F)) : bool :=
    match explore p q (3 * S (length p) * S (length q) + 3) [(0, 0)] [] with
    | Some R => bisim_ok R p q
    | None => false
    end.
End Bisim.
