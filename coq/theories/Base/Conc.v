(* Conc.v — generic small-step interleaving machine (definitions only; facts in ConcFacts.v).

   A component instantiates it with
     Sh    shared memory                      Call  the API calls a client thread can make
     Loc   program counter + locals of a      Ret   their results
           running call
     begin c          locals at the entry of call c
     mstep c l s      ONE shared-memory operation of call c at locals l on shared memory s:
                      new memory and either the next locals or the call's result
     fatal r          results that end the thread (a Go panic unwinding the goroutine)
     observe s        projection of the shared memory the harness can observe after a step
     site c l         identifier of the shared-memory operation the thread will do next

   A client thread is a list of calls.  A schedule is a list of thread ids.  Scheduling
     - an idle thread with calls left:  emits ECall, enters the call (no memory access yet);
     - a running thread: does one micro-step; when the call's result is produced in that
       micro-step the thread emits ERet in the same step and is idle again;
     - a finished (or non-existent) thread: stutters.
   This is exactly what harness/internal/vsched enforces on the real code: one goroutine runs
   from one Yield to the next; a Yield sits before every call of the client program and
   before every shared-memory operation.

   The trace is ghost state (newest item first): one item per schedule entry, holding the
   thread id, the event, the observation of the memory after the step and the site the
   thread is parked at after the step (0 = between calls / finished).                        *)
From Coq Require Import List Arith ZArith.
Import ListNotations.

Fixpoint upd {A} (l : list A) (i : nat) (x : A) : list A :=
  match l, i with
  | [], _ => []
  | _ :: r, O => x :: r
  | a :: r, S j => a :: upd r j x
  end.

Section Machine.
  Variables Sh Loc Call Ret Obs : Type.
  Variable begin : Call -> Loc.
  Variable mstep : Call -> Loc -> Sh -> Sh * (Loc + Ret).
  Variable fatal : Ret -> bool.
  Variable observe : Sh -> Obs.
  Variable site : Call -> Loc -> nat.

  Inductive tstate :=
  | Idle (todo : list Call)
  | Run (c : Call) (l : Loc) (todo : list Call).

  Inductive event :=
  | ECall (c : Call)
  | ERet (c : Call) (r : Ret)
  | ETau
  | EStutter.

  Record item := Item { it_tid : nat; it_ev : event; it_obs : Obs; it_site : nat }.

  Record config := Config { sh : Sh; thr : list tstate; tr : list item }.

  Definition tsite (t : tstate) : nat :=
    match t with Idle _ => 0 | Run c l _ => site c l end.

  (* one scheduling of thread state t on memory s *)
  Definition tstep (s : Sh) (t : tstate) : Sh * tstate * event :=
    match t with
    | Idle [] => (s, t, EStutter)
    | Idle (c :: todo) => (s, Run c (begin c) todo, ECall c)
    | Run c l todo =>
        match mstep c l s with
        | (s', inl l') => (s', Run c l' todo, ETau)
        | (s', inr r) => (s', Idle (if fatal r then [] else todo), ERet c r)
        end
    end.

  Definition step (cf : config) (tid : nat) : config :=
    match nth_error (thr cf) tid with
    | None => Config (sh cf) (thr cf) (Item tid EStutter (observe (sh cf)) 0 :: tr cf)
    | Some t =>
        let '(s', t', e) := tstep (sh cf) t in
        Config s' (upd (thr cf) tid t') (Item tid e (observe s') (tsite t') :: tr cf)
    end.

  Definition init (s0 : Sh) (progs : list (list Call)) : config :=
    Config s0 (map Idle progs) [].

  Definition run (cf : config) (sched : list nat) : config := fold_left step sched cf.

  Definition exec (s0 : Sh) (progs : list (list Call)) (sched : list nat) : config :=
    run (init s0 progs) sched.

  (* reachability from an initial configuration *)
  Definition reachable (s0 : Sh) (cf : config) : Prop :=
    exists progs sched, cf = exec s0 progs sched.

  (* thread tid scheduled k times in a row *)
  Definition solo (cf : config) (tid k : nat) : config := run cf (repeat tid k).

  Definition finished (t : tstate) : bool :=
    match t with Idle [] => true | _ => false end.
  Definition all_finished (cf : config) : bool := forallb finished (thr cf).
End Machine.

Arguments Idle {Loc Call}.
Arguments Run {Loc Call}.
Arguments ECall {Call Ret}.
Arguments ERet {Call Ret}.
Arguments ETau {Call Ret}.
Arguments EStutter {Call Ret}.
Arguments Item {Call Ret Obs}.
Arguments it_tid {Call Ret Obs}.
Arguments it_ev {Call Ret Obs}.
Arguments it_obs {Call Ret Obs}.
Arguments it_site {Call Ret Obs}.
Arguments Config {Sh Loc Call Ret Obs}.
Arguments sh {Sh Loc Call Ret Obs}.
Arguments thr {Sh Loc Call Ret Obs}.
Arguments tr {Sh Loc Call Ret Obs}.
Arguments tsite {Loc Call}.
Arguments tstep {Sh Loc Call Ret}.
Arguments step {Sh Loc Call Ret Obs}.
Arguments init {Sh Loc Call Ret Obs}.
Arguments run {Sh Loc Call Ret Obs}.
Arguments exec {Sh Loc Call Ret Obs}.
Arguments reachable {Sh Loc Call Ret Obs}.
Arguments solo {Sh Loc Call Ret Obs}.
Arguments finished {Loc Call}.
Arguments all_finished {Sh Loc Call Ret Obs}.
