(* ConcFacts.v — generic facts about the interleaving machine of Conc.v. *)
From Coq Require Import List Arith ZArith Lia.
From GT Require Import Base.Conc.
Import ListNotations.

Lemma upd_length : forall A (l : list A) i x, length (upd l i x) = length l.
Proof. induction l as [|a l IH]; intros [|i] x; simpl; auto. Qed.

Lemma nth_error_upd_same : forall A (l : list A) i x y,
  nth_error l i = Some y -> nth_error (upd l i x) i = Some x.
Proof. induction l as [|a l IH]; intros [|i] x y H; simpl in *; try discriminate; eauto. Qed.

Lemma nth_error_upd_other : forall A (l : list A) i j x,
  i <> j -> nth_error (upd l i x) j = nth_error l j.
Proof.
  induction l as [|a l IH]; intros [|i] [|j] x H; simpl; auto; try congruence.
Qed.

Lemma nth_error_upd : forall A (l : list A) i j x y,
  nth_error l i = Some y ->
  nth_error (upd l i x) j = if Nat.eqb i j then Some x else nth_error l j.
Proof.
  intros. destruct (Nat.eqb_spec i j) as [->|Hne].
  - eapply nth_error_upd_same; eauto.
  - apply nth_error_upd_other; auto.
Qed.

(* sums over the thread list *)
Section Sum.
  Variable A : Type.
  Variable f : A -> Z.
  Fixpoint sumf (l : list A) : Z := match l with [] => 0%Z | a :: r => (f a + sumf r)%Z end.

  Lemma sumf_upd : forall l i x y, nth_error l i = Some y ->
    sumf (upd l i x) = (sumf l - f y + f x)%Z.
  Proof.
    induction l as [|a l IH]; intros [|i] x y H; simpl in *; try discriminate.
    - inversion H; subst. lia.
    - rewrite (IH _ _ _ H). lia.
  Qed.

  Lemma sumf_nonneg : (forall a, 0 <= f a)%Z -> forall l, (0 <= sumf l)%Z.
  Proof. intros Hf l. induction l; simpl; [lia|]. specialize (Hf a). lia. Qed.

  Lemma sumf_zero : forall l, (forall i a, nth_error l i = Some a -> f a = 0%Z) -> sumf l = 0%Z.
  Proof.
    induction l as [|a l IH]; intros H; simpl; auto.
    rewrite (H 0 a eq_refl). rewrite IH; auto. intros i b Hb. apply (H (S i) b Hb).
  Qed.
End Sum.
Arguments sumf {A}.

Section Machine.
  Variables Sh Loc Call Ret Obs : Type.
  Variable begin : Call -> Loc.
  Variable mstep : Call -> Loc -> Sh -> Sh * (Loc + Ret).
  Variable fatal : Ret -> bool.
  Variable observe : Sh -> Obs.
  Variable site : Call -> Loc -> nat.

  Let stepf := step begin mstep fatal observe site.
  Let runf := run begin mstep fatal observe site.
  Let execf := exec begin mstep fatal observe site.

  Lemma run_app : forall s1 s2 cf, runf cf (s1 ++ s2) = runf (runf cf s1) s2.
  Proof. intros. unfold runf, run. apply fold_left_app. Qed.

  Lemma exec_snoc : forall s0 progs sched t,
    execf s0 progs (sched ++ [t]) = stepf (execf s0 progs sched) t.
  Proof. intros. unfold execf, exec. fold runf. rewrite run_app. reflexivity. Qed.

  (* induction over the schedule *)
  Lemma exec_invariant : forall (P : config Sh Loc Call Ret Obs -> Prop) s0 progs,
    P (init s0 progs) ->
    (forall cf t, P cf -> P (stepf cf t)) ->
    forall sched, P (execf s0 progs sched).
  Proof.
    intros P s0 progs H0 Hs sched. induction sched as [|t sched IH] using rev_ind.
    - exact H0.
    - rewrite exec_snoc. apply Hs. exact IH.
  Qed.

  Lemma run_invariant : forall (P : config Sh Loc Call Ret Obs -> Prop),
    (forall cf t, P cf -> P (stepf cf t)) ->
    forall sched cf, P cf -> P (runf cf sched).
  Proof.
    intros P Hs sched. induction sched as [|t sched IH]; intros cf H.
    - exact H.
    - simpl. apply IH. apply Hs. exact H.
  Qed.

  Lemma step_thr_length : forall cf t, length (thr (stepf cf t)) = length (thr cf).
  Proof.
    intros cf t. unfold stepf, step. destruct (nth_error (thr cf) t) as [th|]; simpl; auto.
    destruct (tstep begin mstep fatal (sh cf) th) as [[s' t'] e]. simpl. apply upd_length.
  Qed.
End Machine.

(* ---------------------------------------------------------------- lockstep simulation
   Two machines over the same shared memory, calls, results and observations whose locals are
   related by R: related at call entry, R preserved by every micro-step with equal memory
   effects and results, equal sites.  Then for every client program and schedule the two
   executions have the same memory and the same trace, and related threads.                  *)
Section Sim.
  Variables Sh L1 L2 Call Ret Obs : Type.
  Variable b1 : Call -> L1.
  Variable b2 : Call -> L2.
  Variable m1 : Call -> L1 -> Sh -> Sh * (L1 + Ret).
  Variable m2 : Call -> L2 -> Sh -> Sh * (L2 + Ret).
  Variable fatal : Ret -> bool.
  Variable observe : Sh -> Obs.
  Variable site1 : Call -> L1 -> nat.
  Variable site2 : Call -> L2 -> nat.
  Variable R : Call -> L1 -> L2 -> Prop.

  Definition step_rel (c : Call) (o1 : Sh * (L1 + Ret)) (o2 : Sh * (L2 + Ret)) : Prop :=
    fst o1 = fst o2 /\
    match snd o1, snd o2 with
    | inl l1, inl l2 => R c l1 l2
    | inr r1, inr r2 => r1 = r2
    | _, _ => False
    end.

  Hypothesis Rb : forall c, R c (b1 c) (b2 c).
  Hypothesis Rs : forall c l1 l2, R c l1 l2 -> site1 c l1 = site2 c l2.
  Hypothesis Rm : forall c l1 l2 s, R c l1 l2 -> step_rel c (m1 c l1 s) (m2 c l2 s).

  Definition trel (t1 : tstate L1 Call) (t2 : tstate L2 Call) : Prop :=
    match t1, t2 with
    | Idle a, Idle b => a = b
    | Run c l1 a, Run c' l2 b => c = c' /\ a = b /\ R c l1 l2
    | _, _ => False
    end.

  Definition csim (c1 : config Sh L1 Call Ret Obs) (c2 : config Sh L2 Call Ret Obs) : Prop :=
    sh c1 = sh c2 /\ tr c1 = tr c2 /\ Forall2 trel (thr c1) (thr c2).

  Lemma Forall2_nth : forall A B (P : A -> B -> Prop) l1 l2 i, Forall2 P l1 l2 ->
    match nth_error l1 i, nth_error l2 i with
    | Some a, Some b => P a b
    | None, None => True
    | _, _ => False
    end.
  Proof.
    intros A B P l1 l2 i H. revert i. induction H; intros [|i]; simpl; auto. apply IHForall2.
  Qed.

  Lemma Forall2_upd : forall A B (P : A -> B -> Prop) l1 l2 i a b, Forall2 P l1 l2 -> P a b ->
    Forall2 P (upd l1 i a) (upd l2 i b).
  Proof.
    intros A B P l1 l2 i a b H Hab. revert i. induction H; intros [|i]; simpl; constructor; auto.
  Qed.

  Let step1 := step b1 m1 fatal observe site1.
  Let step2 := step b2 m2 fatal observe site2.

  Lemma csim_step : forall c1 c2 tid, csim c1 c2 -> csim (step1 c1 tid) (step2 c2 tid).
  Proof.
    intros c1 c2 tid (Hs & Ht & Hf). unfold step1, step2, step.
    pose proof (Forall2_nth _ _ _ _ _ tid Hf) as Hn.
    destruct (nth_error (thr c1) tid) as [t1|]; destruct (nth_error (thr c2) tid) as [t2|];
      try contradiction.
    2:{ unfold csim; simpl. split; [exact Hs|]. split; [|exact Hf]. rewrite Hs, Ht. reflexivity. }
    destruct t1 as [[|c todo]|c l1 todo]; destruct t2 as [[|c' todo']|c' l2 todo'];
      simpl in Hn; try contradiction; try discriminate.
    - unfold csim; simpl. split; [exact Hs|]. split; [rewrite Hs, Ht; reflexivity|].
      apply Forall2_upd; [exact Hf|simpl; reflexivity].
    - inversion Hn; subst c' todo'. unfold csim; simpl. split; [exact Hs|]. split.
      + rewrite Hs, Ht, (Rs _ _ _ (Rb c)). reflexivity.
      + apply Forall2_upd; [exact Hf|simpl; auto].
    - destruct Hn as (<- & <- & Hr). simpl.
      pose proof (Rm c l1 l2 (sh c1) Hr) as Hm. rewrite <- Hs.
      destruct (m1 c l1 (sh c1)) as [s1 [l1'|r1]]; destruct (m2 c l2 (sh c1)) as [s2 [l2'|r2]];
        destruct Hm as [Hfst Hsnd]; simpl in Hfst, Hsnd; try contradiction; subst s2.
      + unfold csim; simpl. split; [reflexivity|]. split.
        * rewrite Ht, (Rs _ _ _ Hsnd). reflexivity.
        * apply Forall2_upd; [exact Hf|simpl; auto].
      + subst r2. unfold csim; simpl. split; [reflexivity|]. split.
        * rewrite Ht. reflexivity.
        * apply Forall2_upd; [exact Hf|simpl; reflexivity].
  Qed.

  Theorem sim_exec : forall s0 progs sched,
    csim (exec b1 m1 fatal observe site1 s0 progs sched)
         (exec b2 m2 fatal observe site2 s0 progs sched).
  Proof.
    intros s0 progs sched. induction sched as [|t sched IH] using rev_ind.
    - unfold exec, run, init, csim. simpl. split; [reflexivity|]. split; [reflexivity|].
      induction progs; simpl; constructor; auto. simpl. reflexivity.
    - unfold exec in *. unfold run in *. rewrite !fold_left_app. simpl.
      apply csim_step. exact IH.
  Qed.
End Sim.
