(* ConcFacts.v — generic facts about the interleaving machine of Conc.v. *)
From Coq Require Import List Arith ZArith Lia.
From GT Require Import Base.Conc.
Import ListNotations.

Lemma upd_length : forall A (l : list A) i x, length (upd l i x) = length l.
Proof. induction l as [|a l IH]; intros [|i] x; simpl; auto. Qed.

Lemma nth_error_upd_same : forall A (l : list A) i x y,
  nth_error l i = Some y -> nth_error (upd l i x) i = Some x.
Proof. induction l as [|a l IH]; intros [|i] x y H; simpl in *; try discriminate; eauto. Qed.

Lemma nth_error_upd_other : forall A (l : list A) i j x,
  i <> j -> nth_error (upd l i x) j = nth_error l j.
Proof.
  induction l as [|a l IH]; intros [|i] [|j] x H; simpl; auto; try congruence.
Qed.

Lemma nth_error_upd : forall A (l : list A) i j x y,
  nth_error l i = Some y ->
  nth_error (upd l i x) j = if Nat.eqb i j then Some x else nth_error l j.
Proof.
  intros. destruct (Nat.eqb_spec i j) as [->|Hne].
  - eapply nth_error_upd_same; eauto.
  - apply nth_error_upd_other; auto.
Qed.

(* sums over the thread list *)
Section Sum.
  Variable A : Type.
  Variable f : A -> Z.
  Fixpoint sumf (l : list A) : Z := match l with [] => 0%Z | a :: r => (f a + sumf r)%Z end.

  Lemma sumf_upd : forall l i x y, nth_error l i = Some y ->
    sumf (upd l i x) = (sumf l - f y + f x)%Z.
  Proof.
    induction l as [|a l IH]; intros [|i] x y H; simpl in *; try discriminate.
    - inversion H; subst. lia.
    - rewrite (IH _ _ _ H). lia.
  Qed.

  Lemma sumf_nonneg : (forall a, 0 <= f a)%Z -> forall l, (0 <= sumf l)%Z.
  Proof. intros Hf l. induction l; simpl; [lia|]. specialize (Hf a). lia. Qed.

  Lemma sumf_zero : forall l, (forall i a, nth_error l i = Some a -> f a = 0%Z) -> sumf l = 0%Z.
  Proof.
    induction l as [|a l IH]; intros H; simpl; auto.
    rewrite (H 0 a eq_refl). rewrite IH; auto. intros i b Hb. apply (H (S i) b Hb).
  Qed.
End Sum.
Arguments sumf {A}.

Section Machine.
  Variables Sh Loc Call Ret Obs : Type.
  Variable begin : Call -> Loc.
  Variable mstep : Call -> Loc -> Sh -> Sh * (Loc + Ret).
  Variable fatal : Ret -> bool.
  Variable observe : Sh -> Obs.
  Variable site : Call -> Loc -> nat.

  Let stepf := step begin mstep fatal observe site.
  Let runf := run begin mstep fatal observe site.
  Let execf := exec begin mstep fatal observe site.

  Lemma run_app : forall s1 s2 cf, runf cf (s1 ++ s2) = runf (runf cf s1) s2.
  Proof. intros. unfold runf, run. apply fold_left_app. Qed.

  Lemma exec_snoc : forall s0 progs sched t,
    execf s0 progs (sched ++ [t]) = stepf (execf s0 progs sched) t.
  Proof. intros. unfold execf, exec. fold runf. rewrite run_app. reflexivity. Qed.

  (* induction over the schedule *)
  Lemma exec_invariant : forall (P : config Sh Loc Call Ret Obs -> Prop) s0 progs,
    P (init s0 progs) ->
    (forall cf t, P cf -> P (stepf cf t)) ->
    forall sched, P (execf s0 progs sched).
  Proof.
    intros P s0 progs H0 Hs sched. induction sched as [|t sched IH] using rev_ind.
    - exact H0.
    - rewrite exec_snoc. apply Hs. exact IH.
  Qed.

  Lemma run_invariant : forall (P : config Sh Loc Call Ret Obs -> Prop),
    (forall cf t, P cf -> P (stepf cf t)) ->
    forall sched cf, P cf -> P (runf cf sched).
  Proof.
    intros P Hs sched. induction sched as [|t sched IH]; intros cf H.
    - exact H.
    - simpl. apply IH. apply Hs. exact H.
  Qed.

  Lemma step_thr_length : forall cf t, length (thr (stepf cf t)) = length (thr cf).
  Proof.
    intros cf t. unfold stepf, step. destruct (nth_error (thr cf) t) as [th|]; simpl; auto.
    destruct (tstep begin mstep fatal (sh cf) th) as [[s' t'] e]. simpl. apply upd_length.
  Qed.
End Machine.
