(* ConcIR2.v — second IR of harness/cmd/xlate_conc (flag -ir2) and its small-step denotation.

   Base/ConcIR.v re-states ONE function body with `for {}`, if/else and return only; a tie
   `gen_prog = hand_prog := eq_refl` over it breaks on every helper extraction or change of loop
   form.  This IR keeps what the source says, including
     - calls of other functions / methods of the same file (statement level: the translator
       hoists a call out of an expression into a temporary, in evaluation order),
     - `for cond { }`, `for init; cond; post { }`, break, continue, blocks,
     - parallel definitions / assignments, several results, named results,
   and the tie over it is a SIMULATION PROOF between the denotation of the regenerated term and
   the machine of the theorems (WGSim.v), not a syntactic equality.

   Expressions, values, the abstract memory [mem Sh] and [eval] are those of Base/ConcIR.v.

   Denotation: a running API call is an environment of locals and a continuation.  [run2]
   executes from the item a thread is parked at up to (excluding) the next item that carries a
   site, or to the return of the API call: ONE micro-step = ONE shared-memory operation plus
   the local computation that follows it = what runs between two yields of the instrumented
   code.  A site inside a helper is a site like any other (the thread parks inside the callee).

   Pointers to a struct that has not been published ([VNew fs]) are values, not heap cells.
   That is faithful as long as nobody mutates a struct that has a second reference or that has
   been handed to a shared-memory operation.  [run2] enforces it: a field assignment `x.f = e`
   is executed only while x is FRESH - the struct was created (&T{..}) in the current
   micro-step (hence after this micro-step's shared-memory operation, which is always its first
   action, and before the next one) and x is its only reference: copying x, or passing it to a
   helper, ends its freshness; returning it from a helper hands the freshness to the
   destination.  Anything else is [OStuck], which no obligation of WGSim.v accepts.          *)
From Coq Require Import List String ZArith Bool Arith.
From GT Require Import Base.ConcIR.
Import ListNotations.
Local Open Scope string_scope.
Local Open Scope list_scope.

Inductive dest :=
| DDefine (x : string)            (* x := ..  (a name declared here) *)
| DAssign (l : lhs)               (* x = ..  /  x.f = .. *)
| DIgnore.                        (* _ = .. *)

Inductive stmt2 :=
| TSet (site : option nat) (ds : list dest) (es : list expr)   (* d1, .., dn (:)= e1, .., en *)
| TCall (site : option nat) (ds : list dest) (f : string) (args : list expr)
| TClose (site : option nat) (e : expr)
| TExpr (site : option nat) (e : expr)
| TIf (site : option nat) (c : expr) (th el : list stmt2)
| TFor (site : option nat) (c : option expr) (post body : list stmt2)
| TBreak
| TContinue
| TBlock (b : list stmt2)
| TReturn (site : option nat) (es : list expr)
| TOther (site : option nat) (text : string).

Record func2 := Func2 {
  f2_name : string;
  f2_params : list string;
  f2_results : list string;       (* named results (declared, zero valued, at entry) *)
  f2_body : list stmt2
}.

Definition prog2 := list func2.

Fixpoint find_func2 (name : string) (p : prog2) : option func2 :=
  match p with
  | [] => None
  | f :: r => if String.eqb (f2_name f) name then Some f else find_func2 name r
  end.

Definition stmt2_site (s : stmt2) : option nat :=
  match s with
  | TSet o _ _ | TCall o _ _ _ | TClose o _ | TExpr o _ | TIf o _ _ _ | TReturn o _
  | TOther o _ => o
  | TFor _ _ _ _ | TBreak | TContinue | TBlock _ => None      (* a loop's site is on its head *)
  end.

(* (site, operations) in source order, per function (not following calls) *)
Fixpoint site_ops2 (s : stmt2) : list (nat * list opkind) :=
  let at_site o ks := match o with Some n => [(n, ks)] | None => [] end in
  let ks e := map (fun p => KAtomic (fst p) (snd p)) (atomics e) in
  match s with
  | TSet o _ es | TReturn o es | TCall o _ _ es => at_site o (flat_map ks es)
  | TExpr o e => at_site o (ks e)
  | TClose o e => at_site o (ks e ++ [KClose])
  | TIf o c th el => at_site o (ks c) ++ flat_map site_ops2 th ++ flat_map site_ops2 el
  | TFor o c post body =>
      at_site o (match c with Some e => ks e | None => [] end)
      ++ flat_map site_ops2 body ++ flat_map site_ops2 post
  | TBlock b => flat_map site_ops2 b
  | TBreak | TContinue => []
  | TOther o _ => at_site o [KOther]
  end.
Definition func2_site_ops (f : func2) : list (nat * list opkind) := flat_map site_ops2 (f2_body f).

(* Granularity: the instrumented code yields once per sited statement / condition, and the
   denotation runs a whole statement inside one micro-step.  That is the granularity of single
   shared-memory operations only if no statement holds two of them and every statement holding
   one carries a site.  [prog2_ops_wf] checks it (the check evaluates it on the regenerated term). *)
Definition ops_count_ok (o : option nat) (n : nat) : bool :=
  match n with
  | O => true
  | S O => match o with Some _ => true | None => false end
  | _ => false
  end.

Fixpoint stmt_ops_wf (s : stmt2) : bool :=
  match s with
  | TSet o _ es | TReturn o es | TCall o _ _ es =>
      ops_count_ok o (List.length (flat_map atomics es))
  | TExpr o e => ops_count_ok o (List.length (atomics e))
  | TClose o e =>
      match atomics e, o with [], Some _ => true | _, _ => false end
  | TIf o c th el =>
      ops_count_ok o (List.length (atomics c)) && forallb stmt_ops_wf th && forallb stmt_ops_wf el
  | TFor o c post body =>
      ops_count_ok o (List.length (match c with Some e => atomics e | None => [] end))
      && forallb stmt_ops_wf post && forallb stmt_ops_wf body
  | TBlock b => forallb stmt_ops_wf b
  | TBreak | TContinue => true
  | TOther _ _ => true                         (* denotes "stuck" anyway *)
  end.

Definition prog2_ops_wf (p : prog2) : bool :=
  forallb (fun f => forallb stmt_ops_wf (f2_body f)) p.

(* canonical site numbers: the translator numbers the sites an API function can reach (through
   its helpers) in the order of a walk of the call tree: (function, [(site in the source, site of
   the machine)]); the harness applies the same table to the sites it records *)
Definition sitemap := list (string * list (nat * nat)).

Fixpoint assoc_nat (n : nat) (l : list (nat * nat)) : option nat :=
  match l with
  | [] => None
  | (a, b) :: r => if Nat.eqb n a then Some b else assoc_nat n r
  end.

Definition canon_site (m : sitemap) (fn : string) (site : nat) : nat :=
  match lookup fn m with
  | Some l => match assoc_nat site l with Some c => c | None => site end
  | None => site
  end.

Section Denote2.
  Variable Sh : Type.
  Variable M : mem Sh.
  Variable p : prog2.

  Inductive item2 :=
  | KStmt (s : stmt2)
  | KHead (site : option nat) (c : option expr) (post body : list stmt2)   (* loop head *)
  | KPop (n : nat)                                     (* end of a block: forget its locals *)
  | KCont                                              (* `continue` lands here *)
  | KBrk                                               (* `break` lands here *)
  | KFrame (en : env) (fresh : list string) (ds : list dest).   (* return of a helper lands here *)

  Record dloc2 := DLoc2 { d2_env : env; d2_k : list item2 }.

  Inductive outcome2 :=
  | OPark2 (l : dloc2) | ORet2 (vs : list value) | OPanic2 | OStuck2.

  Definition item_site (i : item2) : option nat :=
    match i with
    | KStmt s => stmt2_site s
    | KHead o _ _ _ => o
    | _ => None
    end.

  Definition block2 (b : list stmt2) (en : env) (k : list item2) : list item2 :=
    map KStmt b ++ KPop (List.length en) :: k.

  (* expressions evaluated left to right, threading the memory *)
  Fixpoint evals (en : env) (es : list expr) (s : Sh) : option (Sh * list value) :=
    match es with
    | [] => Some (s, [])
    | e :: r =>
        match eval Sh M en e s with
        | Some (s', v) =>
            match evals en r s' with
            | Some (s'', vs) => Some (s'', v :: vs)
            | None => None
            end
        | None => None
        end
    end.

  Definition memS (x : string) (l : list string) : bool := existsb (String.eqb x) l.
  Definition dropS (x : string) (l : list string) : list string :=
    filter (fun y => negb (String.eqb x y)) l.

  Definition is_new (v : value) : bool := match v with VNew _ => true | _ => false end.

  (* how a value produced by expression e may be used afterwards:
       fresh    = it is a struct created right here / handed over by its only holder
       and the set of fresh names after evaluating e (a copied name is no longer fresh) *)
  Definition src_fresh (fresh : list string) (e : expr) : bool * list string :=
    match e with
    | ENew _ _ => (true, fresh)
    | EVar y => (false, dropS y fresh)
    | _ => (false, fresh)
    end.

  Definition set_field2 (x f : string) (v : value) (en : env) : option env :=
    match lookup x en with
    | Some (VNew fs) =>
        match update f v fs with
        | Some fs' => update x (VNew fs') en
        | None => None
        end
    | _ => None
    end.

  (* bind one destination; [fr] = the value is a fresh struct *)
  Definition bind_dest (d : dest) (v : value) (fr : bool) (en : env) (fresh : list string)
    : option (env * list string) :=
    match d with
    | DIgnore => Some (en, fresh)
    | DDefine x =>
        match lookup x en with
        | Some _ => None                                  (* names are unique per declaration *)
        | None => Some (en ++ [(x, v)], if fr then x :: fresh else fresh)
        end
    | DAssign (LVar x) =>
        match update x v en with
        | Some en' => Some (en', if fr then x :: dropS x fresh else dropS x fresh)
        | None => None
        end
    | DAssign (LField x f) =>
        if memS x fresh && negb (is_new v) then
          match set_field2 x f v en with
          | Some en' => Some (en', fresh)
          | None => None
          end
        else None
    end.

  Fixpoint bind_dests (ds : list dest) (vs : list value) (frs : list bool) (en : env)
           (fresh : list string) : option (env * list string) :=
    match ds, vs, frs with
    | [], [], [] => Some (en, fresh)
    | d :: ds', v :: vs', fr :: frs' =>
        match bind_dest d v fr en fresh with
        | Some (en', fresh') => bind_dests ds' vs' frs' en' fresh'
        | None => None
        end
    | _, _, _ => None
    end.

  (* freshness of the sources of a parallel assignment / argument list *)
  Fixpoint srcs_fresh (fresh : list string) (es : list expr) : list bool * list string :=
    match es with
    | [] => ([], fresh)
    | e :: r =>
        let '(b, fresh') := src_fresh fresh e in
        let '(bs, fresh'') := srcs_fresh fresh' r in
        (b :: bs, fresh'')
    end.

  (* returned values: a returned name keeps its freshness for the destination *)
  Definition ret_fresh (fresh : list string) (e : expr) : bool :=
    match e with
    | ENew _ _ => true
    | EVar y => memS y fresh
    | _ => false
    end.

  (* break / continue: leave the blocks up to the loop's marker *)
  Fixpoint unwind_loop (brk : bool) (en : env) (k : list item2) : option (env * list item2) :=
    match k with
    | [] => None
    | KPop n :: k' => unwind_loop brk (firstn n en) k'
    | KCont :: k' => if brk then unwind_loop brk en k' else Some (en, k')
    | KBrk :: k' => if brk then Some (en, k') else None
    | KFrame _ _ _ :: _ => None
    | _ :: k' => unwind_loop brk en k'
    end.

  (* return: find the caller's frame *)
  Fixpoint unwind_ret (k : list item2) : option (env * list string * list dest * list item2) :=
    match k with
    | [] => None
    | KFrame en fresh ds :: k' => Some (en, fresh, ds, k')
    | _ :: k' => unwind_ret k'
    end.

  Fixpoint bind_params (ps : list string) (args : list value) : option env :=
    match ps, args with
    | [], [] => Some []
    | q :: ps', a :: args' =>
        match bind_params ps' args' with Some en => Some ((q, a) :: en) | None => None end
    | _, _ => None
    end.

  Definition zero_results (rs : list string) : env := map (fun r => (r, VUnit)) rs.

  (* [first] = the item at the head is the one the thread is parked at: run it *)
  Fixpoint run2 (fuel : nat) (first : bool) (en : env) (fresh : list string) (k : list item2)
           (s : Sh) : Sh * outcome2 :=
    match fuel with
    | O => (s, OStuck2)
    | S fu =>
        match k with
        | [] => (s, ORet2 [])
        | KPop n :: k' => run2 fu first (firstn n en) fresh k' s
        | KCont :: k' => run2 fu first en fresh k' s
        | KBrk :: k' => run2 fu first en fresh k' s
        | KFrame en0 fresh0 ds :: k' =>
            (* a helper ran off its end: no results *)
            match ds with
            | [] => run2 fu first en0 fresh0 k' s
            | _ => (s, OStuck2)
            end
        | KHead o c post body :: k' =>
            if negb first && (match o with Some _ => true | None => false end)
            then (s, OPark2 (DLoc2 en k))
            else
              match c with
              | None =>
                  run2 fu false en fresh
                       (block2 body en (KCont :: map KStmt post ++ KHead o c post body :: k')) s
              | Some ce =>
                  match eval Sh M en ce s with
                  | Some (s', VBool b) =>
                      if b then
                        run2 fu false en fresh
                             (block2 body en (KCont :: map KStmt post ++ KHead o c post body :: k')) s'
                      else run2 fu false en fresh k' s'
                  | _ => (s, OStuck2)
                  end
              end
        | KStmt st :: k' =>
            if negb first && (match stmt2_site st with Some _ => true | None => false end)
            then (s, OPark2 (DLoc2 en k))
            else
              match st with
              | TSet _ ds es =>
                  match evals en es s with
                  | Some (s', vs) =>
                      let '(frs, fresh') := srcs_fresh fresh es in
                      match bind_dests ds vs frs en fresh' with
                      | Some (en', fresh'') => run2 fu false en' fresh'' k' s'
                      | None => (s', OStuck2)
                      end
                  | None => (s, OStuck2)
                  end
              | TCall _ ds f args =>
                  match find_func2 f p, evals en args s with
                  | Some fn, Some (s', vs) =>
                      let '(_, fresh') := srcs_fresh fresh args in
                      match bind_params (f2_params fn) vs with
                      | Some en1 =>
                          run2 fu false (en1 ++ zero_results (f2_results fn)) []
                               (map KStmt (f2_body fn) ++ KFrame en fresh' ds :: k') s'
                      | None => (s', OStuck2)
                      end
                  | _, _ => (s, OStuck2)
                  end
              | TClose _ e =>
                  match eval Sh M en e s with
                  | Some (s', VChan c) =>
                      match m_close M c s' with
                      | Some (s'', true) => run2 fu false en fresh k' s''
                      | Some (s'', false) => (s'', OPanic2)
                      | None => (s', OStuck2)
                      end
                  | _ => (s, OStuck2)
                  end
              | TExpr _ e =>
                  match eval Sh M en e s with
                  | Some (s', _) => run2 fu false en (snd (src_fresh fresh e)) k' s'
                  | None => (s, OStuck2)
                  end
              | TIf _ c th el =>
                  match eval Sh M en c s with
                  | Some (s', VBool b) =>
                      if b then run2 fu false en fresh (block2 th en k') s'
                      else run2 fu false en fresh (block2 el en k') s'
                  | _ => (s, OStuck2)
                  end
              | TFor o c post body => run2 fu first en fresh (KHead o c post body :: KBrk :: k') s
              | TBreak =>
                  match unwind_loop true en k' with
                  | Some (en', k'') => run2 fu false en' fresh k'' s
                  | None => (s, OStuck2)
                  end
              | TContinue =>
                  match unwind_loop false en k' with
                  | Some (en', k'') => run2 fu false en' fresh k'' s
                  | None => (s, OStuck2)
                  end
              | TBlock b => run2 fu first en fresh (block2 b en k') s
              | TReturn _ es =>
                  match evals en es s with
                  | Some (s', vs) =>
                      match unwind_ret k' with
                      | None => (s', ORet2 vs)
                      | Some (en0, fresh0, ds, k'') =>
                          match bind_dests ds vs (map (ret_fresh fresh) es) en0 fresh0 with
                          | Some (en', fresh') => run2 fu false en' fresh' k'' s'
                          | None => (s', OStuck2)
                          end
                      end
                  | None => (s, OStuck2)
                  end
              | TOther _ _ => (s, OStuck2)
              end
        end
    end.

  Definition FUEL2 : nat := 256.

  (* one micro-step of a parked call *)
  Definition dstep2 (l : dloc2) (s : Sh) : Sh * outcome2 :=
    run2 FUEL2 true (d2_env l) [] (d2_k l) s.

  (* entering function f with arguments args: run the local prefix up to the first site *)
  Definition dbegin2 (f : func2) (args : list value) (s : Sh) : outcome2 :=
    match bind_params (f2_params f) args with
    | Some en => snd (run2 FUEL2 false (en ++ zero_results (f2_results f)) [] (map KStmt (f2_body f)) s)
    | None => OStuck2
    end.

  Definition dsite2 (l : dloc2) : nat :=
    match d2_k l with
    | i :: _ => match item_site i with Some n => n | None => 0 end
    | _ => 0
    end.
End Denote2.

Arguments run2 Sh M p !fuel first en fresh !k s.
