(* ProtoScan.v — protoFileHasGoPackage against "declares option go_package" (theorems about
   ProtoLex.v).

   The code after fix C20-go-package-scan (declaresGoPackage: byte state machine + token matcher):
   [scan_correct]        scan_go_package c = declares_go_package c   for EVERY content c
                         (so [scan_agrees c = true]: the mapping clause of C20 needs no condition
                         on the files any more)
   [gp_next_spec]        the matcher `token` reaches 4 exactly when the tokens read so far end …
                         i.e. fold_left gp_next toks m = 4  <->  the declaration continues from
                         its m-th token at the head of toks, or occurs somewhere in toks
   [declares_canonical]  a content  pre ++ `option go_package = "pkg"` ++ post  whose prefix
                         leaves the lexer outside comments / literals / identifiers declares
                         the option (non-vacuity of the specification)

   The code before the fix (line scan for the substring `option go_package =`), kept as a record:
   [scan_orig_complete] / [scan_orig_sound]   scan_go_package_orig c = true  <->  c contains the
                         marker anywhere
   [scan_orig_agrees_canonical]   it was right on the canonical spelling
   [scan_refuted_*]      and wrong on: commented out (line / block comment), inside a string
                         literal (yes, nothing declared); no space / two spaces / tab / line
                         break between the tokens (no, although declared).  Each example also
                         states that the repaired scan gets it right.                          *)
From Coq Require Import String List Bool Arith Ascii Lia.
From GT Require Import ProtoLex.
Import ListNotations.
Local Open Scope string_scope.
Local Open Scope list_scope.

(* ------------------------------------------------------------------ strings *)
Lemma sapp_assoc : forall a b c : string, ((a ++ b) ++ c = a ++ (b ++ c))%string.
Proof. induction a as [|x a IH]; intros b c; simpl; [reflexivity|]. rewrite IH. reflexivity. Qed.

Lemma sapp_nil_r : forall a : string, (a ++ "")%string = a.
Proof. induction a as [|x a IH]; simpl; [reflexivity|]. rewrite IH. reflexivity. Qed.

Lemma prefix_app : forall p s, prefix p (p ++ s) = true.
Proof.
  induction p as [|a p IH]; intros s; simpl; [destruct s; reflexivity|].
  destruct (ascii_dec a a); [apply IH|contradiction].
Qed.

Lemma prefix_split : forall p s, prefix p s = true -> exists t, s = (p ++ t)%string.
Proof.
  induction p as [|a p IH]; intros s H.
  - exists s. reflexivity.
  - destruct s as [|b s]; [discriminate|]. simpl in H.
    destruct (ascii_dec a b) as [->|]; [|discriminate].
    destruct (IH s H) as [t ->]. exists t. reflexivity.
Qed.

Lemma contains_app : forall sub a b, str_contains sub (a ++ sub ++ b) = true.
Proof.
  intros sub. induction a as [|x a IH]; intros b.
  - simpl. destruct (sub ++ b)%string eqn:E; cbn [str_contains]; rewrite <- E, prefix_app; reflexivity.
  - cbn [append str_contains]. rewrite IH. apply orb_true_r.
Qed.

Lemma contains_split : forall sub s, str_contains sub s = true ->
  exists a b, s = (a ++ sub ++ b)%string.
Proof.
  intros sub. induction s as [|x s IH]; intros H; cbn [str_contains] in H.
  - rewrite orb_false_r in H. destruct (prefix_split _ _ H) as [t Ht]. exists "", t. exact Ht.
  - apply orb_true_iff in H. destruct H as [H|H].
    + destruct (prefix_split _ _ H) as [t Ht]. exists "", t. exact Ht.
    + destruct (IH H) as (a & b & ->). exists (String x a), b. reflexivity.
Qed.

Fixpoint has_ch (c : ascii) (s : string) : bool :=
  match s with
  | EmptyString => false
  | String a r => Ascii.eqb a c || has_ch c r
  end.

(* ------------------------------------------------------------------ lines *)
(* first piece of a split: everything before the first separator *)
Lemma split_on_cons : forall c s, exists h t, split_on c s = h :: t.
Proof.
  intros c. induction s as [|a s IH]; simpl; [eauto|].
  destruct IH as (h & t & E). rewrite E. destruct (Ascii.eqb a c); eauto.
Qed.

Lemma split_on_nosep_app : forall c m s h t,
  has_ch c m = false -> split_on c s = h :: t -> split_on c (m ++ s) = (m ++ h)%string :: t.
Proof.
  intros c. induction m as [|a m IH]; intros s h t Hm Hs; simpl in *; [exact Hs|].
  apply orb_false_iff in Hm. destruct Hm as [Ha Hm]. rewrite Ha, (IH s h t Hm Hs). reflexivity.
Qed.

(* some piece of split (a ++ m ++ b) is  x ++ m ++ y  when m holds no separator *)
Lemma split_on_mid : forall c m a b, has_ch c m = false ->
  exists pre x y post, split_on c (a ++ m ++ b) = pre ++ (x ++ m ++ y)%string :: post.
Proof.
  intros c m. induction a as [|z a IH]; intros b Hm.
  - destruct (split_on_cons c b) as (h & t & E). exists [], "", h, t.
    simpl. apply split_on_nosep_app; assumption.
  - destruct (IH b Hm) as (pre & x & y & post & E). cbn [append split_on]. rewrite E.
    destruct (Ascii.eqb z c).
    + exists ("" :: pre), x, y, post. reflexivity.
    + destruct pre as [|p pre]; simpl.
      * exists [], (String z x), y, post. reflexivity.
      * exists (String z p :: pre), x, y, post. reflexivity.
Qed.

Lemma drop_last_empty_keeps : forall pre s post, s <> "" ->
  exists post', drop_last_empty (pre ++ s :: post) = pre ++ s :: post'.
Proof.
  induction pre as [|p pre IH]; intros s post Hs.
  - simpl. destruct post as [|q post].
    + destruct (String.eqb s "") eqn:E; [apply String.eqb_eq in E; contradiction|]. exists []. reflexivity.
    + exists (drop_last_empty (q :: post)). reflexivity.
  - destruct (IH s post Hs) as [post' E]. exists post'.
    change ((p :: pre) ++ s :: post) with (p :: (pre ++ s :: post)).
    remember (pre ++ s :: post) as l eqn:El. destruct l as [|x l]; [destruct pre; discriminate|].
    change (drop_last_empty (p :: x :: l)) with (p :: drop_last_empty (x :: l)).
    rewrite E. reflexivity.
Qed.

Lemma drop_cr_app : forall x y, y <> "" -> drop_cr (x ++ y) = (x ++ drop_cr y)%string.
Proof.
  induction x as [|a x IH]; intros y Hy; [reflexivity|].
  cbn [append drop_cr]. destruct (x ++ y)%string eqn:E.
  - destruct x; [simpl in E; contradiction|discriminate].
  - rewrite <- E, IH by exact Hy. reflexivity.
Qed.

Lemma drop_cr_keeps : forall x m y, m <> "" -> has_ch cr m = false ->
  exists y', drop_cr (x ++ m ++ y) = (x ++ m ++ y')%string.
Proof.
  intros x m y Hm Hcr. destruct y as [|c y].
  - exists "". rewrite sapp_nil_r. rewrite drop_cr_app by exact Hm. f_equal.
    clear x. induction m as [|a m IH]; [contradiction|].
    simpl in Hcr. apply orb_false_iff in Hcr. destruct Hcr as [Ha Hr].
    destruct m as [|b m].
    + simpl. rewrite Ha. reflexivity.
    + cbn [drop_cr]. f_equal. apply IH; [discriminate|exact Hr].
  - exists (drop_cr (String c y)). rewrite <- sapp_assoc. rewrite drop_cr_app by discriminate.
    rewrite sapp_assoc. reflexivity.
Qed.

Lemma marker_no_breaks : has_ch nl go_package_marker = false /\ has_ch cr go_package_marker = false.
Proof. split; reflexivity. Qed.

(* the scan finds the marker wherever it stands *)
Theorem scan_orig_complete : forall a b, scan_go_package_orig (a ++ go_package_marker ++ b) = true.
Proof.
  intros a b. unfold scan_go_package_orig, scan_lines, content_lines.
  destruct marker_no_breaks as [Hnl Hcr].
  destruct (split_on_mid nl go_package_marker a b Hnl) as (pre & x & y & post & E). rewrite E.
  destruct (drop_last_empty_keeps pre (x ++ go_package_marker ++ y)%string post) as [post' E2].
  { destruct x; discriminate. }
  rewrite E2, map_app, existsb_app. cbn [map existsb].
  destruct (drop_cr_keeps x go_package_marker y ltac:(discriminate) Hcr) as [y' E3].
  rewrite E3, contains_app. rewrite orb_true_r. reflexivity.
Qed.

(* pieces of a split are substrings *)
Lemma split_on_hd_prefix : forall c s h t, split_on c s = h :: t -> exists b, s = (h ++ b)%string.
Proof.
  intros c. induction s as [|y s IH]; intros h t E; simpl in E.
  - inversion E; subst. exists "". reflexivity.
  - destruct (Ascii.eqb y c).
    + inversion E; subst. exists (String y s). reflexivity.
    + destruct (split_on_cons c s) as (h' & t' & E'). rewrite E' in E.
      injection E as Eh Et. subst h t.
      destruct (IH h' t' E') as [b Hb]. exists b. simpl. f_equal. exact Hb.
Qed.

Lemma split_on_sub : forall c s l, In l (split_on c s) -> exists a b, s = (a ++ l ++ b)%string.
Proof.
  intros c. induction s as [|x s IH]; intros l H; simpl in H.
  - destruct H as [<-|[]]. exists "", "". reflexivity.
  - destruct (Ascii.eqb x c).
    + destruct H as [<-|H].
      * exists "", (String x s). reflexivity.
      * destruct (IH l H) as (a & b & ->). exists (String x a), b. reflexivity.
    + destruct (split_on_cons c s) as (h & t & E). rewrite E in H, IH.
      destruct H as [<-|H].
      * destruct (split_on_hd_prefix c s h t E) as [b ->]. exists "", b. reflexivity.
      * destruct (IH l (or_intror H)) as (a & b & ->). exists (String x a), b. reflexivity.
Qed.

Lemma drop_last_empty_In : forall l x, In x (drop_last_empty l) -> In x l.
Proof.
  induction l as [|a l IH]; intros x H; [contradiction|].
  destruct l as [|b l].
  - simpl in H. destruct (String.eqb a ""); [contradiction|exact H].
  - cbn [drop_last_empty] in H. destruct H as [<-|H]; [left; reflexivity|right; apply IH; exact H].
Qed.

Lemma drop_cr_prefix : forall s, exists t, s = (drop_cr s ++ t)%string.
Proof.
  induction s as [|a s IH]; [exists ""; reflexivity|].
  destruct s as [|b s].
  - simpl. destruct (Ascii.eqb a cr); [exists (String a "")|exists ""]; reflexivity.
  - destruct IH as [t Ht]. exists t. cbn [drop_cr append]. f_equal. exact Ht.
Qed.

(* … and only then *)
Theorem scan_orig_sound : forall c, scan_go_package_orig c = true ->
  exists a b, c = (a ++ go_package_marker ++ b)%string.
Proof.
  intros c H. unfold scan_go_package_orig, scan_lines, content_lines in H.
  apply existsb_exists in H. destruct H as (l & Hin & Hc).
  apply in_map_iff in Hin. destruct Hin as (l0 & <- & Hin).
  apply drop_last_empty_In in Hin. destruct (split_on_sub _ _ _ Hin) as (a & b & ->).
  destruct (contains_split _ _ Hc) as (a1 & b1 & E).
  destruct (drop_cr_prefix l0) as [t Ht]. rewrite E in Ht. rewrite Ht.
  exists (a ++ a1)%string, (b1 ++ t ++ b)%string. rewrite !sapp_assoc. reflexivity.
Qed.

(* ------------------------------------------------------------------ the lexer *)
Lemma lex_from_app : forall s1 s2 st toks,
  lex_from st toks (s1 ++ s2) = let '(st', toks') := lex_from st toks s1 in lex_from st' toks' s2.
Proof.
  induction s1 as [|c s1 IH]; intros s2 st toks; [reflexivity|].
  cbn [append lex_from]. destruct (lex_step st toks c) as [st' toks']. apply IH.
Qed.

(* lexing only adds tokens in front *)
Lemma lex_step_ext : forall st toks c, exists ext, snd (lex_step st toks c) = ext ++ toks.
Proof.
  intros st toks c. unfold lex_step, lex_start.
  destruct st; repeat match goal with |- context [if ?b then _ else _] => destruct b end;
    cbn [snd];
    first [ exists []; reflexivity | exists [TPunct c]; reflexivity
          | eexists [_]; reflexivity | eexists [_; _]; reflexivity ].
Qed.

Lemma lex_from_ext : forall s st toks, exists ext, snd (lex_from st toks s) = ext ++ toks.
Proof.
  induction s as [|c s IH]; intros st toks; [exists []; reflexivity|].
  cbn [lex_from]. destruct (lex_step st toks c) as [st' toks'] eqn:E.
  destruct (lex_step_ext st toks c) as [e1 H1]. rewrite E in H1. cbn [snd] in H1. subst toks'.
  destruct (IH st' (e1 ++ toks)) as [e2 H2]. exists (e2 ++ e1). rewrite H2, app_assoc. reflexivity.
Qed.

Lemma lex_flush_ext : forall st toks, exists ext, lex_flush st toks = ext ++ toks.
Proof. intros [] toks; first [exists []; reflexivity | eexists [_]; reflexivity]. Qed.

(* a string literal body without quote, backslash or line break stays inside the literal *)
Fixpoint plain_str (q : ascii) (s : string) : bool :=
  match s with
  | EmptyString => true
  | String c r => negb (Ascii.eqb c q) && negb (Ascii.eqb c "\") && negb (Ascii.eqb c nl) && plain_str q r
  end.

Lemma lex_plain_str : forall q s toks, plain_str q s = true ->
  lex_from (LStr q) toks s = (LStr q, toks).
Proof.
  induction s as [|c s IH]; intros toks H; [reflexivity|].
  simpl in H. apply andb_true_iff in H. destruct H as [H Hs].
  apply andb_true_iff in H. destruct H as [H H3]. apply andb_true_iff in H. destruct H as [H1 H2].
  cbn [lex_from lex_step].
  destruct (Ascii.eqb c q); [discriminate|]. destruct (Ascii.eqb c "\"); [discriminate|].
  destruct (Ascii.eqb c nl); [discriminate|]. apply IH. exact Hs.
Qed.

Definition gp_tokens_rev : list token :=
  [TStr; TPunct "="; TIdent "go_package"; TIdent "option"].

Lemma starts_gp_4 : forall r, starts_gp 4 r = true.
Proof. intros [|t r]; reflexivity. Qed.

Lemma has_of_starts : forall l, starts_gp 0 l = true -> has_go_package_tokens l = true.
Proof. intros [|t r] H; [discriminate|]. cbn [has_go_package_tokens]. rewrite H. reflexivity. Qed.

Lemma found_mid : forall a b,
  has_go_package_tokens (a ++ [TIdent "option"; TIdent "go_package"; TPunct "="; TStr] ++ b) = true.
Proof.
  induction a as [|t a IH]; intros b.
  - apply has_of_starts. cbn. apply starts_gp_4.
  - change ((t :: a) ++ ?x) with (t :: (a ++ x)).
    cbn [has_go_package_tokens]. rewrite IH. apply orb_true_r.
Qed.

(* the canonical spelling (and any spelling that lexes to the four tokens) is a declaration *)
Theorem declares_canonical : forall pre pkg post toks,
  lex_from LNormal [] pre = (LNormal, toks) ->
  plain_str """" pkg = true ->
  declares_go_package (pre ++ "option go_package = """ ++ pkg ++ """" ++ post) = true.
Proof.
  intros pre pkg post toks Hpre Hpkg. unfold declares_go_package, lex.
  rewrite lex_from_app, Hpre.
  change ("option go_package = """ ++ pkg ++ """" ++ post)%string
    with ("option go_package = """ ++ (pkg ++ String """" post))%string.
  rewrite lex_from_app.
  change (lex_from LNormal toks "option go_package = """)
    with (LStr """", TPunct "=" :: TIdent "go_package" :: TIdent "option" :: toks).
  cbv iota beta. rewrite lex_from_app, (lex_plain_str _ _ _ Hpkg). cbv iota beta.
  cbn [lex_from lex_step]. rewrite Ascii.eqb_refl.
  set (base := TStr :: TPunct "=" :: TIdent "go_package" :: TIdent "option" :: toks).
  destruct (lex_from LNormal base post) as [st toks'] eqn:E.
  destruct (lex_from_ext post LNormal base) as [e1 H1]. rewrite E in H1. cbn [snd] in H1. subst toks'.
  rewrite <- rev_alt.
  destruct (lex_flush_ext st (e1 ++ base)) as [e2 H2]. rewrite H2.
  unfold base. rewrite !rev_app_distr. cbn [rev app]. rewrite <- !app_assoc. cbn [app].
  apply found_mid.
Qed.

(* hence, on such content, the old line scan and the specification agreed *)
Theorem scan_orig_agrees_canonical : forall pre pkg post toks,
  lex_from LNormal [] pre = (LNormal, toks) ->
  plain_str """" pkg = true ->
  scan_agrees_orig (pre ++ "option go_package = """ ++ pkg ++ """" ++ post) = true.
Proof.
  intros pre pkg post toks H1 H2. unfold scan_agrees_orig.
  rewrite (declares_canonical pre pkg post toks H1 H2).
  change ("option go_package = """ ++ pkg ++ """" ++ post)%string
    with (go_package_marker ++ (" """ ++ pkg ++ """" ++ post))%string.
  rewrite scan_orig_complete. reflexivity.
Qed.

(* ------------------------------------------------------------------ the repaired scan is right *)
Lemma lex_step_nil : forall st toks c,
  lex_step st toks c = (fst (lex_step st [] c), snd (lex_step st [] c) ++ toks).
Proof.
  intros st toks c. unfold lex_step, lex_start.
  destruct st; repeat match goal with |- context [if ?b then _ else _] => destruct b end; reflexivity.
Qed.

Lemma scan_from_lex : forall s st m toks,
  exists ext, lex_from st toks s = (fst (lex_from st toks s), ext ++ toks)
              /\ scan_from st m s = (fst (lex_from st toks s), fold_left gp_next (rev ext) m).
Proof.
  induction s as [|c r IH]; intros st m toks.
  - exists []. split; reflexivity.
  - cbn [lex_from scan_from]. rewrite (lex_step_nil st toks c). unfold scan_step.
    destruct (lex_step st [] c) as [st1 e1]. cbn [fst snd].
    destruct (IH st1 (fold_left gp_next (rev e1) m) (e1 ++ toks)) as (ext & E1 & E2).
    exists (ext ++ e1). rewrite E2. split.
    + rewrite E1 at 1. cbn [fst]. rewrite app_assoc. reflexivity.
    + f_equal. rewrite rev_app_distr, fold_left_app. reflexivity.
Qed.

Lemma gp_next_le : forall m t, m <= 4 -> gp_next m t <= 4.
Proof.
  intros m t H. unfold gp_next.
  repeat match goal with |- context [if ?b then _ else _] => destruct b end; lia.
Qed.

Lemma fold_gp_le : forall toks m, m <= 4 -> fold_left gp_next toks m <= 4.
Proof.
  induction toks as [|t r IH]; intros m H; [exact H|]. cbn [fold_left]. apply IH. apply gp_next_le. exact H.
Qed.

(* the matcher: it stands at 4 after toks iff the declaration continues at the head of toks from
   its m-th token, or occurs in toks *)
Theorem gp_next_spec : forall toks m, m <= 4 ->
  Nat.eqb (fold_left gp_next toks m) 4 = starts_gp m toks || has_go_package_tokens toks.
Proof.
  induction toks as [|t r IH]; intros m Hm.
  - cbn [fold_left has_go_package_tokens]. rewrite orb_false_r.
    do 5 (destruct m as [|m]; [reflexivity|]). lia.
  - cbn [fold_left]. rewrite IH by (apply gp_next_le; exact Hm).
    cbn [has_go_package_tokens].
    pose proof (has_of_starts r) as Habs. pose proof (starts_gp_4 r) as H4.
    assert (Hcase : m = 0 \/ m = 1 \/ m = 2 \/ m = 3 \/ m = 4) by lia.
    destruct Hcase as [->|[->|[->|[->| ->]]]];
      unfold gp_next; cbn [Nat.eqb andb starts_gp Nat.leb];
      destruct t as [s| |c]; cbn [tok_matches andb orb];
      repeat match goal with |- context [String.eqb ?a ?b] => destruct (String.eqb a b) eqn:? end;
      repeat match goal with |- context [Ascii.eqb ?a ?b] => destruct (Ascii.eqb a b) eqn:? end;
      cbn [andb orb]; rewrite ?H4;
      repeat match goal with |- context [starts_gp ?k r] => destruct (starts_gp k r) eqn:? end;
      destruct (has_go_package_tokens r) eqn:?; cbn [andb orb];
      try reflexivity; try (specialize (Habs eq_refl); congruence); try congruence;
      try (repeat match goal with H : String.eqb _ _ = true |- _ => apply String.eqb_eq in H end;
           subst; discriminate).
Qed.

Lemma gp_next_not_str : forall m t, t <> TStr -> Nat.eqb (gp_next m t) 4 = Nat.eqb m 4.
Proof.
  intros m t H. unfold gp_next. destruct (Nat.eqb m 4) eqn:E; [reflexivity|].
  destruct t as [s| |c]; [| contradiction |]; cbn [tok_matches];
    repeat match goal with |- context [if ?b then _ else _] => destruct b eqn:? end;
    try reflexivity;
    repeat match goal with H : _ && _ = true |- _ => apply andb_true_iff in H; destruct H end;
    try discriminate.
Qed.

(* declaresGoPackage decides "declares option go_package" — for every content *)
Theorem scan_correct : forall c, scan_go_package c = declares_go_package c.
Proof.
  intros c. unfold scan_go_package, declares_go_package, lex.
  destruct (scan_from_lex c LNormal 0 []) as (ext & E1 & E2).
  rewrite E2. destruct (lex_from LNormal [] c) as [st toks] eqn:El. cbn [fst] in *.
  assert (toks = ext) by (rewrite app_nil_r in E1; congruence). subst toks.
  rewrite <- rev_alt.
  set (m := fold_left gp_next (rev ext) 0).
  assert (Hm : m <= 4) by (apply fold_gp_le; lia).
  assert (Hf : Nat.eqb (flush_str st m) 4
               = Nat.eqb (fold_left gp_next (rev ext ++ rev (firstn (length (lex_flush st ext) - length ext) (lex_flush st ext))) 0) 4).
  { rewrite fold_left_app. change (fold_left gp_next (rev ext) 0) with m.
    destruct st; cbn [flush_str lex_flush length];
      rewrite ?Nat.sub_diag; try (replace (S (length ext) - length ext) with 1 by lia);
      cbn [firstn rev app fold_left]; try reflexivity;
      symmetry; apply gp_next_not_str; discriminate. }
  rewrite Hf.
  assert (Hl : rev (lex_flush st ext)
               = rev ext ++ rev (firstn (length (lex_flush st ext) - length ext) (lex_flush st ext))).
  { destruct st; cbn [lex_flush length]; rewrite ?Nat.sub_diag;
      try (replace (S (length ext) - length ext) with 1 by lia); cbn [firstn rev app];
      rewrite ?app_nil_r; reflexivity. }
  rewrite <- Hl. rewrite gp_next_spec by lia.
  destruct (starts_gp 0 (rev (lex_flush st ext))) eqn:Es; [|reflexivity].
  rewrite (has_of_starts _ Es). reflexivity.
Qed.

Theorem scan_agrees_all : forall c, scan_agrees c = true.
Proof. intros c. unfold scan_agrees. rewrite scan_correct. apply Bool.eqb_reflx. Qed.

(* ------------------------------------------------------------------ near misses *)
Definition hdr : string := "syntax = ""proto3"";" ++ String nl ("package t;" ++ String nl "").
Definition body : string := "message M {" ++ String nl ("  int32 f = 1;" ++ String nl ("}" ++ String nl "")).

(* scan says yes, nothing is declared *)
Example scan_refuted_line_comment :
  let c := (hdr ++ "// option go_package = ""x"";" ++ String nl body)%string in
  scan_go_package_orig c = true /\ declares_go_package c = false /\ scan_go_package c = false.
Proof. vm_compute. repeat split; reflexivity. Qed.

Example scan_refuted_block_comment :
  let c := (hdr ++ "/* option go_package = ""x""; */" ++ String nl body)%string in
  scan_go_package_orig c = true /\ declares_go_package c = false /\ scan_go_package c = false.
Proof. vm_compute. repeat split; reflexivity. Qed.

Example scan_refuted_string_literal :
  let c := (hdr ++ "option java_package = ""option go_package = x"";" ++ String nl body)%string in
  scan_go_package_orig c = true /\ declares_go_package c = false /\ scan_go_package c = false.
Proof. vm_compute. repeat split; reflexivity. Qed.

(* scan says no, the option is declared *)
Example scan_refuted_no_space :
  let c := (hdr ++ "option go_package=""x"";" ++ String nl body)%string in
  scan_go_package_orig c = false /\ declares_go_package c = true /\ scan_go_package c = true.
Proof. vm_compute. repeat split; reflexivity. Qed.

Example scan_refuted_two_spaces :
  let c := (hdr ++ "option  go_package  =  ""x"";" ++ String nl body)%string in
  scan_go_package_orig c = false /\ declares_go_package c = true /\ scan_go_package c = true.
Proof. vm_compute. repeat split; reflexivity. Qed.

Example scan_refuted_tab :
  let c := (hdr ++ "option" ++ String "009" "go_package = ""x"";" ++ String nl body)%string in
  scan_go_package_orig c = false /\ declares_go_package c = true /\ scan_go_package c = true.
Proof. vm_compute. repeat split; reflexivity. Qed.

Example scan_refuted_line_break :
  let c := (hdr ++ "option go_package" ++ String nl "    = ""x"";" ++ String nl body)%string in
  scan_go_package_orig c = false /\ declares_go_package c = true /\ scan_go_package c = true.
Proof. vm_compute. repeat split; reflexivity. Qed.

(* agreement where nothing is near: no option at all, and the canonical one in several places *)
Example scan_orig_agrees_examples :
  scan_agrees_orig (hdr ++ body) = true
  /\ scan_agrees_orig (hdr ++ "option go_package = ""example.com/x"";" ++ String nl body) = true
  /\ scan_agrees_orig (hdr ++ body ++ "  option go_package = ""example.com/x"";") = true
  /\ scan_agrees_orig (hdr ++ "// a comment" ++ String nl ("/* block */ option go_package = ""x"";" ++ String nl body)) = true.
Proof. vm_compute. repeat split. Qed.
