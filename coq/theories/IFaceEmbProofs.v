(* IFaceEmbProofs.v — method collection (interface.go:143-233): the private filter and the
   embedded-method merge, for every embedding tree. *)
From Coq Require Import List Bool String Ascii NArith Arith Lia Permutation.
From GT Require Import IFaceModel IFaceNamesProofs.
Import ListNotations.
Local Open Scope string_scope.

(* ------------------------------------------------------------------ trees *)
Lemma tree_ind' (P : tree -> Prop) :
  (forall s own embs, Forall P embs -> P (Tr s own embs)) -> forall t, P t.
Proof.
  intros H. fix IH 1. intros [s own embs]. apply H.
  induction embs as [|x r IHr]; constructor; [apply IH|exact IHr].
Qed.

(* methods declared by one type have distinct names (Go rejects anything else) *)
Inductive wf_tree : tree -> Prop :=
| WF s own embs : NoDup (map m_name own) -> Forall wf_tree embs -> wf_tree (Tr s own embs).

(* ------------------------------------------------------------------ the merge, by name *)
(* per name the merge is a three-state machine: 0 not seen, 1 in methodsToAdd, 2 ignored *)
Definition nstate (st : list string * list string) (n : string) : nat :=
  if mem n (snd st) then 2 else if mem n (fst st) then 1 else 0.
Definition nstep (k : nat) : nat := match k with 0 => 1 | _ => 2 end.

Definition wf_state (st : list string * list string) : Prop := NoDup (fst st).

Definition merge_one_n := @merge_one string (fun n => n).

Lemma existsb_eqb_mem m l : existsb (fun x => String.eqb x m) l = mem m l.
Proof.
  unfold mem. induction l as [|x r IH]; simpl; [reflexivity|].
  rewrite IH. rewrite (String.eqb_sym x m). reflexivity.
Qed.

Lemma mem_app m a b : mem m (a ++ b)%list = mem m a || mem m b.
Proof. unfold mem. apply existsb_app. Qed.

Lemma mem_filter_neq n m l :
  mem n (filter (fun x => negb (String.eqb x m)) l) = mem n l && negb (String.eqb n m).
Proof.
  induction l as [|x r IH]; simpl; [reflexivity|].
  destruct (String.eqb x m) eqn:E; simpl.
  - rewrite IH. apply String.eqb_eq in E. subst x.
    destruct (String.eqb n m) eqn:E2; simpl.
    + rewrite andb_false_r. reflexivity.
    + rewrite andb_true_r. reflexivity.
  - rewrite IH. destruct (String.eqb n x) eqn:E2; simpl; [|reflexivity].
    apply String.eqb_eq in E2. subst x. rewrite E. reflexivity.
Qed.

Lemma merge_one_state st m n :
  nstate (merge_one_n st m) n = if String.eqb n m then nstep (nstate st n) else nstate st n.
Proof.
  destruct st as [toadd ign]. unfold merge_one_n, merge_one, nstate. cbn [fst snd].
  rewrite existsb_eqb_mem.
  destruct (String.eqb n m) eqn:E.
  - apply String.eqb_eq in E. subst n.
    destruct (mem m ign) eqn:Ei; cbn [fst snd].
    + rewrite Ei. reflexivity.
    + destruct (mem m toadd) eqn:Et; cbn [fst snd].
      * simpl. rewrite String.eqb_refl. reflexivity.
      * rewrite Ei, mem_app, Et. simpl. rewrite String.eqb_refl. reflexivity.
  - destruct (mem m ign) eqn:Ei; cbn [fst snd]; [reflexivity|].
    destruct (mem m toadd) eqn:Et; cbn [fst snd].
    + simpl. rewrite E. simpl. rewrite mem_filter_neq, E. rewrite andb_true_r. reflexivity.
    + rewrite mem_app. simpl. rewrite E. rewrite orb_false_r. reflexivity.
Qed.

Lemma NoDup_filter {A} (p : A -> bool) l : NoDup l -> NoDup (filter p l).
Proof.
  induction 1 as [|x l Hx Hnd IH]; simpl; [constructor|].
  destruct (p x); [|assumption]. constructor; [|assumption].
  intros H. apply filter_In in H. tauto.
Qed.

Lemma merge_one_wf st m : wf_state st -> wf_state (merge_one_n st m).
Proof.
  destruct st as [toadd ign]. unfold wf_state, merge_one_n, merge_one. cbn [fst snd]. intros H.
  destruct (mem m ign); cbn [fst]; [assumption|].
  rewrite existsb_eqb_mem. destruct (mem m toadd) eqn:Et; cbn [fst].
  - apply NoDup_filter. assumption.
  - apply NoDup_mid with (b := []); rewrite ?app_nil_r; [assumption|]. apply mem_false. assumption.
Qed.

Fixpoint occ (n : string) (s : list string) : nat :=
  match s with [] => 0 | x :: r => (if String.eqb n x then 1 else 0) + occ n r end.

Lemma iter_shift {A} (f : A -> A) k x : Nat.iter k f (f x) = f (Nat.iter k f x).
Proof. induction k; simpl; [reflexivity|]. rewrite IHk. reflexivity. Qed.

Lemma merge_state : forall s st n,
  nstate (fold_left merge_one_n s st) n = Nat.iter (occ n s) nstep (nstate st n).
Proof.
  induction s as [|m r IH]; intros st n; simpl; [reflexivity|].
  rewrite IH, merge_one_state. destruct (String.eqb n m); simpl.
  - rewrite iter_shift. reflexivity.
  - reflexivity.
Qed.

Lemma merge_wf : forall s st, wf_state st -> wf_state (fold_left merge_one_n s st).
Proof. induction s; intros st H; simpl; [assumption|]. apply IHs, merge_one_wf, H. Qed.

Lemma iter_nstep k s : Nat.iter k nstep s = match k with 0 => s | 1 => nstep s | _ => 2 end.
Proof.
  destruct k as [|[|k]]; [reflexivity|reflexivity|].
  induction k as [|k IH]; [destruct s as [|[|s]]; reflexivity|].
  change (Nat.iter (S (S (S k))) nstep s) with (nstep (Nat.iter (S (S k)) nstep s)).
  rewrite IH. reflexivity.
Qed.

Lemma occ_app n a b : occ n (a ++ b)%list = occ n a + occ n b.
Proof. induction a; simpl; [reflexivity|]. rewrite IHa. lia. Qed.

Lemma occ_NoDup n l : NoDup l -> occ n l = if mem n l then 1 else 0.
Proof.
  induction 1 as [|x l Hx Hnd IH]; simpl; [reflexivity|].
  rewrite IH. destruct (String.eqb n x) eqn:E; simpl; [|reflexivity].
  apply String.eqb_eq in E. subst x. apply mem_false in Hx. rewrite Hx. reflexivity.
Qed.

Lemma occ_flat_map {A} (N : A -> list string) n (l : list A) :
  (forall f, In f l -> NoDup (N f)) ->
  occ n (flat_map N l) = List.length (filter (fun f => mem n (N f)) l).
Proof.
  induction l as [|f r IH]; intros H; simpl; [reflexivity|].
  rewrite occ_app, IH by (intros g Hg; apply H; right; assumption).
  rewrite occ_NoDup by (apply H; left; reflexivity).
  destruct (mem n (N f)); simpl; lia.
Qed.

Lemma fold_left_flat_map {A B C} (g : C -> B -> C) (h : A -> list B) l a :
  fold_left (fun acc f => fold_left g (h f) acc) l a = fold_left g (flat_map h l) a.
Proof.
  revert a. induction l as [|x r IH]; intros a; simpl; [reflexivity|].
  rewrite IH, fold_left_app. reflexivity.
Qed.

Lemma NoDup_map_filter {A B} (f : A -> B) (p : A -> bool) l :
  NoDup (map f l) -> NoDup (map f (filter p l)).
Proof.
  induction l as [|x r IH]; simpl; intros H; [constructor|]. inversion H as [|? ? Hx Hr]; subst.
  destruct (p x); simpl; [|auto]. constructor; [|auto].
  intros Hin. apply Hx. apply in_map_iff in Hin as [y [Hy Hin]]. apply filter_In in Hin as [Hin _].
  rewrite <- Hy. apply in_map. assumption.
Qed.

Lemma NoDup_app_intro {A} (a b : list A) :
  NoDup a -> NoDup b -> (forall x, In x a -> In x b -> False) -> NoDup (a ++ b)%list.
Proof.
  induction 1 as [|x a Hx Ha IH]; intros Hb Hd; simpl; [assumption|].
  constructor.
  - intros H. apply in_app_or in H as [H|H]; [auto|]. apply (Hd x); [left; reflexivity|assumption].
  - apply IH; [assumption|]. intros y Hy. apply Hd. right. assumption.
Qed.

(* ------------------------------------------------------------------ iface_names *)
Section Names.
  Variables priv emb ms_filter : bool.
  Notation N := (iface_names_gen priv emb ms_filter).
  Definition visn (n : string) : bool := priv || exported n.

  Lemma iface_names_unfold s own embs :
    N (Tr s own embs) =
    let own' := filter visn (map m_name (filter is_meth own)) in
    if negb emb then own' else
    (own' ++ filter (fun n => negb ms_filter || go_ms (Tr s own embs) n)
                    (fst (fold_left merge_one_n (flat_map N embs) ([], own'))))%list.
  Proof.
    cbn [iface_names_gen]. destruct (negb emb); [reflexivity|].
    cbv zeta. f_equal. f_equal. f_equal.
    unfold merge. rewrite fold_left_flat_map. reflexivity.
  Qed.

  Definition fields_with (n : string) (embs : list tree) : nat :=
    List.length (filter (fun f => mem n (N f)) embs).

  Lemma nstate_init (own' : list string) n : nstate ([], own') n = if mem n own' then 2 else 0.
  Proof. unfold nstate. cbn [fst snd]. destruct (mem n own'); reflexivity. Qed.

  Lemma mem_nstate_1 st n : wf_state st -> (In n (fst st) /\ ~ In n (snd st)) <-> nstate st n = 1.
  Proof.
    intros _. unfold nstate. destruct (mem n (snd st)) eqn:E1; destruct (mem n (fst st)) eqn:E2.
    - apply mem_In in E1. split; [tauto|discriminate].
    - split; [intros [H _]; apply mem_In in H; congruence|discriminate].
    - apply mem_In in E2. apply mem_false in E1. tauto.
    - split; [intros [H _]; apply mem_In in H; congruence|discriminate].
  Qed.

  (* the merged list never contains an ignored name *)
  Lemma merge_disjoint : forall s st,
    (forall x, In x (fst st) -> ~ In x (snd st)) ->
    forall x, In x (fst (fold_left merge_one_n s st)) -> ~ In x (snd (fold_left merge_one_n s st)).
  Proof.
    induction s as [|m r IH]; intros st H; simpl; [assumption|]. apply IH.
    destruct st as [toadd ign]. unfold merge_one_n, merge_one. cbn [fst snd] in *.
    destruct (mem m ign) eqn:Ei; cbn [fst snd]; [assumption|].
    rewrite existsb_eqb_mem. destruct (mem m toadd) eqn:Et; cbn [fst snd].
    - intros x Hx. apply filter_In in Hx as [Hx Hne]. intros [<-|Hi].
      + rewrite String.eqb_refl in Hne. discriminate.
      + apply (H _ Hx Hi).
    - intros x Hx. apply in_app_or in Hx as [Hx|[<-|[]]]; [auto|]. apply mem_false. assumption.
  Qed.

  Lemma iface_names_char s own embs n :
    NoDup (map m_name own) -> (forall f, In f embs -> NoDup (N f)) ->
    (In n (N (Tr s own embs)) <->
     In n (filter visn (map m_name (filter is_meth own))) \/
     (emb = true /\ ~ In n (filter visn (map m_name (filter is_meth own))) /\
      (ms_filter = true -> go_ms (Tr s own embs) n = true) /\ fields_with n embs = 1)).
  Proof.
    intros Hown Hembs. rewrite iface_names_unfold. cbv zeta.
    set (own' := filter visn (map m_name (filter is_meth own))).
    destruct (negb emb) eqn:Eemb.
    { apply negb_true_iff in Eemb. split; [auto|]. intros [H|[H _]]; [assumption|congruence]. }
    apply negb_false_iff in Eemb.
    set (st := fold_left merge_one_n (flat_map N embs) ([], own')).
    assert (Hwf : wf_state st) by (apply merge_wf; constructor).
    assert (Hdis : forall x, In x (fst st) -> ~ In x (snd st)).
    { apply merge_disjoint. intros x []. }
    assert (Hst : nstate st n = Nat.iter (occ n (flat_map N embs)) nstep (nstate ([], own') n))
      by apply merge_state.
    rewrite (occ_flat_map N n embs Hembs) in Hst. fold (fields_with n embs) in Hst.
    rewrite iter_nstep, nstate_init in Hst.
    rewrite in_app_iff, filter_In.
    split.
    - intros [H|[H Hf]]; [left; assumption|].
      destruct (mem n own') eqn:Eo; [left; apply mem_In; assumption|]. right.
      assert (H1 : nstate st n = 1) by (apply mem_nstate_1; auto).
      split; [exact Eemb|]. split; [apply mem_false; assumption|]. split.
      + intros ->. simpl in Hf. assumption.
      + destruct (fields_with n embs) as [|[|k]]; simpl in Hst; congruence.
    - intros [H|[_ [Hno [Hms H1]]]]; [left; assumption|]. right.
      apply mem_false in Hno. rewrite Hno, H1 in Hst. simpl in Hst.
      apply mem_nstate_1 in Hst as [Hin _]; [|assumption]. split; [assumption|].
      destruct ms_filter; simpl; auto.
  Qed.

  Lemma iface_names_NoDup : forall t, wf_tree t -> NoDup (N t).
  Proof.
    induction t as [s own embs IH] using tree_ind'. intros Hwf. inversion Hwf as [? ? ? Hown Hembs]; subst.
    rewrite iface_names_unfold. cbv zeta.
    assert (Hvis : NoDup (filter visn (map m_name (filter is_meth own)))) by (apply NoDup_filter, NoDup_map_filter; assumption).
    destruct (negb emb); [assumption|].
    set (st := fold_left merge_one_n (flat_map N embs) ([], filter visn (map m_name (filter is_meth own)))).
    assert (Hwfs : wf_state st) by (apply merge_wf; constructor).
    assert (Hsub : forall x, In x (fst st) -> ~ In x (filter visn (map m_name (filter is_meth own)))).
    { intros x Hx Hi.
      assert (H2 : nstate st x = Nat.iter (occ x (flat_map N embs)) nstep
                                         (nstate ([], filter visn (map m_name (filter is_meth own))) x))
        by apply merge_state.
      rewrite nstate_init in H2. apply mem_In in Hi. rewrite Hi in H2.
      assert (H3 : Nat.iter (occ x (flat_map N embs)) nstep 2 = 2).
      { generalize (occ x (flat_map N embs)). induction n; simpl; [reflexivity|]. rewrite IHn. reflexivity. }
      rewrite H3 in H2. unfold nstate in H2.
      destruct (mem x (snd st)) eqn:E; [|destruct (mem x (fst st)); discriminate].
      apply mem_In in E. revert E. apply merge_disjoint; [intros y []|assumption]. }
    apply NoDup_app_intro; [assumption|apply NoDup_filter; exact Hwfs|].
    intros x Hx Hy. apply filter_In in Hy as [Hy _]. apply (Hsub _ Hy Hx).
  Qed.
End Names.

(* ------------------------------------------------------------------ the characterisation *)
Lemma vis_names_eq priv s own embs :
  vis_names priv (Tr s own embs) = filter (visn priv) (map m_name (filter is_meth own)).
Proof. reflexivity. Qed.

Definition exactly_one_field (priv emb : bool) (n : string) (embs : list tree) : Prop :=
  List.length (filter (fun f => mem n (iface_names priv emb f)) embs) = 1.

(* current code, every tree: own visible methods, plus — with IncludeEmbedded — the names that
   Go promotes, that the type does not define itself and that exactly one embedded field's
   interface provides *)
Lemma iface_names_spec priv emb t n : wf_tree t ->
  (In n (iface_names priv emb t) <->
   In n (vis_names priv t) \/
   (emb = true /\ ~ In n (vis_names priv t) /\ go_ms t n = true /\
    exactly_one_field priv emb n (t_emb t))).
Proof.
  intros Hwf. destruct t as [s own embs]. inversion Hwf as [? ? ? Hown Hembs]; subst.
  unfold iface_names. rewrite iface_names_char; [|assumption|].
  - rewrite vis_names_eq. unfold exactly_one_field, fields_with, iface_names. cbn [t_emb].
    split; (intros [H|[H1 [H2 [H3 H4]]]]; [left; assumption|right]); auto.
  - intros f Hf. apply iface_names_NoDup. rewrite Forall_forall in Hembs. auto.
Qed.

(* the pinned code lacked the method-set condition *)
Lemma iface_names_orig_spec priv emb t n : wf_tree t ->
  (In n (iface_names_orig priv emb t) <->
   In n (vis_names priv t) \/
   (emb = true /\ ~ In n (vis_names priv t) /\
    List.length (filter (fun f => mem n (iface_names_orig priv emb f)) (t_emb t)) = 1)).
Proof.
  intros Hwf. destruct t as [s own embs]. inversion Hwf as [? ? ? Hown Hembs]; subst.
  unfold iface_names_orig. rewrite iface_names_char; [|assumption|].
  - rewrite vis_names_eq. unfold fields_with. cbn [t_emb]. split.
    + intros [H|[H1 [H2 [H3 H4]]]]; [left; assumption|right]; auto.
    + intros [H|[H1 [H2 H4]]]; [left; assumption|right].
      split; [assumption|]. split; [assumption|]. split; [discriminate|assumption].
  - intros f Hf. apply iface_names_NoDup. rewrite Forall_forall in Hembs. auto.
Qed.

(* ------------------------------------------------------------------ Go's selector rule *)
Lemma count_level_app a b n : count_level (a ++ b)%list n = count_level a n + count_level b n.
Proof. unfold count_level. rewrite filter_app, app_length. reflexivity. Qed.

Lemma count_level_one t n : NoDup (own_names t) ->
  count_level [t] n = if mem n (own_names t) then 1 else 0.
Proof. intros _. unfold count_level. simpl. destruct (mem n (own_names t)); reflexivity. Qed.

Lemma ms_level_nil fuel n : ms_level fuel [] n = false.
Proof. induction fuel; simpl; [reflexivity|assumption]. Qed.

Definition hmax (embs : list tree) : nat :=
  fold_right (fun x acc => Nat.max (S (height x)) acc) 0 embs.
Lemma height_hmax s own embs : height (Tr s own embs) = hmax embs.
Proof. reflexivity. Qed.
Lemma hmax_cons x r : hmax (x :: r) = Nat.max (S (height x)) (hmax r).
Proof. reflexivity. Qed.

Lemma height_le s own embs k : height (Tr s own embs) <= S k <-> Forall (fun f => height f <= k) embs.
Proof.
  rewrite height_hmax. induction embs as [|x r IH].
  - split; [constructor|cbn; lia].
  - rewrite hmax_cons. split.
    + intros H. constructor; [lia|]. apply IH. lia.
    + intros H. inversion H as [|? ? H2 H3]; subst. apply IH in H3. lia.
Qed.

Lemma height_0 s own embs : height (Tr s own embs) <= 0 -> embs = [].
Proof. destruct embs; [reflexivity|]. rewrite height_hmax, hmax_cons. lia. Qed.

Lemma next_level_heights lvl k :
  Forall (fun t => height t <= S k) lvl -> Forall (fun t => height t <= k) (flat_map t_emb lvl).
Proof.
  induction 1 as [|[s own embs] r Hx Hr IH]; simpl; [constructor|].
  apply Forall_app. split; [exact (proj1 (height_le _ _ _ _) Hx)|assumption].
Qed.

Lemma next_level_empty lvl : Forall (fun t => height t <= 0) lvl -> flat_map t_emb lvl = [].
Proof.
  induction 1 as [|[s own embs] r Hx Hr IH]; simpl; [reflexivity|].
  rewrite (height_0 _ _ _ Hx), IH. reflexivity.
Qed.

(* more fuel than the height of the level changes nothing *)
Lemma ms_level_fuel : forall fuel lvl n k,
  Forall (fun t => height t <= fuel) lvl -> ms_level (fuel + k) lvl n = ms_level fuel lvl n.
Proof.
  induction fuel as [|f IH]; intros lvl n k H.
  - destruct k; [reflexivity|]. simpl. destruct (count_level lvl n) as [|[|c]]; try reflexivity.
    rewrite (next_level_empty _ H). apply ms_level_nil.
  - simpl. destruct (count_level lvl n) as [|[|c]]; try reflexivity.
    apply IH. apply next_level_heights. assumption.
Qed.

Lemma go_ms_fuel t n k : height t <= k -> go_ms t n = ms_level k [t] n.
Proof.
  intros H. unfold go_ms. replace k with (height t + (k - height t)) by lia.
  symmetry. apply ms_level_fuel. constructor; [lia|constructor].
Qed.

Definition mlevel (lvl : list tree) (n : string) : bool := existsb (fun t => mem n (meth_names t)) lvl.

Lemma meth_in_own t n : In n (meth_names t) -> In n (own_names t).
Proof.
  unfold meth_names, own_names. intros H. apply in_map_iff in H as [m [Hm Hin]].
  apply filter_In in Hin as [Hin _]. rewrite <- Hm. apply in_map. assumption.
Qed.

Lemma mem_meth_own t n : mem n (meth_names t) = true -> mem n (own_names t) = true.
Proof. intros H. apply mem_In. apply meth_in_own. apply mem_In. assumption. Qed.

Lemma ms_level_unfold fuel lvl n :
  ms_level fuel lvl n =
  match count_level lvl n with
  | 0 => match fuel with O => false | S f => ms_level f (flat_map t_emb lvl) n end
  | 1 => mlevel lvl n
  | _ => false
  end.
Proof. destruct fuel; reflexivity. Qed.

(* at the level of the type itself the selector decides: a method is in the method set, a field
   hides everything below *)
Lemma go_ms_top t n : NoDup (own_names t) -> mem n (own_names t) = true ->
  go_ms t n = mem n (meth_names t).
Proof.
  intros Hnd Hin. unfold go_ms. rewrite ms_level_unfold, (count_level_one _ _ Hnd), Hin.
  unfold mlevel. simpl. apply orb_false_r.
Qed.

Lemma go_ms_own t n : NoDup (own_names t) -> In n (meth_names t) -> go_ms t n = true.
Proof.
  intros Hnd Hin. rewrite go_ms_top; [apply mem_In; assumption|assumption|].
  apply mem_In, meth_in_own. assumption.
Qed.

(* the rule, spelled out for embedding two levels deep *)
Lemma go_ms_two t n : height t <= 2 -> NoDup (own_names t) ->
  go_ms t n = if mem n (own_names t) then mem n (meth_names t)
              else match count_level (t_emb t) n with
                   | 0 => Nat.eqb (count_level (flat_map t_emb (t_emb t)) n) 1 &&
                          mlevel (flat_map t_emb (t_emb t)) n
                   | 1 => mlevel (t_emb t) n
                   | _ => false
                   end.
Proof.
  intros Hh Hnd. destruct (mem n (own_names t)) eqn:Eo; [apply go_ms_top; assumption|].
  rewrite (go_ms_fuel t n 2 Hh). rewrite ms_level_unfold, (count_level_one _ _ Hnd), Eo.
  cbn [flat_map]. rewrite app_nil_r. rewrite ms_level_unfold.
  destruct (count_level (t_emb t) n) as [|[|c]]; try reflexivity.
  rewrite ms_level_unfold.
  destruct (count_level (flat_map t_emb (t_emb t)) n) as [|[|c]]; reflexivity.
Qed.

Lemma go_ms_one t n : height t <= 1 -> NoDup (own_names t) ->
  go_ms t n = if mem n (own_names t) then mem n (meth_names t)
              else Nat.eqb (count_level (t_emb t) n) 1 && mlevel (t_emb t) n.
Proof.
  intros Hh Hnd. rewrite go_ms_two by (assumption || lia).
  destruct (mem n (own_names t)); [reflexivity|].
  destruct t as [s own embs]. apply height_le in Hh. cbn [t_emb].
  rewrite (next_level_empty _ Hh).
  destruct (count_level embs n) as [|[|c]]; reflexivity.
Qed.

(* ------------------------------------------------------------------ two levels: the words of the property *)
Lemma wf_own t : wf_tree t -> NoDup (own_names t).
Proof. intros H. inversion H; subst. assumption. Qed.
Lemma wf_emb t f : wf_tree t -> In f (t_emb t) -> wf_tree f.
Proof. intros H Hf. inversion H as [? ? ? _ Hembs]; subst. rewrite Forall_forall in Hembs. auto. Qed.

Lemma visn_filter priv n l : In n (filter (visn priv) l) <-> In n l /\ visn priv n = true.
Proof. apply filter_In. Qed.

Lemma vis_names_In priv t n : In n (vis_names priv t) <-> In n (meth_names t) /\ visn priv n = true.
Proof. unfold vis_names. apply filter_In. Qed.

Lemma iface_leaf priv emb t : height t <= 0 -> iface_names priv emb t = vis_names priv t.
Proof.
  destruct t as [s own embs]. intros H. rewrite (height_0 _ _ _ H).
  unfold iface_names. rewrite iface_names_unfold. cbv zeta.
  destruct (negb emb); [reflexivity|]. simpl. apply app_nil_r.
Qed.

Lemma length_filter_ext {A} (p q : A -> bool) l :
  (forall x, In x l -> p x = q x) -> List.length (filter p l) = List.length (filter q l).
Proof. intros H. rewrite (filter_ext_in _ _ _ H). reflexivity. Qed.

Lemma length_filter_pos {A} (p : A -> bool) l :
  0 < List.length (filter p l) <-> exists x, In x l /\ p x = true.
Proof.
  split.
  - destruct (filter p l) as [|x r] eqn:E; simpl; [lia|]. intros _.
    assert (H : In x (filter p l)) by (rewrite E; left; reflexivity).
    apply filter_In in H. eauto.
  - intros [x [Hx Hp]]. assert (H : In x (filter p l)) by (apply filter_In; auto).
    destruct (filter p l); [contradiction|simpl; lia].
Qed.

Lemma length_filter_le {A} (p q : A -> bool) l :
  (forall x, In x l -> p x = true -> q x = true) ->
  List.length (filter p l) <= List.length (filter q l).
Proof.
  induction l as [|x r IH]; intros H; simpl; [lia|].
  assert (IH' := IH (fun y Hy => H y (or_intror Hy))).
  destruct (p x) eqn:Ep.
  - rewrite (H x (or_introl eq_refl) Ep). simpl. lia.
  - destruct (q x); simpl; lia.
Qed.

Lemma mem_filter_visn priv n t : visn priv n = true -> mem n (vis_names priv t) = mem n (meth_names t).
Proof.
  intros Hv. destruct (mem n (meth_names t)) eqn:E.
  - apply mem_In. apply vis_names_In. apply mem_In in E. auto.
  - apply mem_false. intros H. apply vis_names_In in H as [H _]. apply mem_In in H. congruence.
Qed.

Lemma mlevel_exists lvl n : mlevel lvl n = true <-> exists x, In x lvl /\ mem n (meth_names x) = true.
Proof. unfold mlevel. apply existsb_exists. Qed.

(* one level of embedding: the collected names are the visible part of Go's method set *)
Lemma iface_one priv t n : height t <= 1 -> wf_tree t ->
  (In n (iface_names priv true t) <-> visn priv n = true /\ go_ms t n = true).
Proof.
  intros Hh Hwf. rewrite (iface_names_spec priv true t n Hwf).
  pose proof (wf_own _ Hwf) as Hnd.
  assert (Hleaf : forall f, In f (t_emb t) -> height f <= 0).
  { destruct t as [s own embs]. apply height_le in Hh. rewrite Forall_forall in Hh. exact Hh. }
  rewrite vis_names_In. unfold exactly_one_field. split.
  - intros [[Hin Hv]|[_ [Hno [Hms H1]]]].
    + split; [assumption|]. apply go_ms_own; assumption.
    + split; [|assumption].
      assert (Hp : 0 < List.length (filter (fun f => mem n (iface_names priv true f)) (t_emb t))) by lia.
      apply length_filter_pos in Hp as [f [Hf Hm]]. apply mem_In in Hm.
      rewrite (iface_leaf priv true f (Hleaf f Hf)) in Hm. apply vis_names_In in Hm. tauto.
  - intros [Hv Hms]. destruct (mem n (meth_names t)) eqn:E.
    + left. apply mem_In in E. auto.
    + right. split; [reflexivity|]. split; [intros [H _]; apply mem_In in H; congruence|].
      split; [assumption|].
      rewrite (go_ms_one t n Hh Hnd) in Hms.
      destruct (mem n (own_names t)) eqn:Eo; [congruence|].
      apply andb_true_iff in Hms as [Hc Hm]. apply Nat.eqb_eq in Hc.
      apply mlevel_exists in Hm as [x [Hx Hmx]].
      apply Nat.le_antisymm.
      * rewrite <- Hc. unfold count_level. apply length_filter_le. intros f Hf Hp.
        apply mem_In in Hp. rewrite (iface_leaf priv true f (Hleaf f Hf)) in Hp.
        apply vis_names_In in Hp as [Hp _]. apply mem_In, meth_in_own. assumption.
      * apply length_filter_pos. exists x. split; [assumption|].
        rewrite (iface_leaf priv true x (Hleaf x Hx)), mem_filter_visn; assumption.
Qed.

Lemma count_flat_one embs n :
  count_level (flat_map t_emb embs) n = 1 -> exists f, In f embs /\ count_level (t_emb f) n = 1.
Proof.
  induction embs as [|x r IH]; simpl; [unfold count_level; simpl; discriminate|].
  rewrite count_level_app. intros H.
  destruct (count_level (t_emb x) n) as [|[|c]] eqn:E.
  - destruct (IH H) as [f [Hf Hc]]. exists f. auto.
  - exists x. auto.
  - lia.
Qed.

Lemma count_flat_le embs f n : In f embs ->
  count_level (t_emb f) n <= count_level (flat_map t_emb embs) n.
Proof.
  induction embs as [|x r IH]; intros Hf; [contradiction|]. simpl. rewrite count_level_app.
  destruct Hf as [->|Hf]; [lia|]. specialize (IH Hf). lia.
Qed.

Lemma count_level_zero lvl n f : count_level lvl n = 0 -> In f lvl -> mem n (own_names f) = false.
Proof.
  unfold count_level. intros H Hf. destruct (mem n (own_names f)) eqn:E; [|reflexivity].
  assert (Hin : In f (filter (fun t => mem n (own_names t)) lvl)) by (apply filter_In; auto).
  destruct (filter _ lvl); [contradiction|discriminate].
Qed.

Lemma count_level_pos lvl n : 0 < count_level lvl n -> exists f, In f lvl /\ mem n (own_names f) = true.
Proof. unfold count_level. apply length_filter_pos. Qed.

Lemma mlevel_flat embs n : mlevel (flat_map t_emb embs) n = true ->
  exists f, In f embs /\ mlevel (t_emb f) n = true.
Proof.
  intros H. apply mlevel_exists in H as [x [Hx Hm]]. apply in_flat_map in Hx as [f [Hf Hx]].
  exists f. split; [assumption|]. apply mlevel_exists. eauto.
Qed.

Lemma mlevel_count lvl n : mlevel lvl n = true -> 0 < count_level lvl n.
Proof.
  intros H. apply mlevel_exists in H as [x [Hx Hm]]. unfold count_level. apply length_filter_pos.
  exists x. split; [assumption|]. apply mem_meth_own. assumption.
Qed.

(* a promoted name comes through some embedded field whose own method set has it *)
Lemma go_ms_through_field t n : height t <= 2 -> wf_tree t ->
  go_ms t n = true -> mem n (own_names t) = false -> exists f, In f (t_emb t) /\ go_ms f n = true.
Proof.
  intros Hh Hwf Hms Hno. rewrite (go_ms_two t n Hh (wf_own _ Hwf)), Hno in Hms.
  assert (Hf1 : forall f, In f (t_emb t) -> height f <= 1).
  { destruct t as [s own embs]. apply height_le in Hh. rewrite Forall_forall in Hh. exact Hh. }
  destruct (count_level (t_emb t) n) as [|[|c]] eqn:E1.
  - apply andb_true_iff in Hms as [Hc Hm]. apply Nat.eqb_eq in Hc.
    destruct (mlevel_flat _ _ Hm) as [f [Hf Hmf]]. exists f. split; [assumption|].
    rewrite (go_ms_one f n (Hf1 f Hf) (wf_own _ (wf_emb _ _ Hwf Hf))).
    rewrite (count_level_zero _ _ _ E1 Hf), Hmf.
    pose proof (count_flat_le (t_emb t) f n Hf) as Hle. pose proof (mlevel_count _ _ Hmf) as Hpos.
    replace (count_level (t_emb f) n) with 1 by lia. reflexivity.
  - apply mlevel_exists in Hms as [g [Hg Hmg]].
    exists g. split; [assumption|]. apply go_ms_own; [apply wf_own, (wf_emb _ _ Hwf Hg)|].
    apply mem_In. assumption.
  - discriminate.
Qed.

Lemma go_ms_selector t n : NoDup (own_names t) -> go_ms t n = true ->
  mem n (own_names t) = true -> mem n (meth_names t) = true.
Proof. intros Hnd Hms Ho. rewrite (go_ms_top t n Hnd Ho) in Hms. exact Hms. Qed.

(* embedding at most two levels deep (the property's quantifier): the collected set is the
   specification in the property's words *)
Lemma iface_two_levels priv emb t n : height t <= 2 -> wf_tree t ->
  (In n (iface_names priv emb t) <-> spec_methodb priv emb t n = true).
Proof.
  intros Hh Hwf. rewrite (iface_names_spec priv emb t n Hwf).
  unfold spec_methodb, spec_added. rewrite orb_true_iff, mem_In.
  assert (Hf1 : forall f, In f (t_emb t) -> height f <= 1 /\ wf_tree f).
  { intros f Hf. split; [|apply (wf_emb _ _ Hwf Hf)].
    destruct t as [s own embs]. apply height_le in Hh. rewrite Forall_forall in Hh. auto. }
  pose proof (vis_names_In priv t n) as Hvis.
  assert (Hcnt : visn priv n = true ->
            List.length (filter (fun f => mem n (iface_names priv true f)) (t_emb t)) =
            List.length (filter (fun f => go_ms f n) (t_emb t))).
  { intros Hv. apply length_filter_ext. intros f Hf. destruct (Hf1 f Hf) as [Hhf Hwff].
    destruct (mem n (iface_names priv true f)) eqn:Em.
    + apply mem_In in Em. apply (iface_one priv f n Hhf Hwff) in Em. symmetry. tauto.
    + destruct (go_ms f n) eqn:Eg; [|reflexivity]. exfalso.
      apply mem_false in Em. apply Em. apply (iface_one priv f n Hhf Hwff). auto. }
  split.
  - intros [H|[He [Hno [Hms H1]]]]; [left; assumption|]. right. subst emb.
    assert (Hv : visn priv n = true).
    { assert (Hp : 0 < List.length (filter (fun f => mem n (iface_names priv true f)) (t_emb t)))
        by (unfold exactly_one_field in H1; lia).
      apply length_filter_pos in Hp as [f [Hf Hm]]. apply mem_In in Hm.
      destruct (Hf1 f Hf) as [Hhf Hwff]. apply (iface_one priv f n Hhf Hwff) in Hm. tauto. }
    unfold visn in Hv. rewrite Hv, Hms. simpl.
    assert (Hown : mem n (own_names t) = false).
    { destruct (mem n (own_names t)) eqn:Eo; [|reflexivity]. exfalso. apply Hno. apply Hvis.
      split; [|exact Hv]. apply mem_In. apply (go_ms_selector t n (wf_own _ Hwf) Hms Eo). }
    rewrite Hown. simpl. apply Nat.leb_le.
    unfold exactly_one_field in H1. rewrite <- (Hcnt Hv). lia.
  - intros [H|H]; [left; assumption|]. right.
    rewrite !andb_true_iff in H. destruct H as [He [[[Hv Hms] Hown] Hle]].
    subst emb. apply negb_true_iff in Hown. apply Nat.leb_le in Hle.
    split; [reflexivity|]. split.
    { intros H. apply Hvis in H as [H _]. apply meth_in_own in H. apply mem_In in H. congruence. }
    split; [assumption|].
    destruct (go_ms_through_field t n Hh Hwf Hms Hown) as [f [Hf Hg]].
    assert (Hge : 0 < List.length (filter (fun f => go_ms f n) (t_emb t)))
      by (apply length_filter_pos; eauto).
    unfold exactly_one_field. rewrite (Hcnt Hv). lia.
Qed.

(* ------------------------------------------------------------------ fit and the private filter *)
(* every collected method is in Go's method set of the type (any depth): the rendered
   interface is implemented by the original type as far as names go *)
Lemma iface_names_fit priv emb t n : wf_tree t ->
  In n (iface_names priv emb t) -> go_ms t n = true.
Proof.
  intros Hwf H. apply (iface_names_spec priv emb t n Hwf) in H as [H|[_ [_ [H _]]]]; [|assumption].
  destruct t as [s own embs]. rewrite vis_names_eq in H. apply visn_filter in H as [H _].
  apply go_ms_own; [apply (wf_own _ Hwf)|assumption].
Qed.

Lemma exported_visn n : visn false n = exported n.
Proof. reflexivity. Qed.

(* IncludePrivate adds exactly the unexported ones: without it the result is the exported part *)
Lemma iface_names_private emb : forall t n, wf_tree t ->
  (In n (iface_names false emb t) <-> In n (iface_names true emb t) /\ exported n = true).
Proof.
  induction t as [s own embs IH] using tree_ind'. intros n Hwf.
  rewrite (iface_names_spec false emb _ n Hwf), (iface_names_spec true emb _ n Hwf).
  rewrite !vis_names_eq, !visn_filter. cbn [t_emb]. unfold visn at 1 2 3 4. simpl orb.
  assert (Hcnt : exported n = true ->
     List.length (filter (fun f => mem n (iface_names false emb f)) embs) =
     List.length (filter (fun f => mem n (iface_names true emb f)) embs)).
  { intros He. apply length_filter_ext. intros f Hf.
    rewrite Forall_forall in IH. specialize (IH f Hf n (wf_emb _ _ Hwf Hf)).
    destruct (mem n (iface_names false emb f)) eqn:E1; destruct (mem n (iface_names true emb f)) eqn:E2;
      try reflexivity.
    - apply mem_In in E1. apply IH in E1 as [E1 _]. apply mem_In in E1. congruence.
    - apply mem_In in E2. apply mem_false in E1. exfalso. apply E1. apply IH. auto. }
  unfold exactly_one_field. split.
  - intros [[Hin He]|[Hemb [Hno [Hms H1]]]].
    + split; [left; auto|assumption].
    + assert (He : exported n = true).
      { assert (Hp : 0 < List.length (filter (fun f => mem n (iface_names false emb f)) embs)) by lia.
        apply length_filter_pos in Hp as [f [Hf Hm]]. apply mem_In in Hm.
        rewrite Forall_forall in IH. apply (IH f Hf n (wf_emb _ _ Hwf Hf)) in Hm. tauto. }
      split; [|assumption]. right. split; [assumption|]. split; [tauto|]. split; [assumption|].
      rewrite <- (Hcnt He). assumption.
  - intros [[[Hin _]|[Hemb [Hno [Hms H1]]]] He].
    + left. auto.
    + right. split; [assumption|]. split; [tauto|]. split; [assumption|]. rewrite (Hcnt He). assumption.
Qed.

(* ------------------------------------------------------------------ the pinned code *)
Definition mk (n : string) : meth := M n [] false [] false.
Definition tnode (n : string) (ms : list string) (es : list tree) : tree :=
  Tr (TNamed (Some ("example.com/p", "p")) n []) (map mk ms) es.
(* type S struct{ F; G }; F struct{ X }; G struct{ Y; Z }; X, Y, Z each define Foo *)
Definition tree_S1 : tree :=
  tnode "S" ["Own"] [tnode "F" [] [tnode "X" ["Foo"] []];
                     tnode "G" [] [tnode "Y" ["Foo"] []; tnode "Z" ["Foo"] []]].

Lemma tree_S1_wf : wf_tree tree_S1.
Proof. repeat (constructor; simpl; try tauto); intuition discriminate. Qed.

Lemma iface_orig_witness :
  height tree_S1 = 2 /\ In "Foo" (iface_names_orig false true tree_S1) /\ go_ms tree_S1 "Foo" = false
  /\ spec_methodb false true tree_S1 "Foo" = false /\ ~ In "Foo" (iface_names false true tree_S1).
Proof.
  split; [reflexivity|]. split; [vm_compute; auto|]. split; [reflexivity|]. split; [reflexivity|].
  vm_compute. intros [H|[]]. discriminate.
Qed.

Lemma iface_orig_refuted :
  exists t n, wf_tree t /\ height t <= 2 /\
              In n (iface_names_orig false true t) /\ go_ms t n = false /\
              spec_methodb false true t n = false /\ ~ In n (iface_names false true t).
Proof.
  exists tree_S1, "Foo". destruct iface_orig_witness as [Hh [H1 [H2 [H3 H4]]]].
  split; [exact tree_S1_wf|]. split; [rewrite Hh; auto|]. auto.
Qed.

(* ------------------------------------------------------------------ which declaration is collected *)
Lemma merge_not_ignored : forall s own' x,
  In x (fst (fold_left merge_one_n s ([], own'))) -> ~ In x own'.
Proof.
  intros s own' x Hx Hi.
  set (st := fold_left merge_one_n s ([], own')) in *.
  assert (H2 : nstate st x = Nat.iter (occ x s) nstep (nstate ([], own') x)) by apply merge_state.
  rewrite nstate_init in H2. apply mem_In in Hi. rewrite Hi in H2.
  assert (H3 : Nat.iter (occ x s) nstep 2 = 2).
  { generalize (occ x s). induction n; simpl; [reflexivity|]. rewrite IHn. reflexivity. }
  rewrite H3 in H2. unfold nstate in H2.
  destruct (mem x (snd st)) eqn:E; [|destruct (mem x (fst st)); discriminate].
  apply mem_In in E. revert E. apply merge_disjoint; [intros y []|assumption].
Qed.

(* the declaration the collection takes for a name: an own visible method, or the one taken by
   the embedded field whose interface provides the name *)
Inductive picks (priv emb flt : bool) : tree -> meth -> Prop :=
| P_own s own embs m0 :
    In m0 own -> visible priv m0 = true -> picks priv emb flt (Tr s own embs) m0
| P_emb s own embs f m0 :
    emb = true -> In f embs -> picks priv emb flt f m0 ->
    In (m_name m0) (iface_names_gen priv emb flt f) ->
    ~ In (m_name m0) (vis_names priv (Tr s own embs)) ->
    picks priv emb flt (Tr s own embs) m0.

Lemma picks_visible priv emb flt t m0 : picks priv emb flt t m0 -> visn priv (m_name m0) = true.
Proof.
  induction 1 as [s own embs m0 _ Hv|]; [|assumption].
  unfold visible in Hv. apply andb_true_iff in Hv. tauto.
Qed.

Lemma picks_is_meth priv emb flt t m0 : picks priv emb flt t m0 -> is_meth m0 = true.
Proof.
  induction 1 as [s own embs m0 _ Hv|]; [|assumption].
  unfold visible in Hv. apply andb_true_iff in Hv. tauto.
Qed.

Lemma picks_all priv emb flt t m0 : picks priv emb flt t m0 -> In m0 ((fix all (t : tree) : list meth :=
  match t with Tr _ own embs => (own ++ flat_map all embs)%list end) t).
Proof.
  induction 1 as [s own embs m0 Hin _|s own embs f m0 _ Hf _ IH _ _].
  - apply in_or_app. left. assumption.
  - apply in_or_app. right. apply in_flat_map. exists f. auto.
Qed.

Definition matches (lvl : list tree) (n : string) : list meth :=
  flat_map (fun t => filter (fun m => String.eqb (m_name m) n) (t_own t)) lvl.

Lemma find_level_unfold fuel lvl n :
  find_level fuel lvl n =
  match matches lvl n with
  | m :: _ => Some m
  | [] => match fuel with O => None | S f => find_level f (flat_map t_emb lvl) n end
  end.
Proof. destruct fuel; reflexivity. Qed.

Lemma find_level_nil fuel n : find_level fuel [] n = None.
Proof. induction fuel; simpl; [reflexivity|assumption]. Qed.

Lemma find_level_fuel : forall fuel lvl n k,
  Forall (fun t => height t <= fuel) lvl -> find_level (fuel + k) lvl n = find_level fuel lvl n.
Proof.
  induction fuel as [|f IH]; intros lvl n k H.
  - rewrite (find_level_unfold (0 + k)), (find_level_unfold 0).
    destruct (matches lvl n); [|reflexivity]. destruct k; [reflexivity|]. simpl.
    rewrite (next_level_empty _ H). apply find_level_nil.
  - rewrite (find_level_unfold (S f + k)), (find_level_unfold (S f)).
    destruct (matches lvl n); [|reflexivity]. simpl. apply IH. apply next_level_heights. assumption.
Qed.

Lemma find_two t n : height t <= 2 ->
  find_decl t n =
  match matches [t] n with
  | m :: _ => Some m
  | [] => match matches (t_emb t) n with
          | m :: _ => Some m
          | [] => match matches (flat_map t_emb (t_emb t)) n with m :: _ => Some m | [] => None end
          end
  end.
Proof.
  intros Hh. unfold find_decl.
  replace (find_level (height t) [t] n) with (find_level 2 [t] n).
  2:{ replace 2 with (height t + (2 - height t)) by lia. apply find_level_fuel.
      constructor; [lia|constructor]. }
  rewrite find_level_unfold. destruct (matches [t] n); [|reflexivity].
  cbn [flat_map]. rewrite app_nil_r. rewrite find_level_unfold.
  destruct (matches (t_emb t) n); [|reflexivity]. rewrite find_level_unfold. reflexivity.
Qed.

Lemma filter_name_nil n own : mem n (map m_name own) = false ->
  filter (fun m => String.eqb (m_name m) n) own = [].
Proof.
  induction own as [|m r IH]; simpl; [reflexivity|]. intros H.
  apply orb_false_iff in H as [H1 H2]. rewrite String.eqb_sym, H1. auto.
Qed.

Lemma filter_name_own own m0 : NoDup (map m_name own) -> In m0 own ->
  filter (fun m => String.eqb (m_name m) (m_name m0)) own = [m0].
Proof.
  induction own as [|m r IH]; intros Hnd Hin; [contradiction|].
  simpl in Hnd. inversion Hnd as [|? ? Hnot Hnd']; subst. simpl. destruct Hin as [->|Hin].
  - rewrite String.eqb_refl. f_equal. apply filter_name_nil. apply mem_false. assumption.
  - destruct (String.eqb (m_name m) (m_name m0)) eqn:E.
    + exfalso. apply String.eqb_eq in E. apply Hnot. rewrite E. apply in_map. assumption.
    + apply IH; assumption.
Qed.

Lemma filter_name_nonempty n x : mem n (own_names x) = true ->
  filter (fun m => String.eqb (m_name m) n) (t_own x) <> [].
Proof.
  intros Hm H. unfold own_names in Hm. apply mem_In in Hm. apply in_map_iff in Hm as [m [Hm1 Hm2]].
  assert (Hin : In m (filter (fun m => String.eqb (m_name m) n) (t_own x))).
  { apply filter_In. split; [assumption|]. apply String.eqb_eq. assumption. }
  rewrite H in Hin. contradiction.
Qed.

Lemma matches_zero lvl n : count_level lvl n = 0 -> matches lvl n = [].
Proof.
  induction lvl as [|y r IH]; intros H; [reflexivity|]. unfold matches. simpl.
  change (y :: r) with ([y] ++ r)%list in H. rewrite count_level_app in H.
  assert (Hy : mem n (own_names y) = false).
  { unfold count_level in H. simpl in H. destruct (mem n (own_names y)); [simpl in H; lia|reflexivity]. }
  unfold own_names in Hy. rewrite (filter_name_nil _ _ Hy). simpl. apply IH. lia.
Qed.

Lemma matches_unique lvl n x : count_level lvl n = 1 -> In x lvl -> mem n (own_names x) = true ->
  matches lvl n = filter (fun m => String.eqb (m_name m) n) (t_own x).
Proof.
  induction lvl as [|y r IH]; intros Hc Hin Hm; [contradiction|].
  change (y :: r) with ([y] ++ r)%list in Hc. rewrite count_level_app in Hc.
  unfold matches. simpl. fold (matches r n).
  destruct (mem n (own_names y)) eqn:Ey.
  - assert (Hr : count_level r n = 0).
    { unfold count_level in Hc at 1. simpl in Hc. rewrite Ey in Hc. simpl in Hc. lia. }
    rewrite (matches_zero _ _ Hr), app_nil_r. destruct Hin as [->|Hin]; [reflexivity|].
    rewrite (count_level_zero _ _ _ Hr Hin) in Hm. discriminate.
  - unfold own_names in Ey. rewrite (filter_name_nil _ _ Ey). simpl.
    destruct Hin as [->|Hin]; [unfold own_names in Hm; congruence|].
    apply IH; [|assumption|assumption].
    unfold count_level in Hc at 1. simpl in Hc. unfold own_names in Hc. rewrite Ey in Hc. simpl in Hc. lia.
Qed.

Lemma filter_two {A} (p : A -> bool) l a b :
  In a l -> In b l -> a <> b -> p a = true -> p b = true -> 2 <= List.length (filter p l).
Proof.
  induction l as [|x r IH]; intros Ha Hb Hne Hpa Hpb; [contradiction|]. simpl.
  destruct Ha as [->|Ha]; destruct Hb as [->|Hb].
  - congruence.
  - rewrite Hpa. simpl. assert (0 < List.length (filter p r)) by (apply length_filter_pos; eauto). lia.
  - rewrite Hpb. simpl. assert (0 < List.length (filter p r)) by (apply length_filter_pos; eauto). lia.
  - specialize (IH Ha Hb Hne Hpa Hpb). destruct (p x); simpl; lia.
Qed.

(* embedding at most two levels deep: the declaration collected for a name is the one Go selects —
   the unique shallowest declaration of that name *)
Lemma picks_find_decl priv emb : forall t m0,
  picks priv emb true t m0 -> height t <= 2 -> wf_tree t ->
  In (m_name m0) (iface_names priv emb t) -> find_decl t (m_name m0) = Some m0.
Proof.
  induction 1 as [s own embs m0 Hin Hv|s own embs f m0 He Hf Hp IH Hif Hno]; intros Hh Hwf Hit.
  - rewrite (find_two _ _ Hh). unfold matches. cbn [flat_map t_own]. rewrite app_nil_r.
    rewrite (filter_name_own own m0 (wf_own _ Hwf) Hin). reflexivity.
  - set (n := m_name m0) in *. set (t := Tr s own embs) in *.
    assert (Hvis : visn priv n = true) by apply (picks_visible _ _ _ _ _ Hp).
    change (In n (iface_names priv emb f)) in Hif.
    assert (Hhf : height f <= 1).
    { apply height_le in Hh. rewrite Forall_forall in Hh. auto. }
    assert (Hwff : wf_tree f) by apply (wf_emb t f Hwf Hf).
    specialize (IH (Nat.le_trans _ _ _ Hhf (le_S _ _ (le_n 1))) Hwff Hif).
    apply (iface_names_spec priv emb t n Hwf) in Hit as [Hit|[_ [_ [Hms H1]]]]; [contradiction|].
    subst emb.
    assert (Hown : mem n (own_names t) = false).
    { destruct (mem n (own_names t)) eqn:Eo; [|reflexivity]. exfalso. apply Hno. apply vis_names_In.
      split; [|exact Hvis]. apply mem_In. apply (go_ms_selector t n (wf_own _ Hwf) Hms Eo). }
    assert (Hgf : go_ms f n = true) by apply (iface_names_fit priv true f n Hwff Hif).
    rewrite (go_ms_two t n Hh (wf_own _ Hwf)), Hown in Hms.
    rewrite (go_ms_one f n Hhf (wf_own _ Hwff)) in Hgf.
    rewrite (find_two t n Hh).
    rewrite (find_two f n (Nat.le_trans _ _ _ Hhf (le_S _ _ (le_n 1)))) in IH.
    assert (M0 : matches [t] n = []).
    { apply matches_zero. rewrite (count_level_one _ _ (wf_own _ Hwf)), Hown. reflexivity. }
    rewrite M0. unfold t in Hms, H1 |- *. cbn [t_emb] in Hms, H1 |- *.
    destruct (count_level embs n) as [|[|c]] eqn:E1; [| |discriminate].
    + (* declared two levels down *)
      apply andb_true_iff in Hms as [Hms _]. apply Nat.eqb_eq in Hms.
      assert (Hof : mem n (own_names f) = false) by apply (count_level_zero _ _ _ E1 Hf).
      rewrite Hof in Hgf. apply andb_true_iff in Hgf as [Hgf _]. apply Nat.eqb_eq in Hgf.
      destruct (count_level_pos (t_emb f) n) as [x [Hx Hmx]]; [lia|].
      assert (Hx2 : In x (flat_map t_emb embs)) by (apply in_flat_map; eauto).
      rewrite (matches_zero _ _ E1). rewrite (matches_unique _ _ x Hms Hx2 Hmx).
      assert (Mf : matches [f] n = []).
      { apply matches_zero. rewrite (count_level_one _ _ (wf_own _ Hwff)), Hof. reflexivity. }
      rewrite Mf, (matches_unique _ _ x Hgf Hx Hmx) in IH.
      pose proof (filter_name_nonempty n x Hmx) as Hne.
      destruct (filter (fun m => String.eqb (m_name m) n) (t_own x)); [contradiction|exact IH].
    + (* declared by a field's own type: that field is f *)
      apply mlevel_exists in Hms as [g [Hg Hmg]].
      assert (Hmf : mem n (own_names f) = true).
      { destruct (mem n (own_names f)) eqn:Ef; [reflexivity|]. exfalso.
        assert (Hig : mem n (iface_names priv true g) = true).
        { apply mem_In. assert (Hhg : height g <= 1).
          { apply height_le in Hh. rewrite Forall_forall in Hh. auto. }
          apply (iface_one priv g n Hhg (wf_emb t g Hwf Hg)). split; [assumption|].
          apply go_ms_own; [apply wf_own, (wf_emb t g Hwf Hg)|apply mem_In; assumption]. }
        assert (Hne : f <> g) by (intros ->; apply mem_meth_own in Hmg; congruence).
        pose proof (filter_two (fun f => mem n (iface_names priv true f)) embs f g Hf Hg Hne
                               (proj2 (mem_In _ _) Hif) Hig) as H2.
        unfold exactly_one_field in H1. lia. }
      rewrite (matches_unique _ _ f E1 Hf Hmf).
      assert (Mf : matches [f] n = filter (fun m => String.eqb (m_name m) n) (t_own f)).
      { unfold matches. cbn [flat_map]. apply app_nil_r. }
      rewrite Mf in IH. pose proof (filter_name_nonempty n f Hmf) as Hne.
      destruct (filter (fun m => String.eqb (m_name m) n) (t_own f)); [contradiction|exact IH].
Qed.

(* the selector rule and the selected declaration agree, at any depth: a name is in the method
   set exactly when the unique shallowest selector of that name is a method — so a name whose
   shallowest selector is a struct field is not in the method set *)
Lemma go_ms_selects_level n : forall fuel lvl, Forall wf_tree lvl ->
  ms_level fuel lvl n = true ->
  exists m0, find_level fuel lvl n = Some m0 /\ is_meth m0 = true /\ m_name m0 = n.
Proof.
  induction fuel as [|f IH]; intros lvl Hwf Hms; rewrite ms_level_unfold in Hms;
    rewrite find_level_unfold.
  - destruct (count_level lvl n) as [|[|c]] eqn:Ec; try discriminate.
    apply mlevel_exists in Hms as [x [Hx Hm]].
    rewrite (matches_unique _ _ x Ec Hx (mem_meth_own _ _ Hm)).
    apply mem_In in Hm. unfold meth_names in Hm. apply in_map_iff in Hm as [m [Hn Hin]].
    apply filter_In in Hin as [Hin Hme]. subst n.
    rewrite Forall_forall in Hwf. rewrite (filter_name_own _ m (wf_own _ (Hwf x Hx)) Hin). eauto.
  - destruct (count_level lvl n) as [|[|c]] eqn:Ec; try discriminate.
    + rewrite (matches_zero _ _ Ec). apply IH; [|assumption].
      apply Forall_forall. intros y Hy. apply in_flat_map in Hy as [x [Hx Hy]].
      rewrite Forall_forall in Hwf. apply (wf_emb x y (Hwf x Hx) Hy).
    + apply mlevel_exists in Hms as [x [Hx Hm]].
      rewrite (matches_unique _ _ x Ec Hx (mem_meth_own _ _ Hm)).
      apply mem_In in Hm. unfold meth_names in Hm. apply in_map_iff in Hm as [m [Hn Hin]].
      apply filter_In in Hin as [Hin Hme]. subst n.
      rewrite Forall_forall in Hwf. rewrite (filter_name_own _ m (wf_own _ (Hwf x Hx)) Hin). eauto.
Qed.

Lemma go_ms_selects t n : wf_tree t -> go_ms t n = true ->
  exists m0, find_decl t n = Some m0 /\ is_meth m0 = true /\ m_name m0 = n.
Proof. intros Hwf. apply go_ms_selects_level. constructor; [assumption|constructor]. Qed.

Lemma field_not_in_method_set t n m0 : wf_tree t ->
  find_decl t n = Some m0 -> m_field m0 = true -> go_ms t n = false.
Proof.
  intros Hwf Hf Hfld. destruct (go_ms t n) eqn:E; [|reflexivity].
  destruct (go_ms_selects t n Hwf E) as [m1 [H1 [H2 _]]]. rewrite Hf in H1. injection H1 as ->.
  unfold is_meth in H2. rewrite Hfld in H2. discriminate.
Qed.
