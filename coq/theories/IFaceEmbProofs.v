(* IFaceEmbProofs.v — method collection (interface.go:143-233): the private filter and the
   embedded-method merge, for every embedding tree. *)
From Coq Require Import List Bool String Ascii NArith Arith Lia Permutation.
From GT Require Import IFaceModel IFaceNamesProofs.
Import ListNotations.
Local Open Scope string_scope.

(* ------------------------------------------------------------------ trees *)
Lemma tree_ind' (P : tree -> Prop) :
  (forall s own embs, Forall P embs -> P (Tr s own embs)) -> forall t, P t.
Proof.
  intros H. fix IH 1. intros [s own embs]. apply H.
  induction embs as [|x r IHr]; constructor; [apply IH|exact IHr].
Qed.

(* methods declared by one type have distinct names (Go rejects anything else) *)
Inductive wf_tree : tree -> Prop :=
| WF s own embs : NoDup (map m_name own) -> Forall wf_tree embs -> wf_tree (Tr s own embs).

(* ------------------------------------------------------------------ the merge, by name *)
(* per name the merge is a three-state machine: 0 not seen, 1 in methodsToAdd, 2 ignored *)
Definition nstate (st : list string * list string) (n : string) : nat :=
  if mem n (snd st) then 2 else if mem n (fst st) then 1 else 0.
Definition nstep (k : nat) : nat := match k with 0 => 1 | _ => 2 end.

Definition wf_state (st : list string * list string) : Prop := NoDup (fst st).

Definition merge_one_n := @merge_one string (fun n => n).

Lemma existsb_eqb_mem m l : existsb (fun x => String.eqb x m) l = mem m l.
Proof.
  unfold mem. induction l as [|x r IH]; simpl; [reflexivity|].
  rewrite IH. rewrite (String.eqb_sym x m). reflexivity.
Qed.

Lemma mem_app m a b : mem m (a ++ b)%list = mem m a || mem m b.
Proof. unfold mem. apply existsb_app. Qed.

Lemma mem_filter_neq n m l :
  mem n (filter (fun x => negb (String.eqb x m)) l) = mem n l && negb (String.eqb n m).
Proof.
  induction l as [|x r IH]; simpl; [reflexivity|].
  destruct (String.eqb x m) eqn:E; simpl.
  - rewrite IH. apply String.eqb_eq in E. subst x.
    destruct (String.eqb n m) eqn:E2; simpl.
    + rewrite andb_false_r. reflexivity.
    + rewrite andb_true_r. reflexivity.
  - rewrite IH. destruct (String.eqb n x) eqn:E2; simpl; [|reflexivity].
    apply String.eqb_eq in E2. subst x. rewrite E. reflexivity.
Qed.

Lemma merge_one_state st m n :
  nstate (merge_one_n st m) n = if String.eqb n m then nstep (nstate st n) else nstate st n.
Proof.
  destruct st as [toadd ign]. unfold merge_one_n, merge_one, nstate. cbn [fst snd].
  rewrite existsb_eqb_mem.
  destruct (String.eqb n m) eqn:E.
  - apply String.eqb_eq in E. subst n.
    destruct (mem m ign) eqn:Ei; cbn [fst snd].
    + rewrite Ei. reflexivity.
    + destruct (mem m toadd) eqn:Et; cbn [fst snd].
      * simpl. rewrite String.eqb_refl. reflexivity.
      * rewrite Ei, mem_app, Et. simpl. rewrite String.eqb_refl. reflexivity.
  - destruct (mem m ign) eqn:Ei; cbn [fst snd]; [reflexivity|].
    destruct (mem m toadd) eqn:Et; cbn [fst snd].
    + simpl. rewrite E. simpl. rewrite mem_filter_neq, E. rewrite andb_true_r. reflexivity.
    + rewrite mem_app. simpl. rewrite E. rewrite orb_false_r. reflexivity.
Qed.

Lemma NoDup_filter {A} (p : A -> bool) l : NoDup l -> NoDup (filter p l).
Proof.
  induction 1 as [|x l Hx Hnd IH]; simpl; [constructor|].
  destruct (p x); [|assumption]. constructor; [|assumption].
  intros H. apply filter_In in H. tauto.
Qed.

Lemma merge_one_wf st m : wf_state st -> wf_state (merge_one_n st m).
Proof.
  destruct st as [toadd ign]. unfold wf_state, merge_one_n, merge_one. cbn [fst snd]. intros H.
  destruct (mem m ign); cbn [fst]; [assumption|].
  rewrite existsb_eqb_mem. destruct (mem m toadd) eqn:Et; cbn [fst].
  - apply NoDup_filter. assumption.
  - apply NoDup_mid with (b := []); rewrite ?app_nil_r; [assumption|]. apply mem_false. assumption.
Qed.

Fixpoint occ (n : string) (s : list string) : nat :=
  match s with [] => 0 | x :: r => (if String.eqb n x then 1 else 0) + occ n r end.

Lemma iter_shift {A} (f : A -> A) k x : Nat.iter k f (f x) = f (Nat.iter k f x).
Proof. induction k; simpl; [reflexivity|]. rewrite IHk. reflexivity. Qed.

Lemma merge_state : forall s st n,
  nstate (fold_left merge_one_n s st) n = Nat.iter (occ n s) nstep (nstate st n).
Proof.
  induction s as [|m r IH]; intros st n; simpl; [reflexivity|].
  rewrite IH, merge_one_state. destruct (String.eqb n m); simpl.
  - rewrite iter_shift. reflexivity.
  - reflexivity.
Qed.

Lemma merge_wf : forall s st, wf_state st -> wf_state (fold_left merge_one_n s st).
Proof. induction s; intros st H; simpl; [assumption|]. apply IHs, merge_one_wf, H. Qed.

Lemma iter_nstep k s : Nat.iter k nstep s = match k with 0 => s | 1 => nstep s | _ => 2 end.
Proof.
  destruct k as [|[|k]]; [reflexivity|reflexivity|].
  induction k as [|k IH]; [destruct s as [|[|s]]; reflexivity|].
  change (Nat.iter (S (S (S k))) nstep s) with (nstep (Nat.iter (S (S k)) nstep s)).
  rewrite IH. reflexivity.
Qed.

Lemma occ_app n a b : occ n (a ++ b)%list = occ n a + occ n b.
Proof. induction a; simpl; [reflexivity|]. rewrite IHa. lia. Qed.

Lemma occ_NoDup n l : NoDup l -> occ n l = if mem n l then 1 else 0.
Proof.
  induction 1 as [|x l Hx Hnd IH]; simpl; [reflexivity|].
  rewrite IH. destruct (String.eqb n x) eqn:E; simpl; [|reflexivity].
  apply String.eqb_eq in E. subst x. apply mem_false in Hx. rewrite Hx. reflexivity.
Qed.

Lemma occ_flat_map {A} (N : A -> list string) n (l : list A) :
  (forall f, In f l -> NoDup (N f)) ->
  occ n (flat_map N l) = List.length (filter (fun f => mem n (N f)) l).
Proof.
  induction l as [|f r IH]; intros H; simpl; [reflexivity|].
  rewrite occ_app, IH by (intros g Hg; apply H; right; assumption).
  rewrite occ_NoDup by (apply H; left; reflexivity).
  destruct (mem n (N f)); simpl; lia.
Qed.

Lemma fold_left_flat_map {A B C} (g : C -> B -> C) (h : A -> list B) l a :
  fold_left (fun acc f => fold_left g (h f) acc) l a = fold_left g (flat_map h l) a.
Proof.
  revert a. induction l as [|x r IH]; intros a; simpl; [reflexivity|].
  rewrite IH, fold_left_app. reflexivity.
Qed.

Lemma NoDup_app_intro {A} (a b : list A) :
  NoDup a -> NoDup b -> (forall x, In x a -> In x b -> False) -> NoDup (a ++ b)%list.
Proof.
  induction 1 as [|x a Hx Ha IH]; intros Hb Hd; simpl; [assumption|].
  constructor.
  - intros H. apply in_app_or in H as [H|H]; [auto|]. apply (Hd x); [left; reflexivity|assumption].
  - apply IH; [assumption|]. intros y Hy. apply Hd. right. assumption.
Qed.

(* ------------------------------------------------------------------ iface_names *)
Section Names.
  Variables priv emb ms_filter : bool.
  Notation N := (iface_names_gen priv emb ms_filter).
  Definition visn (n : string) : bool := priv || exported n.

  Lemma iface_names_unfold s own embs :
    N (Tr s own embs) =
    let own' := filter visn (map m_name own) in
    if negb emb then own' else
    (own' ++ filter (fun n => negb ms_filter || go_ms (Tr s own embs) n)
                    (fst (fold_left merge_one_n (flat_map N embs) ([], own'))))%list.
  Proof.
    cbn [iface_names_gen]. destruct (negb emb); [reflexivity|].
    cbv zeta. f_equal. f_equal. f_equal.
    unfold merge. rewrite fold_left_flat_map. reflexivity.
  Qed.

  Definition fields_with (n : string) (embs : list tree) : nat :=
    List.length (filter (fun f => mem n (N f)) embs).

  Lemma nstate_init (own' : list string) n : nstate ([], own') n = if mem n own' then 2 else 0.
  Proof. unfold nstate. cbn [fst snd]. destruct (mem n own'); reflexivity. Qed.

  Lemma mem_nstate_1 st n : wf_state st -> (In n (fst st) /\ ~ In n (snd st)) <-> nstate st n = 1.
  Proof.
    intros _. unfold nstate. destruct (mem n (snd st)) eqn:E1; destruct (mem n (fst st)) eqn:E2.
    - apply mem_In in E1. split; [tauto|discriminate].
    - split; [intros [H _]; apply mem_In in H; congruence|discriminate].
    - apply mem_In in E2. apply mem_false in E1. tauto.
    - split; [intros [H _]; apply mem_In in H; congruence|discriminate].
  Qed.

  (* the merged list never contains an ignored name *)
  Lemma merge_disjoint : forall s st,
    (forall x, In x (fst st) -> ~ In x (snd st)) ->
    forall x, In x (fst (fold_left merge_one_n s st)) -> ~ In x (snd (fold_left merge_one_n s st)).
  Proof.
    induction s as [|m r IH]; intros st H; simpl; [assumption|]. apply IH.
    destruct st as [toadd ign]. unfold merge_one_n, merge_one. cbn [fst snd] in *.
    destruct (mem m ign) eqn:Ei; cbn [fst snd]; [assumption|].
    rewrite existsb_eqb_mem. destruct (mem m toadd) eqn:Et; cbn [fst snd].
    - intros x Hx. apply filter_In in Hx as [Hx Hne]. intros [<-|Hi].
      + rewrite String.eqb_refl in Hne. discriminate.
      + apply (H _ Hx Hi).
    - intros x Hx. apply in_app_or in Hx as [Hx|[<-|[]]]; [auto|]. apply mem_false. assumption.
  Qed.

  Lemma iface_names_char s own embs n :
    NoDup (map m_name own) -> (forall f, In f embs -> NoDup (N f)) ->
    (In n (N (Tr s own embs)) <->
     In n (filter visn (map m_name own)) \/
     (emb = true /\ ~ In n (filter visn (map m_name own)) /\
      (ms_filter = true -> go_ms (Tr s own embs) n = true) /\ fields_with n embs = 1)).
  Proof.
    intros Hown Hembs. rewrite iface_names_unfold. cbv zeta.
    set (own' := filter visn (map m_name own)).
    destruct (negb emb) eqn:Eemb.
    { apply negb_true_iff in Eemb. split; [auto|]. intros [H|[H _]]; [assumption|congruence]. }
    apply negb_false_iff in Eemb.
    set (st := fold_left merge_one_n (flat_map N embs) ([], own')).
    assert (Hwf : wf_state st) by (apply merge_wf; constructor).
    assert (Hdis : forall x, In x (fst st) -> ~ In x (snd st)).
    { apply merge_disjoint. intros x []. }
    assert (Hst : nstate st n = Nat.iter (occ n (flat_map N embs)) nstep (nstate ([], own') n))
      by apply merge_state.
    rewrite (occ_flat_map N n embs Hembs) in Hst. fold (fields_with n embs) in Hst.
    rewrite iter_nstep, nstate_init in Hst.
    rewrite in_app_iff, filter_In.
    split.
    - intros [H|[H Hf]]; [left; assumption|].
      destruct (mem n own') eqn:Eo; [left; apply mem_In; assumption|]. right.
      assert (H1 : nstate st n = 1) by (apply mem_nstate_1; auto).
      split; [exact Eemb|]. split; [apply mem_false; assumption|]. split.
      + intros ->. simpl in Hf. assumption.
      + destruct (fields_with n embs) as [|[|k]]; simpl in Hst; congruence.
    - intros [H|[_ [Hno [Hms H1]]]]; [left; assumption|]. right.
      apply mem_false in Hno. rewrite Hno, H1 in Hst. simpl in Hst.
      apply mem_nstate_1 in Hst as [Hin _]; [|assumption]. split; [assumption|].
      destruct ms_filter; simpl; auto.
  Qed.

  Lemma iface_names_NoDup : forall t, wf_tree t -> NoDup (N t).
  Proof.
    induction t as [s own embs IH] using tree_ind'. intros Hwf. inversion Hwf as [? ? ? Hown Hembs]; subst.
    rewrite iface_names_unfold. cbv zeta.
    assert (Hvis : NoDup (filter visn (map m_name own))) by (apply NoDup_filter; assumption).
    destruct (negb emb); [assumption|].
    set (st := fold_left merge_one_n (flat_map N embs) ([], filter visn (map m_name own))).
    assert (Hwfs : wf_state st) by (apply merge_wf; constructor).
    assert (Hsub : forall x, In x (fst st) -> ~ In x (filter visn (map m_name own))).
    { intros x Hx Hi.
      assert (H2 : nstate st x = Nat.iter (occ x (flat_map N embs)) nstep
                                         (nstate ([], filter visn (map m_name own)) x))
        by apply merge_state.
      rewrite nstate_init in H2. apply mem_In in Hi. rewrite Hi in H2.
      assert (H3 : Nat.iter (occ x (flat_map N embs)) nstep 2 = 2).
      { generalize (occ x (flat_map N embs)). induction n; simpl; [reflexivity|]. rewrite IHn. reflexivity. }
      rewrite H3 in H2. unfold nstate in H2.
      destruct (mem x (snd st)) eqn:E; [|destruct (mem x (fst st)); discriminate].
      apply mem_In in E. revert E. apply merge_disjoint; [intros y []|assumption]. }
    apply NoDup_app_intro; [assumption|apply NoDup_filter; exact Hwfs|].
    intros x Hx Hy. apply filter_In in Hy as [Hy _]. apply (Hsub _ Hy Hx).
  Qed.
End Names.
