(* LogCtxProofs.v — proofs about LogCtxModel: the repaired package log refines the abstract
   per-holder (fields, level) specification for every operation sequence; the pinned code
   does not (witnesses).  Concurrent part: instance of Base/LogConcProofs.                   *)
From Coq Require Import ZArith List Bool Lia Permutation.
From GT Require Import Base.LogConc.
From GT Require Import Base.LogConcProofs.
From GT Require Import Base.LogConcCfg.
From GT Require Import Base.LogConcCfgProofs.
From GT Require Import LogCtxModel.
Import ListNotations.
Local Open Scope Z_scope.

(* ------------------------------------------------------------------ zap facts *)
Lemma write_nil : forall c, write c [] = cfields c.
Proof.
  induction c as [m fs | c IH m]; cbn [write cfields]; [apply app_nil_r | exact IH].
Qed.

Lemma emit_abs : forall c l, emit c l = semit (abs c) l.
Proof.
  intros c l. unfold emit, semit, check, abs. cbn [fst snd].
  assert (E : enabled c l = (clevel c <=? l)) by (destruct c; reflexivity).
  rewrite E. destruct (clevel c <=? l); [|reflexivity].
  cbn [map]. rewrite write_nil. reflexivity.
Qed.

Lemma probe_abs : forall c, probe c = sprobe (abs c).
Proof. intros c. unfold probe, sprobe. apply map_ext. intros l. apply emit_abs. Qed.

Lemma cfields_core_with : forall c fs, cfields (core_with c fs) = cfields c ++ fs.
Proof. induction c as [m f | c IH m]; intros fs; cbn; [reflexivity | apply IH]. Qed.

Lemma clevel_core_with : forall c fs, clevel (core_with c fs) = clevel c.
Proof. destruct c; reflexivity. Qed.

Lemma abs_logger_with : forall c fs, abs (logger_with core_with c fs) = add_fields fs (abs c).
Proof.
  intros c fs. unfold logger_with, add_fields, abs. cbn [fst snd].
  destruct fs as [|f fs]; cbn [is_nil].
  - rewrite app_nil_r. reflexivity.
  - rewrite cfields_core_with, clevel_core_with. reflexivity.
Qed.

Lemma abs_custom_level : forall c l, abs (custom_level c l) = set_level l (abs c).
Proof. reflexivity. Qed.

(* ------------------------------------------------------------------ the wrapper core, method by method *)
(* Enabled: only the receiver's own threshold counts *)
Lemma enabled_level : forall c l, enabled c l = (core_level c <=? l).
Proof. destruct c; reflexivity. Qed.

(* Check: the wrapper adds ITSELF (not the wrapped core) iff its own threshold admits the entry *)
Lemma check_wrap : forall c m l, check (Wrap c m) l = if m <=? l then [Wrap c m] else [].
Proof. reflexivity. Qed.

(* Write / Sync are promoted from the embedded core: they reach the innermost core, whatever
   thresholds lie in between *)
Lemma write_sink : forall c extra, write c extra = write (sink c) extra.
Proof. induction c as [m fs | c IH m]; intros extra; cbn; [reflexivity | apply IH]. Qed.

Lemma sink_base : forall c, exists m fs, sink c = Base m fs.
Proof. induction c as [m fs | c IH m]; cbn; [eexists; eexists; reflexivity | exact IH]. Qed.

(* With keeps every wrapper and appends to the innermost core *)
Lemma sink_core_with : forall c fs, sink (core_with c fs) = core_with (sink c) fs.
Proof. induction c as [m f | c IH m]; intros fs; cbn; [reflexivity | apply IH]. Qed.

Lemma core_with_wrap_all : forall ms c fs, core_with (wrap_all c ms) fs = wrap_all (core_with c fs) ms.
Proof.
  unfold wrap_all. induction ms as [|m ms IH]; intros c fs; cbn; [reflexivity|]. rewrite IH. reflexivity.
Qed.

Lemma cfields_wrap_all : forall ms c, cfields (wrap_all c ms) = cfields c.
Proof. unfold wrap_all. induction ms as [|m ms IH]; intros c; cbn; [reflexivity | rewrite IH; reflexivity]. Qed.

Lemma last_cons_default : forall {A} (l : list A) x d d', last (x :: l) d = last (x :: l) d'.
Proof.
  intros A l. induction l as [|y l IH]; intros x d d'; [reflexivity|].
  change (last (x :: y :: l) d) with (last (y :: l) d).
  change (last (x :: y :: l) d') with (last (y :: l) d'). apply IH.
Qed.

Lemma clevel_wrap_all : forall ms c, clevel (wrap_all c ms) = last ms (clevel c).
Proof.
  unfold wrap_all. induction ms as [|m ms IH]; intros c; [reflexivity|].
  cbn [fold_left]. rewrite IH. cbn [clevel]. destruct ms as [|l ms]; [reflexivity|].
  change (last (m :: l :: ms) (clevel c)) with (last (l :: ms) (clevel c)). apply last_cons_default.
Qed.

(* level filtering through any nest of wrappers: exactly the most recent SetLevel counts - the
   thresholds underneath (and the base core's own) neither block nor admit anything *)
Lemma emit_wrap_all : forall c ms l,
  emit (wrap_all c ms) l = semit (cfields c, last ms (clevel c)) l.
Proof.
  intros c ms l. rewrite emit_abs. unfold abs. rewrite cfields_wrap_all, clevel_wrap_all. reflexivity.
Qed.

Lemma emit_wrap : forall c m l, emit (Wrap c m) l = if m <=? l then [cfields c] else [].
Proof. intros c m l. rewrite emit_abs. reflexivity. Qed.

(* raise after lower: the lower threshold underneath no longer lets anything through *)
Lemma raise_after_lower : forall c lo hi l, l < hi -> emit (Wrap (Wrap c lo) hi) l = [].
Proof. intros c lo hi l H. rewrite emit_wrap. apply Z.leb_gt in H. rewrite H. reflexivity. Qed.

(* lower after raise: the higher threshold underneath no longer blocks *)
Lemma lower_after_raise : forall c lo hi l, lo <= l -> emit (Wrap (Wrap c hi) lo) l = [cfields c].
Proof. intros c lo hi l H. rewrite emit_wrap. apply Z.leb_le in H. rewrite H. reflexivity. Qed.

(* fields accumulate in call order, duplicates included (zap does not deduplicate keys) *)
Lemma with_order : forall c fs1 fs2,
  cfields (core_with (core_with c fs1) fs2) = cfields c ++ fs1 ++ fs2.
Proof. intros. rewrite !cfields_core_with, app_assoc. reflexivity. Qed.

Lemma with_count : forall c fs k,
  count_occ N.eq_dec (cfields (core_with c fs)) k
  = (count_occ N.eq_dec (cfields c) k + count_occ N.eq_dec fs k)%nat.
Proof. intros. rewrite cfields_core_with. apply count_occ_app. Qed.

(* ------------------------------------------------------------------ simulation *)
(* the model state is the spec state seen through [abs], holder by holder *)
Definition sim (st : state) (ss : sstate) : Prop :=
  abs (glob st) = sglob ss /\ map abs (store st) = sstore ss /\ ctxs st = sctxs ss.

Lemma nth_map_abs : forall (l : list core) h d, abs (nth h l d) = nth h (map abs l) (abs d).
Proof. intros l h d. symmetry. apply map_nth. Qed.

Lemma map_upd : forall {A B} (f : A -> B) n x l, map f (upd n x l) = upd n (f x) (map f l).
Proof.
  intros A B f n x l. revert n. induction l as [|a l IH]; intros [|n]; cbn; try reflexivity.
  f_equal. apply IH.
Qed.

Lemma sim_logger_of : forall st ss c, sim st ss -> abs (logger_of st c) = slogger_of ss c.
Proof.
  intros st ss c (Hg & Hs & Hc). unfold logger_of, slogger_of, holder_of, sholder_of.
  rewrite Hc. destruct (nth c (sctxs ss) None) as [h|]; [|exact Hg].
  rewrite nth_map_abs, Hs, Hg. reflexivity.
Qed.

Lemma sim_fresh : forall st ss c x, sim st ss -> abs c = x -> sim (fresh st c) (sfresh ss x).
Proof.
  intros st ss c x (Hg & Hs & Hc) Hx. unfold sim, fresh, sfresh. cbn.
  split; [exact Hg | split; [rewrite map_app, Hs; cbn; rewrite Hx; reflexivity |]].
  rewrite Hc. rewrite <- Hs, map_length. reflexivity.
Qed.

Lemma sim_update : forall st ss c f g, sim st ss -> (forall k, abs (f k) = g (abs k)) ->
  sim (update st c f) (supdate ss c g).
Proof.
  intros st ss c f g Hsim Hfg. pose proof Hsim as (Hg & Hs & Hc).
  unfold update, supdate, holder_of, sholder_of. rewrite Hc.
  destruct (nth c (sctxs ss) None) as [h|].
  - unfold sim. cbn. split; [exact Hg | split; [|reflexivity]].
    rewrite map_upd, Hfg, nth_map_abs, Hs, Hg. reflexivity.
  - apply sim_fresh; [exact Hsim|]. rewrite Hfg, Hg. reflexivity.
Qed.

Lemma sim_step : forall st ss o, sim st ss -> sim (step core_with st o) (sstep ss o).
Proof.
  intros st ss o Hsim. pose proof Hsim as (Hg & Hs & Hc).
  destruct o as [c fs | c fs | c fs | c l | c | c | g]; cbn [step sstep].
  - apply sim_fresh; [exact Hsim|]. rewrite abs_logger_with, Hg. reflexivity.
  - apply sim_fresh; [exact Hsim|]. rewrite abs_logger_with, (sim_logger_of st ss c Hsim). reflexivity.
  - apply sim_update; [exact Hsim|]. intros k. apply abs_logger_with.
  - apply sim_update; [exact Hsim|]. intros k. apply abs_custom_level.
  - apply sim_update; [exact Hsim|]. intros k. apply abs_custom_level.
  - unfold sim. cbn. split; [exact Hg | split; [exact Hs |]].
    unfold holder_of, sholder_of. rewrite Hc. reflexivity.
  - unfold sim. cbn. split; [reflexivity | split; [exact Hs | rewrite Hc; reflexivity]].
Qed.

Lemma sim_init : forall g, sim (init g) (sinit (abs g)).
Proof. intros g. unfold sim. cbn. repeat split. Qed.

Lemma sim_fold : forall ops st ss, sim st ss ->
  sim (fold_left (step core_with) ops st) (fold_left sstep ops ss).
Proof.
  induction ops as [|o ops IH]; intros st ss H; cbn; [exact H|].
  apply IH. apply sim_step. exact H.
Qed.

Lemma sim_run : forall g ops, sim (run core_with g ops) (srun (abs g) ops).
Proof. intros g ops. apply sim_fold. apply sim_init. Qed.

(* the property, sequential part: after ANY operation sequence, a log call through ANY
   context at ANY level captures exactly what the specification says *)
Lemma seq_refines : forall g ops c l,
  emit (log_of (run core_with g ops) c) l = semit (slogger_of (srun (abs g) ops) c) l.
Proof.
  intros g ops c l. rewrite emit_abs. unfold log_of.
  rewrite (sim_logger_of _ _ c (sim_run g ops)). reflexivity.
Qed.

(* the same for the whole observation table the harness records *)
Lemma sim_row : forall st ss, sim st ss -> row st = srow ss.
Proof.
  intros st ss Hsim. pose proof Hsim as (_ & _ & Hc). unfold row, srow. rewrite Hc.
  apply map_ext. intros c. rewrite probe_abs. unfold log_of.
  rewrite (sim_logger_of _ _ c Hsim). reflexivity.
Qed.

Lemma run_obs_refines_from : forall ops st ss, sim st ss ->
  run_obs core_with st ops = srun_obs ss ops.
Proof.
  induction ops as [|o ops IH]; intros st ss H; cbn [run_obs srun_obs].
  - rewrite (sim_row _ _ H). reflexivity.
  - rewrite (sim_row _ _ H). f_equal. apply IH. apply sim_step. exact H.
Qed.

Lemma run_obs_refines : forall g ops,
  run_obs core_with (init g) ops = srun_obs (sinit (abs g)) ops.
Proof. intros g ops. apply run_obs_refines_from. apply sim_init. Qed.

(* ------------------------------------------------------------------ holder-less contexts, InitLogger *)
(* every holder index a context carries exists *)
Definition wf (st : state) : Prop :=
  forall c h, nth c (ctxs st) None = Some h -> (h < length (store st))%nat.

Lemma nth_app_one : forall {A} (l : list A) x d c,
  nth c (l ++ [x]) d = if (c <? length l)%nat then nth c l d else if (c =? length l)%nat then x else d.
Proof.
  intros A l x d c. destruct (c <? length l)%nat eqn:E.
  - apply Nat.ltb_lt in E. apply app_nth1. exact E.
  - apply Nat.ltb_ge in E. rewrite app_nth2 by exact E.
    destruct (c =? length l)%nat eqn:E2.
    + apply Nat.eqb_eq in E2. rewrite E2, Nat.sub_diag. reflexivity.
    + apply Nat.eqb_neq in E2. destruct (c - length l)%nat as [|[|k]] eqn:E3; try reflexivity; lia.
Qed.

Lemma upd_length : forall {A} n (x : A) l, length (upd n x l) = length l.
Proof. intros A n x l. revert n. induction l as [|a l IH]; intros [|n]; cbn; try reflexivity. rewrite IH. reflexivity. Qed.

Lemma wf_fresh : forall st c, wf st -> wf (fresh st c).
Proof.
  intros st c H c' h Hc. unfold fresh in *. cbn in *. rewrite app_length. cbn.
  rewrite nth_app_one in Hc. destruct (c' <? length (ctxs st))%nat.
  - specialize (H _ _ Hc). lia.
  - destruct (c' =? length (ctxs st))%nat; [injection Hc as <-; lia | discriminate].
Qed.

Lemma wf_step : forall st o, wf st -> wf (step core_with st o).
Proof.
  intros st o H.
  assert (Hupd : forall c f, wf (update st c f)).
  { intros c f. unfold update. destruct (holder_of st c) as [h|] eqn:Eh; [|apply wf_fresh; exact H].
    intros c' h' Hc. cbn in *. rewrite upd_length. rewrite nth_app_one in Hc.
    destruct (c' <? length (ctxs st))%nat; [apply (H _ _ Hc)|].
    destruct (c' =? length (ctxs st))%nat; [injection Hc as <-; apply (H c h Eh) | discriminate]. }
  destruct o as [c fs | c fs | c fs | c l | c | c | g]; cbn [step]; try apply wf_fresh; try apply Hupd; try exact H.
  - intros c' h' Hc. cbn in *. rewrite nth_app_one in Hc.
    destruct (c' <? length (ctxs st))%nat; [apply (H _ _ Hc)|].
    destruct (c' =? length (ctxs st))%nat; [apply (H c h' Hc) | discriminate].
  - intros c' h' Hc. cbn in *. rewrite nth_app_one in Hc.
    destruct (c' <? length (ctxs st))%nat; [apply (H _ _ Hc)|].
    destruct (c' =? length (ctxs st))%nat; discriminate.
Qed.

Lemma wf_run : forall g ops, wf (run core_with g ops).
Proof.
  intros g ops. unfold run.
  assert (G : forall ops st, wf st -> wf (fold_left (step core_with) ops st)).
  { induction ops0 as [|o ops0 IH]; intros st H; cbn; [exact H | apply IH, wf_step, H]. }
  apply G. intros c h Hc. cbn in Hc. destruct c as [|[|c]]; discriminate.
Qed.

(* Log(ctx) on a context without a holder is the global logger of the moment *)
Lemma log_fallback : forall st c, holder_of st c = None -> log_of st c = glob st.
Proof. intros st c H. unfold log_of, logger_of. rewrite H. reflexivity. Qed.

(* WithFields / SetLevel / EnableDebug through a holder-less context: the global logger is not
   touched, no existing context sees anything of it, and only the RETURNED context carries the
   derived logger (a fresh holder) *)
Lemma default_holder_isolated : forall g ops c f,
  let st := run core_with g ops in
  holder_of st c = None ->
  glob (update st c f) = glob st
  /\ (forall c', (c' < length (ctxs st))%nat -> logger_of (update st c f) c' = logger_of st c')
  /\ logger_of (update st c f) (length (ctxs st)) = f (glob st).
Proof.
  intros g ops c f st Hc. pose proof (wf_run g ops) as Hwf. fold st in Hwf.
  unfold update. rewrite Hc. unfold fresh. split; [reflexivity|]. split.
  - intros c' Hlt. unfold logger_of, holder_of. cbn.
    rewrite nth_app_one. apply Nat.ltb_lt in Hlt as Hb. rewrite Hb.
    destruct (nth c' (ctxs st) None) as [h|] eqn:Eh; [|reflexivity].
    apply app_nth1. apply (Hwf _ _ Eh).
  - unfold logger_of, holder_of. cbn. rewrite nth_app_one, Nat.ltb_irrefl, Nat.eqb_refl.
    rewrite nth_app_one, Nat.ltb_irrefl, Nat.eqb_refl. reflexivity.
Qed.

(* InitLogger never looks at the context it is given: whatever holder (fields, level) that
   context carries is ignored, the new logger is the global one plus the fields *)
Lemma init_ignores_context : forall st c fs,
  log_of (step core_with st (OInit c fs)) (length (ctxs st)) = logger_with core_with (glob st) fs.
Proof.
  intros st c fs. cbn [step]. unfold log_of, logger_of, holder_of, fresh. cbn.
  rewrite nth_app_one, Nat.ltb_irrefl, Nat.eqb_refl.
  rewrite nth_app_one, Nat.ltb_irrefl, Nat.eqb_refl. reflexivity.
Qed.

(* ------------------------------------------------------------------ what the spec says *)
(* the specification itself, spelled out per operation (sanity of the spec):
   an operation through a context whose holder is h' <> h, or that forks a new holder,
   leaves holder h untouched; WithFields through any context sharing h appends.          *)
Lemma upd_nth_other : forall {A} (l : list A) i j x d, i <> j -> nth j (upd i x l) d = nth j l d.
Proof.
  intros A l. induction l as [|a l IH]; intros [|i] [|j] x d Hne; cbn; try reflexivity.
  - congruence.
  - apply IH. congruence.
Qed.

Lemma upd_nth_same : forall {A} (l : list A) i x d, (i < length l)%nat -> nth i (upd i x l) d = x.
Proof.
  intros A l. induction l as [|a l IH]; intros [|i] x d Hlt; cbn in *; try lia; try reflexivity.
  apply IH. lia.
Qed.

Definition targets (ss : sstate) (o : op) : option nat :=
  match o with
  | OWith c _ | OSetLevel c _ | OEnableDebug c => sholder_of ss c
  | _ => None
  end.

(* holders are never touched by operations aimed elsewhere, nor by forks *)
Lemma spec_frame : forall ss o h, (h < length (sstore ss))%nat -> targets ss o <> Some h ->
  nth h (sstore (sstep ss o)) (sglob ss) = nth h (sstore ss) (sglob ss).
Proof.
  intros ss o h Hlt Ht.
  assert (Hfresh : forall x, nth h (sstore (sfresh ss x)) (sglob ss) = nth h (sstore ss) (sglob ss)).
  { intros x. unfold sfresh. cbn. apply app_nth1. exact Hlt. }
  assert (Hupd : forall c f, sholder_of ss c <> Some h ->
            nth h (sstore (supdate ss c f)) (sglob ss) = nth h (sstore ss) (sglob ss)).
  { intros c f Hc. unfold supdate. destruct (sholder_of ss c) as [h'|]; [|apply Hfresh].
    cbn. apply upd_nth_other. congruence. }
  destruct o; cbn [sstep targets] in *; auto.
Qed.

Lemma spec_with : forall ss c fs h, sholder_of ss c = Some h -> (h < length (sstore ss))%nat ->
  nth h (sstore (sstep ss (OWith c fs))) (sglob ss)
  = (fst (nth h (sstore ss) (sglob ss)) ++ fs, snd (nth h (sstore ss) (sglob ss))).
Proof.
  intros ss c fs h Hc Hlt. cbn [sstep]. unfold supdate. rewrite Hc. cbn.
  rewrite upd_nth_same by exact Hlt. reflexivity.
Qed.

Lemma spec_setlevel : forall ss c l h, sholder_of ss c = Some h -> (h < length (sstore ss))%nat ->
  nth h (sstore (sstep ss (OSetLevel c l))) (sglob ss)
  = (fst (nth h (sstore ss) (sglob ss)), l).
Proof.
  intros ss c l h Hc Hlt. cbn [sstep]. unfold supdate. rewrite Hc. cbn.
  rewrite upd_nth_same by exact Hlt. reflexivity.
Qed.

(* a fork starts from the parent's fields and level and adds its own *)
Lemma spec_child : forall ss c fs,
  slogger_of (sstep ss (OChild c fs)) (length (sctxs ss))
  = (fst (slogger_of ss c) ++ fs, snd (slogger_of ss c)).
Proof.
  intros ss c fs. cbn [sstep]. unfold sfresh, slogger_of at 1, sholder_of. cbn.
  rewrite app_nth2 by lia. rewrite Nat.sub_diag. cbn.
  rewrite app_nth2 by lia. rewrite Nat.sub_diag. reflexivity.
Qed.

(* ------------------------------------------------------------------ concurrent part *)
Lemma cprog_shape : forall o,
  cprog o = if cop_is_read o then [IRead] else [ILoad; ICas (cfn o) 0].
Proof. destruct o; reflexivity. Qed.

Lemma cident_pure : forall f o v, cident f o = true -> cpure core_with f o v = v.
Proof.
  intros [| |] o v H; cbn in *; [|discriminate|reflexivity].
  unfold logger_with. rewrite H. reflexivity.
Qed.

Lemma cread_pure : forall o v, cop_is_read o = true -> cpure core_with (cfn o) o v = v.
Proof. intros [fs | l | fs] v H; cbn in *; try discriminate. reflexivity. Qed.

Definition capply (c : core) (o : cop) : core := cpure core_with (cfn o) o c.

Lemma abs_capply : forall c o, abs (capply c o) = sapply (abs c) o.
Proof.
  intros c [fs | l | fs]; unfold capply; cbn [cfn cpure cop_fields cop_level sapply].
  - apply abs_logger_with.
  - apply abs_custom_level.
  - reflexivity.
Qed.

Lemma abs_fold_capply : forall tr c, abs (fold_left capply tr c) = fold_left sapply tr (abs c).
Proof.
  induction tr as [|o tr IH]; intros c; cbn; [reflexivity|]. rewrite IH, abs_capply. reflexivity.
Qed.

Lemma fold_sapply : forall tr x,
  fold_left sapply tr x = (fst x ++ flat_map cop_fields tr, lin_level tr (snd x)).
Proof.
  induction tr as [|o tr IH]; intros [fs l]; cbn [fold_left flat_map].
  - cbn. rewrite app_nil_r. reflexivity.
  - rewrite IH. destruct o as [gs | l' | gs]; cbn; rewrite <- ?app_assoc, ?app_nil_r; reflexivity.
Qed.

Lemma flat_map_perm : forall {A B} (f : A -> list B) l l',
  Permutation l l' -> Permutation (flat_map f l) (flat_map f l').
Proof.
  intros A B f l l' H. induction H; cbn.
  - constructor.
  - apply Permutation_app_head. assumption.
  - rewrite !app_assoc. apply Permutation_app_tail. apply Permutation_app_comm.
  - eapply Permutation_trans; eassumption.
Qed.

(* any number of goroutines, any operation lists, any schedule: when all have returned the
   shared logger is the sequential application of ALL operations in the order of their
   successful CompareAndSwaps, which respects every goroutine's program order *)
Lemma conc_linearisable : forall c0 progs sched st tr,
  crun (cinit c0 progs) sched = (st, tr) -> all_returned cop core st = true ->
  Permutation (untag cop tr) (concat progs)
  /\ (forall t, ops_of cop t tr = nth t progs [])
  /\ abs (snd (m_cell st)) = fold_left sapply (untag cop tr) (abs c0).
Proof.
  intros c0 progs sched st tr Hrun Hret.
  destruct (run_linearisable cop core fn (cpure core_with) cident cprog cfn cop_is_read cprog_shape cident_pure cread_pure
              c0 progs sched st tr Hrun Hret) as (Hp & Hc & Ho).
  split; [exact Hp | split; [exact Ho|]]. rewrite Hc. apply abs_fold_capply.
Qed.

(* no field lost, no level change lost *)
Lemma conc_nothing_lost : forall c0 progs sched st tr,
  crun (cinit c0 progs) sched = (st, tr) -> all_returned cop core st = true ->
  (exists added, Permutation added (flat_map cop_fields (concat progs))
                 /\ cfields (snd (m_cell st)) = cfields c0 ++ added)
  /\ Permutation (untag cop tr) (concat progs)
  /\ clevel (snd (m_cell st)) = lin_level (untag cop tr) (clevel c0)
  /\ forall l, emit (snd (m_cell st)) l
               = semit (cfields c0 ++ flat_map cop_fields (untag cop tr),
                        lin_level (untag cop tr) (clevel c0)) l.
Proof.
  intros c0 progs sched st tr Hrun Hret.
  destruct (conc_linearisable c0 progs sched st tr Hrun Hret) as (Hp & _ & Habs).
  rewrite fold_sapply in Habs. unfold abs in Habs at 1. cbn [fst snd abs] in Habs.
  injection Habs as Hf Hl.
  split; [|split; [exact Hp | split; [exact Hl|]]].
  - exists (flat_map cop_fields (untag cop tr)). split; [apply flat_map_perm; exact Hp | exact Hf].
  - intros l. rewrite emit_abs. unfold abs. rewrite Hf, Hl. reflexivity.
Qed.

(* while goroutines are still running: the logger is the application of the operations
   linearised so far, each requested and none twice *)
Lemma conc_prefix : forall c0 progs sched st tr,
  crun (cinit c0 progs) sched = (st, tr) ->
  abs (snd (m_cell st)) = fold_left sapply (untag cop tr) (abs c0)
  /\ exists rest, Permutation (untag cop tr ++ rest) (concat progs).
Proof.
  intros c0 progs sched st tr Hrun.
  destruct (run_cell cop core fn (cpure core_with) cident cprog cfn cop_is_read cprog_shape cident_pure cread_pure
              c0 progs sched st tr Hrun) as (Hc & Hp & _).
  split; [rewrite Hc; apply abs_fold_capply | eexists; exact Hp].
Qed.

(* ------------------------------------------------------------------ ChildLogger under concurrency *)
Lemma nth_error_split : forall {A} (l : list A) i x, nth_error l i = Some x ->
  l = firstn i l ++ x :: skipn (S i) l.
Proof.
  intros A l. induction l as [|a l IH]; intros [|i] x H; cbn in *; try discriminate.
  - injection H as ->. reflexivity.
  - f_equal. apply IH. exact H.
Qed.

Lemma firstn_S_nth : forall {A} (l : list A) i x, nth_error l i = Some x ->
  firstn (S i) l = firstn i l ++ [x].
Proof.
  intros A l. induction l as [|a l IH]; intros [|i] x H; cbn in *; try discriminate.
  - injection H as ->. reflexivity.
  - f_equal. apply IH. exact H.
Qed.

Lemma untag_firstn : forall i (tr : list (nat * cop)), untag cop (firstn i tr) = firstn i (untag cop tr).
Proof. intros i tr. unfold untag. symmetry. apply firstn_map. Qed.

Lemma ops_of_app' : forall t (a b : list (nat * cop)), ops_of cop t (a ++ b) = ops_of cop t a ++ ops_of cop t b.
Proof. intros t a b. unfold ops_of. rewrite filter_app, map_app. reflexivity. Qed.

(* a ChildLogger call that runs concurrently with WithFields / SetLevel on the same holder
   starts from EXACTLY the sequential state after a prefix of the linearisation: the logger it
   loads is the specification applied to the operations linearised before its Load ... *)
Lemma conc_child_sees_prefix : forall c0 progs sched st tr i t fs,
  crun (cinit c0 progs) sched = (st, tr) -> nth_error tr i = Some (t, CChild fs) ->
  exists seen, nth_error (crun_vals (cinit c0 progs) sched) i = Some seen
    /\ abs seen = fold_left sapply (untag cop (firstn i tr)) (abs c0)
    /\ forall l, emit (logger_with core_with seen fs) l
                 = semit (add_fields fs (fold_left sapply (untag cop (firstn i tr)) (abs c0))) l.
Proof.
  intros c0 progs sched st tr i t fs Hrun Hi.
  destruct (run_vals_spec cop core fn (cpure core_with) cident cprog cfn cop_is_read
              cprog_shape cident_pure cread_pure c0 progs sched st tr Hrun) as (Hlen & Hnth).
  assert (Hlt : (i < length tr)%nat) by (apply nth_error_Some; rewrite Hi; discriminate).
  exists (nth i (crun_vals (cinit c0 progs) sched) c0).
  assert (Habs : abs (nth i (crun_vals (cinit c0 progs) sched) c0)
                 = fold_left sapply (untag cop (firstn i tr)) (abs c0)).
  { unfold crun_vals, cinit. rewrite (Hnth i Hlt).
    assert (Hu : nth_error (untag cop tr) i = Some (CChild fs)).
    { unfold untag. rewrite nth_error_map, Hi. reflexivity. }
    rewrite (firstn_S_nth _ _ _ Hu), fold_left_app. cbn [fold_left].
    change (apply_op cop core fn (cpure core_with) cfn) with capply.
    unfold capply at 1. cbn [cfn cpure]. rewrite abs_fold_capply, untag_firstn. reflexivity. }
  split; [|split; [exact Habs|]].
  - apply nth_error_nth'. unfold crun_vals, cinit. rewrite Hlen. exact Hlt.
  - intros l. rewrite emit_abs, abs_logger_with, Habs. reflexivity.
Qed.

(* ... and that prefix contains every earlier operation of its own goroutine and none of the
   later ones *)
Lemma conc_child_program_order : forall c0 progs sched st tr i t fs,
  crun (cinit c0 progs) sched = (st, tr) -> all_returned cop core st = true ->
  nth_error tr i = Some (t, CChild fs) ->
  nth t progs [] = ops_of cop t (firstn i tr) ++ CChild fs :: ops_of cop t (skipn (S i) tr).
Proof.
  intros c0 progs sched st tr i t fs Hrun Hret Hi.
  destruct (conc_linearisable c0 progs sched st tr Hrun Hret) as (_ & Ho & _).
  rewrite <- (Ho t). rewrite (nth_error_split tr i _ Hi) at 1.
  rewrite ops_of_app'. f_equal. unfold ops_of at 1. cbn. rewrite Nat.eqb_refl. reflexivity.
Qed.

(* ------------------------------------------------------------------ the translator tie *)
(* The graphs regenerated from the source need not LOOK like the hand-written programs: if the
   bisimulation check passes for every operation, the machine running the regenerated graphs
   and the machine of the theorems above are indistinguishable under every schedule. *)
Lemma fn_eqb_eq : forall f g, fn_eqb f g = true -> f = g.
Proof. intros [| |] [| |] H; try discriminate H; reflexivity. Qed.

Lemma cprog_wf : forall o i f k, nth_error (cprog o) i = Some (ICas f k) -> (k < length (cprog o))%nat.
Proof.
  intros [fs | l | fs] [|[|[|i]]] f k H; cbn in H; try discriminate H;
    injection H as _ <-; cbn; lia.
Qed.

Lemma tie_sound : forall gp : cop -> list (ginstr fn),
  (forall o, prog_equiv fn fn_eqb (gp o) (hand_graph o) = true) ->
  forall c0 progs sched st tr, gcrun gp (cinit c0 progs) sched = (st, tr) ->
  exists st', crun (cinit c0 progs) sched = (st', tr)
              /\ m_cell st = m_cell st'
              /\ all_returned cop core st = all_returned cop core st'
              /\ gcrun_obs gp (cinit c0 progs) sched = crun_obs (cinit c0 progs) sched.
Proof.
  intros gp Htie c0 progs sched st tr Hrun.
  destruct (crun (cinit c0 progs) sched) as [st' tr'] eqn:Hc.
  assert (Hg : grun cop core fn (cpure core_with) cident hand_graph (cinit c0 progs) sched = (st', tr')).
  { unfold hand_graph. change (fun o => embed fn (cprog o)) with (eprog cop fn cprog).
    rewrite (grun_embed cop core fn (cpure core_with) cident cprog cprog_wf). exact Hc. }
  destruct (bisim_sound cop core fn (cpure core_with) cident fn_eqb fn_eqb_eq gp hand_graph
              (fun o => prog_equiv_bisim fn fn_eqb _ _ (Htie o))
              c0 progs sched st tr st' tr' Hrun Hg) as (Etr & Ecell & Eret & _ & Eobs).
  subst tr'. exists st'. repeat split; try assumption.
  unfold gcrun_obs. unfold cinit. rewrite Eobs.
  unfold hand_graph. change (fun o => embed fn (cprog o)) with (eprog cop fn cprog).
  apply (grun_obs_embed cop core fn (cpure core_with) cident cprog cprog_wf).
Qed.

(* nothing lost, for the machine that runs the graphs regenerated from the source *)
Lemma conc_nothing_lost_src : forall gp : cop -> list (ginstr fn),
  (forall o, prog_equiv fn fn_eqb (gp o) (hand_graph o) = true) ->
  forall c0 progs sched st tr,
  gcrun gp (cinit c0 progs) sched = (st, tr) -> all_returned cop core st = true ->
  (exists added, Permutation added (flat_map cop_fields (concat progs))
                 /\ cfields (snd (m_cell st)) = cfields c0 ++ added)
  /\ Permutation (untag cop tr) (concat progs)
  /\ (forall t, ops_of cop t tr = nth t progs [])
  /\ abs (snd (m_cell st)) = fold_left sapply (untag cop tr) (abs c0)
  /\ forall l, emit (snd (m_cell st)) l
               = semit (cfields c0 ++ flat_map cop_fields (untag cop tr),
                        lin_level (untag cop tr) (clevel c0)) l.
Proof.
  intros gp Htie c0 progs sched st tr Hrun Hret.
  destruct (tie_sound gp Htie c0 progs sched st tr Hrun) as (st' & Hc & Ecell & Eret & _).
  rewrite Eret in Hret. rewrite Ecell.
  destruct (conc_nothing_lost c0 progs sched st' tr Hc Hret) as (H1 & H2 & _ & H4).
  destruct (conc_linearisable c0 progs sched st' tr Hc Hret) as (_ & Ho & Habs).
  repeat split; assumption.
Qed.

Lemma tie_ok_all : forall gp, (forall o o', cfn o = cfn o' -> gp o = gp o') -> tie_ok gp = true ->
  forall o, prog_equiv fn fn_eqb (gp o) (hand_graph o) = true.
Proof.
  intros gp Hdep H o. unfold tie_ok in H.
  apply andb_true_iff in H as [H H3]. apply andb_true_iff in H as [H1 H2].
  destruct o as [fs | l | fs].
  - rewrite (Hdep (CWith fs) (CWith []) eq_refl). exact H1.
  - rewrite (Hdep (CSetLevel l) (CSetLevel 0) eq_refl). exact H2.
  - rewrite (Hdep (CChild fs) (CChild []) eq_refl). exact H3.
Qed.

(* ------------------------------------------------------------------ progress *)
Definition cops_of (t : nat) (st : mstate cop core) : list cop :=
  match nth_error (m_threads st) t with Some th => t_ops th | None => [] end.

Lemma conc_lockfree : forall c0 progs sched0 st tr0 t o rest sched st' tr',
  crun (cinit c0 progs) sched0 = (st, tr0) ->
  cops_of t st = o :: rest -> (3 <= occ t sched)%nat ->
  crun st sched = (st', tr') ->
  In (t, o) tr' \/ exists t' o', t' <> t /\ In (t', o') tr'.
Proof.
  exact (progress_lockfree cop core fn (cpure core_with) cident cprog cfn cop_is_read cprog_shape cident_pure cread_pure).
Qed.

Lemma conc_obstruction_free : forall c0 progs sched0 st tr0 t o rest sched st' tr',
  crun (cinit c0 progs) sched0 = (st, tr0) ->
  cops_of t st = o :: rest -> (3 <= occ t sched)%nat ->
  crun st sched = (st', tr') ->
  (forall e, In e tr' -> fst e = t) ->
  In (t, o) tr'.
Proof.
  exact (progress_obstruction_free cop core fn (cpure core_with) cident cprog cfn cop_is_read cprog_shape cident_pure cread_pure).
Qed.

Lemma conc_solo : forall c0 progs sched0 st tr0 t o rest st' tr',
  crun (cinit c0 progs) sched0 = (st, tr0) ->
  cops_of t st = o :: rest ->
  crun st (repeat t 3) = (st', tr') -> In (t, o) tr'.
Proof.
  exact (progress_solo cop core fn (cpure core_with) cident cprog cfn cop_is_read cprog_shape cident_pure cread_pure).
Qed.

Lemma conc_failed_cas : forall c0 progs sched0 st tr0 t th o rest mid st' tr',
  crun (cinit c0 progs) sched0 = (st, tr0) ->
  nth_error (m_threads st) t = Some th -> t_ops th = o :: rest -> t_pc th = 0%nat ->
  crun st (t :: mid ++ [t]) = (st', tr') ->
  In (t, o) tr' \/ exists t' o', t' <> t /\ In (t', o') tr'.
Proof.
  exact (progress_failed_cas cop core fn (cpure core_with) cident cprog cfn cop_is_read cprog_shape cident_pure cread_pure).
Qed.

(* ------------------------------------------------------------------ a sequential tail *)
(* operations issued by one more goroutine after all the others have returned (s1: only the
   goroutines of progs, all returned after it) take effect after everything else, in their
   order: whatever the parallel part did, the tail's own last SetLevel / fields win *)
Lemma conc_tail : forall c0 progs tail s1 s2 st1 tr1 st2 tr2,
  crun (cinit c0 (progs ++ [tail])) s1 = (st1, tr1) -> crun st1 s2 = (st2, tr2) ->
  (forall t, In t s1 -> (t < length progs)%nat) ->
  (forall t, (t < length progs)%nat -> cops_of t st1 = []) ->
  all_returned cop core st2 = true ->
  untag cop tr2 = tail
  /\ Permutation (untag cop tr1) (concat progs)
  /\ (forall t, ops_of cop t tr1 = nth t progs [])
  /\ abs (snd (m_cell st2)) = fold_left sapply tail (fold_left sapply (untag cop tr1) (abs c0)).
Proof.
  intros c0 progs tail s1 s2 st1 tr1 st2 tr2 H1 H2 Hs1 Hdone Hret.
  destruct (run_tail cop core fn (cpure core_with) cident cprog cfn cop_is_read
              cprog_shape cident_pure cread_pure c0 progs tail s1 s2 st1 tr1 st2 tr2 H1 H2 Hs1 Hdone Hret)
    as (Ht & Hp & Ho & Hcell).
  repeat split; try assumption.
  change (apply_op cop core fn (cpure core_with) cfn) with capply in Hcell.
  rewrite Hcell, abs_fold_capply, fold_left_app. reflexivity.
Qed.

(* ------------------------------------------------------------------ pinned code refuted *)
Definition seq_witness : list op := [OInit 0 [1%N]; OEnableDebug 1; OWith 1 [2%N]].

Lemma seq_orig_witness :
  emit (log_of (run core_with_orig (Base 0 []) seq_witness) 1) (-1) = []
  /\ semit (slogger_of (srun (abs (Base 0 [])) seq_witness) 1) (-1) = [[1%N; 2%N]].
Proof. vm_compute. split; reflexivity. Qed.

(* Load; Store: two WithFields, the second Store overwrites the first — a field is lost *)
Definition conc_witness_progs : list (list cop) := [[CWith [1%N]]; [CWith [2%N]]].
Definition conc_witness_sched : list nat := [0; 1; 0; 1]%nat.

Lemma conc_orig_witness :
  let r := crun_orig (cinit (Base 0 []) conc_witness_progs) conc_witness_sched in
  all_returned cop core (fst r) = true /\ cfields (snd (m_cell (fst r))) = [2%N].
Proof. vm_compute. split; reflexivity. Qed.

(* Load; Store: a SetLevel between the Load and the Store of a WithFields is lost *)
Definition conc_witness2_progs : list (list cop) := [[CWith [1%N]]; [CSetLevel (-1)]].
Definition conc_witness2_sched : list nat := [0; 1; 1; 0]%nat.

Lemma conc_orig_witness2 :
  let r := crun_orig (cinit (Base 0 []) conc_witness2_progs) conc_witness2_sched in
  all_returned cop core (fst r) = true /\ clevel (snd (m_cell (fst r))) = 0
  /\ untag cop (snd r) = [CSetLevel (-1); CWith [1%N]].
Proof. vm_compute. repeat split; reflexivity. Qed.

(* the pinned code refuted: statements as used by Props/C18.v *)
Lemma seq_orig_refuted : exists g ops c l,
  emit (log_of (run core_with_orig g ops) c) l <> semit (slogger_of (srun (abs g) ops) c) l.
Proof.
  exists (Base 0 []), seq_witness, 1%nat, (-1). destruct seq_orig_witness as [E1 E2].
  rewrite E1, E2. discriminate.
Qed.

Lemma conc_orig_refuted : exists c0 progs sched,
  let r := crun_orig (cinit c0 progs) sched in
  all_returned cop core (fst r) = true
  /\ ~ (exists added, Permutation added (flat_map cop_fields (concat progs))
                      /\ cfields (snd (m_cell (fst r))) = cfields c0 ++ added).
Proof.
  exists (Base 0 []), conc_witness_progs, conc_witness_sched.
  destruct conc_orig_witness as [Hret Hf]. split; [exact Hret|].
  intros (added & Hp & He). rewrite Hf in He. cbn in He. subst added.
  apply Permutation_length in Hp. discriminate.
Qed.

Lemma conc_orig_level_refuted : exists c0 progs sched,
  let r := crun_orig (cinit c0 progs) sched in
  all_returned cop core (fst r) = true
  /\ clevel (snd (m_cell (fst r))) <> lin_level (untag cop (snd r)) (clevel c0).
Proof.
  exists (Base 0 []), conc_witness2_progs, conc_witness2_sched.
  destruct conc_orig_witness2 as (Hret & Hl & Htr). split; [exact Hret|].
  rewrite Hl, Htr. discriminate.
Qed.
