(* LogCtxProofs.v — proofs about LogCtxModel: the repaired package log refines the abstract
   per-holder (fields, level) specification for every operation sequence; the pinned code
   does not (witnesses).  Concurrent part: instance of Base/LogConcProofs.                   *)
From Coq Require Import ZArith List Bool Lia Permutation.
From GT Require Import Base.LogConc.
From GT Require Import Base.LogConcProofs.
From GT Require Import LogCtxModel.
Import ListNotations.
Local Open Scope Z_scope.

(* ------------------------------------------------------------------ zap facts *)
Lemma write_nil : forall c, write c [] = cfields c.
Proof.
  induction c as [m fs | c IH m]; cbn [write cfields]; [apply app_nil_r | exact IH].
Qed.

Lemma emit_abs : forall c l, emit c l = semit (abs c) l.
Proof.
  intros c l. unfold emit, semit, check, abs. cbn [fst snd].
  assert (E : enabled c l = (clevel c <=? l)) by (destruct c; reflexivity).
  rewrite E. destruct (clevel c <=? l); [|reflexivity].
  cbn [map]. rewrite write_nil. reflexivity.
Qed.

Lemma probe_abs : forall c, probe c = sprobe (abs c).
Proof. intros c. unfold probe, sprobe. apply map_ext. intros l. apply emit_abs. Qed.

Lemma cfields_core_with : forall c fs, cfields (core_with c fs) = cfields c ++ fs.
Proof. induction c as [m f | c IH m]; intros fs; cbn; [reflexivity | apply IH]. Qed.

Lemma clevel_core_with : forall c fs, clevel (core_with c fs) = clevel c.
Proof. destruct c; reflexivity. Qed.

Lemma abs_logger_with : forall c fs, abs (logger_with core_with c fs) = add_fields fs (abs c).
Proof.
  intros c fs. unfold logger_with, add_fields, abs. cbn [fst snd].
  destruct fs as [|f fs]; cbn [is_nil].
  - rewrite app_nil_r. reflexivity.
  - rewrite cfields_core_with, clevel_core_with. reflexivity.
Qed.

Lemma abs_custom_level : forall c l, abs (custom_level c l) = set_level l (abs c).
Proof. reflexivity. Qed.

(* ------------------------------------------------------------------ simulation *)
(* the model state is the spec state seen through [abs], holder by holder *)
Definition sim (st : state) (ss : sstate) : Prop :=
  abs (glob st) = sglob ss /\ map abs (store st) = sstore ss /\ ctxs st = sctxs ss.

Lemma nth_map_abs : forall (l : list core) h d, abs (nth h l d) = nth h (map abs l) (abs d).
Proof. intros l h d. symmetry. apply map_nth. Qed.

Lemma map_upd : forall {A B} (f : A -> B) n x l, map f (upd n x l) = upd n (f x) (map f l).
Proof.
  intros A B f n x l. revert n. induction l as [|a l IH]; intros [|n]; cbn; try reflexivity.
  f_equal. apply IH.
Qed.

Lemma sim_logger_of : forall st ss c, sim st ss -> abs (logger_of st c) = slogger_of ss c.
Proof.
  intros st ss c (Hg & Hs & Hc). unfold logger_of, slogger_of, holder_of, sholder_of.
  rewrite Hc. destruct (nth c (sctxs ss) None) as [h|]; [|exact Hg].
  rewrite nth_map_abs, Hs, Hg. reflexivity.
Qed.

Lemma sim_fresh : forall st ss c x, sim st ss -> abs c = x -> sim (fresh st c) (sfresh ss x).
Proof.
  intros st ss c x (Hg & Hs & Hc) Hx. unfold sim, fresh, sfresh. cbn.
  split; [exact Hg | split; [rewrite map_app, Hs; cbn; rewrite Hx; reflexivity |]].
  rewrite Hc. rewrite <- Hs, map_length. reflexivity.
Qed.

Lemma sim_update : forall st ss c f g, sim st ss -> (forall k, abs (f k) = g (abs k)) ->
  sim (update st c f) (supdate ss c g).
Proof.
  intros st ss c f g Hsim Hfg. pose proof Hsim as (Hg & Hs & Hc).
  unfold update, supdate, holder_of, sholder_of. rewrite Hc.
  destruct (nth c (sctxs ss) None) as [h|].
  - unfold sim. cbn. split; [exact Hg | split; [|reflexivity]].
    rewrite map_upd, Hfg, nth_map_abs, Hs, Hg. reflexivity.
  - apply sim_fresh; [exact Hsim|]. rewrite Hfg, Hg. reflexivity.
Qed.

Lemma sim_step : forall st ss o, sim st ss -> sim (step core_with st o) (sstep ss o).
Proof.
  intros st ss o Hsim. pose proof Hsim as (Hg & Hs & Hc).
  destruct o as [c fs | c fs | c fs | c l | c | c | g]; cbn [step sstep].
  - apply sim_fresh; [exact Hsim|]. rewrite abs_logger_with, Hg. reflexivity.
  - apply sim_fresh; [exact Hsim|]. rewrite abs_logger_with, (sim_logger_of st ss c Hsim). reflexivity.
  - apply sim_update; [exact Hsim|]. intros k. apply abs_logger_with.
  - apply sim_update; [exact Hsim|]. intros k. apply abs_custom_level.
  - apply sim_update; [exact Hsim|]. intros k. apply abs_custom_level.
  - unfold sim. cbn. split; [exact Hg | split; [exact Hs |]].
    unfold holder_of, sholder_of. rewrite Hc. reflexivity.
  - unfold sim. cbn. split; [reflexivity | split; [exact Hs | rewrite Hc; reflexivity]].
Qed.

Lemma sim_init : forall g, sim (init g) (sinit (abs g)).
Proof. intros g. unfold sim. cbn. repeat split. Qed.

Lemma sim_fold : forall ops st ss, sim st ss ->
  sim (fold_left (step core_with) ops st) (fold_left sstep ops ss).
Proof.
  induction ops as [|o ops IH]; intros st ss H; cbn; [exact H|].
  apply IH. apply sim_step. exact H.
Qed.

Lemma sim_run : forall g ops, sim (run core_with g ops) (srun (abs g) ops).
Proof. intros g ops. apply sim_fold. apply sim_init. Qed.

(* the property, sequential part: after ANY operation sequence, a log call through ANY
   context at ANY level captures exactly what the specification says *)
Lemma seq_refines : forall g ops c l,
  emit (log_of (run core_with g ops) c) l = semit (slogger_of (srun (abs g) ops) c) l.
Proof.
  intros g ops c l. rewrite emit_abs. unfold log_of.
  rewrite (sim_logger_of _ _ c (sim_run g ops)). reflexivity.
Qed.

(* the same for the whole observation table the harness records *)
Lemma sim_row : forall st ss, sim st ss -> row st = srow ss.
Proof.
  intros st ss Hsim. pose proof Hsim as (_ & _ & Hc). unfold row, srow. rewrite Hc.
  apply map_ext. intros c. rewrite probe_abs. unfold log_of.
  rewrite (sim_logger_of _ _ c Hsim). reflexivity.
Qed.

Lemma run_obs_refines_from : forall ops st ss, sim st ss ->
  run_obs core_with st ops = srun_obs ss ops.
Proof.
  induction ops as [|o ops IH]; intros st ss H; cbn [run_obs srun_obs].
  - rewrite (sim_row _ _ H). reflexivity.
  - rewrite (sim_row _ _ H). f_equal. apply IH. apply sim_step. exact H.
Qed.

Lemma run_obs_refines : forall g ops,
  run_obs core_with (init g) ops = srun_obs (sinit (abs g)) ops.
Proof. intros g ops. apply run_obs_refines_from. apply sim_init. Qed.

(* ------------------------------------------------------------------ what the spec says *)
(* the specification itself, spelled out per operation (sanity of the spec):
   an operation through a context whose holder is h' <> h, or that forks a new holder,
   leaves holder h untouched; WithFields through any context sharing h appends.          *)
Lemma upd_nth_other : forall {A} (l : list A) i j x d, i <> j -> nth j (upd i x l) d = nth j l d.
Proof.
  intros A l. induction l as [|a l IH]; intros [|i] [|j] x d Hne; cbn; try reflexivity.
  - congruence.
  - apply IH. congruence.
Qed.

Lemma upd_nth_same : forall {A} (l : list A) i x d, (i < length l)%nat -> nth i (upd i x l) d = x.
Proof.
  intros A l. induction l as [|a l IH]; intros [|i] x d Hlt; cbn in *; try lia; try reflexivity.
  apply IH. lia.
Qed.

Definition targets (ss : sstate) (o : op) : option nat :=
  match o with
  | OWith c _ | OSetLevel c _ | OEnableDebug c => sholder_of ss c
  | _ => None
  end.

(* holders are never touched by operations aimed elsewhere, nor by forks *)
Lemma spec_frame : forall ss o h, (h < length (sstore ss))%nat -> targets ss o <> Some h ->
  nth h (sstore (sstep ss o)) (sglob ss) = nth h (sstore ss) (sglob ss).
Proof.
  intros ss o h Hlt Ht.
  assert (Hfresh : forall x, nth h (sstore (sfresh ss x)) (sglob ss) = nth h (sstore ss) (sglob ss)).
  { intros x. unfold sfresh. cbn. apply app_nth1. exact Hlt. }
  assert (Hupd : forall c f, sholder_of ss c <> Some h ->
            nth h (sstore (supdate ss c f)) (sglob ss) = nth h (sstore ss) (sglob ss)).
  { intros c f Hc. unfold supdate. destruct (sholder_of ss c) as [h'|]; [|apply Hfresh].
    cbn. apply upd_nth_other. congruence. }
  destruct o; cbn [sstep targets] in *; auto.
Qed.

Lemma spec_with : forall ss c fs h, sholder_of ss c = Some h -> (h < length (sstore ss))%nat ->
  nth h (sstore (sstep ss (OWith c fs))) (sglob ss)
  = (fst (nth h (sstore ss) (sglob ss)) ++ fs, snd (nth h (sstore ss) (sglob ss))).
Proof.
  intros ss c fs h Hc Hlt. cbn [sstep]. unfold supdate. rewrite Hc. cbn.
  rewrite upd_nth_same by exact Hlt. reflexivity.
Qed.

Lemma spec_setlevel : forall ss c l h, sholder_of ss c = Some h -> (h < length (sstore ss))%nat ->
  nth h (sstore (sstep ss (OSetLevel c l))) (sglob ss)
  = (fst (nth h (sstore ss) (sglob ss)), l).
Proof.
  intros ss c l h Hc Hlt. cbn [sstep]. unfold supdate. rewrite Hc. cbn.
  rewrite upd_nth_same by exact Hlt. reflexivity.
Qed.

(* a fork starts from the parent's fields and level and adds its own *)
Lemma spec_child : forall ss c fs,
  slogger_of (sstep ss (OChild c fs)) (length (sctxs ss))
  = (fst (slogger_of ss c) ++ fs, snd (slogger_of ss c)).
Proof.
  intros ss c fs. cbn [sstep]. unfold sfresh, slogger_of at 1, sholder_of. cbn.
  rewrite app_nth2 by lia. rewrite Nat.sub_diag. cbn.
  rewrite app_nth2 by lia. rewrite Nat.sub_diag. reflexivity.
Qed.

(* ------------------------------------------------------------------ concurrent part *)
Lemma cprog_shape : forall o, cprog o = [ILoad; ICas (cfn o) 0].
Proof. destruct o; reflexivity. Qed.

Lemma cident_pure : forall f o v, cident f o = true -> cpure core_with f o v = v.
Proof.
  intros [|] o v H; cbn in *; [|discriminate].
  unfold logger_with. rewrite H. reflexivity.
Qed.

Definition capply (c : core) (o : cop) : core := cpure core_with (cfn o) o c.

Lemma abs_capply : forall c o, abs (capply c o) = sapply (abs c) o.
Proof.
  intros c [fs | l]; unfold capply; cbn [cfn cpure cop_fields cop_level sapply].
  - apply abs_logger_with.
  - apply abs_custom_level.
Qed.

Lemma abs_fold_capply : forall tr c, abs (fold_left capply tr c) = fold_left sapply tr (abs c).
Proof.
  induction tr as [|o tr IH]; intros c; cbn; [reflexivity|]. rewrite IH, abs_capply. reflexivity.
Qed.

Lemma fold_sapply : forall tr x,
  fold_left sapply tr x = (fst x ++ flat_map cop_fields tr, lin_level tr (snd x)).
Proof.
  induction tr as [|o tr IH]; intros [fs l]; cbn [fold_left flat_map].
  - cbn. rewrite app_nil_r. reflexivity.
  - rewrite IH. destruct o as [gs | l']; cbn; rewrite <- ?app_assoc; reflexivity.
Qed.

Lemma flat_map_perm : forall {A B} (f : A -> list B) l l',
  Permutation l l' -> Permutation (flat_map f l) (flat_map f l').
Proof.
  intros A B f l l' H. induction H; cbn.
  - constructor.
  - apply Permutation_app_head. assumption.
  - rewrite !app_assoc. apply Permutation_app_tail. apply Permutation_app_comm.
  - eapply Permutation_trans; eassumption.
Qed.

(* any number of goroutines, any operation lists, any schedule: when all have returned the
   shared logger is the sequential application of ALL operations in the order of their
   successful CompareAndSwaps, which respects every goroutine's program order *)
Lemma conc_linearisable : forall c0 progs sched st tr,
  crun (cinit c0 progs) sched = (st, tr) -> all_returned cop core st = true ->
  Permutation (untag cop tr) (concat progs)
  /\ (forall t, ops_of cop t tr = nth t progs [])
  /\ abs (snd (m_cell st)) = fold_left sapply (untag cop tr) (abs c0).
Proof.
  intros c0 progs sched st tr Hrun Hret.
  destruct (run_linearisable cop core fn (cpure core_with) cident cprog cfn cprog_shape cident_pure
              c0 progs sched st tr Hrun Hret) as (Hp & Hc & Ho).
  split; [exact Hp | split; [exact Ho|]]. rewrite Hc. apply abs_fold_capply.
Qed.

(* no field lost, no level change lost *)
Lemma conc_nothing_lost : forall c0 progs sched st tr,
  crun (cinit c0 progs) sched = (st, tr) -> all_returned cop core st = true ->
  (exists added, Permutation added (flat_map cop_fields (concat progs))
                 /\ cfields (snd (m_cell st)) = cfields c0 ++ added)
  /\ Permutation (untag cop tr) (concat progs)
  /\ clevel (snd (m_cell st)) = lin_level (untag cop tr) (clevel c0)
  /\ forall l, emit (snd (m_cell st)) l
               = semit (cfields c0 ++ flat_map cop_fields (untag cop tr),
                        lin_level (untag cop tr) (clevel c0)) l.
Proof.
  intros c0 progs sched st tr Hrun Hret.
  destruct (conc_linearisable c0 progs sched st tr Hrun Hret) as (Hp & _ & Habs).
  rewrite fold_sapply in Habs. unfold abs in Habs at 1. cbn [fst snd abs] in Habs.
  injection Habs as Hf Hl.
  split; [|split; [exact Hp | split; [exact Hl|]]].
  - exists (flat_map cop_fields (untag cop tr)). split; [apply flat_map_perm; exact Hp | exact Hf].
  - intros l. rewrite emit_abs. unfold abs. rewrite Hf, Hl. reflexivity.
Qed.

(* while goroutines are still running: the logger is the application of the operations
   linearised so far, each requested and none twice *)
Lemma conc_prefix : forall c0 progs sched st tr,
  crun (cinit c0 progs) sched = (st, tr) ->
  abs (snd (m_cell st)) = fold_left sapply (untag cop tr) (abs c0)
  /\ exists rest, Permutation (untag cop tr ++ rest) (concat progs).
Proof.
  intros c0 progs sched st tr Hrun.
  destruct (run_cell cop core fn (cpure core_with) cident cprog cfn cprog_shape cident_pure
              c0 progs sched st tr Hrun) as (Hc & Hp & _).
  split; [rewrite Hc; apply abs_fold_capply | eexists; exact Hp].
Qed.

(* ------------------------------------------------------------------ progress *)
Definition cops_of (t : nat) (st : mstate cop core) : list cop :=
  match nth_error (m_threads st) t with Some th => t_ops th | None => [] end.

Lemma conc_lockfree : forall c0 progs sched0 st tr0 t o rest sched st' tr',
  crun (cinit c0 progs) sched0 = (st, tr0) ->
  cops_of t st = o :: rest -> (3 <= occ t sched)%nat ->
  crun st sched = (st', tr') ->
  In (t, o) tr' \/ exists t' o', t' <> t /\ In (t', o') tr'.
Proof.
  exact (progress_lockfree cop core fn (cpure core_with) cident cprog cfn cprog_shape cident_pure).
Qed.

Lemma conc_obstruction_free : forall c0 progs sched0 st tr0 t o rest sched st' tr',
  crun (cinit c0 progs) sched0 = (st, tr0) ->
  cops_of t st = o :: rest -> (3 <= occ t sched)%nat ->
  crun st sched = (st', tr') ->
  (forall e, In e tr' -> fst e = t) ->
  In (t, o) tr'.
Proof.
  exact (progress_obstruction_free cop core fn (cpure core_with) cident cprog cfn cprog_shape cident_pure).
Qed.

Lemma conc_solo : forall c0 progs sched0 st tr0 t o rest st' tr',
  crun (cinit c0 progs) sched0 = (st, tr0) ->
  cops_of t st = o :: rest ->
  crun st (repeat t 3) = (st', tr') -> In (t, o) tr'.
Proof.
  exact (progress_solo cop core fn (cpure core_with) cident cprog cfn cprog_shape cident_pure).
Qed.

Lemma conc_failed_cas : forall c0 progs sched0 st tr0 t th o rest mid st' tr',
  crun (cinit c0 progs) sched0 = (st, tr0) ->
  nth_error (m_threads st) t = Some th -> t_ops th = o :: rest -> t_pc th = 0%nat ->
  crun st (t :: mid ++ [t]) = (st', tr') ->
  In (t, o) tr' \/ exists t' o', t' <> t /\ In (t', o') tr'.
Proof.
  exact (progress_failed_cas cop core fn (cpure core_with) cident cprog cfn cprog_shape cident_pure).
Qed.

(* ------------------------------------------------------------------ pinned code refuted *)
Definition seq_witness : list op := [OInit 0 [1%N]; OEnableDebug 1; OWith 1 [2%N]].

Lemma seq_orig_witness :
  emit (log_of (run core_with_orig (Base 0 []) seq_witness) 1) (-1) = []
  /\ semit (slogger_of (srun (abs (Base 0 [])) seq_witness) 1) (-1) = [[1%N; 2%N]].
Proof. vm_compute. split; reflexivity. Qed.

(* Load; Store: two WithFields, the second Store overwrites the first — a field is lost *)
Definition conc_witness_progs : list (list cop) := [[CWith [1%N]]; [CWith [2%N]]].
Definition conc_witness_sched : list nat := [0; 1; 0; 1]%nat.

Lemma conc_orig_witness :
  let r := crun_orig (cinit (Base 0 []) conc_witness_progs) conc_witness_sched in
  all_returned cop core (fst r) = true /\ cfields (snd (m_cell (fst r))) = [2%N].
Proof. vm_compute. split; reflexivity. Qed.

(* Load; Store: a SetLevel between the Load and the Store of a WithFields is lost *)
Definition conc_witness2_progs : list (list cop) := [[CWith [1%N]]; [CSetLevel (-1)]].
Definition conc_witness2_sched : list nat := [0; 1; 1; 0]%nat.

Lemma conc_orig_witness2 :
  let r := crun_orig (cinit (Base 0 []) conc_witness2_progs) conc_witness2_sched in
  all_returned cop core (fst r) = true /\ clevel (snd (m_cell (fst r))) = 0
  /\ untag cop (snd r) = [CSetLevel (-1); CWith [1%N]].
Proof. vm_compute. repeat split; reflexivity. Qed.
