(* TmplModel.v — executable mirror of gconfig/yaml_templates.go.  No proofs here.

   Go source (current tree)                                        model
   -------------------------------------------------------------  --------------------------
   envVarTmplMatcher =                                             match_env  (hand-written
     ^\$\{\{\s*env:\s*(\w+)\s*\|?\s*(.*\S)?\s*\}\}$                  recogniser; RE2 classes are
     FindStringSubmatch: [whole, name, default-or-empty]              ASCII: \s = [\t\n\f\r ],
                                                                     \w = [0-9A-Za-z_], . = [^\n])
   envVarTmpl.MatchAndResolve(in)                                  resolve_str env s
       no match            -> (in, false, nil)                        Ok s
       os.LookupEnv(name)  -> (value, true, nil)   (even empty)       Ok value
       unset, default set  -> (strings.Trim(default, dquote), true, nil) Ok (trim_quotes default)
       unset otherwise     -> error                                   Err
   parseTemplatedElements(in)  string / map values / list items     subst env t
   Builder.FromBytes = reduceAny, non-map check, templates          load_full dims env doc

   Strings are handled as lists of bytes inside the recogniser (string <-> list ascii at the
   boundary).  The equality of match_env with Go's regexp engine on that pattern is validated
   by the correspondence run of ./check C16 (trusted: regexp), the language it accepts is
   characterised by TmplProofs.v.                                                          *)
From Coq Require Import List String Ascii Bool Arith.
From GT Require Import GConfModel.
Import ListNotations.

Definition bytes := list ascii.

Definition is_space (c : ascii) : bool :=
  let n := nat_of_ascii c in
  Nat.eqb n 9 || Nat.eqb n 10 || Nat.eqb n 12 || Nat.eqb n 13 || Nat.eqb n 32.

Definition is_word (c : ascii) : bool :=
  let n := nat_of_ascii c in
  (Nat.leb 48 n && Nat.leb n 57) || (Nat.leb 65 n && Nat.leb n 90) ||
  (Nat.leb 97 n && Nat.leb n 122) || Nat.eqb n 95.

Definition is_nl (c : ascii) : bool := Nat.eqb (nat_of_ascii c) 10.

Definition pipe_c : ascii := "|"%char.
Definition quote_c : ascii := """"%char.

Definition open_s : bytes := ["$"; "{"; "{"]%char.
Definition close_s : bytes := ["}"; "}"]%char.
Definition env_s : bytes := ["e"; "n"; "v"; ":"]%char.

Fixpoint skip_ws (l : bytes) : bytes :=
  match l with
  | c :: r => if is_space c then skip_ws r else l
  | [] => []
  end.

Fixpoint strip_prefix (p l : bytes) : option bytes :=
  match p, l with
  | [], _ => Some l
  | a :: p', b :: l' => if Ascii.eqb a b then strip_prefix p' l' else None
  | _ :: _, [] => None
  end.

(* maximal run of word characters and what follows it *)
Fixpoint take_word (l : bytes) : bytes * bytes :=
  match l with
  | c :: r => if is_word c then let (w, rest) := take_word r in (c :: w, rest) else ([], l)
  | [] => ([], [])
  end.

Definition drop_pipe (l : bytes) : bytes :=
  match l with
  | c :: r => if Ascii.eqb c pipe_c then r else l
  | [] => []
  end.

Definition rtrim_ws (l : bytes) : bytes := rev (skip_ws (rev l)).

Definition strip_suffix (suf l : bytes) : option bytes :=
  option_map (@rev ascii) (strip_prefix (rev suf) (rev l)).

(* the matcher: Some (name, default) — default = [] when group 2 is absent *)
Definition match_env_l (l : bytes) : option (bytes * bytes) :=
  match strip_prefix open_s l with
  | None => None
  | Some s1 =>
      match strip_prefix env_s (skip_ws s1) with
      | None => None
      | Some s2 =>
          let (name, s3) := take_word (skip_ws s2) in
          match name with
          | [] => None
          | _ =>
              let s6 := skip_ws (drop_pipe (skip_ws s3)) in
              match strip_suffix close_s s6 with
              | None => None
              | Some body =>
                  let d := rtrim_ws body in
                  if existsb is_nl d then None else Some (name, d)
              end
          end
      end
  end.

Definition match_env (s : string) : option (string * string) :=
  match match_env_l (list_ascii_of_string s) with
  | Some (n, d) => Some (string_of_list_ascii n, string_of_list_ascii d)
  | None => None
  end.

(* strings.Trim(s, dquote) *)
Fixpoint ltrim_q (l : bytes) : bytes :=
  match l with
  | c :: r => if Ascii.eqb c quote_c then ltrim_q r else l
  | [] => []
  end.
Definition trim_quotes_l (l : bytes) : bytes := rev (ltrim_q (rev (ltrim_q l))).
Definition trim_quotes (s : string) : string :=
  string_of_list_ascii (trim_quotes_l (list_ascii_of_string s)).

(* MatchAndResolve as used by parseTemplatedElements: the replacement string or an error *)
Definition resolve_str (env : list (string * string)) (s : string) : res string :=
  match match_env s with
  | None => Ok s
  | Some (name, d) =>
      match assoc name env with
      | Some v => Ok v
      | None =>
          match d with
          | EmptyString => Err
          | _ => Ok (trim_quotes d)
          end
      end
  end.

(* parseTemplatedElements *)
Fixpoint subst (env : list (string * string)) (t : tree) {struct t} : res tree :=
  match t with
  | Str s => lift Str (resolve_str env s)
  | Lst l => lift Lst (seq_list (map (subst env) l))
  | Mp kv => lift Mp (seq_kv (map (fun p => (fst p, subst env (snd p))) kv))
  | _ => Ok t
  end.

(* FromBytes *)
Definition load_full (dims : list dim) (env : list (string * string)) (doc : tree)
  : res (list (string * tree)) :=
  match load_model dims doc with
  | Err => Err
  | Ok kv => match subst env (Mp kv) with Ok (Mp kv') => Ok kv' | _ => Err end
  end.

(* specification of the same: templates are resolved on the resolution of the document *)
Definition load_full_spec (dims : list dim) (env : list (string * string)) (doc : tree)
  : res (list (string * tree)) :=
  match load_spec dims doc with
  | Err => Err
  | Ok kv => match subst env (Mp kv) with Ok (Mp kv') => Ok kv' | _ => Err end
  end.

(* the strings of a tree (scalar positions: map values and list items, at any depth) *)
Fixpoint strings_of (t : tree) {struct t} : list string :=
  match t with
  | Str s => [s]
  | Lst l => flat_map strings_of l
  | Mp kv => flat_map (fun p => strings_of (snd p)) kv
  | _ => []
  end.
