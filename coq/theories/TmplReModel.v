(* TmplReModel.v — regular expressions as data, their (whole-string) matching relation, and
   the env-template pattern of gconfig/yaml_templates.go as a term.  No proofs here.

   The translator harness/cmd/xlate_tmplre reads the string literal given to
   regexp.MustCompile in yaml_templates.go (go/parser), parses it with regexp/syntax (Perl
   flags, as regexp.MustCompile does), checks that it is anchored with ^ and $, and prints it
   as a term of [re]; ./check C16 compiles `gen_pattern = hand_pattern` by reflexivity.
   Character classes are named (the translator recognises the rune ranges of \s, \w, \S and
   `.`); matching is on bytes: the classes involved are ASCII-only or complements of
   ASCII-only sets, so byte-wise and rune-wise matching accept the same valid UTF-8 strings. *)
From Coq Require Import List String Ascii Bool Arith.
From GT Require Import TmplModel.
Import ListNotations.

Inductive cls :=
| CSpace        (* \s  = [\t\n\f\r ] *)
| CWord         (* \w  = [0-9A-Za-z_] *)
| CNotSpace     (* \S *)
| CAnyNotNL     (* .   (no s flag) *)
| COther (descr : string).   (* a class the translator does not know: breaks the tie *)

Definition cls_in (k : cls) (c : ascii) : bool :=
  match k with
  | CSpace => is_space c
  | CWord => is_word c
  | CNotSpace => negb (is_space c)
  | CAnyNotNL => negb (is_nl c)
  | COther _ => false
  end.

Inductive re :=
| RLit (l : bytes)
| RCls (k : cls)
| RCat (a b : re)
| RStar (a : re)
| RPlus (a : re)
| RQuest (a : re)
| RCap (n : nat) (a : re).

Inductive matches : re -> bytes -> Prop :=
| MLit : forall l, matches (RLit l) l
| MCls : forall k c, cls_in k c = true -> matches (RCls k) [c]
| MCat : forall a b x y, matches a x -> matches b y -> matches (RCat a b) (x ++ y)
| MStar0 : forall a, matches (RStar a) []
| MStarS : forall a x y, matches a x -> matches (RStar a) y -> matches (RStar a) (x ++ y)
| MPlus : forall a x y, matches a x -> matches (RStar a) y -> matches (RPlus a) (x ++ y)
| MQuest0 : forall a, matches (RQuest a) []
| MQuest1 : forall a x, matches a x -> matches (RQuest a) x
| MCap : forall n a x, matches a x -> matches (RCap n a) x.

Definition b (s : string) : bytes := list_ascii_of_string s.

(* ^\$\{\{\s*env:\s*(\w+)\s*\|?\s*(.*\S)?\s*\}\}$ *)
Definition hand_pattern : re :=
  RCat (RLit (b "${{"))
 (RCat (RStar (RCls CSpace))
 (RCat (RLit (b "env:"))
 (RCat (RStar (RCls CSpace))
 (RCat (RCap 1 (RPlus (RCls CWord)))
 (RCat (RStar (RCls CSpace))
 (RCat (RQuest (RLit (b "|")))
 (RCat (RStar (RCls CSpace))
 (RCat (RQuest (RCap 2 (RCat (RStar (RCls CAnyNotNL)) (RCls CNotSpace))))
 (RCat (RStar (RCls CSpace))
       (RLit (b "}}"))))))))))).
