(* SetMultiProofs.v — sequences over several Set variables refine a vector of mathematical
   sets: an operation changes its target only, exactly as the single-set laws say. *)
From Coq Require Import List Bool Arith Lia.
From GT Require Import SetModel SetProofs SetMultiModel.
Import ListNotations.

Section SetMultiProofs.
  Variable T : Type.
  Variable eqb : T -> T -> bool.
  Hypothesis eqb_eq : forall x y, eqb x y = true <-> x = y.
  Notation wf := (wf T).
  Notation rel := (rel T eqb).
  Notation covers := (covers T).

  Definition mwf (st : mstate T) : Prop := Forall wf st.
  Definition mrel (st : mstate T) (ps : astate T) : Prop := Forall2 rel st ps.
  Definition mcovers (dom : list T) (ps : astate T) : Prop := Forall (covers dom) ps.
  Definition mop_ok (dom : list T) (o : mop T) : Prop :=
    match o with
    | MHas _ items => items <> []
    | MMake _ items | MAdd _ items => forall x, In x items -> In x dom
    | _ => True
    end.

  Lemma mget_wf st i : mwf st -> wf (mget st i).
  Proof.
    intros H. unfold mget. revert i. induction H as [|s r Hs _ IH]; intros [|i]; simpl; auto;
      apply nil_wf.
  Qed.

  Lemma mget_rel st ps i : mrel st ps -> rel (mget st i) (aget ps i).
  Proof.
    intros H. unfold mget, aget. revert i. induction H as [|s p r q Hs _ IH]; intros [|i]; simpl; auto;
      apply nil_rel.
  Qed.

  Lemma aget_covers dom ps i : mcovers dom ps -> covers dom (aget ps i).
  Proof.
    intros H. unfold aget. revert i. induction H as [|p r Hp _ IH]; intros [|i]; simpl; auto;
      intros x E; discriminate.
  Qed.

  Lemma mset_Forall {A} (P : A -> Prop) l i v : Forall P l -> P v -> Forall P (mset l i v).
  Proof.
    intros H Hv. revert i. induction H as [|x r Hx Hr IH]; intros [|i]; simpl;
      try constructor; auto.
  Qed.

  Lemma mset_Forall2 {A B} (R : A -> B -> Prop) l m i v w :
    Forall2 R l m -> R v w -> Forall2 R (mset l i v) (mset m i w).
  Proof.
    intros H Hv. revert i. induction H as [|x y r q Hx Hr IH]; intros [|i]; simpl;
      try constructor; auto.
  Qed.

  (* members of variable j listed through the abstract predicate *)
  Lemma filter_members dom s p :
    wf s -> rel s p -> covers dom p ->
    forall x, In x (filter p dom) <-> In x (elems s).
  Proof.
    intros _ Hrel Hcov x. rewrite filter_In. rewrite (rel_mem T eqb eqb_eq s p x Hrel).
    unfold SetProofs.mem. split; [tauto|]. intros H. split; [|assumption].
    apply Hcov. now apply (rel_mem T eqb eqb_eq s p x Hrel).
  Qed.

  (* Add / Remove with two argument lists that have the same members *)
  Lemma add_same dom s p a b :
    wf s -> rel s p -> covers dom p -> (forall x, In x b <-> In x a) -> (forall x, In x b -> In x dom) ->
    let r := s_step eqb s (OAdd a) in let q := a_step eqb p dom (OAdd b) in
    snd r = snd q /\ wf (fst r) /\ rel (fst r) (fst q) /\ covers dom (fst q).
  Proof.
    intros Hwf Hrel Hcov Hab Hdom. cbn [s_step a_step fst snd].
    destruct (add_spec T eqb eqb_eq s a Hwf) as [W [M F]]. split; [|split; [exact W|split]].
    - rewrite F. rewrite (existsb_same_elems T _ b a Hab).
      apply existsb_ext_in. intros x _. now rewrite Hrel.
    - apply (rel_of_In T eqb eqb_eq). intros x. rewrite M. unfold a_union, a_of.
      rewrite orb_true_iff, (memb_In T eqb eqb_eq), (rel_mem T eqb eqb_eq s p x Hrel), Hab. tauto.
    - intros x. unfold a_union, a_of. rewrite orb_true_iff, (memb_In T eqb eqb_eq).
      intros [H|H]; auto.
  Qed.

  Lemma remove_same dom s p a b :
    wf s -> rel s p -> covers dom p -> (forall x, In x b <-> In x a) ->
    let r := s_step eqb s (ORemove a) in let q := a_step eqb p dom (ORemove b) in
    snd r = snd q /\ wf (fst r) /\ rel (fst r) (fst q) /\ covers dom (fst q).
  Proof.
    intros Hwf Hrel Hcov Hab. cbn [s_step a_step fst snd].
    destruct (remove_spec T eqb eqb_eq s a Hwf) as [W [M F]]. split; [|split; [exact W|split]].
    - rewrite F. rewrite (existsb_same_elems T _ b a Hab).
      apply existsb_ext_in. intros x _. now rewrite Hrel.
    - apply (rel_of_In T eqb eqb_eq). intros x. rewrite M. unfold a_diff, a_of.
      rewrite andb_true_iff, negb_true_iff, (memb_false T eqb eqb_eq),
        (rel_mem T eqb eqb_eq s p x Hrel), Hab. tauto.
    - intros x. unfold a_diff. rewrite andb_true_iff. intros [H _]. auto.
  Qed.

  Lemma mstep_refines dom st ps o :
    mwf st -> mrel st ps -> mcovers dom ps -> mop_ok dom o ->
    let r := m_step eqb st o in let a := am_step eqb ps dom o in
    snd r = snd a /\ mwf (fst r) /\ mrel (fst r) (fst a) /\ mcovers dom (fst a).
  Proof.
    intros Hwf Hrel Hcov Hok. unfold m_step, am_step. cbn [fst snd].
    set (i := m_target o).
    pose proof (mget_wf st i Hwf) as Wi. pose proof (mget_rel st ps i Hrel) as Ri.
    pose proof (aget_covers dom ps i Hcov) as Ci.
    assert (H : snd (s_step eqb (mget st i) (m_sop st o))
                = snd (a_step eqb (aget ps i) dom (am_sop ps dom o))
              /\ wf (fst (s_step eqb (mget st i) (m_sop st o)))
              /\ rel (fst (s_step eqb (mget st i) (m_sop st o)))
                     (fst (a_step eqb (aget ps i) dom (am_sop ps dom o)))
              /\ covers dom (fst (a_step eqb (aget ps i) dom (am_sop ps dom o)))).
    { destruct o as [k|k items|k items|k j|k items|k j|k items|k items]; cbn [m_sop am_sop].
      - apply (step_refines T eqb eqb_eq dom _ _ ONil Wi Ri Ci). exact I.
      - apply (step_refines T eqb eqb_eq dom _ _ (OMake items) Wi Ri Ci). exact Hok.
      - apply (step_refines T eqb eqb_eq dom _ _ (OAdd items) Wi Ri Ci). exact Hok.
      - apply add_same; auto.
        + apply filter_members; [apply mget_wf | apply mget_rel | apply aget_covers]; assumption.
        + intros x Hx. apply filter_In in Hx. tauto.
      - apply (step_refines T eqb eqb_eq dom _ _ (ORemove items) Wi Ri Ci). exact I.
      - apply remove_same; auto.
        apply filter_members; [apply mget_wf | apply mget_rel | apply aget_covers]; assumption.
      - apply (step_refines T eqb eqb_eq dom _ _ (OHas items) Wi Ri Ci). exact Hok.
      - apply (step_refines T eqb eqb_eq dom _ _ (OHasAny items) Wi Ri Ci). exact I. }
    destruct H as [E [W [R C]]]. split; [exact E|]. split; [|split].
    - apply mset_Forall; assumption.
    - apply mset_Forall2; assumption.
    - apply mset_Forall; assumption.
  Qed.

  Fixpoint am_run (ps : astate T) (dom : list T) (ops : list (mop T)) : list bool :=
    match ops with
    | [] => []
    | o :: rest => let a := am_step eqb ps dom o in snd a :: am_run (fst a) dom rest
    end.
  Fixpoint am_final (ps : astate T) (dom : list T) (ops : list (mop T)) : astate T :=
    match ops with
    | [] => ps
    | o :: rest => am_final (fst (am_step eqb ps dom o)) dom rest
    end.
  Definition m_final (st : mstate T) (ops : list (mop T)) : mstate T :=
    fold_left (fun st o => fst (m_step eqb st o)) ops st.

  Lemma mrun_refines dom ops : forall st ps,
    mwf st -> mrel st ps -> mcovers dom ps -> Forall (mop_ok dom) ops ->
    map snd (m_run eqb st ops) = am_run ps dom ops
    /\ mwf (m_final st ops) /\ mrel (m_final st ops) (am_final ps dom ops).
  Proof.
    induction ops as [|o rest IH]; intros st ps Hwf Hrel Hcov Hok.
    - simpl. auto.
    - inversion Hok as [|? ? Ho Hrest]; subst.
      destruct (mstep_refines dom st ps o Hwf Hrel Hcov Ho) as [E [W [R C]]].
      destruct (IH _ _ W R C Hrest) as [E2 [W2 R2]].
      cbn [m_run am_run am_final map]. unfold m_final in *. cbn [fold_left].
      split; [f_equal; [exact E | exact E2] | split; [exact W2 | exact R2]].
  Qed.

  (* k nil variables *)
  Lemma init_ok dom k :
    mwf (repeat s_nil k) /\ mrel (repeat s_nil k) (repeat a_empty k) /\ mcovers dom (repeat a_empty k).
  Proof.
    induction k as [|k [A [B C]]]; simpl; repeat split; try constructor; auto.
    - apply nil_wf.
    - apply nil_rel.
    - intros x E. discriminate.
  Qed.

  (* an operation never changes a variable other than its target *)
  Lemma mstep_frame st o k : k <> m_target o -> mget (fst (m_step eqb st o)) k = mget st k.
  Proof.
    intros Hk. unfold m_step. cbn [fst]. generalize (fst (s_step eqb (mget st (m_target o)) (m_sop st o))).
    intros v. unfold mget. generalize (m_target o) as i, Hk. clear Hk. revert k.
    induction st as [|x r IH]; intros k i Hk; simpl.
    - reflexivity.
    - destruct i as [|i], k as [|k]; simpl; try reflexivity; try congruence.
      apply IH. congruence.
  Qed.
End SetMultiProofs.
