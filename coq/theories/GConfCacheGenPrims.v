(* GConfCacheGenPrims.v — the primitives the translator harness/cmd/xlate_gconf (-set cache)
   maps getFromCache of gconfig/config.go onto (no proofs).

   Unlike the abstract model GConfCacheModel (memo entries are bare values), the regenerated
   function works on memo entries as Go holds them: an `any` with a dynamic type.
     dval          a Go `any`: (Some dynamic-type, payload), or (None, _) = the nil interface
     gcache        xsync.MapOf[cacheKey, any] as an association list
     xsync_compute MapOf.Compute(key, fn): fn sees (old value, loaded); it returns (new value,
                   delete?) — and here also the captured variables it assigned — or panics (None);
                   the entry is stored unless deleted; result: the value, stored?, captured (one
                   atomic step); a panic of fn escapes Compute (None)
     box T v       a value of type T stored in an `any`: boxed with its dynamic type (T itself for
                   a concrete T; for an interface T the decoded value's own type, or the nil
                   interface)
     gout          result of a function that works on the memo: GRet memo results | GPanic (a
                   runtime panic escapes) | GMustPanic memo (MustGet's panic(err))
     type_assert T v             v.(T): None = panic
     dval_is_nil v               v == nil                                                 *)
From Coq Require Import List String Bool Arith.
From GT Require Import GConfModel GConfCacheModel.
Import ListNotations.

Definition dval (ty : Type) : Type := option ty * val.
Definition nil_dval (ty : Type) : dval ty := (None, VNil).
Definition gcache (ty : Type) : Type := list ((string * ty) * dval ty).

Section Prims.
  Variable ty : Type.
  Variable ty_eqb : ty -> ty -> bool.
  Variable is_iface : ty -> bool.
  Variable dyn_of_any : val -> ty.
  Variable conv : string -> ty -> res val.

  Definition key_eqb (a b : string * ty) : bool := String.eqb (fst a) (fst b) && ty_eqb (snd a) (snd b).

  Fixpoint glookup (k : string * ty) (c : gcache ty) : option (dval ty) :=
    match c with
    | [] => None
    | (k', v) :: rest => if key_eqb k k' then Some v else glookup k rest
    end.

  Fixpoint gremove (k : string * ty) (c : gcache ty) : gcache ty :=
    match c with
    | [] => []
    | (k', v) :: rest => if key_eqb k k' then gremove k rest else (k', v) :: gremove k rest
    end.

  Definition xsync_compute {X} (c : gcache ty) (k : string * ty)
             (fn : dval ty -> bool -> option ((dval ty * bool) * X)) : option (gcache ty * dval ty * bool * X) :=
    match glookup k c with
    | Some old =>
        match fn old true with
        | Some ((nv, del), x) => Some (if del then gremove k c else (k, nv) :: gremove k c, nv, negb del, x)
        | None => None
        end
    | None =>
        match fn (nil_dval ty) false with
        | Some ((nv, del), x) => Some (if del then c else (k, nv) :: c, nv, negb del, x)
        | None => None
        end
    end.

  Definition box (T : ty) (v : val) : dval ty :=
    if is_iface T then (match v with VNil => None | V _ => Some (dyn_of_any v) end, v)
    else (Some T, v).

  Definition extract_and_convert (T : ty) (key : string) : dval ty * bool :=
    match conv key T with
    | Ok v => (box T v, false)
    | Err => (nil_dval ty, true)
    end.

  Definition type_assert (T : ty) (v : dval ty) : option val :=
    match v with
    | (None, _) => None
    | (Some d, x) => if is_iface T then Some x else if ty_eqb d T then Some x else None
    end.
End Prims.

Inductive gout (C A : Type) : Type :=
| GRet (c : C) (a : A)
| GPanic
| GMustPanic (c : C).
Arguments GRet {C A} c a.
Arguments GPanic {C A}.
Arguments GMustPanic {C A} c.

Definition dval_is_nil {ty} (v : dval ty) : bool := match fst v with None => true | Some _ => false end.
Arguments xsync_compute {ty} ty_eqb {X} c k fn.
Arguments extract_and_convert {ty} is_iface dyn_of_any conv T key.
Arguments box {ty} is_iface dyn_of_any T v.
Arguments type_assert {ty} ty_eqb is_iface T v.
