(* SetProofs.v — the model of set.go behaves as a mathematical set. *)
From Coq Require Import List Bool Arith Lia Permutation.
From GT Require Import SetModel.
Import ListNotations.

Section SetProofs.
  Variable T : Type.
  Variable eqb : T -> T -> bool.
  Hypothesis eqb_eq : forall x y, eqb x y = true <-> x = y.

  Notation memb := (memb eqb).
  Notation insert := (insert eqb).
  Notation delete := (delete eqb).
  Notation sset := (sset T).

  Definition mem (s : sset) (x : T) : Prop := In x (elems s).
  Definition wf (s : sset) : Prop := NoDup (elems s) /\ (is_nil s = true -> elems s = []).

  Lemma eqb_refl x : eqb x x = true.
  Proof. now apply eqb_eq. Qed.

  Lemma eqb_neq x y : eqb x y = false <-> x <> y.
  Proof.
    split; intros H.
    - intros E. apply eqb_eq in E. congruence.
    - destruct (eqb x y) eqn:E; [apply eqb_eq in E; contradiction | reflexivity].
  Qed.

  Lemma memb_In x l : memb x l = true <-> In x l.
  Proof.
    unfold SetModel.memb. rewrite existsb_exists. split.
    - intros [y [Hy E]]. apply eqb_eq in E. now subst.
    - intros H. exists x. split; [assumption | apply eqb_refl].
  Qed.

  Lemma memb_false x l : memb x l = false <-> ~ In x l.
  Proof.
    rewrite <- memb_In. destruct (memb x l); split; intros; congruence.
  Qed.

  Lemma insert_In x l y : In y (insert x l) <-> y = x \/ In y l.
  Proof.
    unfold SetModel.insert. destruct (memb x l) eqn:E.
    - apply memb_In in E. split; [tauto|]. intros [->|H]; assumption.
    - rewrite in_app_iff. simpl. split; intros H; [destruct H as [H|[H|[]]]|destruct H]; auto.
  Qed.

  Lemma insert_NoDup x l : NoDup l -> NoDup (insert x l).
  Proof.
    intros H. unfold SetModel.insert. destruct (memb x l) eqn:E; [assumption|].
    apply memb_false in E. apply (Permutation_NoDup (Permutation_cons_append l x)).
    now constructor.
  Qed.

  Lemma delete_In x l y : In y (delete x l) <-> In y l /\ y <> x.
  Proof.
    unfold SetModel.delete. rewrite filter_In, negb_true_iff, eqb_neq.
    split; intros [A B]; split; auto.
  Qed.

  Lemma delete_NoDup x l : NoDup l -> NoDup (delete x l).
  Proof. apply NoDup_filter. Qed.

  Lemma delete_notin x l : memb x l = false -> delete x l = l.
  Proof.
    intros H. apply memb_false in H. unfold SetModel.delete.
    induction l as [|y r IH]; simpl; [reflexivity|].
    destruct (eqb x y) eqn:E.
    - apply eqb_eq in E. subst. exfalso. apply H. now left.
    - simpl. f_equal. apply IH. intros Hin. apply H. now right.
  Qed.

  Lemma existsb_same_elems (f : T -> bool) a b :
    (forall x, In x a <-> In x b) -> existsb f a = existsb f b.
  Proof.
    intros H. destruct (existsb f a) eqn:Ea.
    - apply existsb_exists in Ea as [x [Hx Fx]]. symmetry. apply existsb_exists.
      exists x. split; [now apply H | assumption].
    - destruct (existsb f b) eqn:Eb; [|reflexivity].
      apply existsb_exists in Eb as [x [Hx Fx]].
      assert (existsb f a = true) by (apply existsb_exists; exists x; split; [now apply H|assumption]).
      congruence.
  Qed.

  Lemma existsb_ext_in (f g : T -> bool) l :
    (forall x, In x l -> f x = g x) -> existsb f l = existsb g l.
  Proof.
    induction l as [|y r IH]; intros H; simpl; [reflexivity|].
    rewrite H by now left. f_equal. apply IH. intros x Hx. apply H. now right.
  Qed.

  Lemma forallb_ext_in (f g : T -> bool) l :
    (forall x, In x l -> f x = g x) -> forallb f l = forallb g l.
  Proof.
    induction l as [|y r IH]; intros H; simpl; [reflexivity|].
    rewrite H by now left. f_equal. apply IH. intros x Hx. apply H. now right.
  Qed.

  (* ---------- Make ---------- *)
  Lemma make_fold items : forall l,
    (forall y, In y (fold_left (fun l x => insert x l) items l) <-> In y l \/ In y items)
    /\ (NoDup l -> NoDup (fold_left (fun l x => insert x l) items l)).
  Proof.
    induction items as [|x xs IH]; intros l; simpl.
    - split; [intros y; tauto | auto].
    - destruct (IH (insert x l)) as [IH1 IH2]. split.
      + intros y. rewrite IH1, insert_In. intuition (subst; auto).
      + intros H. apply IH2. now apply insert_NoDup.
  Qed.

  Lemma make_In items y : In y (elems (s_make eqb items)) <-> In y items.
  Proof. simpl. destruct (make_fold items []) as [H _]. rewrite H. simpl. tauto. Qed.

  Lemma make_wf items : wf (s_make eqb items).
  Proof.
    split; [|discriminate]. simpl. destruct (make_fold items []) as [_ H]. apply H. constructor.
  Qed.

  (* ---------- Add ---------- *)
  Lemma add_fold items : forall l b,
    let r := fold_left (add_step eqb) items (l, b) in
    (forall y, In y (fst r) <-> In y l \/ In y items)
    /\ (NoDup l -> NoDup (fst r))
    /\ snd r = b || existsb (fun x => negb (memb x l)) items.
  Proof.
    induction items as [|x xs IH]; intros l b; simpl.
    - split; [intros y; tauto | split; [auto | now rewrite orb_false_r]].
    - specialize (IH (insert x l) (b || negb (memb x l))). cbv zeta in IH.
      destruct IH as [IH1 [IH2 IH3]]. split; [|split].
      + intros y. rewrite IH1, insert_In. intuition (subst; auto).
      + intros H. apply IH2. now apply insert_NoDup.
      + rewrite IH3. rewrite <- orb_assoc. f_equal.
        destruct (memb x l) eqn:E; simpl; [|reflexivity].
        unfold SetModel.insert. now rewrite E.
  Qed.

  Lemma add_spec s items :
    wf s ->
    let r := s_add eqb s items in
    wf (fst r)
    /\ (forall y, mem (fst r) y <-> mem s y \/ In y items)
    /\ snd r = existsb (fun x => negb (memb x (elems s))) items.
  Proof.
    intros [Hnd _]. unfold s_add.
    pose proof (add_fold items (elems s) false) as H. cbv zeta in H.
    destruct (fold_left (add_step eqb) items (elems s, false)) as [l added]. simpl in *.
    destruct H as [H1 [H2 H3]]. split; [|split].
    - split; simpl; [auto | discriminate].
    - intros y. unfold mem. simpl. apply H1.
    - exact H3.
  Qed.

  (* ---------- Remove ---------- *)
  Lemma rem_fold items : forall l b,
    let r := fold_left (rem_step eqb) items (l, b) in
    (forall y, In y (fst r) <-> In y l /\ ~ In y items)
    /\ (NoDup l -> NoDup (fst r))
    /\ snd r = b || existsb (fun x => memb x l) items.
  Proof.
    induction items as [|x xs IH]; intros l b; simpl.
    - split; [intros y; tauto | split; [auto | now rewrite orb_false_r]].
    - specialize (IH (delete x l) (b || memb x l)). cbv zeta in IH.
      destruct IH as [IH1 [IH2 IH3]]. split; [|split].
      + intros y. rewrite IH1, delete_In. intuition (subst; auto).
      + intros H. apply IH2. now apply delete_NoDup.
      + rewrite IH3. rewrite <- orb_assoc. f_equal.
        destruct (memb x l) eqn:E; simpl; [reflexivity|].
        now rewrite delete_notin.
  Qed.

  Lemma length_zero_iff (l : list T) : Nat.eqb (length l) 0 = true <-> l = [].
  Proof. destruct l; simpl; split; intros; congruence. Qed.

  Lemma remove_spec s items :
    wf s ->
    let r := s_remove eqb s items in
    wf (fst r)
    /\ (forall y, mem (fst r) y <-> mem s y /\ ~ In y items)
    /\ snd r = existsb (fun x => memb x (elems s)) items.
  Proof.
    intros [Hnd Hnil]. unfold s_remove.
    destruct (Nat.eqb (length (elems s)) 0) eqn:E0; simpl.
    - apply length_zero_iff in E0. split; [|split].
      + split; assumption.
      + intros y. unfold mem. rewrite E0. simpl. tauto.
      + rewrite E0. symmetry. clear. induction items; simpl; auto.
    - pose proof (rem_fold items (elems s) false) as H. cbv zeta in H.
      destruct (fold_left (rem_step eqb) items (elems s, false)) as [l removed]. simpl in *.
      destruct H as [H1 [H2 H3]]. split; [|split].
      + split; simpl; [auto|]. intros Hn. apply Hnil in Hn. rewrite Hn in E0. discriminate.
      + intros y. unfold mem. simpl. apply H1.
      + exact H3.
  Qed.

  (* ---------- Has / HasAny / Slice ---------- *)
  Lemma has_spec s items :
    items <> [] -> (s_has eqb s items = true <-> Forall (mem s) items).
  Proof.
    intros Hne. unfold s_has.
    destruct (Nat.eqb (length (elems s)) 0) eqn:E0.
    - apply length_zero_iff in E0. split; [discriminate|]. intros H.
      destruct items as [|x xs]; [contradiction|]. inversion H as [|? ? Hx _]. subst.
      unfold mem in Hx. rewrite E0 in Hx. destruct Hx.
    - rewrite forallb_forall, Forall_forall. unfold mem.
      split; intros H x Hx; specialize (H x Hx); now apply memb_In.
  Qed.

  Lemma hasany_spec s items : s_hasany eqb s items = true <-> Exists (mem s) items.
  Proof.
    unfold s_hasany. destruct (Nat.eqb (length (elems s)) 0) eqn:E0.
    - apply length_zero_iff in E0. split; [discriminate|].
      rewrite Exists_exists. intros [x [_ Hx]]. unfold mem in Hx. rewrite E0 in Hx. destruct Hx.
    - rewrite existsb_exists, Exists_exists. unfold mem.
      split; intros [x [Hx H]]; exists x; split; auto; now apply memb_In.
  Qed.

  (* Slice lists every member exactly once, in whatever order the runtime ranges over the map;
     nil exactly for the empty set *)
  Lemma slice_spec s :
    wf s ->
    match s_slice s with
    | None => forall x, ~ mem s x
    | Some l => l <> [] /\ forall l', Permutation l l' -> NoDup l' /\ forall x, In x l' <-> mem s x
    end.
  Proof.
    intros [Hnd _]. unfold s_slice, mem. destruct (elems s) as [|y r] eqn:E.
    - intros x [].
    - split; [discriminate|]. intros l' HP. split.
      + eapply Permutation_NoDup; eauto.
      + intros x. split; intros H.
        * eapply Permutation_in; [apply Permutation_sym|]; eauto.
        * eapply Permutation_in; eauto.
  Qed.

  (* the pinned Has is wrong on repeated arguments: for every element a, Make(a).Has(a, a) *)
  Lemma has_orig_refuted (a : T) :
    s_has_orig eqb (s_make eqb [a]) [a; a] = false /\ Forall (mem (s_make eqb [a])) [a; a].
  Proof.
    split.
    - reflexivity.
    - repeat constructor; unfold mem; simpl; now left.
  Qed.

  (* ---------- refinement of the abstract set over operation sequences ---------- *)
  Definition rel (s : sset) (p : T -> bool) : Prop := forall x, memb x (elems s) = p x.
  Definition covers (dom : list T) (p : T -> bool) : Prop := forall x, p x = true -> In x dom.
  Definition op_ok (dom : list T) (o : sop T) : Prop :=
    match o with
    | OHas items => items <> []
    | OMake items | OAdd items | OAddSet items => forall x, In x items -> In x dom
    | _ => True
    end.

  Lemma rel_mem s p x : rel s p -> (p x = true <-> mem s x).
  Proof. intros H. rewrite <- H. apply memb_In. Qed.

  Lemma bool_eq_iff (a b : bool) : (a = true <-> b = true) -> a = b.
  Proof. destruct a, b; intuition congruence. Qed.

  Lemma rel_of_In s p : (forall x, mem s x <-> p x = true) -> rel s p.
  Proof. intros H x. apply bool_eq_iff. rewrite memb_In. apply H. Qed.

  Lemma nil_wf : wf (@s_nil T).
  Proof. split; [constructor | reflexivity]. Qed.

  Lemma nil_rel : rel (@s_nil T) (@a_empty T).
  Proof. intros x. reflexivity. Qed.

  Lemma step_refines dom s p o :
    wf s -> rel s p -> covers dom p -> op_ok dom o ->
    let r := s_step eqb s o in let a := a_step eqb p dom o in
    snd r = snd a /\ wf (fst r) /\ rel (fst r) (fst a) /\ covers dom (fst a).
  Proof.
    intros Hwf Hrel Hcov Hok.
    destruct o as [|items|items|items| | |items|items| | |items|items]; cbn [s_step a_step fst snd].
    - (* ONil *)
      split; [reflexivity|]. split; [apply nil_wf|]. split; [apply nil_rel | intros x; discriminate].
    - (* OMake *)
      split; [reflexivity|]. split; [apply make_wf|]. split.
      + apply rel_of_In. intros x. unfold mem, a_of. rewrite make_In, memb_In. tauto.
      + intros x Hx. apply Hok. unfold a_of in Hx. now apply memb_In.
    - (* OAdd *)
      destruct (add_spec s items Hwf) as [W [M F]]. split; [|split; [exact W|split]].
      + rewrite F. apply existsb_ext_in. intros x _. now rewrite Hrel.
      + apply rel_of_In. intros x. rewrite M. unfold a_union, a_of.
        rewrite orb_true_iff, memb_In, (rel_mem s p x Hrel). tauto.
      + intros x. unfold a_union, a_of. rewrite orb_true_iff, memb_In. intros [H|H]; auto.
    - (* OAddSet *)
      unfold s_addset.
      destruct (add_spec s (elems (s_make eqb items)) Hwf) as [W [M F]].
      split; [|split; [exact W|split]].
      + rewrite F. rewrite (existsb_same_elems _ _ items) by apply make_In.
        apply existsb_ext_in. intros x _. now rewrite Hrel.
      + apply rel_of_In. intros x. rewrite M, make_In. unfold a_union, a_of.
        rewrite orb_true_iff, memb_In, (rel_mem s p x Hrel). tauto.
      + intros x. unfold a_union, a_of. rewrite orb_true_iff, memb_In. intros [H|H]; auto.
    - (* OAddSetNil *)
      unfold s_addset. destruct (add_spec s [] Hwf) as [W [M F]].
      split; [exact F|split; [exact W|split; [|exact Hcov]]].
      apply rel_of_In. intros x. rewrite M. rewrite (rel_mem s p x Hrel). simpl. tauto.
    - (* OAddSelf *)
      unfold s_addset. destruct (add_spec s (elems s) Hwf) as [W [M F]].
      split; [|split; [exact W|split; [|exact Hcov]]].
      + rewrite F. apply not_true_is_false. intros H. apply existsb_exists in H as [x [Hx Hn]].
        apply negb_true_iff in Hn. apply memb_false in Hn. contradiction.
      + apply rel_of_In. intros x. rewrite M. rewrite (rel_mem s p x Hrel). unfold mem. tauto.
    - (* ORemove *)
      destruct (remove_spec s items Hwf) as [W [M F]]. split; [|split; [exact W|split]].
      + rewrite F. apply existsb_ext_in. intros x _. now rewrite Hrel.
      + apply rel_of_In. intros x. rewrite M. unfold a_diff, a_of.
        rewrite andb_true_iff, negb_true_iff, memb_false, (rel_mem s p x Hrel). tauto.
      + intros x. unfold a_diff. rewrite andb_true_iff. intros [H _]. auto.
    - (* ORemoveSet *)
      unfold s_removeset.
      destruct (remove_spec s (elems (s_make eqb items)) Hwf) as [W [M F]].
      split; [|split; [exact W|split]].
      + rewrite F. rewrite (existsb_same_elems _ _ items) by apply make_In.
        apply existsb_ext_in. intros x _. now rewrite Hrel.
      + apply rel_of_In. intros x. rewrite M, make_In. unfold a_diff, a_of.
        rewrite andb_true_iff, negb_true_iff, memb_false, (rel_mem s p x Hrel). tauto.
      + intros x. unfold a_diff. rewrite andb_true_iff. intros [H _]. auto.
    - (* ORemoveSetNil *)
      unfold s_removeset. destruct (remove_spec s [] Hwf) as [W [M F]].
      split; [exact F|split; [exact W|split; [|exact Hcov]]].
      apply rel_of_In. intros x. rewrite M. rewrite (rel_mem s p x Hrel). simpl. tauto.
    - (* ORemoveSelf *)
      unfold s_removeset. destruct (remove_spec s (elems s) Hwf) as [W [M F]].
      split; [|split; [exact W|split]].
      + rewrite F. apply bool_eq_iff. rewrite !existsb_exists. split; intros [x [Hx Hm]].
        * exists x. split; [apply Hcov|]; rewrite <- Hrel; assumption.
        * exists x. rewrite <- Hrel in Hm. split; [now apply memb_In | assumption].
      + apply rel_of_In. intros x. rewrite M. unfold mem, a_empty. intuition congruence.
      + intros x. unfold a_empty. discriminate.
    - (* OHas *)
      split; [|split; [exact Hwf|split; [exact Hrel|exact Hcov]]].
      apply bool_eq_iff. rewrite (has_spec s items Hok).
      rewrite forallb_forall, Forall_forall.
      split; intros H x Hx; specialize (H x Hx); now apply (rel_mem s p x Hrel).
    - (* OHasAny *)
      split; [|split; [exact Hwf|split; [exact Hrel|exact Hcov]]].
      apply bool_eq_iff. rewrite hasany_spec.
      rewrite existsb_exists, Exists_exists.
      split; intros [x [Hx H]]; exists x; split; auto; now apply (rel_mem s p x Hrel).
  Qed.

  (* outputs of the abstract run: boolean results only (states are compared through [rel]) *)
  Fixpoint a_run (p : T -> bool) (dom : list T) (ops : list (sop T)) : list bool :=
    match ops with
    | [] => []
    | o :: rest => let a := a_step eqb p dom o in snd a :: a_run (fst a) dom rest
    end.

  Fixpoint a_final (p : T -> bool) (dom : list T) (ops : list (sop T)) : T -> bool :=
    match ops with
    | [] => p
    | o :: rest => a_final (fst (a_step eqb p dom o)) dom rest
    end.

  Definition s_final (s : sset) (ops : list (sop T)) : sset :=
    fold_left (fun s o => fst (s_step eqb s o)) ops s.

  Lemma run_refines dom ops : forall s p,
    wf s -> rel s p -> covers dom p -> Forall (op_ok dom) ops ->
    map snd (s_run eqb s ops) = a_run p dom ops
    /\ wf (s_final s ops) /\ rel (s_final s ops) (a_final p dom ops).
  Proof.
    induction ops as [|o rest IH]; intros s p Hwf Hrel Hcov Hok; simpl.
    - auto.
    - inversion Hok as [|? ? Ho Hrest]; subst.
      destruct (step_refines dom s p o Hwf Hrel Hcov Ho) as [E [W [R C]]].
      destruct (IH _ _ W R C Hrest) as [E2 [W2 R2]].
      split; [now rewrite E, E2 | split; [exact W2 | exact R2]].
  Qed.

  (* every reachable state is duplicate free *)
  Lemma reachable_wf ops s : wf s -> wf (s_final s ops).
  Proof.
    revert s. induction ops as [|o rest IH]; intros s Hwf; simpl; [assumption|].
    apply IH. clear IH.
    destruct o as [|items|items|items| | |items|items| | |items|items]; cbn [s_step fst]; auto.
    - apply nil_wf.
    - apply make_wf.
    - apply (add_spec s items Hwf).
    - apply (add_spec s _ Hwf).
    - apply (add_spec s _ Hwf).
    - apply (add_spec s _ Hwf).
    - apply (remove_spec s items Hwf).
    - apply (remove_spec s _ Hwf).
    - apply (remove_spec s _ Hwf).
    - apply (remove_spec s _ Hwf).
  Qed.
End SetProofs.
