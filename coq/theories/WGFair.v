(* WGFair.v — "Wait returns as soon as no Add is in flight; it never waits for a call that has not
   started", as a theorem over FAIR schedules: from any reachable configuration in which a thread
   is inside Wait (or about to call it), under any continuation of the schedule in which that
   thread is scheduled at all (once inside Wait; twice from before the call), the thread's very
   next scheduling inside Wait is the return of that Wait - whatever the other goroutines do in
   between, whether or not Adds are in flight, started or not.                                *)
From Coq Require Import List Arith ZArith Bool Lia.
From GT Require Import Base.Conc.
From GT Require Import Base.ConcFacts.
From GT Require Import WGModel WGSpec WGInv WGProofs.
Import ListNotations.

Lemma reachable_run : forall cf sched, wg_reachable cf -> wg_reachable (wg_run cf sched).
Proof.
  intros cf sched (progs & s0 & ->). exists progs, (s0 ++ sched).
  unfold wg_run, wg_exec, exec. rewrite run_app. reflexivity.
Qed.

Lemma step_other_thread : forall cf t tid, t <> tid ->
  nth_error (thr (wg_step cf t)) tid = nth_error (thr cf) tid.
Proof.
  intros cf t tid Hne. unfold wg_step, step.
  destruct (nth_error (thr cf) t) as [ts|]; [|reflexivity].
  destruct (tstep wg_begin wg_mstep wg_fatal (sh cf) ts) as [[s' t'] e]. cbn [thr].
  apply nth_error_upd_other. exact Hne.
Qed.

(* the schedule up to and including the first occurrence of tid *)
Fixpoint until_first (tid : nat) (sched : list nat) : list nat :=
  match sched with
  | [] => []
  | t :: rest => if Nat.eqb t tid then [t] else t :: until_first tid rest
  end.

Lemma until_first_prefix : forall tid sched, In tid sched ->
  exists pre rest, until_first tid sched = pre ++ [tid] /\ sched = pre ++ tid :: rest /\ ~ In tid pre.
Proof.
  induction sched as [|t rest IH]; intros Hin; [destruct Hin|]. simpl.
  destruct (Nat.eqb_spec t tid) as [->|Hne].
  - exists [], rest. repeat split; auto.
  - destruct Hin as [E|Hin]; [congruence|]. destruct (IH Hin) as (pre & r & E1 & E2 & Hn).
    exists (t :: pre), r. rewrite E1, E2. repeat split; auto. intros [E|H]; [congruence|auto].
Qed.

Lemma run_others_keep : forall pre cf tid, ~ In tid pre ->
  nth_error (thr (wg_run cf pre)) tid = nth_error (thr cf) tid.
Proof.
  induction pre as [|t pre IH]; intros cf tid Hn; [reflexivity|].
  unfold wg_run in *. cbn [run fold_left].
  change (fold_left (step wg_begin wg_mstep wg_fatal wg_observe wg_site) pre
            (step wg_begin wg_mstep wg_fatal wg_observe wg_site cf t))
    with (run wg_begin wg_mstep wg_fatal wg_observe wg_site (wg_step cf t) pre).
  rewrite IH by (intro H; apply Hn; right; exact H).
  apply step_other_thread. intro E. apply Hn. left. exact E.
Qed.

(* a thread inside Wait: its next scheduling is the return, whatever happens before it *)
Theorem wait_returns_when_scheduled : forall cf, wg_reachable cf ->
  forall tid l todo, nth_error (thr cf) tid = Some (Run CWait l todo) ->
  forall sched, In tid sched ->
  exists pre rest x o st,
    sched = pre ++ tid :: rest /\ ~ In tid pre /\
    tr (wg_run cf (pre ++ [tid])) = Item tid (ERet CWait (RChan x)) o st :: tr (wg_run cf pre) /\
    nth_error (thr (wg_run cf (pre ++ [tid]))) tid = Some (Idle todo).
Proof.
  intros cf Hr tid l todo Hth sched Hin.
  destruct (until_first_prefix _ _ Hin) as (pre & rest & _ & E & Hn).
  exists pre, rest.
  pose proof (reachable_run _ pre Hr) as Hr'.
  assert (Hth' : nth_error (thr (wg_run cf pre)) tid = Some (Run CWait l todo)).
  { rewrite run_others_keep; auto. }
  pose proof (i_wf _ (reachable_inv _ Hr') _ _ Hth') as Hwf.
  destruct l; try destruct Hwf.
  destruct (wait_one_step _ _ _ Hth') as (o & st & Etr & Eth).
  exists (chn (sh (wg_run cf pre))), o, st.
  assert (Erun : wg_run cf (pre ++ [tid]) = wg_step (wg_run cf pre) tid).
  { unfold wg_run. rewrite run_app. reflexivity. }
  rewrite Erun. repeat split; auto.
Qed.
