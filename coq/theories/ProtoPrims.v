(* ProtoPrims.v — the primitives the translator harness/cmd/xlate_proto maps Go onto (no proofs).

   The regenerated file ProtoGen.v (gen_Run, gen_findProtos, gen_protoFileHasGoPackage, helper
   functions) is Gallina over *strings* — the Go code's own data — and over the primitives below:

   Go                                              →  primitive
   -----------------------------------------------------------------------------------------------
   the file system (os.Lstat, os.ReadDir, os.Open) →  [world]: rose tree [node] (a file carries its
                                                      content and whether its mode is regular), the working directory, the
                                                      PackageNameFromPath oracle, protoc's exit status
   error values nil / fs.SkipDir / any other       →  [gerror] = ENil | ESkipDir | EFail
   statements with return / continue / break       →  [ctl] (Next state | Ret value | Cont | Brk),
                                                      [bind_ctl]; `for _, x := range xs`  →  [loop_range]
   filepath.WalkDir(root, fn)                      →  [fs_walk_dir] (callback with explicit state: the
                                                      captured variables it assigns), visiting order
                                                      and SkipDir semantics of path/filepath.walkDir
   os.Open + bufio.NewReader                       →  [fs_open] (the bytes, or the read error)
   declaresGoPackage(reader)                       →  [scan_reader] = ProtoLex.scan_go_package
   for i, x := range xs                            →  loop_range over [enumerate 0 xs]
   os.Lstat / os.ReadDir / fs.FileInfoToDirEntry   →  [fs_lstat] / [fs_read_dir] / identity
   d.IsDir() / d.Type().IsRegular() / d.Name()     →  [is_dir] / [is_regular] / [node_name]
   gencommon.PackageNameFromPath                   →  [pkg_name_from_path] (oracle of the world)
   exec.Command(p, args...).Run()                  →  [exec_run] + the invocation appended to the log
   strings.* / filepath.*                          →  ProtoPath.v
   type Generate struct                            →  [Generate]                                   *)
From Coq Require Import String List Bool Arith Ascii ZArith.
From GT Require Export ProtoPath ProtoLex.
Import ListNotations.
Local Open Scope string_scope.
Local Open Scope list_scope.

(* ------------------------------------------------------------------ file system *)
(* the directory tree as os.ReadDir / Lstat / Open report it: children in ReadDir order; a file
   carries its content and "d.Type().IsRegular()" *)
Inductive node : Type :=
| File (name : string) (content : string) (is_regular : bool)
| Dir (name : string) (children : list node).

Definition node_name (n : node) : string :=
  match n with File s _ _ => s | Dir s _ => s end.
Definition is_dir (n : node) : bool :=
  match n with Dir _ _ => true | File _ _ _ => false end.
(* d.Type().IsRegular() *)
Definition is_regular (n : node) : bool :=
  match n with File _ _ r => r | Dir _ _ => false end.
Definition node_content (n : node) : string :=
  match n with File _ c _ => c | Dir _ _ => "" end.

Inductive gerror : Type := ENil | ESkipDir | EFail.
Definition err_is_nil (e : gerror) : bool := match e with ENil => true | _ => false end.
Definition err_eqb (a b : gerror) : bool :=
  match a, b with ENil, ENil | ESkipDir, ESkipDir | EFail, EFail => true | _, _ => false end.

Record world : Type := {
  w_root : node;                            (* the node of "/" *)
  w_cwd : string;                            (* working directory, absolute and clean *)
  w_pkg : string -> result string;           (* gencommon.PackageNameFromPath *)
  w_exec : string -> list string -> gerror   (* exit status of the executed program *)
}.

Fixpoint find_child (s : string) (l : list node) : option node :=
  match l with
  | [] => None
  | c :: r => if String.eqb (node_name c) s then Some c else find_child s r
  end.

(* os.Lstat / os.Open of an absolute path, starting from the node of "/" *)
Fixpoint lookup (n : node) (p : path) : option node :=
  match p with
  | [] => Some n
  | s :: r =>
      match n with
      | Dir _ ch =>
          match find_child s ch with
          | Some c => lookup c r
          | None => None
          end
      | File _ _ _ => None
      end
  end.

(* os.Lstat of a path as spelled (relative paths against the working directory) *)
Definition fs_resolve (W : world) (s : string) : option node :=
  if String.eqb s "" then None else lookup (w_root W) (abs_segs (fp_abs (w_cwd W) s)).

Definition dirent_nil : node := File "" "" false.

Definition fs_lstat (W : world) (s : string) : node * gerror :=
  match fs_resolve W s with Some n => (n, ENil) | None => (dirent_nil, EFail) end.

Definition fs_read_dir (W : world) (s : string) : list node * gerror :=
  match fs_resolve W s with
  | Some (Dir _ ch) => (ch, ENil)
  | _ => ([], EFail)
  end.

(* an opened file seen through bufio.Reader: its bytes, or the error that reading it gives
   (a directory opens, reading it fails) *)
Definition reader : Type := (string * gerror)%type.
Definition fs_open (W : world) (s : string) : reader * gerror :=
  match fs_resolve W s with
  | Some (File _ c _) => ((c, ENil), ENil)
  | Some (Dir _ _) => (("", EFail), ENil)
  | None => (("", ENil), EFail)
  end.

(* declaresGoPackage(r) — the byte scanner, modelled in ProtoLex.v ([scan_go_package]) and tied to
   the code by the exhaustive scan stream of the check (it is not translated) *)
Definition scan_reader (r : reader) : bool * gerror :=
  if err_is_nil (snd r) then (scan_go_package (fst r), ENil) else (false, snd r).

(* for i, x := range xs *)
Fixpoint enumerate (k : Z) (xs : list string) : list (Z * string) :=
  match xs with
  | [] => []
  | x :: r => (k, x) :: enumerate (k + 1) r
  end.

Definition pkg_name_from_path (W : world) (s : string) : string * gerror :=
  match w_pkg W s with Ok k => (k, ENil) | Err => ("", EFail) end.

Definition fp_rel_e (base targ : string) : string * gerror :=
  match fp_rel base targ with Ok s => (s, ENil) | Err => ("", EFail) end.

Definition invocation : Type := string * list string.
Definition exec_run (W : world) (c : invocation) : gerror := w_exec W (fst c) (snd c).

(* ------------------------------------------------------------------ control flow *)
Inductive ctl (S L R : Type) : Type :=
| Next (s : S)        (* fell through, with the values of the variables assigned so far *)
| Ret (r : R)         (* return *)
| Cont (l : L)        (* continue, with the loop-carried variables *)
| Brk (l : L).        (* break *)
Arguments Next {S L R} s.
Arguments Ret {S L R} r.
Arguments Cont {S L R} l.
Arguments Brk {S L R} l.

Definition bind_ctl {S S' L R : Type} (c : ctl S L R) (k : S -> ctl S' L R) : ctl S' L R :=
  match c with
  | Next s => k s
  | Ret r => Ret r
  | Cont l => Cont l
  | Brk l => Brk l
  end.

(* for _, x := range xs { body }   with loop-carried variables l.
   The body is a parameter outside the fixpoint (as f in List.map), so that a generated
   function may call itself on the elements of xs inside the body (recursion over the tree). *)
Section Loops.
  Context {A L L' R : Type}.
  Variable body : L -> A -> ctl L L R.

  Fixpoint loop_range_aux (xs : list A) (l : L) : ctl L L' R :=
    match xs with
    | [] => Next l
    | x :: r =>
        match body l x with
        | Next l' => loop_range_aux r l'
        | Cont l' => loop_range_aux r l'
        | Brk l' => Next l'
        | Ret v => Ret v
        end
    end.

  (* for cond(l) && scanner.Scan() { body }: the lines in order while the condition holds *)
  Variable cond : L -> bool.
  Fixpoint loop_while_range_aux (xs : list A) (l : L) : ctl L L' R :=
    match xs with
    | [] => Next l
    | x :: r =>
        if cond l then
          match body l x with
          | Next l' => loop_while_range_aux r l'
          | Cont l' => loop_while_range_aux r l'
          | Brk l' => Next l'
          | Ret v => Ret v
          end
        else Next l
    end.
End Loops.
Notation loop_range xs l body := (loop_range_aux body xs l).
Notation loop_while_range cond xs l body := (loop_while_range_aux body cond xs l).

(* the value a function body returns ([d]: unreachable fall-through) *)
Definition fn_result {S L R : Type} (d : R) (c : ctl S L R) : R :=
  match c with Ret r => r | _ => d end.

(* ------------------------------------------------------------------ filepath.WalkDir *)
Section WalkDir.
  Context {S : Type}.
  (* the callback: state (captured variables it assigns) -> path -> entry -> err -> state * result *)
  Variable fn : S -> string -> node -> gerror -> S * gerror.

  (* path/filepath.walkDir: callback first; a directory is read unless the callback said
     SkipDir; SkipDir from a non-directory ends the enclosing directory's loop; any other
     error aborts.  Result: ENil go on | ESkipDir (from a file: skip the siblings) | EFail *)
  Fixpoint fs_walk_node (p : string) (n : node) (st : S) {struct n} : S * gerror :=
    match n with
    | File _ _ _ => fn st p n ENil
    | Dir _ ch =>
        let '(st1, e) := fn st p n ENil in
        match e with
        | ESkipDir => (st1, ENil)
        | EFail => (st1, EFail)
        | ENil =>
            (fix walk_list (l : list node) (st : S) : S * gerror :=
               match l with
               | [] => (st, ENil)
               | c :: r =>
                   let '(st2, e2) := fs_walk_node (fp_join p (node_name c)) c st in
                   match e2 with
                   | ENil => walk_list r st2
                   | ESkipDir => (st2, ENil)
                   | EFail => (st2, EFail)
                   end
               end) ch st1
        end
    end.

  Fixpoint fs_walk_list (p : string) (l : list node) (st : S) : S * gerror :=
    match l with
    | [] => (st, ENil)
    | c :: r =>
        let '(st2, e2) := fs_walk_node (fp_join p (node_name c)) c st in
        match e2 with
        | ENil => fs_walk_list p r st2
        | ESkipDir => (st2, ENil)
        | EFail => (st2, EFail)
        end
    end.

  Definition unskip (e : gerror) : gerror := match e with ESkipDir => ENil | x => x end.

  (* filepath.WalkDir: Lstat of the root; on failure the callback is told; SkipDir at top
     level is success *)
  Definition fs_walk_dir (W : world) (root : string) (st : S) : S * gerror :=
    match fs_resolve W root with
    | None => let '(st1, e) := fn st root dirent_nil EFail in (st1, unskip e)
    | Some n => let '(st1, e) := fs_walk_node root n st in (st1, unskip e)
    end.
End WalkDir.

(* ------------------------------------------------------------------ the command line *)
Record Generate : Type := {
  g_InputDir : string;
  g_ProtocPath : string;
  g_Recurse : bool;
  g_VTProto : bool;
  g_GRPC : bool;
  g_Include : list string
}.

(* the fields of `type Generate struct` the record above stands for (checked against the
   regenerated list by the tie) *)
Definition Generate_fields : list (string * string) :=
  [("InputDir", "string"); ("ProtocPath", "string"); ("Recurse", "bool"); ("VTProto", "bool");
   ("GRPC", "bool"); ("Include", "[]string")].
