(* GErrSliceProofs.v — with the clipped append of CloneBase the memory-level model of
   laterSrcErrors (GErrSlice.v) simulates the functional one (GErrModel.clone_base), never writes
   a slot of an existing array, and is race free; without the clip it is refuted. *)
From Coq Require Import NArith List Bool Lia PeanoNat.
From GT Require Import Base.GErrStr.
From GT Require Import GErrModel GErrSpec GErrProofs GErrRace GErrRaceProofs GErrSlice.
Import ListNotations.

(* ---------------------------------------------------------------- clone_base's rule for
   srcError / laterSrcErrors, for ALL its arguments *)
Lemma clone_base_serr b bp ep stt dtag src ext serr site derived :
  g_serr (clone_base b bp ep stt dtag src ext serr site derived)
  = if is_nil (g_serr b) && negb (is_nil serr) then serr else g_serr b.
Proof.
  unfold clone_base. cbv zeta.
  repeat match goal with
         | |- context [if ?c then mkG _ _ _ _ _ _ _ _ _ else _] => destruct c
         end; reflexivity.
Qed.

Lemma clone_base_later b bp ep stt dtag src ext serr site derived :
  g_later (clone_base b bp ep stt dtag src ext serr site derived)
  = if is_nil (g_serr b) && negb (is_nil serr) then g_later b
    else if negb (is_nil serr) then g_later b ++ [serr] else g_later b.
Proof.
  unfold clone_base. cbv zeta.
  repeat match goal with
         | |- context [if ?c then mkG _ _ _ _ _ _ _ _ _ else _] => destruct c
         end; reflexivity.
Qed.

(* ---------------------------------------------------------------- lists *)
Lemma firstn_snoc {A : Type} (l : list A) v r : firstn (S (length l)) (l ++ v :: r) = l ++ [v].
Proof. induction l as [|x l IH]; simpl; [reflexivity|]. f_equal. exact IH. Qed.

Lemma Forall2_nth_l {A B : Type} (R : A -> B -> Prop) l1 l2 :
  Forall2 R l1 l2 -> forall i a, nth_error l1 i = Some a -> exists b, nth_error l2 i = Some b /\ R a b.
Proof.
  induction 1 as [|x y l1 l2 Hxy H IH]; intros i a E.
  - destruct i; discriminate.
  - destruct i as [|i]; simpl in *.
    + injection E as <-. eauto.
    + exact (IH _ _ E).
Qed.

Lemma Forall2_len {A B : Type} (R : A -> B -> Prop) l1 l2 : Forall2 R l1 l2 -> length l1 = length l2.
Proof. induction 1; simpl; congruence. Qed.

Lemma Forall2_nth_none {A B : Type} (R : A -> B -> Prop) l1 l2 :
  Forall2 R l1 l2 -> forall i, nth_error l1 i = None -> nth_error l2 i = None.
Proof.
  intros H i E. apply nth_error_None. apply nth_error_None in E.
  rewrite <- (Forall2_len _ _ _ H). exact E.
Qed.

(* ---------------------------------------------------------------- growing the heap *)
Lemma arr_of_app1 h x a : a < length h -> arr_of (h ++ x) a = arr_of h a.
Proof. intros H. unfold arr_of. apply app_nth1. exact H. Qed.

Lemma arr_of_out h a : length h <= a -> arr_of h a = [].
Proof. intros H. unfold arr_of. apply nth_overflow. exact H. Qed.

Lemma arr_of_new h x : arr_of (h ++ [x]) (length h) = x.
Proof. unfold arr_of. apply nth_middle. Qed.

Lemma slice_wf_app h x s : slice_wf h s -> slice_wf (h ++ x) s.
Proof.
  intros [L C]. destruct (Nat.lt_ge_cases (s_arr s) (length h)) as [I|O].
  - split; [exact L|]. rewrite arr_of_app1 by exact I. exact C.
  - rewrite (arr_of_out _ _ O) in C. simpl in C. split; lia.
Qed.

Lemma contents_app h x s : slice_wf h s -> contents (h ++ x) s = contents h s.
Proof.
  intros [L C]. unfold contents. destruct (Nat.lt_ge_cases (s_arr s) (length h)) as [I|O].
  - rewrite arr_of_app1 by exact I. reflexivity.
  - rewrite (arr_of_out _ _ O) in C. simpl in C. assert (s_len s = 0) as -> by lia. reflexivity.
Qed.

Lemma wf_reachable_lt ms a : mem_wf ms -> reachable ms a -> a < length (m_heap ms).
Proof.
  intros W [c [I [<- P]]]. unfold mem_wf in W. rewrite Forall_forall in W.
  destruct (W c I) as [_ C].
  destruct (Nat.lt_ge_cases (s_arr (m_later c)) (length (m_heap ms))) as [L|O]; [exact L|].
  rewrite (arr_of_out _ _ O) in C. simpl in C. lia.
Qed.

(* ---------------------------------------------------------------- one step *)
Section MemProofs.
  Variable grow : nat -> nat -> nat.
  Hypothesis grow_ok : forall c n, n <= grow c n.

  (* what a trace of the clipped code may contain: copies out of the parent's array, writes
     into the array allocated by this very step *)
  Definition clipped_access (h : heap) (b : mcell) (x : access) : Prop :=
    match x with
    | WrSlot a _ => a = length h
    | RdSlot a k => a = s_arr (m_later b) /\ k < s_len (m_later b)
    | _ => False
    end.

  Lemma clone_later_true h b serr :
    slice_wf h (m_later b) ->
    exists ext c t,
      clone_later_mem grow true h b serr = (h ++ ext, c, t)
      /\ slice_wf (h ++ ext) (m_later c)
      /\ m_serr c = (if is_nil (m_serr b) && negb (is_nil serr) then serr else m_serr b)
      /\ contents (h ++ ext) (m_later c)
         = (if is_nil (m_serr b) && negb (is_nil serr) then contents h (m_later b)
            else if negb (is_nil serr) then contents h (m_later b) ++ [serr]
                 else contents h (m_later b))
      /\ (forall x, In x t -> clipped_access h b x).
  Proof.
    intros W. unfold clone_later_mem.
    destruct (is_nil (m_serr b) && negb (is_nil serr)).
    { exists [], (mkM serr (m_later b)), []. rewrite app_nil_r. simpl. repeat split; try exact (proj1 W); try exact (proj2 W). contradiction. }
    destruct (negb (is_nil serr)).
    2:{ exists [], (mkM (m_serr b) (m_later b)), []. rewrite app_nil_r. simpl. repeat split; try exact (proj1 W); try exact (proj2 W). contradiction. }
    unfold append_mem, slice3. cbn [s_len s_cap s_arr]. rewrite Nat.ltb_irrefl.
    destruct W as [L C].
    set (n := s_len (m_later b)) in *. set (arr := arr_of h (s_arr (m_later b))) in *.
    set (c := grow n (S n)).
    assert (Hc : S n <= c) by apply grow_ok.
    assert (Hl : length (firstn n arr) = n) by (apply firstn_length_le; lia).
    eexists [_], _, _. split; [reflexivity|]. cbn [m_later m_serr s_len s_cap s_arr].
    split; [|split; [reflexivity|split]].
    - split; cbn [s_len s_cap s_arr]; [exact Hc|]. rewrite arr_of_new.
      rewrite app_length, Hl. simpl. rewrite repeat_length. lia.
    - unfold contents. cbn [s_len s_arr]. rewrite arr_of_new.
      rewrite <- Hl at 1. rewrite firstn_snoc. reflexivity.
    - intros x Hx. apply in_app_iff in Hx. destruct Hx as [Hx|Hx]; apply in_map_iff in Hx;
        destruct Hx as [k [<- Hk]]; simpl; [|reflexivity].
      apply in_seq in Hk. split; [reflexivity|]. fold n. lia.
  Qed.

  Lemma cells_sim_app h x cs fs :
    Forall (fun c => slice_wf h (m_later c)) cs ->
    Forall2 (cell_sim h) cs fs -> Forall2 (cell_sim (h ++ x)) cs fs.
  Proof.
    intros W S. induction S as [|c g cs fs [E1 E2] S IH]; [constructor|].
    inversion W as [|? ? Wc Wr]; subst. constructor; [|exact (IH Wr)].
    split; [exact E1|]. rewrite contents_app by exact Wc. exact E2.
  Qed.

  Lemma cells_wf_app h x cs :
    Forall (fun c => slice_wf h (m_later c)) cs -> Forall (fun c => slice_wf (h ++ x) (m_later c)) cs.
  Proof. intros W. eapply Forall_impl; [|exact W]. intros c. apply slice_wf_app. Qed.

  (* one derivation, clipped: the heap and the cells only grow; simulation and well-formedness
     are kept; the trace writes only the array allocated by the step *)
  Lemma mem_step_true ms x :
    mem_wf ms ->
    exists eh ec t,
      mem_step grow true ms x = (mkMem (m_heap ms ++ eh) (m_cells ms ++ ec), t)
      /\ mem_wf (mkMem (m_heap ms ++ eh) (m_cells ms ++ ec))
      /\ (forall fs, sim ms fs -> sim (mkMem (m_heap ms ++ eh) (m_cells ms ++ ec)) (fun_step fs x))
      /\ (forall y, In y t -> exists b, In b (m_cells ms) /\ clipped_access (m_heap ms) b y).
  Proof.
    intros W. unfold mem_step. destruct (nth_error (m_cells ms) (h_parent x)) as [b|] eqn:E.
    - assert (Ib : In b (m_cells ms)) by (eapply nth_error_In; exact E).
      assert (Wb : slice_wf (m_heap ms) (m_later b)).
      { unfold mem_wf in W. rewrite Forall_forall in W. exact (W b Ib). }
      destruct (clone_later_true (m_heap ms) b (h_serr x) Wb) as [ext [c [t [R [Wc [Es [Ec Ht]]]]]]].
      rewrite R. exists ext, [c], t. split; [reflexivity|]. split; [|split].
      + unfold mem_wf. cbn [m_heap m_cells]. apply Forall_app. split.
        * apply cells_wf_app. exact W.
        * constructor; [exact Wc|constructor].
      + intros fs S. unfold sim in *. cbn [m_heap m_cells].
        destruct (Forall2_nth_l _ _ _ S _ _ E) as [g [Eg [Sg1 Sg2]]].
        unfold fun_step. rewrite Eg. apply Forall2_app.
        * apply cells_sim_app; [exact W|exact S].
        * constructor; [|constructor]. split.
          -- rewrite Es, clone_base_serr, Sg1. reflexivity.
          -- rewrite Ec, clone_base_later, Sg1, Sg2. reflexivity.
      + intros y Hy. exists b. split; [exact Ib|exact (Ht y Hy)].
    - exists [], [], []. rewrite !app_nil_r. destruct ms as [h cs]. cbn [m_heap m_cells] in *.
      split; [reflexivity|]. split; [exact W|]. split; [|contradiction].
      intros fs S. unfold fun_step. rewrite (Forall2_nth_none _ _ _ S _ E). exact S.
  Qed.

  Lemma mem_eta ms : mkMem (m_heap ms) (m_cells ms) = ms.
  Proof. destruct ms; reflexivity. Qed.

  (* ---------------------------------------------------------------- whole histories *)
  Lemma mem_run_true hist : forall ms,
    mem_wf ms ->
    exists eh ec t,
      mem_run grow true ms hist = (mkMem (m_heap ms ++ eh) (m_cells ms ++ ec), t)
      /\ mem_wf (mkMem (m_heap ms ++ eh) (m_cells ms ++ ec))
      /\ (forall fs, sim ms fs -> sim (mkMem (m_heap ms ++ eh) (m_cells ms ++ ec)) (fun_run fs hist))
      /\ (forall y, In y t -> is_slot_access y)
      /\ (forall a k, In (WrSlot a k) t -> length (m_heap ms) <= a).
  Proof.
    induction hist as [|x r IH]; intros ms W.
    - exists [], [], []. rewrite !app_nil_r, mem_eta. simpl.
      repeat split; try assumption; try contradiction. intros fs S. exact S.
    - destruct (mem_step_true ms x W) as [eh1 [ec1 [t1 [R1 [W1 [S1 T1]]]]]].
      destruct (IH _ W1) as [eh2 [ec2 [t2 [R2 [W2 [S2 [Sl2 T2]]]]]]].
      cbn [m_heap m_cells] in *. rewrite <- !app_assoc in *.
      exists (eh1 ++ eh2), (ec1 ++ ec2), (t1 ++ t2). simpl. rewrite R1, R2.
      split; [reflexivity|]. split; [exact W2|]. split; [|split].
      + intros fs S. apply S2. apply S1. exact S.
      + intros y Hy. apply in_app_iff in Hy. destruct Hy as [Hy|Hy]; [|exact (Sl2 _ Hy)].
        destruct (T1 _ Hy) as [b [_ Cb]]. destruct y; simpl in *; try contradiction; exact I.
      + intros a k Hy. apply in_app_iff in Hy. destruct Hy as [Hy|Hy].
        * destruct (T1 _ Hy) as [b [_ Cb]]. simpl in Cb. lia.
        * specialize (T2 _ _ Hy). rewrite app_length in T2. lia.
  Qed.

  Lemma mem_run_app clip h1 : forall ms h2,
    mem_run grow clip ms (h1 ++ h2)
    = let '(ms1, t1) := mem_run grow clip ms h1 in
      let '(ms2, t2) := mem_run grow clip ms1 h2 in (ms2, t1 ++ t2).
  Proof.
    induction h1 as [|x r IH]; intros ms h2; simpl.
    - destruct (mem_run grow clip ms h2) as [ms2 t2]. reflexivity.
    - destruct (mem_step grow clip ms x) as [ms1 t1]. rewrite IH.
      destruct (mem_run grow clip ms1 r) as [ms2 t2].
      destruct (mem_run grow clip ms2 h2) as [ms3 t3]. rewrite app_assoc. reflexivity.
  Qed.

  (* (a) SIMULATION: after any history the memory state represents exactly what the functional
     model computes — every cell's slice holds that cell's g_later *)
  Theorem later_sim ms fs hist :
    mem_wf ms -> sim ms fs ->
    sim (fst (mem_run grow true ms hist)) (fun_run fs hist)
    /\ mem_wf (fst (mem_run grow true ms hist)).
  Proof.
    intros W S. destruct (mem_run_true hist ms W) as [eh [ec [t [R [W' [S' _]]]]]].
    rewrite R. split; [exact (S' fs S)|exact W'].
  Qed.

  (* ... and the slice of an existing cell never changes: same header, same contents, at every
     later time (after any further history) *)
  Theorem later_contents_stable ms hist i c :
    mem_wf ms -> nth_error (m_cells ms) i = Some c ->
    nth_error (m_cells (fst (mem_run grow true ms hist))) i = Some c
    /\ contents (m_heap (fst (mem_run grow true ms hist))) (m_later c)
       = contents (m_heap ms) (m_later c).
  Proof.
    intros W E. destruct (mem_run_true hist ms W) as [eh [ec [t [R _]]]]. rewrite R.
    cbn [fst m_heap m_cells]. split.
    - rewrite nth_error_app1; [exact E|]. apply nth_error_Some. congruence.
    - apply contents_app. unfold mem_wf in W. rewrite Forall_forall in W.
      apply W. eapply nth_error_In. exact E.
  Qed.

  (* the arrays that exist are never modified at all *)
  Theorem later_heap_extends ms hist :
    mem_wf ms -> exists eh, m_heap (fst (mem_run grow true ms hist)) = m_heap ms ++ eh.
  Proof.
    intros W. destruct (mem_run_true hist ms W) as [eh [ec [t [R _]]]]. rewrite R. exists eh. reflexivity.
  Qed.

  (* (b) NO WRITE TO A REACHABLE ARRAY: at any point of any history, the writes of the rest of
     the history target arrays allocated later — never an array reachable from a cell that
     exists at that point *)
  Theorem later_writes_fresh ms hist a k :
    mem_wf ms -> In (WrSlot a k) (snd (mem_run grow true ms hist)) -> length (m_heap ms) <= a.
  Proof.
    intros W H. destruct (mem_run_true hist ms W) as [eh [ec [t [R [_ [_ [_ T]]]]]]].
    rewrite R in H. exact (T _ _ H).
  Qed.

  Theorem later_no_shared_slot_write ms h1 h2 a k :
    mem_wf ms ->
    In (WrSlot a k) (snd (mem_run grow true (fst (mem_run grow true ms h1)) h2)) ->
    ~ reachable (fst (mem_run grow true ms h1)) a.
  Proof.
    intros W H Rch.
    assert (W1 : mem_wf (fst (mem_run grow true ms h1))).
    { destruct (mem_run_true h1 ms W) as [eh [ec [t [R [W' _]]]]]. rewrite R. exact W'. }
    pose proof (later_writes_fresh _ _ _ _ W1 H). pose proof (wf_reachable_lt _ _ W1 Rch). lia.
  Qed.

  Lemma later_trace_slots ms hist y :
    mem_wf ms -> In y (snd (mem_run grow true ms hist)) -> is_slot_access y.
  Proof.
    intros W H. destruct (mem_run_true hist ms W) as [eh [ec [t [R [_ [_ [Sl _]]]]]]].
    rewrite R in H. exact (Sl _ H).
  Qed.

  (* two goroutines running any histories from a shared memory state: no slot is written by
     one and read or written by the other *)
  Theorem later_threads_race_free ms n h1 h2 x y :
    mem_wf ms ->
    In x (snd (mem_run grow true ms h1)) -> In y (snd (mem_run grow true ms h2)) ->
    ~ conflict n (length (m_heap ms)) x y.
  Proof.
    intros W Hx Hy C.
    pose proof (later_trace_slots _ _ _ W Hx) as Sx. pose proof (later_trace_slots _ _ _ W Hy) as Sy.
    destruct x as [c f|c f|a k|a k], y as [d g|d g|b j|b j]; simpl in *; try contradiction;
      destruct C as [-> [-> L]].
    - pose proof (later_writes_fresh _ _ _ _ W Hy). lia.
    - pose proof (later_writes_fresh _ _ _ _ W Hx). lia.
    - pose proof (later_writes_fresh _ _ _ _ W Hx). lia.
  Qed.
End MemProofs.

(* the same statements with the clip as a hypothesis: the translator tie supplies
   [clip := gen_appends_clipped], computed from the current source of CloneBase *)
Lemma later_sim_clip grow clip ms fs hist :
  (forall c n, n <= grow c n) -> clip = true -> mem_wf ms -> sim ms fs ->
  sim (fst (mem_run grow clip ms hist)) (fun_run fs hist)
  /\ mem_wf (fst (mem_run grow clip ms hist)).
Proof. intros G ->. apply later_sim. exact G. Qed.

Lemma later_contents_stable_clip grow clip ms hist i c :
  (forall c n, n <= grow c n) -> clip = true ->
  mem_wf ms -> nth_error (m_cells ms) i = Some c ->
  nth_error (m_cells (fst (mem_run grow clip ms hist))) i = Some c
  /\ contents (m_heap (fst (mem_run grow clip ms hist))) (m_later c)
     = contents (m_heap ms) (m_later c).
Proof. intros G ->. apply later_contents_stable. exact G. Qed.

Lemma later_no_shared_slot_write_clip grow clip ms h1 h2 a k :
  (forall c n, n <= grow c n) -> clip = true -> mem_wf ms ->
  In (WrSlot a k) (snd (mem_run grow clip (fst (mem_run grow clip ms h1)) h2)) ->
  ~ reachable (fst (mem_run grow clip ms h1)) a.
Proof. intros G ->. apply later_no_shared_slot_write. exact G. Qed.

Lemma later_threads_race_free_clip grow clip ms n h1 h2 x y :
  (forall c n, n <= grow c n) -> clip = true -> mem_wf ms ->
  In x (snd (mem_run grow clip ms h1)) -> In y (snd (mem_run grow clip ms h2)) ->
  ~ conflict n (length (m_heap ms)) x y.
Proof. intros G ->. apply later_threads_race_free. exact G. Qed.

(* ---------------------------------------------------------------- initial states *)
Lemma init_cells h : forall fs k,
  (forall j g, nth_error fs j = Some g -> arr_of h (k + j) = g_later g) ->
  let cs := map (fun ig : nat * gerr =>
                   mkM (g_serr (snd ig)) (mkS (fst ig) (length (g_later (snd ig)))
                                              (length (g_later (snd ig)))))
                (combine (List.seq k (length fs)) fs) in
  Forall2 (cell_sim h) cs fs /\ Forall (fun c => slice_wf h (m_later c)) cs.
Proof.
  induction fs as [|g fs IH]; intros k H; simpl; [split; constructor|].
  assert (E : arr_of h k = g_later g) by (rewrite <- (H 0 g eq_refl); f_equal; lia).
  destruct (IH (S k)) as [S W].
  { intros j g' Ej. rewrite <- (H (S j) g' Ej). f_equal. lia. }
  split; constructor; try assumption.
  - split; [reflexivity|]. unfold contents. simpl. rewrite E. apply firstn_all.
  - split; simpl; [lia|]. rewrite E. lia.
Qed.

Lemma mem_init_ok fs : sim (mem_init fs) fs /\ mem_wf (mem_init fs).
Proof.
  unfold sim, mem_wf, mem_init. cbn [m_heap m_cells]. apply init_cells.
  intros j g E. simpl. unfold arr_of. change (@nil val) with (g_later zero_gerr).
  rewrite map_nth. f_equal. apply nth_error_nth. exact E.
Qed.

(* ---------------------------------------------------------------- the histories of method
   calls: running [call]/[derive]/goroutines IS running their history with the functional model *)
Lemma fun_run_app fs h1 h2 : fun_run fs (h1 ++ h2) = fun_run (fun_run fs h1) h2.
Proof. unfold fun_run. apply fold_left_app. Qed.

Lemma call_fun_step xw st v m a st' r :
  call xw st v m a = Some (st', r) ->
  map c_g st' = fun_run (map c_g st) (opt_list (call_hstep xw v m a)).
Proof.
  intros H. destruct v as [|i|i|]; simpl in H; try discriminate.
  - destruct (nth_error st i) as [c|] eqn:E; [|discriminate].
    unfold call_hstep. simpl.
    destruct (w_guard (base_wiring m) && is_gerr_val (a_err a)); injection H as <- <-; [reflexivity|].
    simpl. unfold fun_step. cbn [h_parent]. rewrite (map_nth_error c_g _ _ E).
    rewrite map_app. reflexivity.
  - destruct (nth_error st i) as [c|] eqn:E; [|discriminate].
    destruct (c_x c) as [x|]; [|discriminate].
    unfold call_hstep. simpl.
    destruct (w_guard (xw m) && is_gerr_val (a_err a)); injection H as <- <-; [reflexivity|].
    simpl. unfold fun_step. cbn [h_parent]. rewrite (map_nth_error c_g _ _ E).
    rewrite map_app. reflexivity.
Qed.

Lemma derive_fun_run xw ch : forall st v st' r,
  derive xw st v ch = Some (st', r) ->
  map c_g st' = fun_run (map c_g st) (derive_hist xw st v ch).
Proof.
  induction ch as [|[m a] ch IH]; intros st v st' r H; simpl in *.
  - injection H as <- <-. reflexivity.
  - destruct (call xw st v m a) as [[st1 v1]|] eqn:C; [|discriminate].
    rewrite fun_run_app, <- (call_fun_step _ _ _ _ _ _ _ C). exact (IH _ _ _ _ H).
Qed.

Lemma thread_fun_run xw jobs : forall st st',
  thread_run xw st jobs = Some st' ->
  map c_g st' = fun_run (map c_g st) (thread_hist xw st jobs).
Proof.
  induction jobs as [|[v ch] jobs IH]; intros st st' H; simpl in *.
  - injection H as <-. reflexivity.
  - destruct (derive xw st v ch) as [[st1 v1]|] eqn:D; [|discriminate].
    rewrite fun_run_app, <- (derive_fun_run _ _ _ _ _ _ D). exact (IH _ _ H).
Qed.

(* the memory-level run of a goroutine's derivations represents the store [derive] computes *)
Theorem thread_later_sim grow clip xw st jobs st' :
  (forall c n, n <= grow c n) -> clip = true ->
  thread_run xw st jobs = Some st' ->
  sim (fst (mem_run grow clip (mem_init (map c_g st)) (thread_hist xw st jobs))) (map c_g st').
Proof.
  intros grow_ok -> H. rewrite (thread_fun_run _ _ _ _ H).
  destruct (mem_init_ok (map c_g st)) as [S W].
  exact (proj1 (later_sim grow grow_ok _ _ _ W S)).
Qed.

(* two goroutines deriving from a shared store: no conflicting pair among ALL their accesses,
   fields of cells and slots of backing arrays *)
Theorem threads_full_race_free grow clip xw st jobs1 jobs2 x y :
  (forall c n, n <= grow c n) -> clip = true ->
  In x (thread_full_accesses grow clip xw st jobs1) ->
  In y (thread_full_accesses grow clip xw st jobs2) ->
  ~ conflict (length st) (length st) x y.
Proof.
  intros grow_ok ->. unfold thread_full_accesses. intros Hx Hy C.
  destruct (mem_init_ok (map c_g st)) as [_ W].
  assert (HL : length (m_heap (mem_init (map c_g st))) = length st)
    by (unfold mem_init; cbn [m_heap]; rewrite !map_length; reflexivity).
  assert (F : forall jobs z, In z (thread_full_accesses grow true xw st jobs) ->
              is_shared_write (length st) (length st) z = false).
  { intros jobs z Hz. unfold thread_full_accesses in Hz. apply in_app_iff in Hz. destruct Hz as [Hz|Hz].
    - exact (no_shared_write_In _ _ _ _ (thread_no_shared_write xw jobs st (length st) (length st) (le_n _)) Hz).
    - pose proof (later_trace_slots grow grow_ok _ _ _ W Hz) as Sl.
      destruct z as [c f|c f|a k|a k]; simpl in *; try contradiction; try reflexivity.
      apply Nat.ltb_ge. rewrite <- HL. exact (later_writes_fresh grow grow_ok _ _ _ _ W Hz). }
  destruct (conflict_needs_shared_write _ _ _ _ C) as [E|E];
    [rewrite (F jobs1 x Hx) in E|rewrite (F jobs2 y Hy) in E]; discriminate.
Qed.

Lemma grow_loop_ok f : forall c n, n <= grow_loop f c n.
Proof.
  induction f as [|f IH]; intros c n; cbn [grow_loop]; [lia|].
  destruct (n <=? c + (c + 768) / 4) eqn:E; [apply Nat.leb_le; exact E|apply IH].
Qed.

Lemma go_grow_ok : forall c n, n <= go_grow c n.
Proof.
  intros c n. unfold go_grow. destruct (2 * c <? n) eqn:E; [lia|]. apply Nat.ltb_ge in E.
  destruct (c <? 256); [lia|]. apply grow_loop_ok.
Qed.

(* ---------------------------------------------------------------- non-vacuity, clipped code:
   four Converts in a row, then two from the fourth result (three appended errors, a branch) *)
Example later_clipped_example :
  let ms := fst (mem_run go_grow true (mem_init [ex_factory]) ex_hist) in
  map (cell_contents ms) [4; 5; 6]
  = [Some [ferr 2; ferr 3; ferr 4]; Some [ferr 2; ferr 3; ferr 4; ferr 5];
     Some [ferr 2; ferr 3; ferr 4; ferr 6]]
  /\ map (fun g => Some (g_later g)) (skipn 4 (fun_run [ex_factory] ex_hist))
     = map (cell_contents ms) [4; 5; 6].
Proof. vm_compute. split; reflexivity. Qed.

(* (c) REFUTATION of the unclipped append (the seeded change C06-11), Go's growth rule: after
   the four Converts the fourth error's slice has len 3, cap 4.  Deriving from it twice writes
   slot 3 of its array twice: the first sibling's last converted error is replaced by the
   second sibling's, although nothing was done to the first sibling *)
Theorem later_unclipped_refuted :
  exists (fs : list gerr) (h1 : list hstep) (x : hstep) (i : nat),
    let ms0 := mem_init fs in
    mem_wf ms0 /\ sim ms0 fs
    /\ cell_contents (fst (mem_run go_grow false ms0 h1)) i
       = option_map g_later (nth_error (fun_run fs h1) i)
    /\ cell_contents (fst (mem_run go_grow false ms0 h1)) i <> None
    /\ cell_contents (fst (mem_run go_grow false ms0 (h1 ++ [x]))) i
       <> cell_contents (fst (mem_run go_grow false ms0 h1)) i
    /\ cell_contents (fst (mem_run go_grow false ms0 (h1 ++ [x]))) i
       <> option_map g_later (nth_error (fun_run fs (h1 ++ [x])) i).
Proof.
  exists [ex_factory], (ex_prefix ++ [conv 4 (ferr 5)]), (conv 4 (ferr 6)), 5.
  split; [exact (proj2 (mem_init_ok _))|]. split; [exact (proj1 (mem_init_ok _))|].
  vm_compute. repeat split; discriminate.
Qed.

(* ... and two goroutines deriving from the same (shared) error race on that slot *)
Theorem later_unclipped_races :
  exists (ms : mem) (h1 h2 : list hstep) (x y : access),
    mem_wf ms
    /\ In x (snd (mem_run go_grow false ms h1)) /\ In y (snd (mem_run go_grow false ms h2))
    /\ conflict (length (m_cells ms)) (length (m_heap ms)) x y.
Proof.
  exists (fst (mem_run go_grow false (mem_init [ex_factory]) ex_prefix)),
         [conv 4 (ferr 5)], [conv 4 (ferr 6)], (WrSlot 3 3), (WrSlot 3 3).
  split.
  - vm_compute. repeat constructor.
  - vm_compute. repeat split; auto.
Qed.

(* the same two goroutines with the clipped code: disjoint fresh arrays *)
Example later_clipped_threads_example :
  let ms := fst (mem_run go_grow true (mem_init [ex_factory]) ex_prefix) in
  snd (mem_run go_grow true ms [conv 4 (ferr 5)])
  = [RdSlot 3 0; RdSlot 3 1; RdSlot 3 2; WrSlot 4 0; WrSlot 4 1; WrSlot 4 2; WrSlot 4 3]
  /\ length (m_heap ms) = 4.
Proof. vm_compute. split; reflexivity. Qed.
