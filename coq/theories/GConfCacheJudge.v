(* GConfCacheJudge.v — judgement of observed Get/MustGet/GetOrDefault histories (C10).
   No proofs.  A case = the result types (id, %T name, interface?), the conversion oracle
   (Get of every (key, type) of the history on a freshly loaded Config), the history, the
   outcomes on the shared Config and the outcomes of the same requests on fresh Configs.
   spec: every outcome equals the fresh one and none is a panic other than MustGet's.
   model: run of GConfCacheModel over the history with the oracle as conv.                *)
From Coq Require Import List String Bool Arith.
From GT Require Import Base.Verdict GConfModel GConfJudge GConfCacheModel.
Import ListNotations.
Local Open Scope string_scope.

Record c10_case := {
  k_types : list (nat * (string * bool));
  k_conv : list ((string * nat) * option (res val));   (* None: the fresh Get panicked *)
  k_ops : list (op nat);
  k_obs : list outcome;
  k_fresh : list outcome;
}.

Definition val_eqb (a b : val) : bool :=
  match a, b with
  | VNil, VNil => true
  | V x, V y => String.eqb x y
  | _, _ => false
  end.

Definition outcome_eqb (a b : outcome) : bool :=
  match a, b with
  | OVal x, OVal y => val_eqb x y
  | OErr, OErr | OMustPanic, OMustPanic | OPanic, OPanic => true
  | _, _ => false
  end.

Definition is_panic (o : outcome) : bool := match o with OPanic => true | _ => false end.

Fixpoint conv_lookup (tb : list ((string * nat) * option (res val))) (key : string) (T : nat)
  : option (res val) :=
  match tb with
  | [] => Some Err
  | ((k, t), r) :: rest => if String.eqb key k && Nat.eqb T t then r else conv_lookup rest key T
  end.

Definition conv_of (c : c10_case) (key : string) (T : nat) : res val :=
  match conv_lookup (k_conv c) key T with Some r => r | None => Err end.

Definition name_of (c : c10_case) (T : nat) : string :=
  match find (fun p => Nat.eqb (fst p) T) (k_types c) with Some p => fst (snd p) | None => "?" end.
Definition iface_of (c : c10_case) (T : nat) : bool :=
  match find (fun p => Nat.eqb (fst p) T) (k_types c) with Some p => snd (snd p) | None => false end.

(* only MustGet may panic with the error, and only when the conversion failed *)
Fixpoint mustpanic_ok (c : c10_case) (ops : list (op nat)) (obs : list outcome) : bool :=
  match ops, obs with
  | o :: ops', r :: obs' =>
      match r, o with
      | OMustPanic, MustGet k T => match conv_lookup (k_conv c) k T with Some (Ok _) => false | _ => true end
      | OMustPanic, _ => false
      | _, _ => true
      end && mustpanic_ok c ops' obs'
  | _, _ => true
  end.

Definition c10_spec_ok (c : c10_case) : bool :=
  list_eqb outcome_eqb (k_obs c) (k_fresh c) &&
  negb (existsb is_panic (k_obs c)) && negb (existsb is_panic (k_fresh c)) &&
  mustpanic_ok c (k_ops c) (k_obs c) && mustpanic_ok c (k_ops c) (k_fresh c).

Definition c10_model_eq (c : c10_case) : bool :=
  list_eqb outcome_eqb (k_obs c) (run nat Nat.eqb (conv_of c) [] (k_ops c)) &&
  list_eqb outcome_eqb (k_fresh c) (map (fresh nat Nat.eqb (conv_of c)) (k_ops c)).

Definition c10_judge (c : c10_case) : nat := verdict (c10_spec_ok c) (c10_model_eq c).

(* the observations judged against the model of the pinned code (developer switch): a fresh
   Get that panicked on an interface type is the nil interface the memo could not assert *)
Definition conv_of_orig (c : c10_case) (key : string) (T : nat) : res val :=
  match conv_lookup (k_conv c) key T with
  | Some r => r
  | None => if iface_of c T then Ok VNil else Err
  end.
Definition c10_judge_orig (c : c10_case) : nat :=
  if list_eqb outcome_eqb (k_obs c)
       (run_orig nat Nat.eqb (iface_of c) (name_of c) (conv_of_orig c) [] (k_ops c))
  then 0 else 2.

(* coverage: a history is non-trivial when some (key, type) is requested again later, or two
   requests have memo strings key ++ %T that coincide for different (key, type) *)
Definition memo_string (c : c10_case) (o : op nat) : string := op_key nat o ++ name_of c (op_ty nat o).
Fixpoint has_dup_or_collision (c : c10_case) (ops : list (op nat)) : bool :=
  match ops with
  | [] => false
  | o :: rest =>
      existsb (fun o' => String.eqb (memo_string c o) (memo_string c o')) rest ||
      has_dup_or_collision c rest
  end.
Definition c10_nontrivial (c : c10_case) : bool := has_dup_or_collision c (k_ops c).
