(* GErrRace.v — the memory accesses of derivations, DERIVED from an instrumented copy of the
   model (definitions only; proofs in GErrRaceProofs.v).

   Granularity: one access = one field of one cell (a cell = one GError object of the store of
   GErrModel.v), or one slot of one backing array of a laterSrcErrors slice (GErrSlice.v).

   The trace of a derivation is not written down by hand: CloneBase is re-stated below as a
   program in a small state monad whose only primitives are
       rd_base f        read field f of *base            logs  Rd bi f
       rd_clone f       read field f of *clone           logs  Rd fresh f
       wr_clone f x     clone.f = x                      logs  Wr fresh f
       alloc_clone      the allocation of &GError{}      logs  Wr fresh f for every field
   so an access is logged exactly where the program touches memory, and a value can only be
   obtained from memory through a logged read.  The program follows gerror/factory.go CloneBase
   statement by statement (block names = the comments of the Go function) with Go's
   short-circuit evaluation of && and ||.  GErrRaceProofs.clone_base_tr_erasure proves that the
   object it builds IS GErrModel.clone_base, for all arguments: the trace belongs to the model
   the other C15 theorems and the correspondence run are about.

   Go (factory.go CloneBase)                                  here
   --------------------------------------------------------   -----------------------------
   base := err._embededGError()  (no memory access)           bi = cell of *base
   fRef := factoryOf(base); if base.factoryRef != nil {..}    blk_fref
   clone := &GError{Name: base.Name, ...}                     blk_literal
   // handle source / detail tags / message extension         blk_source / blk_dtag / blk_msg
   // handle error inheritance                                blk_inherit
   clone.laterSrcErrors = ...; srcError / append              blk_later
   stack test, makeStack, derived source                      blk_stack
   gerror.go  the 19 methods, Convert's early return          call_tr  (erasure: call)
   gerror.gotmpl toPrimaryType                                ext_accesses
   factory.go FactoryOf: err._embededGError().isFactory=true  factory_of_accesses
   gerror.go  Is: `if e.isFactory && ...` (first statement)   is_head_accesses

   A goroutine owns the cells it allocates; the cells that exist before the goroutines start
   (indices below the length of the initial store) are the shared ones.  The Go memory model
   itself (that the compiled code performs these accesses and no others) is exercised by the
   race-detector run of ./check C15.                                                        *)
From Coq Require Import NArith List Bool.
From GT Require Import Base.GErrStr.
From GT Require Import GErrModel GErrSpec.
Import ListNotations.

(* the fields of GError; FExt = the other fields of a generated extension struct, as one unit *)
Inductive field := FName | FMsg | FSrc | FDTag | FStack | FFref | FSerr | FLater | FIsFac | FExt.

Definition gerr_fields : list field :=
  [FName; FMsg; FSrc; FDTag; FStack; FFref; FSerr; FLater; FIsFac].

Definition field_eqb (a b : field) : bool :=
  match a, b with
  | FName, FName | FMsg, FMsg | FSrc, FSrc | FDTag, FDTag | FStack, FStack | FFref, FFref
  | FSerr, FSerr | FLater, FLater | FIsFac, FIsFac | FExt, FExt => true
  | _, _ => false
  end.

Inductive access :=
| Rd (cell : nat) (f : field)
| Wr (cell : nat) (f : field)
| RdSlot (arr slot : nat)        (* element [slot] of backing array [arr] (GErrSlice.v) *)
| WrSlot (arr slot : nat).

(* ---------------------------------------------------------------- memory of one GError *)
(* what a field holds *)
Inductive fval :=
| FS (s : str) | FK (k : option N) | FV (v : val) | FL (l : list val) | FB (b : bool) | FU.

Definition as_s (x : fval) : str := match x with FS s => s | _ => [] end.
Definition as_k (x : fval) : option N := match x with FK k => k | _ => None end.
Definition as_v (x : fval) : val := match x with FV v => v | _ => VNil end.
Definition as_l (x : fval) : list val := match x with FL l => l | _ => [] end.
Definition as_b (x : fval) : bool := match x with FB b => b | _ => false end.

Definition get_field (g : gerr) (f : field) : fval :=
  match f with
  | FName => FS (g_name g) | FMsg => FS (g_msg g) | FSrc => FS (g_src g) | FDTag => FS (g_dtag g)
  | FStack => FK (g_stack g) | FFref => FV (g_fref g) | FSerr => FV (g_serr g)
  | FLater => FL (g_later g) | FIsFac => FB (g_isfac g) | FExt => FU
  end.

(* an assignment of the wrong type does not exist in Go; here it leaves the object unchanged *)
Definition set_field (g : gerr) (f : field) (x : fval) : gerr :=
  match g with
  | mkG n m s d k fr se l b =>
      match f, x with
      | FName, FS y => mkG y m s d k fr se l b
      | FMsg, FS y => mkG n y s d k fr se l b
      | FSrc, FS y => mkG n m y d k fr se l b
      | FDTag, FS y => mkG n m s y k fr se l b
      | FStack, FK y => mkG n m s d y fr se l b
      | FFref, FV y => mkG n m s d k y se l b
      | FSerr, FV y => mkG n m s d k fr y l b
      | FLater, FL y => mkG n m s d k fr se y b
      | FIsFac, FB y => mkG n m s d k fr se l y
      | _, _ => g
      end
  end.

(* the zero value of GError: what the allocator hands out *)
Definition zero_gerr : gerr := mkG [] [] [] [] None VNil VNil [] false.

(* ---------------------------------------------------------------- the instrumented CloneBase *)
Section CloneBaseTr.
  (* the record of cell [bi] is *base; the object being built lives in cell [fresh] *)
  Variables (bi fresh : nat) (base : gerr).

  (* a computation over the object under construction that logs its memory accesses *)
  Definition M (A : Type) : Type := gerr -> A * gerr * list access.
  Definition ret {A : Type} (a : A) : M A := fun c => (a, c, []).
  Definition bind {A B : Type} (m : M A) (k : A -> M B) : M B :=
    fun c => let '(a, c1, t1) := m c in let '(b, c2, t2) := k a c1 in (b, c2, t1 ++ t2).
  Definition andthen {A : Type} (m : M unit) (k : M A) : M A := bind m (fun _ => k).

  Definition rd_base (f : field) : M fval := fun c => (get_field base f, c, [Rd bi f]).
  Definition rd_clone (f : field) : M fval := fun c => (get_field c f, c, [Rd fresh f]).
  Definition wr_clone (f : field) (x : fval) : M unit :=
    fun c => (tt, set_field c f x, [Wr fresh f]).
  Definition alloc_clone : M unit := fun _ => (tt, zero_gerr, map (Wr fresh) gerr_fields).
  Definition skip : M unit := ret tt.

  Notation "x <- m ;; k" := (bind m (fun x => k)) (at level 61, m at next level, right associativity).
  Notation "m ;;; k" := (andthen m k) (at level 61, right associativity).

  (* fRef := factoryOf(base); if base.factoryRef != nil { fRef = base.factoryRef } *)
  Definition blk_fref (base_ptr : val) : M val :=
    fr <- rd_base FFref ;;
    if is_nil (as_v fr) then ret base_ptr
    else (fr2 <- rd_base FFref ;; ret (as_v fr2)).

  (* clone := &GError{Name: base.Name, Message: base.Message, Source: base.Source,
       detailTag: base.detailTag, factoryRef: fRef, stack: base.stack, srcError: base.srcError} *)
  Definition blk_literal (fref : val) : M unit :=
    n <- rd_base FName ;; m <- rd_base FMsg ;; s <- rd_base FSrc ;; d <- rd_base FDTag ;;
    k <- rd_base FStack ;; e <- rd_base FSerr ;;
    alloc_clone ;;;
    wr_clone FName n ;;; wr_clone FMsg m ;;; wr_clone FSrc s ;;; wr_clone FDTag d ;;;
    wr_clone FFref (FV fref) ;;; wr_clone FStack k ;;; wr_clone FSerr e.

  (* if source != "" && clone.Source == "" { clone.Source = source } *)
  Definition blk_source (src : str) : M unit :=
    if nonempty src
    then (cs <- rd_clone FSrc ;; if is_empty (as_s cs) then wr_clone FSrc (FS src) else skip)
    else skip.

  (* if dTag != "" { if clone.detailTag == "" { clone.detailTag = dTag }
                     else { clone.detailTag += "-" + dTag } } *)
  Definition blk_dtag (dtag : str) : M unit :=
    if is_empty dtag then skip
    else (cd <- rd_clone FDTag ;;
          if is_empty (as_s cd) then wr_clone FDTag (FS dtag)
          else (cd2 <- rd_clone FDTag ;; wr_clone FDTag (FS (as_s cd2 ++ dash ++ dtag)))).

  (* extMsg = strings.TrimSpace(extMsg)
     if extMsg != "" { if clone.Message == "" { clone.Message = extMsg }
                       else { clone.Message += " " + extMsg } } *)
  Definition blk_msg (ext : str) : M unit :=
    let ext1 := trim_space ext in
    if is_empty ext1 then skip
    else (cm <- rd_clone FMsg ;;
          if is_empty (as_s cm) then wr_clone FMsg (FS ext1)
          else (cm2 <- rd_clone FMsg ;; wr_clone FMsg (FS (as_s cm2 ++ sp ++ ext1)))).

  (* if clone.factoryRef == nil && base.isFactory { clone.factoryRef = err } *)
  Definition blk_inherit (err_ptr : val) : M unit :=
    cf <- rd_clone FFref ;;
    if is_nil (as_v cf)
    then (bf <- rd_base FIsFac ;; if as_b bf then wr_clone FFref (FV err_ptr) else skip)
    else skip.

  (* clone.laterSrcErrors = base.laterSrcErrors
     if clone.srcError == nil && srcError != nil { clone.srcError = srcError }
     else if srcError != nil {
       n := len(base.laterSrcErrors)
       clone.laterSrcErrors = append(base.laterSrcErrors[:n:n], srcError) }
     The slice header is the field; what append does to the backing array is GErrSlice.v. *)
  Definition blk_later (serr : val) : M unit :=
    bl <- rd_base FLater ;;
    wr_clone FLater bl ;;;
    cse <- rd_clone FSerr ;;
    if is_nil (as_v cse) && negb (is_nil serr) then wr_clone FSerr (FV serr)
    else if negb (is_nil serr)
         then (_ <- rd_base FLater ;;            (* len(base.laterSrcErrors) *)
               l2 <- rd_base FLater ;;           (* base.laterSrcErrors[:n:n] *)
               wr_clone FLater (FL (as_l l2 ++ [serr])))
         else skip.

  (* if len(clone.stack) > 0 || stackType == NoStack ||
        stackType == SourceStack && clone.Source != "" { return clone }
     clone.stack = makeStack(stackType, defaultSkip)
     if clone.Source == "" {
       clone.Source = clone.stack.NearestExternal().Metric()
       if stackType == SourceStack { clone.stack = nil } } *)
  Definition blk_stack (stt : stack_type) (site : N) (derived : str) : M unit :=
    ck <- rd_clone FStack ;;
    done <- (match as_k ck with
             | Some _ => ret true
             | None =>
                 if stack_type_eqb stt NoStack then ret true
                 else if stack_type_eqb stt SourceStack
                      then (cs <- rd_clone FSrc ;; ret (nonempty (as_s cs)))
                      else ret false
             end) ;;
    if done : bool then skip
    else (wr_clone FStack (FK (Some site)) ;;;
          cs <- rd_clone FSrc ;;
          if is_empty (as_s cs)
          then (_ <- rd_clone FStack ;;
                wr_clone FSrc (FS derived) ;;;
                if stack_type_eqb stt SourceStack then wr_clone FStack (FK None) else skip)
          else skip).

  Definition clone_base_prog (base_ptr err_ptr : val) (stt : stack_type) (dtag src ext : str)
             (serr : val) (site : N) (derived : str) : M unit :=
    fref <- blk_fref base_ptr ;;
    blk_literal fref ;;;
    blk_source src ;;;
    blk_dtag dtag ;;;
    blk_msg ext ;;;
    blk_inherit err_ptr ;;;
    blk_later serr ;;;
    blk_stack stt site derived.

  (* run from uninitialised memory: the object built and the accesses made *)
  Definition clone_base_tr (base_ptr err_ptr : val) (stt : stack_type) (dtag src ext : str)
             (serr : val) (site : N) (derived : str) : gerr * list access :=
    let '(_, c, t) :=
      clone_base_prog base_ptr err_ptr stt dtag src ext serr site derived zero_gerr in (c, t).
End CloneBaseTr.

Arguments ret {A} a. Arguments bind {A B} m k. Arguments andthen {A} m k.

(* result, final object and trace of a computation started on object [c] *)
Definition run_val {A : Type} (m : M A) (c : gerr) : A := fst (fst (m c)).
Definition run_st {A : Type} (m : M A) (c : gerr) : gerr := snd (fst (m c)).
Definition run_tr {A : Type} (m : M A) (c : gerr) : list access := snd (m c).

(* every access of such a trace is a read of *base or of the clone, or a write of the clone *)
Definition local_access (bi fresh : nat) (x : access) : Prop :=
  match x with
  | Rd c _ => c = bi \/ c = fresh
  | Wr c _ => c = fresh
  | RdSlot _ _ | WrSlot _ _ => False
  end.

(* ---------------------------------------------------------------- the 19 methods *)
Definition apply_wiring_tr (bi fresh : nat) (w : wiring) (base : gerr) (base_ptr err_ptr : val)
           (a : margs) : gerr * list access :=
  clone_base_tr bi fresh base base_ptr err_ptr (w_stack w) (eval_a a (w_dtag w))
                (eval_a a (w_src w)) (eval_a a (w_msg w)) (eval_e a (w_serr w))
                (a_site a) (a_derived a).

(* toPrimaryType(clone): result := &T{GError: *gerr, F: e.F for every clone-tagged field F}.
   The temporary *GError made by CloneBase and the struct made here are one cell of the store
   model (the temporary is unreachable after the call): the copy of *gerr reads and writes the
   fresh cell; the clone-tagged fields of the receiver are read, the new struct's are written
   (object granularity: FExt). *)
Definition ext_accesses (i fresh : nat) : list access :=
  flat_map (fun f => [Rd fresh f; Wr fresh f]) gerr_fields ++ [Rd i FExt; Wr fresh FExt].

(* [call] with its memory accesses.  `if gerr, ok := err.(Error); ok { return gerr }` inspects
   the dynamic type of the argument only: no field of any gerror object. *)
Definition call_tr (xw : method -> wiring) (st : store) (v : val) (m : method) (a : margs)
  : option (store * val) * list access :=
  match v with
  | VG i =>
      match nth_error st i with
      | None => (None, [])
      | Some c =>
          let w := base_wiring m in
          if w_guard w && is_gerr_val (a_err a) then (Some (st, a_err a), [])
          else let '(g, t) := apply_wiring_tr i (length st) w (c_g c) (VG i) (VG i) a in
               (Some (st ++ [mkC g None], VG (length st)), t)
      end
  | VX i =>
      match nth_error st i with
      | None => (None, [])
      | Some c =>
          match c_x c with
          | None => (None, [])
          | Some x =>
              let w := xw m in
              if w_guard w && is_gerr_val (a_err a) then (Some (st, a_err a), [])
              else let '(g, t) := apply_wiring_tr i (length st) w (c_g c) (VG i) (VX i) a in
                   (Some (st ++ [mkC g (Some (to_primary x))], VX (length st)),
                    t ++ ext_accesses i (length st))
          end
      end
  | _ => (None, [])
  end.

Definition call_accesses (xw : method -> wiring) (st : store) (v : val) (m : method) (a : margs)
  : list access := snd (call_tr xw st v m a).

Fixpoint derive_tr (xw : method -> wiring) (st : store) (v : val) (ch : list step)
  : option (store * val) * list access :=
  match ch with
  | [] => (Some (st, v), [])
  | (m, a) :: r =>
      match call_tr xw st v m a with
      | (None, t) => (None, t)
      | (Some (st', v'), t) => let '(res, t') := derive_tr xw st' v' r in (res, t ++ t')
      end
  end.

Definition derive_accesses (xw : method -> wiring) (st : store) (v : val) (ch : list step)
  : list access := snd (derive_tr xw st v ch).

(* a goroutine: chains run one after the other, each from some value of its current store *)
Fixpoint thread_tr (xw : method -> wiring) (st : store) (jobs : list (val * list step))
  : option store * list access :=
  match jobs with
  | [] => (Some st, [])
  | (v, ch) :: rest =>
      match derive_tr xw st v ch with
      | (None, t) => (None, t)
      | (Some (st', _), t) => let '(res, t') := thread_tr xw st' rest in (res, t ++ t')
      end
  end.

Definition thread_accesses (xw : method -> wiring) (st : store) (jobs : list (val * list step))
  : list access := snd (thread_tr xw st jobs).

(* FactoryOf(err): err._embededGError().isFactory = true — the one write gerror makes to an
   EXISTING object (GErrModel.set_isfac) *)
Definition factory_of_accesses (i : nat) : list access := [Wr i FIsFac].
(* GError.Is, ExtractFactoryReference, Switch start by reading isFactory of the receiver *)
Definition is_head_accesses (i : nat) : list access := [Rd i FIsFac].

(* ---------------------------------------------------------------- races *)
(* [n] cells and [nh] backing arrays exist when the goroutines start: those are shared *)
Definition is_shared_write (n nh : nat) (x : access) : bool :=
  match x with
  | Wr c _ => Nat.ltb c n
  | WrSlot a _ => Nat.ltb a nh
  | Rd _ _ | RdSlot _ _ => false
  end.

(* two accesses of different goroutines conflict when they touch the same field of the same
   shared cell (the same slot of the same shared array) and at least one of them writes *)
Definition conflict (n nh : nat) (x y : access) : Prop :=
  match x, y with
  | Wr c f, Rd d g | Rd c f, Wr d g | Wr c f, Wr d g => c = d /\ f = g /\ c < n
  | WrSlot a k, RdSlot b j | RdSlot a k, WrSlot b j | WrSlot a k, WrSlot b j =>
      a = b /\ k = j /\ a < nh
  | _, _ => False
  end.

(* the coarser relation of the first version of this file: same shared OBJECT, one writes *)
Definition object_conflict (n : nat) (x y : access) : Prop :=
  match x, y with
  | Wr c _, Rd d _ | Rd c _, Wr d _ | Wr c _, Wr d _ => c = d /\ c < n
  | _, _ => False
  end.
