(* GErrRace.v — the memory accesses of derivations, at the granularity of whole objects
   (definitions only).

   One method call reads the receiver (CloneBase copies the fields of *err._embededGError(); the
   generated toPrimaryType reads the receiver's clone-tagged fields) and writes only the object
   it has just allocated (the literal &GError{...} and the later assignments to clone.*, the
   struct literal of toPrimaryType).  Convert/ConvertS's early return touches no gerror object's
   fields.  FactoryOf's write of isFactory happens when the factory is built, before it is
   shared.  A goroutine owns the cells it allocates; the cells that exist before the goroutines
   start (indices below the length of the initial store) are the shared ones.
   This is the part of "free of data races" a model can carry; the Go memory model itself is
   exercised by the race-detector run of ./check C15 --tier thorough.                         *)
From Coq Require Import NArith List Bool.
From GT Require Import Base.GErrStr.
From GT Require Import GErrModel GErrSpec.
Import ListNotations.

Inductive access := Rd (cell : nat) | Wr (cell : nat).

Definition call_accesses (xw : method -> wiring) (st : store) (v : val) (m : method) (a : margs)
  : list access :=
  match as_gerror v with
  | None => []
  | Some i =>
      if w_guard (wt_of xw v m) && is_gerr_val (a_err a) then [] else [Rd i; Wr (length st)]
  end.

Fixpoint derive_accesses (xw : method -> wiring) (st : store) (v : val) (ch : list step)
  : list access :=
  match ch with
  | [] => []
  | (m, a) :: r =>
      call_accesses xw st v m a ++
      match call xw st v m a with
      | Some (st', v') => derive_accesses xw st' v' r
      | None => []
      end
  end.

(* a goroutine: chains run one after the other, each from some value of its current store *)
Fixpoint thread_accesses (xw : method -> wiring) (st : store) (jobs : list (val * list step))
  : list access :=
  match jobs with
  | [] => []
  | (v, ch) :: rest =>
      derive_accesses xw st v ch ++
      match derive xw st v ch with
      | Some (st', _) => thread_accesses xw st' rest
      | None => []
      end
  end.

Definition is_shared_write (n : nat) (x : access) : bool :=
  match x with Wr c => Nat.ltb c n | Rd _ => false end.

(* two accesses of different goroutines race when they touch the same shared object and one of
   them writes *)
Definition conflict (n : nat) (x y : access) : Prop :=
  match x, y with
  | Wr c, Rd d | Rd c, Wr d | Wr c, Wr d => c = d /\ c < n
  | Rd _, Rd _ => False
  end.
