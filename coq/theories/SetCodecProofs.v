(* SetCodecProofs.v — encode/decode of a Set round-trips membership. *)
From Coq Require Import List Bool Permutation.
From GT Require Import SetModel SetProofs SetCodecModel.
Import ListNotations.

Section SetCodecProofs.
  Variable T : Type.
  Variable eqb : T -> T -> bool.
  Hypothesis eqb_eq : forall x y, eqb x y = true <-> x = y.
  Variable doc : Type.
  Variable enc : option (list T) -> doc.
  Variable dec : doc -> list T -> option (list T).
  (* the library's codec round-trips a listing when it decodes into a fresh empty slice; the nil
     slice decodes to no items *)
  Hypothesis dec_enc : forall l, dec (enc (Some l)) [] = Some l.
  Hypothesis dec_enc_nil : dec (enc None) [] = Some [].

  Notation mem := (mem T).
  Notation wf := (wf T).

  Lemma dec_marshal order :
    exists l, dec (set_marshal enc order) [] = Some l /\ forall x, In x l <-> In x order.
  Proof.
    unfold set_marshal. destruct order as [|y r]; simpl.
    - exists []. split; [exact dec_enc_nil | intros x; split; auto].
    - exists (y :: r). split; [apply dec_enc | intros x; split; auto].
  Qed.

  (* any iteration order of the source set's map *)
  Lemma roundtrip s t order :
    wf s -> wf t -> Permutation (elems s) order ->
    exists t', set_unmarshal eqb dec t (set_marshal enc order) = Some t'
               /\ wf t' /\ forall x, mem t' x <-> mem t x \/ mem s x.
  Proof.
    intros Hs Ht HP. unfold set_unmarshal.
    destruct (dec_marshal order) as [l [E Hl]]. rewrite E.
    destruct (add_spec T eqb eqb_eq t l Ht) as [W [M _]].
    eexists. split; [reflexivity|]. split; [exact W|].
    intros x. rewrite M, Hl. unfold SetProofs.mem.
    split; intros [H|H]; auto; right.
    - eapply Permutation_in; [apply Permutation_sym|]; eauto.
    - eapply Permutation_in; eauto.
  Qed.

  (* the encoded sequence lists each member exactly once; nothing (null / empty) for the empty set *)
  Lemma listing_once s order :
    wf s -> Permutation (elems s) order ->
    match listing order with
    | None => forall x, ~ mem s x
    | Some l => NoDup l /\ forall x, In x l <-> mem s x
    end.
  Proof.
    intros [Hnd _] HP. unfold SetProofs.mem. destruct order as [|y r] eqn:E; cbn [listing].
    - apply Permutation_sym, Permutation_nil in HP. rewrite HP. intros x [].
    - split.
      + eapply Permutation_NoDup; eauto.
      + intros x. split; intros H.
        * eapply Permutation_in; [apply Permutation_sym|]; eauto.
        * eapply Permutation_in; eauto.
  Qed.

  Lemma decode_keeps t d t' :
    wf t -> set_unmarshal eqb dec t d = Some t' -> forall x, mem t x -> mem t' x.
  Proof.
    intros Ht. unfold set_unmarshal. destruct (dec d []) as [l|]; [|discriminate].
    intros E x Hx. injection E as <-.
    destruct (add_spec T eqb eqb_eq t l Ht) as [_ [M _]]. apply M. now left.
  Qed.
End SetCodecProofs.

(* ---- the sequence layer: framing and element-wise decoding ---- *)
Section ArrayLayerProofs.
  Variable T : Type.
  Variable E : Type.
  Variable zero : T.
  Variable enc_elem : T -> E.
  Variable dec_elem : E -> T -> option T.
  (* the only library behaviour assumed: an element decodes from its own encoding INTO A FRESH
     ZERO VALUE to itself *)
  Hypothesis elem_rt : forall x, dec_elem (enc_elem x) zero = Some x.

  Lemma dec_into_fresh l : dec_into zero dec_elem (map enc_elem l) [] = Some l.
  Proof.
    induction l as [|x r IH]; [reflexivity|]. cbn [map dec_into hd tl].
    rewrite elem_rt, IH. reflexivity.
  Qed.

  Lemma arr_dec_enc b l : arr_dec zero dec_elem (arr_enc enc_elem b (Some l)) [] = Some l.
  Proof. apply dec_into_fresh. Qed.

  Lemma arr_dec_enc_nil b : arr_dec zero dec_elem (arr_enc enc_elem b None) [] = Some [].
  Proof. destruct b; reflexivity. Qed.

  (* the document lists exactly the encodings of the listing, in order; null only for the nil slice *)
  Lemma arr_enc_shape b o :
    match arr_enc enc_elem b o with
    | ANull => o = None /\ b = true
    | AArr es => es = map enc_elem (match o with Some l => l | None => [] end)
    end.
  Proof. destruct o as [l|]; [reflexivity|]. destruct b; cbn; auto. Qed.

  (* a decoder that reuses one variable agrees with the fresh-value decoder whenever decoding an
     element does not look at the old value — and only then (see reused_refuted below) *)
  Lemma dec_reused_fresh :
    (forall e old, dec_elem e old = dec_elem e zero) ->
    forall es item, dec_reused dec_elem es item = dec_into zero dec_elem es [].
  Proof.
    intros Hind es. induction es as [|e r IH]; intros item; [reflexivity|].
    cbn [dec_reused dec_into hd tl]. rewrite (Hind e item).
    destruct (dec_elem e zero) as [x|]; [|reflexivity]. rewrite IH. reflexivity.
  Qed.
End ArrayLayerProofs.

(* the round trip and the document shape with the sequence layer inside the model *)
Section ArrayRoundtrip.
  Variable T : Type.
  Variable eqb : T -> T -> bool.
  Hypothesis eqb_eq : forall x y, eqb x y = true <-> x = y.
  Variable E : Type.
  Variable zero : T.
  Variable enc_elem : T -> E.
  Variable dec_elem : E -> T -> option T.
  Hypothesis elem_rt : forall x, dec_elem (enc_elem x) zero = Some x.

  Lemma roundtrip_elem (null_for_nil : bool) s t order :
    SetProofs.wf T s -> SetProofs.wf T t -> Permutation (elems s) order ->
    exists t', set_unmarshal eqb (arr_dec zero dec_elem) t
                 (set_marshal (arr_enc enc_elem null_for_nil) order) = Some t'
               /\ SetProofs.wf T t' /\ forall x, SetProofs.mem T t' x <-> SetProofs.mem T t x \/ SetProofs.mem T s x.
  Proof.
    exact (roundtrip T eqb eqb_eq _ (arr_enc enc_elem null_for_nil) (arr_dec zero dec_elem)
             (arr_dec_enc T E zero enc_elem dec_elem elem_rt null_for_nil)
             (arr_dec_enc_nil T E zero enc_elem dec_elem null_for_nil) s t order).
  Qed.

  Lemma document_shape (null_for_nil : bool) (order : list T) :
    match set_marshal (arr_enc enc_elem null_for_nil) order with
    | ANull => order = [] /\ null_for_nil = true
    | AArr es => es = map enc_elem order
    end.
  Proof.
    unfold set_marshal. pose proof (arr_enc_shape T E enc_elem null_for_nil (listing order)) as H.
    destruct (arr_enc enc_elem null_for_nil (listing order)); destruct order; cbn [listing] in *;
      try exact H; try (destruct H; split; [reflexivity | assumption]); destruct H; discriminate.
  Qed.
End ArrayRoundtrip.

(* a merging element codec: elements are (name, weight); the encoding omits a zero weight
   (`omitempty`) and decoding an element document that lacks the weight keeps the weight the
   variable already holds — the documented behaviour of encoding/json and yaml.v3 for structs *)
From Coq Require Import ZArith.
Definition mz_enc (x : Z * Z) : Z * option Z :=
  (fst x, if Z.eqb (snd x) 0 then None else Some (snd x)).
Definition mz_dec (e : Z * option Z) (old : Z * Z) : option (Z * Z) :=
  Some (fst e, match snd e with Some w => w | None => snd old end).

Lemma mz_elem_rt : forall x, mz_dec (mz_enc x) (0, 0)%Z = Some x.
Proof.
  intros [n w]. unfold mz_dec, mz_enc. cbn [fst snd].
  destruct (Z.eqb w 0) eqn:E; [apply Z.eqb_eq in E; subst|]; reflexivity.
Qed.

(* the reused-variable decoder does not round-trip although the element hypothesis holds *)
Lemma reused_refuted :
  (forall x, mz_dec (mz_enc x) (0, 0)%Z = Some x) /\
  arr_dec_reused (0, 0)%Z mz_dec (arr_enc mz_enc true (Some [(1, 5); (2, 0)]%Z)) []
  = Some [(1, 5); (2, 5)]%Z.
Proof. split; [exact mz_elem_rt | reflexivity]. Qed.
