(* SetCodecProofs.v — encode/decode of a Set round-trips membership. *)
From Coq Require Import List Bool Permutation.
From GT Require Import SetModel SetProofs SetCodecModel.
Import ListNotations.

Section SetCodecProofs.
  Variable T : Type.
  Variable eqb : T -> T -> bool.
  Hypothesis eqb_eq : forall x y, eqb x y = true <-> x = y.
  Variable doc : Type.
  Variable enc : option (list T) -> doc.
  Variable dec : doc -> option (list T).
  (* the library's element codec round-trips a listing; the nil slice decodes to no items *)
  Hypothesis dec_enc : forall l, dec (enc (Some l)) = Some l.
  Hypothesis dec_enc_nil : dec (enc None) = Some [].

  Notation mem := (mem T).
  Notation wf := (wf T).

  Lemma dec_marshal order :
    exists l, dec (set_marshal enc order) = Some l /\ forall x, In x l <-> In x order.
  Proof.
    unfold set_marshal. destruct order as [|y r]; simpl.
    - exists []. split; [exact dec_enc_nil | intros x; split; auto].
    - exists (y :: r). split; [apply dec_enc | intros x; split; auto].
  Qed.

  (* any iteration order of the source set's map *)
  Lemma roundtrip s t order :
    wf s -> wf t -> Permutation (elems s) order ->
    exists t', set_unmarshal eqb dec t (set_marshal enc order) = Some t'
               /\ wf t' /\ forall x, mem t' x <-> mem t x \/ mem s x.
  Proof.
    intros Hs Ht HP. unfold set_unmarshal.
    destruct (dec_marshal order) as [l [E Hl]]. rewrite E.
    destruct (add_spec T eqb eqb_eq t l Ht) as [W [M _]].
    eexists. split; [reflexivity|]. split; [exact W|].
    intros x. rewrite M, Hl. unfold SetProofs.mem.
    split; intros [H|H]; auto; right.
    - eapply Permutation_in; [apply Permutation_sym|]; eauto.
    - eapply Permutation_in; eauto.
  Qed.

  (* the encoded sequence lists each member exactly once; nothing (null / empty) for the empty set *)
  Lemma listing_once s order :
    wf s -> Permutation (elems s) order ->
    match listing order with
    | None => forall x, ~ mem s x
    | Some l => NoDup l /\ forall x, In x l <-> mem s x
    end.
  Proof.
    intros [Hnd _] HP. unfold SetProofs.mem. destruct order as [|y r] eqn:E; cbn [listing].
    - apply Permutation_sym, Permutation_nil in HP. rewrite HP. intros x [].
    - split.
      + eapply Permutation_NoDup; eauto.
      + intros x. split; intros H.
        * eapply Permutation_in; [apply Permutation_sym|]; eauto.
        * eapply Permutation_in; eauto.
  Qed.

  Lemma decode_keeps t d t' :
    wf t -> set_unmarshal eqb dec t d = Some t' -> forall x, mem t x -> mem t' x.
  Proof.
    intros Ht. unfold set_unmarshal. destruct (dec d) as [l|]; [|discriminate].
    intros E x Hx. injection E as <-.
    destruct (add_spec T eqb eqb_eq t l Ht) as [_ [M _]]. apply M. now left.
  Qed.
End SetCodecProofs.
