(* GErrHist.v — pools of factories, histories of Factory-method calls over one store, and the
   abstract bookkeeping (originating factory, converted foreign error) property C06 speaks
   about.  Definitions only; proofs are in GErrIsProofs.v / GErrHistProofs.v.               *)
From Coq Require Import NArith List Bool.
From GT Require Import Base.GErrStr.
From GT Require Import GErrModel.
Import ListNotations.

(* ---------------------------------------------------------------- well-formed stores *)
(* a foreign error whose Unwrap chain contains no gerror value (or nil) *)
Fixpoint pure (v : val) : bool :=
  match v with VNil => true | VF _ _ _ u => pure u | _ => false end.

(* nil or a foreign error (not a gerror value) *)
Definition fgn (v : val) : bool := negb (is_gerr_val v).

(* a foreign error's Unwrap chain: foreign wrappers ending in nil or in a VALID gerror value
   (fmt.Errorf("ctx: %w", gerr) — such a wrapper is not itself a gerror error) *)
Fixpoint chain_ok (st : store) (v : val) : bool :=
  match v with
  | VNil => true
  | VF _ _ _ u => chain_ok st u
  | VG i => match nth_error st i with Some _ => true | None => false end
  | VX i => match nth_error st i with
            | Some c => match c_x c with Some _ => true | None => false end
            | None => false
            end
  end.

(* every cell is a root (a factory as the pool builds them: no back-reference, no converted
   error; extension factories made with FactoryOf) or derived (back-reference to a root).  A
   derived error may itself have been turned into a factory with FactoryOf ("sub-factory"). *)
Inductive shape (st : store) (c : cell) : Prop :=
| ShRoot :
    g_fref (c_g c) = VNil -> g_serr (c_g c) = VNil -> g_later (c_g c) = [] ->
    (forall x, c_x c = Some x -> g_isfac (c_g c) = true) -> shape st c
| ShDer o co :
    g_fref (c_g c) = VG o -> nth_error st o = Some co ->
    g_fref (c_g co) = VNil -> g_serr (c_g co) = VNil -> g_later (c_g co) = [] ->
    (forall x, c_x co = Some x -> g_isfac (c_g co) = true) ->
    (* the recorded converted errors are not gerror values (Convert returns those unchanged); they
       may be foreign wrappers OF gerror values *)
    is_gerr_val (g_serr (c_g c)) = false ->
    forallb fgn (g_later (c_g c)) = true -> shape st c.

Definition wf (st : store) : Prop := forall i c, nth_error st i = Some c -> shape st c.

(* the factory an error was derived from *)
Definition origin (st : store) (i : nat) : nat :=
  match nth_error st i with
  | Some c => match g_fref (c_g c) with VG o => o | _ => i end
  | None => i
  end.

(* a gerror value that is valid in the store: a pointer to an existing record / struct *)
Definition gv (st : store) (v : val) : option nat :=
  match v with
  | VG i => match nth_error st i with Some _ => Some i | None => None end
  | VX i => match nth_error st i with
            | Some c => match c_x c with Some _ => Some i | None => None end
            | None => None
            end
  | _ => None
  end.

(* the value a cell is handed out as *)
Definition val_of (st : store) (i : nat) : val :=
  match nth_error st i with
  | Some c => match c_x c with Some _ => VX i | None => VG i end
  | None => VG i
  end.

(* what may be passed as the error argument of Convert / ConvertS, and what errors.Is may be
   asked about: nil, a valid gerror value, or a foreign error of any dynamic type whose Unwrap
   chain ends in nil or in a valid gerror value *)
Definition admissible (st : store) (v : val) : Prop :=
  v = VNil \/ (exists i, gv st v = Some i) \/ (exists t c p u, v = VF t c p u /\ chain_ok st u = true).

(* a pool cell: a factory as programs build them *)
Definition root_cell (c : cell) : Prop :=
  g_fref (c_g c) = VNil /\ g_serr (c_g c) = VNil /\ g_later (c_g c) = []
  /\ (forall x, c_x c = Some x -> g_isfac (c_g c) = true).

(* a wiring table records the converted error only behind the early return *)
Definition guarded_wiring (xw : method -> wiring) : Prop :=
  forall m, w_serr (xw m) = EErr -> w_guard (xw m) = true.

(* stores reachable from a pool by any history of calls with admissible arguments *)
Inductive reachable (xw : method -> wiring) : store -> Prop :=
| reach_pool st : Forall root_cell st -> reachable xw st
| reach_call st v m a st' r :
    reachable xw st -> admissible st (a_err a) -> call xw st v m a = Some (st', r) ->
    reachable xw st'
| reach_factory_of st i :
    reachable xw st -> reachable xw (set_isfac st i).

(* ---------------------------------------------------------------- histories (judged cases) *)
Inductive vref :=
| RNil
| RC (i : nat)      (* cell i as handed out: *GError, or *Ext for an extension cell *)
| RE (i : nat)      (* the embedded *GError of cell i, as ExtractFactoryReference returns it *)
| RF (k : nat).     (* k-th foreign error of the case *)

Record hop := mkOp {
  o_recv : vref; o_m : method; o_src : str; o_dtag : str; o_fmt : str; o_orig : str;
  o_site : N; o_derived : str; o_err : vref }.

Definition resolve (st : store) (fs : list val) (r : vref) : val :=
  match r with
  | RNil => VNil
  | RC i => val_of st i
  | RE i => VG i
  | RF k => nth k fs VNil
  end.

Definition op_args (st : store) (fs : list val) (o : hop) : margs :=
  mkA (o_src o) (o_dtag o) (o_fmt o) (resolve st fs (o_err o)) (o_orig o) (o_site o) (o_derived o).

(* a step of a history: a method call, or FactoryOf applied to the value of cell i *)
Inductive hstep := HOp (o : hop) | HFac (i : nat).

(* run a history; returns the final store and, per step, the cell of its result *)
Fixpoint run_ops (xw : method -> wiring) (st : store) (fs : list val) (ops : list hstep)
  : option (store * list nat) :=
  match ops with
  | [] => Some (st, [])
  | HFac i :: rest =>
      match nth_error st i with
      | None => None
      | Some _ =>
          match run_ops xw (set_isfac st i) fs rest with
          | None => None
          | Some (st'', ks) => Some (st'', i :: ks)
          end
      end
  | HOp o :: rest =>
      match call xw st (resolve st fs (o_recv o)) (o_m o) (op_args st fs o) with
      | None => None
      | Some (st', v) =>
          match as_gerror v with
          | None => None
          | Some k =>
              match run_ops xw st' fs rest with
              | None => None
              | Some (st'', ks) => Some (st'', k :: ks)
              end
          end
      end
  end.

(* ---- the abstract bookkeeping: what the property says about every cell, computed from the
        history alone (never from the back-references the code maintains) ---- *)
Record binfo := mkB {
  b_orig : nat;             (* the factory (pool index) the error was derived from *)
  b_root : bool;            (* is itself a pool factory *)
  b_isfac : bool;           (* made with FactoryOf *)
  b_conv : option nat;      (* Some k: this very error is the result of Convert(S)(foreign k) *)
  b_conv_before : bool }.   (* some Convert(S) of a foreign error happened earlier on its chain *)

Definition is_convert (m : method) : bool :=
  match m with MConvert | MConvertS => true | _ => false end.

Definition ref_cell (r : vref) : option nat :=
  match r with RC i | RE i => Some i | _ => None end.

Definition dummy_info : binfo := mkB 0 false false None false.

Fixpoint mark_fac (infos : list binfo) (i : nat) : list binfo :=
  match infos, i with
  | [], _ => []
  | b :: r, O => mkB (b_orig b) (b_root b) true (b_conv b) (b_conv_before b) :: r
  | b :: r, S k => b :: mark_fac r k
  end.

(* result cell expected for each step and the infos of all cells after the history *)
Fixpoint spec_ops (infos : list binfo) (ops : list hstep) : list binfo * list (option nat) :=
  match ops with
  | [] => (infos, [])
  | HFac i :: rest =>
      let '(inf, rs) := spec_ops (mark_fac infos i) rest in (inf, Some i :: rs)
  | HOp o :: rest =>
      match ref_cell (o_recv o) with
      | None => (infos, [])
      | Some ri =>
          if is_convert (o_m o) && (match ref_cell (o_err o) with Some _ => true | None => false end)
          then (* already a gerror error: returned unchanged *)
            let '(inf, rs) := spec_ops infos rest in (inf, ref_cell (o_err o) :: rs)
          else
            let bi := nth ri infos dummy_info in
            let conv := if is_convert (o_m o)
                        then match o_err o with RF k => Some k | _ => None end else None in
            let nb := mkB (b_orig bi) false false conv
                          (b_conv_before bi || match b_conv bi with Some _ => true | None => false end) in
            let '(inf, rs) := spec_ops (infos ++ [nb]) rest in
            (inf, Some (length infos) :: rs)
      end
  end.

(* the foreign errors converted ALONG THE CHAIN of every cell, from the history alone: a derivation
   inherits the list of its receiver, Convert/ConvertS of foreign error k adds k.  The property's
   "Convert makes errors.Is(result, e) true" is kept by everything derived from the result: whatever
   method follows (Base, DTag, Msg, Stack, a further Convert, ...), after k Converts all k converted
   errors still match (seeded change C06-32: a fast path of CloneBase for Base() returned before
   laterSrcErrors was handed on). *)
Fixpoint spec_convs (convs : list (list nat)) (ops : list hstep) : list (list nat) :=
  match ops with
  | [] => convs
  | HFac _ :: rest => spec_convs convs rest
  | HOp o :: rest =>
      match ref_cell (o_recv o) with
      | None => convs
      | Some ri =>
          if is_convert (o_m o) && (match ref_cell (o_err o) with Some _ => true | None => false end)
          then spec_convs convs rest
          else
            let inh := nth ri convs [] in
            let new := if is_convert (o_m o)
                       then match o_err o with RF k => inh ++ [k] | _ => inh end else inh in
            spec_convs (convs ++ [new]) rest
      end
  end.

(* the gerror value a foreign error wraps (through any number of foreign wrappers), if any *)
Fixpoint wrapped_cell (v : val) : option nat :=
  match v with
  | VF _ _ _ u => wrapped_cell u
  | VG i | VX i => Some i
  | VNil => None
  end.

(* errors.Is between the values of two cells (as handed out, or through the embedded pointer) *)
Definition spec_cells (infos : list binfo) (a b : nat) : option bool :=
  let ia := nth a infos dummy_info in let ib := nth b infos dummy_info in
  if b_root ib then Some (Nat.eqb (b_orig ia) b)
  else if Nat.eqb (b_orig ia) (b_orig ib) then Some true else None.

(* what the property determines about errors.Is(x, y); None = only "does not panic" *)
Definition spec_is (infos : list binfo) (fs : list val) (x y : vref) : option bool :=
  match ref_cell x, ref_cell y with
  | Some a, Some b => spec_cells infos a b
  | Some a, None =>
      match y with
      | RF k =>
          match b_conv (nth a infos dummy_info) with
          | Some k' => if Nat.eqb k' k && comparable (nth k fs VNil) then Some true else None
          | None => None
          end
      | _ => None
      end
  | None, Some b =>
      match x with
      | RF k =>
          match wrapped_cell (nth k fs VNil) with
          | Some c => spec_cells infos c b        (* a wrapper is matched through what it wraps *)
          | None =>
              match b_conv (nth b infos dummy_info) with
              | Some k' => if Nat.eqb k' k then Some false else None
              | None => None
              end
          end
      | _ => None
      end
  | None, None => None
  end.

(* ExtractFactoryReference: the value itself for anything made a factory with FactoryOf, the
   originating factory for other derived errors; None = the property is silent (a bare root
   used directly) *)
Definition spec_extract (infos : list binfo) (a : nat) : option (option nat) :=
  let ia := nth a infos dummy_info in
  if b_isfac ia then Some (Some a)
  else if b_root ia then None else Some (Some (b_orig ia)).
