(* IFaceParseProofs.v — the text FindInterface renders for a type parses back (IFaceParse.parse) to
   the tree of the reference it was printed from, and that tree denotes the original type:
   "every referenced type denotes the identical type" as a statement about the rendered TEXT. *)
From Coq Require Import List Bool String Ascii NArith Arith Lia DecimalString.
From GT Require Import IFaceModel IFaceNamesProofs IFaceRefProofs IFaceParse.
Import ListNotations.
Local Open Scope string_scope.

(* ------------------------------------------------------------------ strings *)
Lemma app_assoc_p : forall a b c : string, (a ++ b) ++ c = a ++ (b ++ c).
Proof. induction a as [|x a IH]; intros b c; simpl; [reflexivity|]. rewrite IH. reflexivity. Qed.

Lemma strip_app : forall p s, strip p (p ++ s) = Some s.
Proof. induction p as [|c p IH]; intros s; simpl; [reflexivity|]. rewrite Ascii.eqb_refl. apply IH. Qed.

Definition no_start (p : ascii -> bool) (s : string) : Prop :=
  match s with EmptyString => True | String c _ => p c = false end.

Lemma span_app (p : ascii -> bool) : forall s rest,
  all_chars p s = true -> no_start p rest -> span p (s ++ rest) = (s, rest).
Proof.
  induction s as [|c s IH]; intros rest Ha Hn; simpl in *.
  - destruct rest as [|d r]; [reflexivity|]. simpl in Hn. simpl. rewrite Hn. reflexivity.
  - apply andb_true_iff in Ha as [Hc Hs]. rewrite Hc, (IH rest Hs Hn). reflexivity.
Qed.

(* identifiers *)
Lemma all_chars_impl (p q : ascii -> bool) s : (forall c, p c = true -> q c = true) ->
  all_chars p s = true -> all_chars q s = true.
Proof.
  intros H. induction s as [|c s IH]; simpl; [reflexivity|]. intros Ha.
  apply andb_true_iff in Ha as [Hc Hs]. rewrite (H _ Hc), IH; auto.
Qed.

Lemma valid_ident_shape s : valid_identb s = true ->
  exists c r, s = String c r /\ is_letter c = true /\ all_chars ident_char s = true /\
              String.eqb s "map" = false /\ String.eqb s "func" = false.
Proof.
  unfold valid_identb. destruct s as [|c r]; [discriminate|]. intros H.
  apply andb_true_iff in H as [H Hk]. apply andb_true_iff in H as [H Hu].
  apply andb_true_iff in H as [Hc Hr]. exists c, r. split; [reflexivity|]. split; [assumption|]. split.
  - simpl. unfold ident_char at 1. rewrite Hc. simpl. exact Hr.
  - apply negb_true_iff in Hk. unfold mem, keywords in Hk. simpl in Hk.
    repeat (apply orb_false_iff in Hk as [? Hk]). split; assumption.
Qed.

Lemma ident_not_dot s : valid_identb s = true -> String.eqb s "." = false.
Proof.
  intros H. destruct (valid_ident_shape s H) as [c [r [-> [Hc _]]]].
  destruct (String.eqb (String c r) ".") eqn:E; [|reflexivity].
  apply String.eqb_eq in E. injection E as -> _. discriminate.
Qed.

(* ------------------------------------------------------------------ numbers *)
Lemma digits_of_uint : forall d, all_chars is_digit (NilEmpty.string_of_uint d) = true.
Proof. induction d; simpl; try reflexivity; exact IHd. Qed.

Lemma itoa_nonempty n : itoa n <> "".
Proof.
  unfold itoa. intros H.
  pose proof (NilEmpty.usu (N.to_uint n)) as U. rewrite H in U. simpl in U. injection U as U.
  pose proof (DecimalN.Unsigned.of_to n) as O. rewrite <- U in O. simpl in O. subst n. discriminate.
Qed.

Lemma parse_num_itoa n rest : no_start is_digit rest -> parse_num (itoa n ++ rest) = Some (n, rest).
Proof.
  intros Hr. unfold parse_num. rewrite (span_app is_digit (itoa n) rest (digits_of_uint _) Hr).
  pose proof (itoa_nonempty n) as Hne. destruct (itoa n) as [|c r] eqn:E; [contradiction|].
  rewrite <- E. unfold itoa. rewrite NilEmpty.usu, DecimalN.Unsigned.of_to. reflexivity.
Qed.

Lemma itoa_head n : exists c r, itoa n = String c r /\ is_digit c = true.
Proof.
  pose proof (itoa_nonempty n) as Hne. pose proof (digits_of_uint (N.to_uint n)) as Hd. fold (itoa n) in Hd.
  destruct (itoa n) as [|c r]; [contradiction|]. simpl in Hd. apply andb_true_iff in Hd as [Hc _]. eauto.
Qed.

(* ------------------------------------------------------------------ sequences *)
Lemma parse_seq_join {A B : Type} (p : string -> option (B * string)) (pr : A -> string) (v : A -> B) :
  forall l n rest, l <> [] -> List.length l <= n -> strip ", " rest = None ->
  (forall x r, In x l -> (r = rest \/ exists r', r = ", " ++ r') -> p (pr x ++ r) = Some (v x, r)) ->
  parse_seq p n (join ", " (map pr l) ++ rest) = Some (map v l, rest).
Proof.
  induction l as [|x r IH]; intros n rest Hne Hn Hs Hp; [contradiction|].
  destruct n as [|n]; [simpl in Hn; lia|]. cbn [parse_seq map join].
  destruct r as [|y r'].
  - cbn [map]. rewrite Hp by (auto; left; reflexivity). rewrite Hs. reflexivity.
  - cbn [map]. change (join ", " (pr y :: map pr r')) with (join ", " (map pr (y :: r'))).
    rewrite !app_assoc_p. rewrite Hp; [|left; reflexivity|right; eexists; reflexivity].
    change (", " ++ join ", " (map pr (y :: r')) ++ rest) with (", " ++ (join ", " (map pr (y :: r')) ++ rest)).
    rewrite strip_app. rewrite IH; [reflexivity|discriminate|simpl in *; lia|assumption|].
    intros z rr Hz Hr. apply Hp; [right; assumption|assumption].
Qed.

(* ------------------------------------------------------------------ well-formed reference ASTs *)
Lemma texpr_ind' (P : texpr -> Prop) :
  (forall s, P (ERaw s)) ->
  (forall q n args, Forall P args -> P (EName q n args)) ->
  (forall y, P y -> P (EPtr y)) -> (forall y, P y -> P (ESlice y)) ->
  (forall n y, P y -> P (EArray n y)) -> (forall k v, P k -> P v -> P (EMap k v)) ->
  (forall ins outs, Forall (fun p : string * bool * texpr => P (snd p)) ins ->
                    Forall (fun p : string * bool * texpr => P (snd p)) outs -> P (EFunc ins outs)) ->
  forall x, P x.
Proof.
  intros Hr Hn Hp Hs Ha Hm Hf. fix IH 1. intros [s|q n args|y|y|n y|k v|ins outs].
  - apply Hr.
  - apply Hn. induction args as [|a r IHr]; constructor; [apply IH|exact IHr].
  - apply Hp, IH.
  - apply Hs, IH.
  - apply Ha, IH.
  - apply Hm; apply IH.
  - apply Hf.
    + induction ins as [|[[n v] y] r IHr]; constructor; [apply IH|exact IHr].
    + induction outs as [|[[n v] y] r IHr]; constructor; [apply IH|exact IHr].
Qed.

Definition tname (s : string) : Prop := valid_identb s = true.

(* names are Go identifiers (not keywords); that is all the rendered syntax needs *)
Inductive wf_x : texpr -> Prop :=
| WXRaw s : tname s -> wf_x (ERaw s)
| WXName q n args : (forall a, q = Some a -> tname a) -> tname n -> Forall wf_x args -> wf_x (EName q n args)
| WXPtr y : wf_x y -> wf_x (EPtr y)
| WXSlice y : wf_x y -> wf_x (ESlice y)
| WXArray n y : wf_x y -> wf_x (EArray n y)
| WXMap k v : wf_x k -> wf_x v -> wf_x (EMap k v)
| WXFunc ins outs :
    Forall (fun p : string * bool * texpr => tname (fst (fst p)) /\ wf_x (snd p)) ins ->
    Forall (fun p : string * bool * texpr => wf_x (snd p)) outs -> wf_x (EFunc ins outs).

Fixpoint tsize (x : texpr) : nat :=
  match x with
  | ERaw _ => 1
  | EName _ _ args => S (fold_right (fun y a => tsize y + a) 0 args + List.length args)
  | EPtr y | ESlice y | EArray _ y => S (tsize y)
  | EMap k v => S (tsize k + tsize v)
  | EFunc ins outs =>
      S (fold_right (fun (p : string * bool * texpr) a => tsize (snd p) + a) 0 ins + List.length ins +
         (fold_right (fun (p : string * bool * texpr) a => S (tsize (snd p)) + a) 0 outs + List.length outs))
  end.

Definition follow (s : string) : Prop := at_follow s = true.

Lemma follow_cases s : follow s -> s = "" \/ exists r, s = String "]" r \/ s = String "," r \/ s = String ")" r.
Proof.
  unfold follow, at_follow. destruct s as [|c r]; [auto|]. intros H. right. exists r.
  apply orb_true_iff in H as [H|H]; [apply orb_true_iff in H as [H|H]|]; apply Ascii.eqb_eq in H; subst; auto.
Qed.

Lemma follow_no_ident s : follow s -> no_start ident_char s.
Proof. intros H. apply follow_cases in H as [-> | [r [-> | [-> | ->]]]]; simpl; auto. Qed.
Lemma follow_strip_dot s : follow s -> strip "." s = None.
Proof. intros H. apply follow_cases in H as [-> | [r [-> | [-> | ->]]]]; reflexivity. Qed.
Lemma follow_strip_br s : follow s -> strip "[" s = None.
Proof. intros H. apply follow_cases in H as [-> | [r [-> | [-> | ->]]]]; reflexivity. Qed.
Lemma follow_comma r : follow (", " ++ r).
Proof. reflexivity. Qed.

(* the head of an identifier is none of the punctuation the parser looks for first *)
Lemma letter_not_punct c : is_letter c = true ->
  Ascii.eqb "*" c = false /\ Ascii.eqb "[" c = false.
Proof.
  intros H. split; (destruct (Ascii.eqb _ c) eqn:E; [apply Ascii.eqb_eq in E; subst c; discriminate|reflexivity]).
Qed.

(* parse_ty on a text that starts with an identifier: the identifier branch *)
Lemma parse_ty_ident f id r : 
  (exists c t, id = String c t /\ is_letter c = true) -> all_chars ident_char id = true -> no_start ident_char r ->
  parse_ty (S f) (id ++ r) =
  (if String.eqb id "map" then
     match strip "[" r with
     | Some r1 => match parse_ty f r1 with
                  | Some (k, r2) => match strip "]" r2 with
                                    | Some r3 => match parse_ty f r3 with
                                                 | Some (v, r4) => Some (PMap k v, r4)
                                                 | None => None
                                                 end
                                    | None => None
                                    end
                  | None => None
                  end
     | None => None
     end
   else if String.eqb id "func" then parse_ty (S f) ("func" ++ r)
   else
     let args := fun (q : option string) (n r : string) =>
        match strip "[" r with
        | Some r1 => match parse_seq (parse_ty f) f r1 with
                     | Some (l, r2) => match strip "]" r2 with
                                       | Some r3 => Some (PName q n l, r3)
                                       | None => None
                                       end
                     | None => None
                     end
        | None => Some (PName q n [], r)
        end in
     match strip "." r with
     | Some r1 => let '(n, r2) := span ident_char r1 in if is_empty n then None else args (Some id) n r2
     | None => args None id r
     end).
Proof.
  intros [c [t [-> Hc]]] Ha Hn.
  destruct (letter_not_punct c Hc) as [H1 H2].
  destruct (String.eqb (String c t) "func") eqn:Ef.
  { apply String.eqb_eq in Ef. rewrite Ef. destruct (String.eqb "func" "map") eqn:E; [discriminate|reflexivity]. }
  cbn [parse_ty]. change ((String c t) ++ r) with (String c (t ++ r)).
  cbn [strip]. rewrite H1, H2.
  change (String c (t ++ r)) with ((String c t) ++ r). rewrite (span_app ident_char _ _ Ha Hn).
  cbn [is_empty]. rewrite Ef. reflexivity.
Qed.

(* unfoldings of parse_ty on the literal heads (by computation) *)
Lemma parse_ty_ptr f s : parse_ty (S f) ("*" ++ s) =
  match parse_ty f s with Some (t, r1) => Some (PPtr t, r1) | None => None end.
Proof. reflexivity. Qed.
Lemma parse_ty_slice f s : parse_ty (S f) ("[]" ++ s) =
  match parse_ty f s with Some (t, r1) => Some (PSlice t, r1) | None => None end.
Proof. reflexivity. Qed.
Lemma parse_ty_map f s : parse_ty (S f) ("map[" ++ s) =
  match parse_ty f s with
  | Some (k, r2) => match strip "]" r2 with
                    | Some r3 => match parse_ty f r3 with
                                 | Some (v, r4) => Some (PMap k v, r4)
                                 | None => None
                                 end
                    | None => None
                    end
  | None => None
  end.
Proof. reflexivity. Qed.

Lemma digit_not_rbr c : is_digit c = true -> Ascii.eqb "]" c = false.
Proof. intros H. destruct (Ascii.eqb "]" c) eqn:E; [apply Ascii.eqb_eq in E; subst c; discriminate|reflexivity]. Qed.

Lemma parse_ty_array f n s : parse_ty (S f) ("[" ++ itoa n ++ "]" ++ s) =
  match parse_ty f s with Some (t, r3) => Some (PArray n t, r3) | None => None end.
Proof.
  destruct (itoa_head n) as [c [r [E Hc]]].
  cbn [parse_ty]. change ("[" ++ itoa n ++ "]" ++ s) with (String "[" (itoa n ++ "]" ++ s)).
  rewrite E. change (String c r ++ "]" ++ s) with (String c (r ++ "]" ++ s)).
  cbn [strip]. change (Ascii.eqb "*" "[") with false. change (Ascii.eqb "[" "[") with true. cbv iota.
  rewrite (digit_not_rbr c Hc).
  change (String c (r ++ "]" ++ s)) with (String c r ++ "]" ++ s). rewrite <- E.
  rewrite parse_num_itoa by reflexivity. change (strip "]" ("]" ++ s)) with (Some s). reflexivity.
Qed.

Definition func_tail (f : nat) (l : list (string * bool * pty)) (r2 : string) : option (pty * string) :=
  match strip " " r2 with
  | None => None
  | Some r3 =>
      if at_follow r3 then Some (PFunc l [], r3)
      else match strip "(" r3 with
           | Some r4 =>
               match parse_seq (parse_ty f) f r4 with
               | Some (o, r5) => match strip ")" r5 with
                                 | Some r6 => Some (PFunc l o, r6)
                                 | None => None
                                 end
               | None => None
               end
           | None => match parse_ty f r3 with
                     | Some (t, r4) => Some (PFunc l [t], r4)
                     | None => None
                     end
           end
  end.

Definition parse_decl (f : nat) (s : string) : option (string * bool * pty * string) :=
  let '(n, r) := span ident_char s in
  if is_empty n then None else
  match strip "... " r with
  | Some r1 => match parse_ty f r1 with Some (t, r2) => Some ((n, true, t), r2) | None => None end
  | None => match strip " " r with
            | Some r1 => match parse_ty f r1 with Some (t, r2) => Some ((n, false, t), r2) | None => None end
            | None => None
            end
  end.

Lemma parse_ty_func f s : parse_ty (S f) ("func(" ++ s) =
  match (match strip ")" s with
         | Some r2 => Some ([], r2)
         | None => match parse_seq (parse_decl f) f s with
                   | Some (l, r2) => match strip ")" r2 with
                                     | Some r3 => Some (l, r3)
                                     | None => None
                                     end
                   | None => None
                   end
         end) with
  | None => None
  | Some (l, r2) => func_tail f l r2
  end.
Proof. reflexivity. Qed.

(* the first character of a rendered type: a letter, "*" or "[" — never what may follow a type,
   nor "(" *)
Definition type_head (c : ascii) : Prop :=
  is_letter c = true \/ c = "*"%char \/ c = "["%char.

Lemma print_head x : wf_x x -> exists c t, print x = String c t /\ type_head c.
Proof.
  intros H. destruct H as [s Hs|q n args Hq Hn _|y _|y _|n y _|k v _ _|ins outs _ _]; cbn [print].
  - destruct (valid_ident_shape s Hs) as [c [r [-> [Hc _]]]]. exists c, r. split; [reflexivity|left; assumption].
  - destruct q as [a|].
    + rewrite (ident_not_dot a (Hq a eq_refl)).
      destruct (valid_ident_shape a (Hq a eq_refl)) as [c [r [-> [Hc _]]]]. eexists c, _. split; [reflexivity|left; assumption].
    + destruct (valid_ident_shape n Hn) as [c [r [-> [Hc _]]]]. eexists c, _. split; [reflexivity|left; assumption].
  - eexists _, _. split; [reflexivity|right; left; reflexivity].
  - eexists _, _. split; [reflexivity|right; right; reflexivity].
  - eexists _, _. split; [reflexivity|right; right; reflexivity].
  - eexists _, _. split; [reflexivity|left; reflexivity].
  - unfold sig_text. destruct (Nat.ltb 1 _); eexists _, _; (split; [reflexivity|left; reflexivity]).
Qed.

Lemma head_not_follow c t : type_head c -> at_follow (String c t) = false /\ strip "(" (String c t) = None /\ strip ")" (String c t) = None.
Proof.
  intros [H | [-> | ->]]; [|repeat split; reflexivity..].
  unfold at_follow. cbn [strip].
  assert (forall d, is_letter d = false -> Ascii.eqb c d = false /\ Ascii.eqb d c = false) as N.
  { intros d Hd. split; (destruct (Ascii.eqb _ _) eqn:E; [apply Ascii.eqb_eq in E; subst; congruence|reflexivity]). }
  destruct (N "]"%char eq_refl) as [-> _]. destruct (N ","%char eq_refl) as [-> _].
  destruct (N ")"%char eq_refl) as [-> E1]. destruct (N "("%char eq_refl) as [_ E2].
  rewrite E1, E2. repeat split; reflexivity.
Qed.

Lemma tsize_in (args : list texpr) x : In x args ->
  tsize x <= fold_right (fun y a => tsize y + a) 0 args.
Proof. induction args as [|a r IH]; simpl; [contradiction|]. intros [->|H]; [lia|]. specialize (IH H). lia. Qed.

Lemma tsize_in_p (l : list (string * bool * texpr)) p : In p l ->
  tsize (snd p) <= fold_right (fun (p : string * bool * texpr) a => tsize (snd p) + a) 0 l.
Proof.
  induction l as [|a r IH]; cbn [In fold_right]; [contradiction|].
  intros [E|H]; [subst a; lia|]. specialize (IH H). lia.
Qed.

Lemma tsize_in_o (l : list (string * bool * texpr)) p : In p l ->
  S (tsize (snd p)) <= fold_right (fun (p : string * bool * texpr) a => S (tsize (snd p)) + a) 0 l.
Proof.
  induction l as [|a r IH]; cbn [In fold_right]; [contradiction|].
  intros [E|H]; [subst a; lia|]. specialize (IH H). lia.
Qed.

Definition prdecl (p : string * bool * texpr) : string :=
  let '(n, v, y) := p in n ++ (if v then "..." else "") ++ " " ++ print y.
Definition vdecl (p : string * bool * texpr) : string * bool * pty := let '(n, v, y) := p in (n, v, to_pty y).
Definition prout (p : string * bool * texpr) : string :=
  let '(_, v, y) := p in (if v then "[]" else "") ++ print y.
Definition vout (p : string * bool * texpr) : pty :=
  let '(_, v, y) := p in if v then PSlice (to_pty y) else to_pty y.

Lemma declarations_pr ins :
  declarations (map (fun p : string * bool * texpr => let '(n, v, y) := p in (n, v, print y)) ins)
  = join ", " (map prdecl ins).
Proof. unfold declarations. rewrite map_map. f_equal. apply map_ext. intros [[n v] y]. reflexivity. Qed.
Lemma type_names_pr outs :
  type_names (map (fun p : string * bool * texpr => let '(n, v, y) := p in (n, v, print y)) outs)
  = join ", " (map prout outs).
Proof. unfold type_names. rewrite map_map. f_equal. apply map_ext. intros [[n v] y]. reflexivity. Qed.

(* ------------------------------------------------------------------ the round trip *)
Theorem parse_print : forall x, wf_x x -> forall fuel rest, tsize x <= fuel -> follow rest ->
  parse_ty fuel (print x ++ rest) = Some (to_pty x, rest).
Proof.
  induction x as [s|q n args IH|y IH|y IH|n y IH|k v IHk IHv|ins outs IHi IHo] using texpr_ind';
    intros Hwf fuel rest Hf Hfo; inversion Hwf; subst; (destruct fuel as [|f]; [cbn [tsize] in Hf; lia|]);
    cbn [tsize] in Hf.
  - (* a bare name *)
    cbn [print to_pty]. destruct (valid_ident_shape s H0) as [c [r [E [Hc [Ha [Hm Hfn]]]]]].
    rewrite parse_ty_ident; [|rewrite E; eauto|assumption|apply follow_no_ident; assumption].
    rewrite Hm, Hfn. cbv zeta. rewrite follow_strip_dot, follow_strip_br by assumption. reflexivity.
  - (* named, qualified, instantiated *)
    cbn [print to_pty].
    set (ARGS := match args with [] => "" | _ :: _ => "[" ++ join ", " (map print args) ++ "]" end).
    assert (Hargs : forall qq nn, 
      (let args0 := fun (q : option string) (n r : string) =>
        match strip "[" r with
        | Some r1 => match parse_seq (parse_ty f) f r1 with
                     | Some (l, r2) => match strip "]" r2 with
                                       | Some r3 => Some (PName q n l, r3)
                                       | None => None
                                       end
                     | None => None
                     end
        | None => Some (PName q n [], r)
        end in args0 qq nn (ARGS ++ rest)) = Some (PName qq nn (map to_pty args), rest)).
    { intros qq nn. cbv zeta. unfold ARGS. destruct args as [|a0 ar] eqn:Eargs.
      - cbn [append map]. rewrite follow_strip_br by assumption. reflexivity.
      - rewrite <- Eargs in *. rewrite !app_assoc_p. rewrite strip_app.
        rewrite (parse_seq_join (parse_ty f) print to_pty args f ("]" ++ rest)).
        + rewrite strip_app. reflexivity.
        + rewrite Eargs. discriminate.
        + lia.
        + reflexivity.
        + intros x r Hx Hr. rewrite Forall_forall in IH, H4. apply IH; [assumption|auto| |].
          * pose proof (tsize_in args x Hx). lia.
          * destruct Hr as [->|[r' ->]]; reflexivity. }
    assert (Hnf : no_start ident_char (ARGS ++ rest)).
    { unfold ARGS. destruct args; [apply follow_no_ident; assumption|reflexivity]. }
    destruct (valid_ident_shape n H3) as [cn [rn [En [Hcn [Han [Hmn Hfnn]]]]]].
    destruct q as [a|].
    + rewrite (ident_not_dot a (H2 a eq_refl)).
      destruct (valid_ident_shape a (H2 a eq_refl)) as [c [r [E [Hc [Ha [Hm Hfn]]]]]].
      rewrite !app_assoc_p.
      rewrite parse_ty_ident; [|rewrite E; eauto|assumption|reflexivity].
      rewrite Hm, Hfn. cbv zeta. rewrite strip_app.
      rewrite (span_app ident_char n _ Han Hnf). cbv beta iota.
      assert (Hne : is_empty n = false) by (rewrite En; reflexivity). rewrite Hne. apply Hargs.
    + cbn [append]. rewrite !app_assoc_p.
      rewrite parse_ty_ident; [|rewrite En; eauto|assumption|assumption].
      rewrite Hmn, Hfnn. cbv zeta.
      assert (Hd : strip "." (ARGS ++ rest) = None).
      { unfold ARGS. destruct args; [apply follow_strip_dot; assumption|reflexivity]. }
      rewrite Hd. apply Hargs.
  - cbn [print to_pty]. rewrite app_assoc_p, parse_ty_ptr. rewrite IH by (auto; lia). reflexivity.
  - cbn [print to_pty]. rewrite app_assoc_p, parse_ty_slice. rewrite IH by (auto; lia). reflexivity.
  - cbn [print to_pty]. rewrite !app_assoc_p, parse_ty_array. rewrite IH by (auto; lia). reflexivity.
  - cbn [print to_pty]. rewrite !app_assoc_p, parse_ty_map.
    rewrite IHk; [|assumption|lia|reflexivity]. rewrite strip_app. rewrite IHv by (auto; lia). reflexivity.
  - (* func *)
    cbn [print to_pty]. unfold sig_text. rewrite map_length, declarations_pr, type_names_pr.
    assert (Hins : forall tail, follow (")" ++ tail) ->
      (match strip ")" (join ", " (map prdecl ins) ++ ")" ++ tail) with
       | Some r2 => Some ([], r2)
       | None => match parse_seq (parse_decl f) f (join ", " (map prdecl ins) ++ ")" ++ tail) with
                 | Some (l, r2) => match strip ")" r2 with
                                   | Some r3 => Some (l, r3)
                                   | None => None
                                   end
                 | None => None
                 end
       end) = Some (map vdecl ins, tail)).
    { intros tail _. destruct ins as [|i0 ir] eqn:Eins.
      - reflexivity.
      - rewrite <- Eins in *.
        assert (Hst : strip ")" (join ", " (map prdecl ins) ++ ")" ++ tail) = None).
        { assert (Hi0 : In i0 ins) by (rewrite Eins; left; reflexivity).
          pose proof (proj1 (Forall_forall _ _) H1 _ Hi0) as [Hn0 _].
          rewrite Eins. destruct i0 as [[n0 v0] y0]. cbn [fst] in Hn0.
          destruct (valid_ident_shape n0 Hn0) as [c [r [E [Hc _]]]].
          cbn [map join prdecl]. rewrite E. destruct ir; cbn [append];
            apply (head_not_follow c _ (or_introl Hc)). }
        rewrite Hst.
        rewrite (parse_seq_join (parse_decl f) prdecl vdecl ins f (")" ++ tail)).
        + rewrite strip_app. reflexivity.
        + rewrite Eins. discriminate.
        + lia.
        + reflexivity.
        + intros [[n0 v0] y0] r Hx Hr. rewrite Forall_forall in IHi, H1.
          destruct (H1 _ Hx) as [Hn0 Hy0]. cbn [fst snd] in Hn0, Hy0.
          destruct (valid_ident_shape n0 Hn0) as [c [t [E [Hc [Ha _]]]]].
          unfold parse_decl, prdecl, vdecl. rewrite !app_assoc_p.
          rewrite (span_app ident_char n0); [|assumption|destruct v0; reflexivity]. cbv beta iota.
          assert (Hne : is_empty n0 = false) by (rewrite E; reflexivity). rewrite Hne.
          assert (Hy : parse_ty f (print y0 ++ r) = Some (to_pty y0, r)).
          { apply (IHi _ Hx); [assumption| |destruct Hr as [->|[r' ->]]; reflexivity].
            pose proof (tsize_in_p ins _ Hx). cbn [snd] in *. lia. }
          destruct v0.
          * change ("..." ++ " " ++ print y0 ++ r) with ("... " ++ print y0 ++ r). rewrite strip_app, Hy. reflexivity.
          * change ("" ++ " " ++ print y0 ++ r) with (" " ++ print y0 ++ r).
            change (strip "... " (" " ++ print y0 ++ r)) with (@None string). rewrite strip_app, Hy. reflexivity. }
    assert (Hout : forall o r, In o outs -> follow r -> parse_ty f (prout o ++ r) = Some (vout o, r)).
    { intros [[n0 v0] y0] r Ho Hr. rewrite Forall_forall in IHo, H2. pose proof (tsize_in_o outs _ Ho) as Hs. cbn [snd] in Hs.
      unfold prout, vout. destruct v0.
      - destruct f as [|f']; [lia|]. rewrite app_assoc_p, parse_ty_slice.
        rewrite (IHo _ Ho); [reflexivity|apply (H2 _ Ho)|cbn [snd]; lia|assumption].
      - cbn [append]. apply (IHo _ Ho); [apply (H2 _ Ho)|cbn [snd]; lia|assumption]. }
    destruct (Nat.ltb 1 (List.length outs)) eqn:El.
    + (* several results *)
      change ("func" ++ "(" ++ join ", " (map prdecl ins) ++ ") (" ++ join ", " (map prout outs) ++ ")")
        with ("func(" ++ (join ", " (map prdecl ins) ++ ") (" ++ join ", " (map prout outs) ++ ")")).
      rewrite !app_assoc_p. rewrite parse_ty_func.
      change (") (" ++ join ", " (map prout outs) ++ ")" ++ rest) with (")" ++ (" (" ++ join ", " (map prout outs) ++ ")" ++ rest)).
      rewrite Hins by reflexivity.
      unfold func_tail. change (" (" ++ join ", " (map prout outs) ++ ")" ++ rest) with (" " ++ ("(" ++ join ", " (map prout outs) ++ ")" ++ rest)).
      rewrite strip_app. change (at_follow ("(" ++ join ", " (map prout outs) ++ ")" ++ rest)) with false.
      cbv iota. rewrite strip_app.
      apply Nat.ltb_lt in El.
      rewrite (parse_seq_join (parse_ty f) prout vout outs f (")" ++ rest)).
      * rewrite strip_app. reflexivity.
      * destruct outs; [simpl in El; lia|discriminate].
      * lia.
      * reflexivity.
      * intros o r Ho Hr. apply Hout; [assumption|destruct Hr as [->|[r' ->]]; reflexivity].
    + (* no result or one *)
      change ("func" ++ "(" ++ join ", " (map prdecl ins) ++ ") " ++ join ", " (map prout outs))
        with ("func(" ++ (join ", " (map prdecl ins) ++ ") " ++ join ", " (map prout outs))).
      rewrite !app_assoc_p. rewrite parse_ty_func.
      change (") " ++ join ", " (map prout outs) ++ rest) with (")" ++ (" " ++ join ", " (map prout outs) ++ rest)).
      rewrite Hins by reflexivity.
      unfold func_tail. rewrite strip_app.
      apply Nat.ltb_ge in El. destruct outs as [|o [|o2 orr]]; [| |cbn [List.length] in El; lia].
      * cbn [map join append]. unfold follow in Hfo. rewrite Hfo. reflexivity.
      * cbn [map join].
        assert (Hh : exists c t, prout o ++ rest = String c t /\ type_head c).
        { destruct o as [[n0 v0] y0]. unfold prout. destruct v0.
          - eexists _, _. split; [reflexivity|right; right; reflexivity].
          - inversion H2 as [|? ? Hy _]; subst. cbn [snd] in Hy.
            destruct (print_head y0 Hy) as [c [t [E Hc]]]. cbn [append]. rewrite E. eexists c, _. split; [reflexivity|assumption]. }
        destruct Hh as [c [t [E Hc]]]. rewrite E.
        destruct (head_not_follow c t Hc) as [F1 [F2 _]]. rewrite F1, F2. rewrite <- E.
        rewrite Hout; [|left; reflexivity|assumption]. reflexivity.
Qed.

(* ------------------------------------------------------------------ enough fuel: the length of the text *)
Lemma length_app_s : forall a b : string, String.length (a ++ b) = String.length a + String.length b.
Proof. induction a as [|c a IH]; intros b; simpl; [reflexivity|]. rewrite IH. reflexivity. Qed.

Lemma sum_le_join {A : Type} (g : A -> nat) (pr : A -> string) (slack : nat) : forall l,
  (forall x, In x l -> g x <= String.length (pr x) + slack) -> slack <= 2 ->
  fold_right (fun x a => g x + a) 0 l <= String.length (join ", " (map pr l)) + slack.
Proof.
  induction l as [|x r IH]; intros Hg Hs; cbn [fold_right map join]; [simpl; lia|].
  pose proof (Hg x (or_introl eq_refl)) as Hx.
  assert (Hr : forall y, In y r -> g y <= String.length (pr y) + slack) by (intros y Hy; apply Hg; right; assumption).
  specialize (IH Hr Hs). destruct r as [|y r'].
  - cbn [fold_right map] in *. lia.
  - cbn [map] in *. rewrite !length_app_s. cbn [String.length]. lia.
Qed.

Lemma ident_len s : valid_identb s = true -> 1 <= String.length s.
Proof. intros H. destruct (valid_ident_shape s H) as [c [r [-> _]]]. simpl. lia. Qed.

Lemma tsize_le_length : forall x, wf_x x -> tsize x <= String.length (print x).
Proof.
  induction x as [s|q n args IH|y IH|y IH|n y IH|k v IHk IHv|ins outs IHi IHo] using texpr_ind';
    intros Hwf; inversion Hwf; subst; cbn [tsize print].
  - apply ident_len. assumption.
  - pose proof (ident_len n H3) as Hn. rewrite !length_app_s.
    destruct args as [|a0 ar] eqn:E; [cbn [fold_right List.length]; simpl; lia|]. rewrite <- E in *.
    assert (Hs : fold_right (fun y a => (tsize y + 1) + a) 0 args <= String.length (join ", " (map print args)) + 2).
    { apply (sum_le_join (fun y => tsize y + 1) print 2); [|lia]. intros x Hx.
      rewrite Forall_forall in IH, H4. pose proof (IH x Hx (H4 x Hx)). lia. }
    assert (Hsum : forall l : list texpr, fold_right (fun y a => (tsize y + 1) + a) 0 l
                   = fold_right (fun y a => tsize y + a) 0 l + List.length l).
    { induction l as [|z l' IHl]; cbn [fold_right List.length]; [reflexivity|]. rewrite IHl. lia. }
    rewrite Hsum in Hs. rewrite !length_app_s. cbn [String.length]. lia.
  - specialize (IH H0). simpl. lia.
  - specialize (IH H0). simpl. lia.
  - specialize (IH H0). rewrite !length_app_s. simpl. lia.
  - specialize (IHk H1). specialize (IHv H2). rewrite !length_app_s. simpl. lia.
  - unfold sig_text. rewrite map_length, declarations_pr, type_names_pr.
    assert (Hi : fold_right (fun p a => (tsize (snd p) + 1) + a) 0 ins <= String.length (join ", " (map prdecl ins)) + 0).
    { apply (sum_le_join (fun p : string * bool * texpr => tsize (snd p) + 1) prdecl 0); [|lia].
      intros [[n0 v0] y0] Hx. rewrite Forall_forall in IHi, H1. destruct (H1 _ Hx) as [Hn0 Hy0].
      pose proof (IHi _ Hx Hy0) as Hl. pose proof (ident_len _ Hn0) as Hn. cbn [fst snd] in *.
      unfold prdecl. rewrite !length_app_s. simpl. lia. }
    assert (Ho : fold_right (fun p a => (tsize (snd p) + 2) + a) 0 outs <= String.length (join ", " (map prout outs)) + 2).
    { apply (sum_le_join (fun p : string * bool * texpr => tsize (snd p) + 2) prout 2); [|lia].
      intros [[n0 v0] y0] Hx. rewrite Forall_forall in IHo, H2.
      pose proof (IHo _ Hx (H2 _ Hx)) as Hl. cbn [snd] in *. unfold prout. rewrite !length_app_s. lia. }
    assert (Hsi : forall l : list (string * bool * texpr), fold_right (fun p a => (tsize (snd p) + 1) + a) 0 l
                   = fold_right (fun p a => tsize (snd p) + a) 0 l + List.length l).
    { induction l as [|z l' IHl]; cbn [fold_right List.length]; [reflexivity|]. rewrite IHl. lia. }
    assert (Hso : forall l : list (string * bool * texpr), fold_right (fun p a => (tsize (snd p) + 2) + a) 0 l
                   = fold_right (fun p a => S (tsize (snd p)) + a) 0 l + List.length l).
    { induction l as [|z l' IHl]; cbn [fold_right List.length]; [reflexivity|]. rewrite IHl. lia. }
    rewrite Hsi in Hi. rewrite Hso in Ho.
    destruct (Nat.ltb 1 (List.length outs)); rewrite !length_app_s; cbn [String.length]; lia.
Qed.

(* the text of a well-formed reference parses back to its tree *)
Theorem parse_print_top : forall x, wf_x x -> parse (print x) = Some (to_pty x).
Proof.
  intros x Hwf. unfold parse.
  pose proof (parse_print x Hwf (S (String.length (print x))) "") as H.
  assert (E : print x ++ "" = print x).
  { generalize (print x). induction s as [|c s IH]; simpl; [reflexivity|]. rewrite IH. reflexivity. }
  rewrite E in H. rewrite H; [reflexivity| |reflexivity].
  pose proof (tsize_le_length x Hwf). lia.
Qed.

(* ------------------------------------------------------------------ what the text denotes *)
Section DenoteText.
  Variable self : string.
  Variable local : string -> bool.
  Variable act : table.
  Variable basic : string -> bool.

  (* the parser cannot tell a predeclared basic type from any other unqualified name; a table of
     the basic type names decides.  The reference must agree with that table: a raw (basic) name
     is in it and not shadowed by a package-level declaration, a plain named type is not *)
  Fixpoint raw_okb (x : texpr) : bool :=
    match x with
    | ERaw s => basic s && negb (local s)
    | EName q n args =>
        match q with
        | None => negb (basic n && negb (local n) && match args with [] => true | _ => false end)
        | Some _ => true
        end && forallb raw_okb args
    | EPtr y | ESlice y | EArray _ y => raw_okb y
    | EMap k v => raw_okb k && raw_okb v
    | EFunc ins outs => forallb (fun p : string * bool * texpr => raw_okb (snd p)) ins &&
                        forallb (fun p : string * bool * texpr => raw_okb (snd p)) outs
    end.

  Lemma sequence_map_ext {A B} (f g : A -> option B) l :
    (forall x, In x l -> f x = g x) -> sequence (map f l) = sequence (map g l).
  Proof.
    induction l as [|x r IH]; intros H; simpl; [reflexivity|].
    rewrite (H x (or_introl eq_refl)), IH; [reflexivity|]. intros y Hy. apply H. right. assumption.
  Qed.

  Lemma denote_p_to_pty : forall x, raw_okb x = true ->
    denote_p self local act basic (to_pty x) = denote self local act x.
  Proof.
    induction x as [s|q n args IH|y IH|y IH|n y IH|k v IHk IHv|ins outs IHi IHo] using texpr_ind';
      cbn [raw_okb to_pty denote_p denote]; intros H.
    - cbn [map sequence is_nil_l]. rewrite H. reflexivity.
    - apply andb_true_iff in H as [Hq Ha]. rewrite forallb_forall in Ha. rewrite Forall_forall in IH.
      rewrite map_map. rewrite (sequence_map_ext _ (denote self local act) args) by (intros x Hx; apply IH; auto).
      destruct (sequence (map (denote self local act) args)) as [targs|]; [|reflexivity].
      destruct q as [a|]; [reflexivity|].
      assert (E : is_nil_l (map to_pty args) = match args with [] => true | _ => false end) by (destruct args; reflexivity).
      rewrite E. apply negb_true_iff in Hq. rewrite Hq. reflexivity.
    - rewrite IH by assumption. reflexivity.
    - rewrite IH by assumption. reflexivity.
    - rewrite IH by assumption. reflexivity.
    - apply andb_true_iff in H as [H1 H2]. rewrite IHk, IHv by assumption. reflexivity.
    - apply andb_true_iff in H as [H1 H2]. rewrite forallb_forall in H1, H2. rewrite Forall_forall in IHi, IHo.
      rewrite !map_map.
      rewrite (sequence_map_ext _ (fun p : string * bool * texpr =>
                 let '(_, v, y) := p in option_map (fun t => (blank, if v then TSlice t else t)) (denote self local act y)) ins).
      2:{ intros [[n0 v0] y0] Hx. pose proof (IHi _ Hx (H1 _ Hx)) as E. cbn [snd] in E. cbv beta iota. rewrite E. reflexivity. }
      rewrite (sequence_map_ext _ (fun p : string * bool * texpr =>
                 let '(_, v, y) := p in option_map (fun t => (blank, if v then TSlice t else t)) (denote self local act y)) outs).
      2:{ intros [[n0 v0] y0] Hx. pose proof (IHo _ Hx (H2 _ Hx)) as E. cbn [snd] in E. cbv beta iota.
          destruct v0; cbn [denote_p]; rewrite E; destruct (denote self local act y0); reflexivity. }
      assert (Ev : existsb (fun p : string * bool * pty => snd (fst p))
                     (map (fun p : string * bool * texpr => let '(n, v, y) := p in (n, v, to_pty y)) ins)
                   = existsb (fun p : string * bool * texpr => snd (fst p)) ins).
      { clear. induction ins as [|[[n v] y] r IH]; simpl; [reflexivity|]. rewrite IH. reflexivity. }
      rewrite Ev. reflexivity.
  Qed.
End DenoteText.

(* the text FindInterface renders for a type parses, and what it parses to denotes the type *)
Theorem text_denotes e local basic t st x st' st'' :
  extract e st t = (x, st') -> extends st' st'' ->
  wf_ty (e_self e) local t -> alias_injective (active st'') ->
  wf_x x -> raw_okb local basic x = true ->
  exists p, parse (print x) = Some p /\
            denote_p (e_self e) local (active st'') basic p = Some (erase t).
Proof.
  intros He Hx Hwf Hinj Hw Hr. exists (to_pty x). split; [apply parse_print_top; assumption|].
  rewrite denote_p_to_pty by assumption.
  exact (IFaceRefProofs.typeref_denotes e local t st x st' He st'' Hx Hwf Hinj).
Qed.

(* ------------------------------------------------------------------ what extract renders is well-formed *)
(* so that C19_text_denotes needs no hypothesis on the reference: when the names go/types hands
   over are Go identifiers (type names, package names, the user's parameter names) and so are the
   import names of the file, every name FindInterface puts into a reference is one — the on-demand
   names (name, name2, name3 …) and the generated parameter names included *)
Definition ident_env (e : env) : Prop := forall p n, assoc (e_pkg_imports e) p = Some n -> tname n.
Definition ident_tbl (st : table) : Prop := forall i, In i st -> tname (i_alias i).

Inductive ident_ty : ty -> Prop :=
| ITBasic s : tname (trim_prefix "untyped " s) -> ident_ty (TBasic s)
| ITNamed pkg n targs : tname n -> (forall p pn, pkg = Some (p, pn) -> tname pn) ->
    Forall ident_ty targs -> ident_ty (TNamed pkg n targs)
| ITPtr x : ident_ty x -> ident_ty (TPtr x)
| ITSlice x : ident_ty x -> ident_ty (TSlice x)
| ITArray n x : ident_ty x -> ident_ty (TArray n x)
| ITMap k v : ident_ty k -> ident_ty v -> ident_ty (TMap k v)
| ITFunc ps v rs :
    Forall (fun p : pinfo * ty => user_valid (fst p) /\ ident_ty (snd p)) ps ->
    Forall (fun p : pinfo * ty => user_valid (fst p) /\ ident_ty (snd p)) rs -> ident_ty (TFunc ps v rs).

Lemma unused_name_ident taken a : tname a -> tname (unused_name taken a).
Proof.
  unfold tname, unused_name. intros H. destruct (mem a taken); [|assumption].
  destruct (number_name_shape (S (List.length taken)) (map (fun a0 : string => (a0, 0%N)) taken) a 2) as [k ->].
  apply valid_numbered, valid_ident_base. assumption.
Qed.

Lemma tset_In_p st j i : In i (tset st j) -> i = j \/ In i st.
Proof.
  induction st as [|k r IH]; simpl; [intros [H|[]]; auto|].
  destruct (String.eqb (i_path j) (i_path k)); simpl.
  - intros [H|H]; auto.
  - intros [H|H]; [auto|]. destruct (IH H); auto.
Qed.

Lemma add_named_ident e st pkg q st1 : ident_env e -> ident_tbl st ->
  (forall p pn, pkg = Some (p, pn) -> tname pn) ->
  add_named e st pkg = (q, st1) -> (forall a, q = Some a -> tname a) /\ ident_tbl st1.
Proof.
  intros He Hst Hp H. unfold add_named in H. destruct pkg as [[p pn]|]; [|injection H as <- <-; split; [discriminate|assumption]].
  specialize (Hp p pn eq_refl).
  destruct (String.eqb p (e_self e)); [injection H as <- <-; split; [discriminate|assumption]|].
  destruct (tget st p) as [i|] eqn:Eg.
  - injection H as <- <-. pose proof (Hst i (tget_In _ _ _ Eg)) as Hi. split.
    + intros a [= <-]. assumption.
    + intros j Hj. apply tset_In_p in Hj as [->|Hj]; [assumption|auto].
  - assert (Hal : forall al0 isp0,
              (match assoc (e_pkg_imports e) p with
               | Some n => if String.eqb pn "" then (n, true) else (pn, has_suffix p pn)
               | None => (pn, has_suffix p pn)
               end) = (al0, isp0) -> tname al0).
    { intros al0 isp0 E. destruct (assoc (e_pkg_imports e) p) as [n|] eqn:Ea.
      - destruct (String.eqb pn ""); injection E as <- _; [eapply He; eauto|assumption].
      - injection E as <- _. assumption. }
    destruct (match assoc (e_pkg_imports e) p with
              | Some n => if String.eqb pn "" then (n, true) else (pn, has_suffix p pn)
              | None => (pn, has_suffix p pn)
              end) as [al0 isp0] eqn:Em.
    specialize (Hal al0 isp0 eq_refl). cbv zeta in H. injection H as <- <-.
    assert (Ha : tname (if e_unique_alias e then unused_name (taken_names e st) al0 else al0))
      by (destruct (e_unique_alias e); [apply unused_name_ident|]; assumption).
    split.
    + intros a [= <-]. assumption.
    + intros j Hj. apply tset_In_p in Hj as [->|Hj]; [assumption|auto].
Qed.

Lemma trim_slice_wf x : wf_x x -> wf_x (trim_slice x).
Proof. intros H. destruct H; simpl; try (constructor; assumption). assumption. Qed.

Section ExtractWf.
  Variable e : env.
  Hypothesis He : ident_env e.

  Definition renders_wf (t : ty) : Prop :=
    ident_ty t -> forall st x st', ident_tbl st -> extract e st t = (x, st') -> wf_x x /\ ident_tbl st'.

  Lemma extract_list_wf : forall l, Forall renders_wf l -> Forall ident_ty l ->
    forall st xs st', ident_tbl st -> extract_list e st l = (xs, st') -> Forall wf_x xs /\ ident_tbl st'.
  Proof.
    induction l as [|t r IH]; intros Hk Hi st xs st' Hst H; simpl in H.
    - injection H as <- <-. split; [constructor|assumption].
    - inversion Hk as [|? ? Ht Hr]; subst. inversion Hi as [|? ? It Ir]; subst.
      destruct (extract e st t) as [x s1] eqn:E1. destruct (extract_list e s1 r) as [xr s2] eqn:E2.
      injection H as <- <-. destruct (Ht It _ _ _ Hst E1) as [W1 S1]. destruct (IH Hr Ir _ _ _ S1 E2) as [W2 S2].
      split; [constructor; assumption|assumption].
  Qed.

  Lemma tuple_wf : forall l, Forall (fun p : pinfo * ty => renders_wf (snd p)) l ->
    Forall (fun p : pinfo * ty => ident_ty (snd p)) l ->
    forall st v xs st', ident_tbl st -> params_from_tuple e st v l = (xs, st') ->
      Forall (fun bx : bool * texpr => wf_x (snd bx)) xs /\ ident_tbl st'.
  Proof.
    induction l as [|[pi t] r IH]; intros Hk Hi st v xs st' Hst H; simpl in H.
    - injection H as <- <-. split; [constructor|assumption].
    - inversion Hk as [|? ? Ht Hr]; subst. inversion Hi as [|? ? It Ir]; subst. cbn [snd] in Ht, It.
      destruct (extract e st t) as [x s1] eqn:E1. destruct (params_from_tuple e s1 v r) as [xr s2] eqn:E2.
      injection H as <- <-. destruct (Ht It _ _ _ Hst E1) as [W1 S1]. destruct (IH Hr Ir _ _ _ _ S1 E2) as [W2 S2].
      split; [|assumption]. constructor; [|assumption]. cbn [snd].
      destruct (v && match r with [] => true | _ => false end); [apply trim_slice_wf|]; assumption.
  Qed.

  Lemma zip_names_wf ns xs : Forall (fun n : pinfo => tname (pi_name n)) ns ->
    Forall (fun bx : bool * texpr => wf_x (snd bx)) xs ->
    Forall (fun p : string * bool * texpr => tname (fst (fst p)) /\ wf_x (snd p)) (zip_names ns xs).
  Proof.
    unfold zip_names. intros Hn. revert xs. induction Hn as [|n nr Hn0 _ IH]; intros xs Hx; simpl; [constructor|].
    destruct Hx as [|[b x] xr Hx0 Hxr]; simpl; [constructor|]. constructor; [split; assumption|apply IH; assumption].
  Qed.

  Theorem extract_wf : forall t, renders_wf t.
  Proof.
    induction t as [s|pkg n targs IH|y IH|y IH|k y IH|k v IHk IHv|ps v rs IHp IHr] using IFaceRefProofs.ty_ind';
      intros Hi st x st' Hst H; inversion Hi; subst.
    - simpl in H. injection H as <- <-. split; [constructor; assumption|assumption].
    - rewrite extract_named in H. destruct (add_named e st pkg) as [q st1] eqn:Ea.
      destruct (extract_list e st1 targs) as [args st2] eqn:El. injection H as <- <-.
      destruct (add_named_ident e st pkg q st1 He Hst H4 Ea) as [Hq S1].
      destruct (extract_list_wf targs IH H5 _ _ _ S1 El) as [W S2].
      split; [constructor; assumption|assumption].
    - simpl in H. destruct (extract e st y) as [r s1] eqn:E. injection H as <- <-.
      destruct (IH H1 _ _ _ Hst E). split; [constructor; assumption|assumption].
    - simpl in H. destruct (extract e st y) as [r s1] eqn:E. injection H as <- <-.
      destruct (IH H1 _ _ _ Hst E). split; [constructor; assumption|assumption].
    - simpl in H. destruct (extract e st y) as [r s1] eqn:E. injection H as <- <-.
      destruct (IH H1 _ _ _ Hst E). split; [constructor; assumption|assumption].
    - simpl in H. destruct (extract e st k) as [rk s1] eqn:E1. destruct (extract e s1 v) as [rv s2] eqn:E2.
      injection H as <- <-. destruct (IHk H2 _ _ _ Hst E1) as [W1 S1]. destruct (IHv H3 _ _ _ S1 E2) as [W2 S2].
      split; [constructor; assumption|assumption].
    - rewrite extract_func in H.
      destruct (params_from_tuple e st v ps) as [xi s1] eqn:E1.
      destruct (params_from_tuple e s1 false rs) as [xo s2] eqn:E2.
      destruct (ensure_param_names (map fst ps) (map fst rs)) as [ni no] eqn:En. injection H as <- <-.
      assert (Ip : Forall (fun p : pinfo * ty => ident_ty (snd p)) ps) by (eapply Forall_impl; [|exact H2]; intros a [_ Ha]; exact Ha).
      assert (Ir : Forall (fun p : pinfo * ty => ident_ty (snd p)) rs) by (eapply Forall_impl; [|exact H4]; intros a [_ Ha]; exact Ha).
      destruct (tuple_wf ps IHp Ip _ _ _ _ Hst E1) as [W1 S1].
      destruct (tuple_wf rs IHr Ir _ _ _ _ S1 E2) as [W2 S2].
      assert (Hv : Forall user_valid (map fst ps ++ map fst rs)).
      { apply Forall_app. split; apply Forall_forall; intros p Hp; apply in_map_iff in Hp as [q [<- Hq]].
        - rewrite Forall_forall in H2. apply (H2 q Hq).
        - rewrite Forall_forall in H4. apply (H4 q Hq). }
      pose proof (proj1 (proj2 (proj2 (final_names_all (map fst ps) (map fst rs)))) Hv) as Hn.
      unfold final_names in Hn. rewrite En in Hn. rewrite map_app in Hn. apply Forall_app in Hn as [N1 N2].
      split; [|assumption]. constructor.
      + apply zip_names_wf; [|assumption]. apply Forall_forall. intros n0 Hn0.
        rewrite Forall_forall in N1. apply N1. apply in_map. assumption.
      + assert (Z : Forall (fun p : string * bool * texpr => tname (fst (fst p)) /\ wf_x (snd p)) (zip_names no xo)).
        { apply zip_names_wf; [|assumption]. apply Forall_forall. intros n0 Hn0.
          rewrite Forall_forall in N2. apply N2. apply in_map. assumption. }
        eapply Forall_impl; [|exact Z]. intros a [_ Ha]. exact Ha.
  Qed.
End ExtractWf.

(* the closed form: no hypothesis on the reference left *)
Theorem text_denotes_closed e local basic t st x st' st'' :
  ident_env e -> ident_ty t -> ident_tbl st ->
  extract e st t = (x, st') -> extends st' st'' ->
  wf_ty (e_self e) local t -> alias_injective (active st'') ->
  raw_okb local basic x = true ->
  exists p, parse (print x) = Some p /\
            denote_p (e_self e) local (active st'') basic p = Some (erase t).
Proof.
  intros He Hi Ht Hx Hext Hwf Hinj Hr.
  destruct (extract_wf e He t Hi st x st' Ht Hx) as [Hw _].
  eapply text_denotes; eauto.
Qed.
