(* SetMultiModel.v — operation sequences over SEVERAL Set variables (no proofs).

   Set[T] is a Go map, i.e. a reference: a mathematical-set reading of the API requires that an
   operation on one set never changes another one.  Here a program state is a vector of set
   variables; AddSet/RemoveSet take another variable (possibly the same one) as argument, and
   after every operation all variables are probed.  Values are immutable in the model, so any
   sharing of storage between two variables in the implementation shows up as a difference. *)
From Coq Require Import List Bool Arith.
From GT Require Import SetModel.
Import ListNotations.

Section SetMulti.
  Variable T : Type.
  Variable eqb : T -> T -> bool.

  Definition mstate := list (sset T).
  Definition mget (st : mstate) (i : nat) : sset T := nth i st s_nil.
  Fixpoint mset {A} (st : list A) (i : nat) (v : A) : list A :=
    match st, i with
    | [], _ => []
    | _ :: r, O => v :: r
    | x :: r, S k => x :: mset r k v
    end.

  Inductive mop :=
  | MNil (i : nat)                         (* s_i = nil *)
  | MMake (i : nat) (items : list T)       (* s_i = Make(items...) *)
  | MAdd (i : nat) (items : list T)
  | MAddSet (i j : nat)                    (* s_i.AddSet(s_j) *)
  | MRemove (i : nat) (items : list T)
  | MRemoveSet (i j : nat)                 (* s_i.RemoveSet(s_j) *)
  | MHas (i : nat) (items : list T)
  | MHasAny (i : nat) (items : list T).

  Definition m_target (o : mop) : nat :=
    match o with
    | MNil i | MMake i _ | MAdd i _ | MAddSet i _ | MRemove i _ | MRemoveSet i _
    | MHas i _ | MHasAny i _ => i
    end.

  (* the single-set operation performed on the target; ranging over the argument map is the
     argument's key list (any order: SetProofs shows the order is immaterial) *)
  Definition m_sop (st : mstate) (o : mop) : sop T :=
    match o with
    | MNil _ => ONil
    | MMake _ items => OMake items
    | MAdd _ items => OAdd items
    | MAddSet _ j => OAdd (elems (mget st j))
    | MRemove _ items => ORemove items
    | MRemoveSet _ j => ORemove (elems (mget st j))
    | MHas _ items => OHas items
    | MHasAny _ items => OHasAny items
    end.

  Definition m_step (st : mstate) (o : mop) : mstate * bool :=
    let r := s_step eqb (mget st (m_target o)) (m_sop st o) in
    (mset st (m_target o) (fst r), snd r).

  Fixpoint m_run (st : mstate) (ops : list mop) : list (mstate * bool) :=
    match ops with
    | [] => []
    | o :: rest => let r := m_step st o in r :: m_run (fst r) rest
    end.

  (* ---- abstract: a vector of membership predicates ---- *)
  Definition astate := list (T -> bool).
  Definition aget (ps : astate) (i : nat) : T -> bool := nth i ps a_empty.

  Definition am_sop (ps : astate) (dom : list T) (o : mop) : sop T :=
    match o with
    | MNil _ => ONil
    | MMake _ items => OMake items
    | MAdd _ items => OAdd items
    | MAddSet _ j => OAdd (filter (aget ps j) dom)
    | MRemove _ items => ORemove items
    | MRemoveSet _ j => ORemove (filter (aget ps j) dom)
    | MHas _ items => OHas items
    | MHasAny _ items => OHasAny items
    end.

  Definition am_step (ps : astate) (dom : list T) (o : mop) : astate * bool :=
    let a := a_step eqb (aget ps (m_target o)) dom (am_sop ps dom o) in
    (mset ps (m_target o) (fst a), snd a).
End SetMulti.

Arguments mget {T}. Arguments mset {A}. Arguments m_step {T}. Arguments m_run {T}.
Arguments am_step {T}. Arguments aget {T}. Arguments m_target {T}. Arguments m_sop {T}.
Arguments am_sop {T}.
Arguments MNil {T}. Arguments MMake {T}. Arguments MAdd {T}. Arguments MAddSet {T}.
Arguments MRemove {T}. Arguments MRemoveSet {T}. Arguments MHas {T}. Arguments MHasAny {T}.
