(* WGInv.v — the inductive invariant of the pair-CAS SelectableWaitGroup machine and the proof
   that every step of every thread preserves it (any number of threads, any programs).

   Notation: cf = configuration, s = sh cf (shared memory), ts = thr cf (threads), t = tr cf
   (ghost trace, newest first).  The invariant (DESIGN section 4, I1-I7, made precise):

   wf      every running thread is at a program counter of its own call
   ver     a thread about to CAS holds (ov, oc, och) with ov <= ver s, and if ov = ver s then
           (oc, och) = (cnt s, chn s): pointer equality of the CAS means "nothing changed"
   sent    chn s = 0 (the closed sentinel) <-> cnt s = 0                                 (I2)
   cl0     the sentinel is closed
   open    an installed non-sentinel channel is open                                     (I2)
   fresh   chn s and every closed channel are < nextc s                                  (I3)
   pend    a thread between its zero-crossing CAS and its close(x): x <> 0, x <> chn s,
           x open, x < nextc s; no two threads hold the same x (so close never panics)   (I4)
   lb      cnt s = lb_of t + sum over threads of [contrib]                               (I1)
           (a decrement called but not linearised counts |d|, an increment linearised but
           not returned counts d; all terms are >= 0, hence lb_of t <= cnt s)
   sum     cnt s = sum_deltas t - sum over threads of the deltas not yet linearised
   infl    every thread inside Add is in adds_in_flight t
   mon     every watch of the C01 monitor that returned x:  x closed or pending close ->
           zero_seen                                                                  (I5, I6)
   ok      the C01 monitor has not failed
   hand    every channel handed out is installed, pending close, or closed               (I7) *)
From Coq Require Import List Arith ZArith Bool Lia.
From GT Require Import Base.Conc.
From GT Require Import Base.ConcFacts.
From GT Require Import WGModel WGSpec.
Import ListNotations.
Local Open Scope Z_scope.

Notation wthread := (tstate loc call).

(* ------------------------------------------------------------------ per-thread predicates *)
Definition wf_thread (t : wthread) : Prop :=
  match t with
  | Idle _ => True
  | Run (CAdd _) A0 _ | Run (CAdd _) (A1 _ _ _) _ | Run (CAdd _) (A2 _ _) _ => True
  | Run CWait W0 _ => True
  | Run CCount C0 _ => True
  | _ => False
  end.

Definition ver_ok (s : shared) (t : wthread) : Prop :=
  match t with
  | Run (CAdd _) (A1 ov oc och) _ =>
      (ov <= ver s)%nat /\ (ov = ver s -> oc = cnt s /\ och = chn s)
  | _ => True
  end.

Definition pend_ok (s : shared) (t : wthread) : Prop :=
  match t with
  | Run (CAdd _) (A2 x _) _ =>
      x <> 0%nat /\ x <> chn s /\ ~ In x (closed s) /\ (x < nextc s)%nat
  | _ => True
  end.

Definition holds (t : wthread) (x : nat) : Prop :=
  match t with Run (CAdd _) (A2 y _) _ => y = x | _ => False end.

Lemma holds_inv : forall (t : wthread) x, holds t x ->
  exists d n todo, t = Run (CAdd d) (A2 x n) todo.
Proof.
  intros [todo|c l todo] x H; simpl in H; [destruct H|].
  destruct c; try destruct H. destruct l; try destruct H. eauto.
Qed.

Definition pending (ts : list wthread) (x : nat) : Prop :=
  exists i t, nth_error ts i = Some t /\ holds t x.

Definition in_add (t : wthread) : Prop :=
  match t with Run (CAdd _) _ _ => True | _ => False end.

(* I1: what a thread contributes to cnt - lb *)
Definition contrib (t : wthread) : Z :=
  match t with
  | Run (CAdd d) (A2 _ _) _ => if 0 <? d then d else 0
  | Run (CAdd d) _ _ => if d <? 0 then - d else 0
  | _ => 0
  end.

(* delta of an Add that has been called but has not passed its successful CAS *)
Definition unlin (t : wthread) : Z :=
  match t with
  | Run (CAdd d) (A2 _ _) _ => 0
  | Run (CAdd d) _ _ => d
  | _ => 0
  end.

Lemma contrib_nonneg : forall t, 0 <= contrib t.
Proof.
  intros [todo|c l todo]; simpl; [lia|].
  destruct c as [d| |]; try lia.
  destruct l; try (destruct (d <? 0) eqn:E; [apply Z.ltb_lt in E|]; lia).
  destruct (0 <? d) eqn:E; [apply Z.ltb_lt in E|]; lia.
Qed.

(* ------------------------------------------------------------------ the invariant *)
Record Inv (cf : wg_config) : Prop := {
  i_wf : forall i t, nth_error (thr cf) i = Some t -> wf_thread t;
  i_ver : forall i t, nth_error (thr cf) i = Some t -> ver_ok (sh cf) t;
  i_sent : chn (sh cf) = 0%nat <-> cnt (sh cf) = 0;
  i_cl0 : In 0%nat (closed (sh cf));
  i_open : chn (sh cf) <> 0%nat -> ~ In (chn (sh cf)) (closed (sh cf));
  i_fresh : (chn (sh cf) < nextc (sh cf))%nat /\
            forall x, In x (closed (sh cf)) -> (x < nextc (sh cf))%nat;
  i_pend : forall i t, nth_error (thr cf) i = Some t -> pend_ok (sh cf) t;
  i_uniq : forall i j t u x, nth_error (thr cf) i = Some t -> nth_error (thr cf) j = Some u ->
             holds t x -> holds u x -> i = j;
  i_lb : cnt (sh cf) = lb_of (tr cf) + sumf contrib (thr cf);
  i_sum : cnt (sh cf) = sum_deltas (tr cf) - sumf unlin (thr cf);
  i_infl : forall i t, nth_error (thr cf) i = Some t -> in_add t -> In i (adds_in_flight (tr cf));
  i_mon : forall w x, In w (m_ws (mon_of (tr cf))) -> w_ch w = Some x ->
            In x (closed (sh cf)) \/ pending (thr cf) x -> w_zero w = true;
  i_ok : m_ok (mon_of (tr cf)) = true;
  i_hand : forall x, In x (handed_out (tr cf)) ->
             x = chn (sh cf) \/ pending (thr cf) x \/ In x (closed (sh cf))
}.

(* ------------------------------------------------------------------ initial configuration *)
Lemma nth_error_map_idle : forall (progs : list (list call)) i t,
  nth_error (map (@Idle loc call) progs) i = Some t -> exists p, t = Idle p.
Proof.
  intros progs i t H. rewrite nth_error_map in H.
  destruct (nth_error progs i); simpl in H; inversion H. eauto.
Qed.

Lemma sumf_idle : forall (f : wthread -> Z) progs,
  (forall p, f (Idle p) = 0) -> sumf f (map (@Idle loc call) progs) = 0.
Proof. intros f progs H. induction progs; simpl; auto. rewrite H, IHprogs. reflexivity. Qed.

Lemma Inv_init : forall progs, Inv (init wg_init progs).
Proof.
  intro progs. constructor; simpl.
  - intros i t H. apply nth_error_map_idle in H. destruct H as [p ->]. exact I.
  - intros i t H. apply nth_error_map_idle in H. destruct H as [p ->]. exact I.
  - split; reflexivity.
  - left; reflexivity.
  - intro H; exfalso; apply H; reflexivity.
  - split; [lia|]. intros x [<-|[]]. lia.
  - intros i t H. apply nth_error_map_idle in H. destruct H as [p ->]. exact I.
  - intros i j t u x H _ Hh. apply nth_error_map_idle in H. destruct H as [p ->]. destruct Hh.
  - rewrite sumf_idle; auto.
  - unfold sum_deltas. simpl. rewrite sumf_idle; auto.
  - intros i t H Ha. apply nth_error_map_idle in H. destruct H as [p ->]. destruct Ha.
  - intros w x [].
  - reflexivity.
  - intros x [].
Qed.

(* ------------------------------------------------------------------ trace-derived ghosts *)
Lemma sum_deltas_cons : forall (it : witem) t,
  sum_deltas (it :: t) =
  match it_ev it with ECall (CAdd d) => sum_deltas t + d | _ => sum_deltas t end.
Proof. intros. reflexivity. Qed.

Lemma handed_out_cons : forall (it : witem) t,
  handed_out (it :: t) =
  match it_ev it with ERet CWait (RChan x) => x :: handed_out t | _ => handed_out t end.
Proof. intros. reflexivity. Qed.

Lemma adds_in_flight_cons : forall (it : witem) t,
  adds_in_flight (it :: t) =
  match it_ev it with
  | ECall (CAdd _) => it_tid it :: adds_in_flight t
  | ERet (CAdd _) _ => remove_tid (it_tid it) (adds_in_flight t)
  | _ => adds_in_flight t
  end.
Proof. intros. reflexivity. Qed.

Lemma in_remove_tid : forall tid i l, i <> tid -> In i l -> In i (remove_tid tid l).
Proof.
  intros tid i l Hne Hin. unfold remove_tid. apply filter_In. split; auto.
  destruct (Nat.eqb_spec i tid); auto; congruence.
Qed.

(* ------------------------------------------------------------------ pending under update *)
Lemma pending_upd_inv : forall ts i t' y x, nth_error ts i = Some y ->
  pending (upd ts i t') x -> holds t' x \/ pending ts x.
Proof.
  intros ts i t' y x Hy (j & u & Hj & Hh). rewrite (nth_error_upd _ _ _ _ _ _ Hy) in Hj.
  destruct (Nat.eqb_spec i j) as [->|Hne].
  - inversion Hj; subst. left; auto.
  - right. exists j, u. auto.
Qed.

Lemma pending_upd_keep : forall ts i t' y x, nth_error ts i = Some y ->
  pending ts x -> holds y x \/ pending (upd ts i t') x.
Proof.
  intros ts i t' y x Hy (j & u & Hj & Hh). destruct (Nat.eq_dec i j) as [->|Hne].
  - rewrite Hy in Hj. inversion Hj; subst. left; auto.
  - right. exists j, u. split; auto. rewrite nth_error_upd_other; auto.
Qed.

Lemma pending_upd_new : forall ts i t' y x, nth_error ts i = Some y ->
  holds t' x -> pending (upd ts i t') x.
Proof.
  intros ts i t' y x Hy Hh. exists i, t'. split; auto. eapply nth_error_upd_same; eauto.
Qed.

(* ------------------------------------------------------------------ monitor facts *)
Lemma in_set_ret : forall tid x ws w,
  In w (set_ret tid x ws) ->
  In w ws \/ exists w0, In w0 ws /\ w_ch w0 = None /\ w = Watch (w_tid w0) (Some x) (w_zero w0).
Proof.
  induction ws as [|a ws IH]; intros w H; simpl in H; [destruct H|].
  destruct (w_ch a) eqn:Ea.
  - destruct H as [<-|H]; [left; left; auto|]. destruct (IH _ H) as [H1|(w0 & H1 & H2 & H3)].
    + left; right; auto.
    + right. exists w0. repeat split; auto. right; auto.
  - destruct (Nat.eqb (w_tid a) tid).
    + destruct H as [<-|H]; [|left; right; auto]. right. exists a. repeat split; auto. left; auto.
    + destruct H as [<-|H]; [left; left; auto|]. destruct (IH _ H) as [H1|(w0 & H1 & H2 & H3)].
      * left; right; auto.
      * right. exists w0. repeat split; auto. right; auto.
Qed.

Lemma memb_In : forall x l, memb x l = true <-> In x l.
Proof.
  intros x l. unfold memb. rewrite existsb_exists. split.
  - intros (y & Hy & E). apply Nat.eqb_eq in E. subst; auto.
  - intro H. exists x. split; auto. apply Nat.eqb_refl.
Qed.

(* the watches after a step, given what happened to "closed or pending" *)
Section MonStep.
  Variables (ws : list watch) (lb' : Z) (cl' : list nat).
  Variable P P' : nat -> Prop.          (* closed-or-pending before / after the step *)
  Hypothesis Hold : forall w x, In w ws -> w_ch w = Some x -> P x -> w_zero w = true.
  Hypothesis Hnew : forall x, P' x -> P x \/ lb' <= 0.

  Lemma marked_ok : forall w x, In w (map (mark (lb' <=? 0)) ws) -> w_ch w = Some x -> P' x ->
    w_zero w = true.
  Proof.
    intros w x Hin Hc Hp. apply in_map_iff in Hin. destruct Hin as (w0 & <- & Hin). simpl in *.
    destruct (Hnew _ Hp) as [Hp0|Hz].
    - rewrite (Hold _ _ Hin Hc Hp0). reflexivity.
    - apply Z.leb_le in Hz. rewrite Hz. apply orb_true_r.
  Qed.
End MonStep.

Lemma forallb_watch_ok : forall cl ws,
  (forall w x, In w ws -> w_ch w = Some x -> In x cl -> w_zero w = true) ->
  forallb (watch_ok cl) ws = true.
Proof.
  intros cl ws H. apply forallb_forall. intros w Hin. unfold watch_ok.
  destruct (w_ch w) as [x|] eqn:E; auto.
  destruct (memb x cl) eqn:M; auto. simpl. apply memb_In in M. eauto.
Qed.

Lemma mon_of_cons : forall (it : witem) (t : trace),
  mon_of (it :: t) = mon_step (mon_of t) (lb_of (it :: t)) it.
Proof. reflexivity. Qed.

(* preservation of the monitor part of the invariant, abstractly in "closed or pending" *)
Lemma mon_preserved : forall (t : trace) (it : witem) (P P' : nat -> Prop),
  (forall w x, In w (m_ws (mon_of t)) -> w_ch w = Some x -> P x -> w_zero w = true) ->
  (forall x, P' x -> P x \/ lb_of (it :: t) <= 0) ->
  (forall x, In x (snd (it_obs it)) -> P' x) ->
  (forall x, it_ev it = ERet CWait (RChan x) -> P' x -> lb_of (it :: t) <= 0) ->
  m_ok (mon_of t) = true ->
  (forall w x, In w (m_ws (mon_of (it :: t))) -> w_ch w = Some x -> P' x -> w_zero w = true)
  /\ m_ok (mon_of (it :: t)) = true.
Proof.
  intros t it P P' Hold Hnew Hcl Hret Hok.
  rewrite mon_of_cons. set (lb' := lb_of (it :: t)) in *. set (m := mon_of t) in *.
  assert (Hmarked : forall w x, In w (map (mark (lb' <=? 0)) (m_ws m)) -> w_ch w = Some x ->
                               P' x -> w_zero w = true).
  { intros w x. eapply marked_ok; eauto. }
  assert (Hws : forall w x,
    In w (m_ws (mon_step m lb' it)) -> w_ch w = Some x -> P' x -> w_zero w = true).
  { intros w x Hin Hc Hp. unfold mon_step in Hin. cbn [m_ws] in Hin.
    destruct (it_ev it) as [c|c r| |] eqn:Ev.
    - destruct c; try (eapply Hmarked; eauto; fail).
      destruct Hin as [<-|Hin]; [discriminate Hc|]. eapply Hmarked; eauto.
    - destruct c; try (eapply Hmarked; eauto; fail).
      destruct r as [n|y|]; try (eapply Hmarked; eauto; fail).
      apply in_set_ret in Hin. destruct Hin as [Hin|(w0 & Hin & Hn & ->)].
      + eapply Hmarked; eauto.
      + cbn [w_ch] in Hc. inversion Hc; subst y. cbn [w_zero].
        assert (Hz : lb' <= 0) by (eapply Hret; eauto).
        apply in_map_iff in Hin. destruct Hin as (w00 & <- & _). unfold mark. cbn [w_zero].
        apply Z.leb_le in Hz. rewrite Hz. apply orb_true_r.
    - eapply Hmarked; eauto.
    - eapply Hmarked; eauto. }
  split; [exact Hws|].
  unfold mon_step. cbn [m_ok]. fold m. rewrite Hok. cbn [andb].
  apply forallb_watch_ok. intros w x Hin Hc Hx.
  apply (Hws w x); auto.
Qed.

(* ------------------------------------------------------------------ thread-list update *)
Lemma thr_upd_forall : forall (Q : nat -> wthread -> Prop) (ts : list wthread) i y t',
  nth_error ts i = Some y ->
  (forall j t, j <> i -> nth_error ts j = Some t -> Q j t) ->
  Q i t' ->
  forall j t, nth_error (upd ts i t') j = Some t -> Q j t.
Proof.
  intros Q ts i y t' Hy Hothers Hnew j t Hj.
  rewrite (nth_error_upd _ _ _ _ _ _ Hy) in Hj. destruct (Nat.eqb_spec i j) as [->|Hne].
  - inversion Hj; subst; auto.
  - apply Hothers; auto.
Qed.

Lemma uniq_upd : forall (ts : list wthread) i y t',
  nth_error ts i = Some y ->
  (forall a b t u x, nth_error ts a = Some t -> nth_error ts b = Some u ->
                     holds t x -> holds u x -> a = b) ->
  (forall x, holds t' x -> holds y x \/ ~ pending ts x) ->
  forall a b t u x, nth_error (upd ts i t') a = Some t -> nth_error (upd ts i t') b = Some u ->
                    holds t x -> holds u x -> a = b.
Proof.
  intros ts i y t' Hy Hu Hnew a b t u x Ha Hb Hta Hub.
  rewrite (nth_error_upd _ _ _ a _ _ Hy) in Ha. rewrite (nth_error_upd _ _ _ b _ _ Hy) in Hb.
  destruct (Nat.eqb_spec i a) as [Ea|Hna]; destruct (Nat.eqb_spec i b) as [Eb|Hnb].
  - congruence.
  - subst a. inversion Ha; subst t. destruct (Hnew _ Hta) as [Hyx|Hnp].
    + eapply Hu; eauto.
    + exfalso. apply Hnp. exists b, u. auto.
  - subst b. inversion Hb; subst u. destruct (Hnew _ Hub) as [Hyx|Hnp].
    + eapply Hu; eauto.
    + exfalso. apply Hnp. exists a, t. auto.
  - eapply Hu; eauto.
Qed.

Definition add_delta (e : ev) : Z := match e with ECall (CAdd d) => d | _ => 0 end.

Lemma sum_deltas_item : forall tid e o st (t : trace),
  sum_deltas (Item tid e o st :: t) = sum_deltas t + add_delta e.
Proof.
  intros. rewrite sum_deltas_cons. cbn. destruct e as [c|c r| |]; cbn; try lia.
  destruct c; cbn; lia.
Qed.

Lemma lb_of_item : forall tid e o st (t : trace),
  lb_of (Item tid e o st :: t) = lb_of t + lb_delta e.
Proof. reflexivity. Qed.

Definition is_add_ret (e : ev) : Prop := match e with ERet (CAdd _) _ => True | _ => False end.
Definition is_add_call (e : ev) : Prop := match e with ECall (CAdd _) => True | _ => False end.

Lemma infl_keep : forall tid e o st (t : trace) i,
  In i (adds_in_flight t) -> (is_add_ret e -> i <> tid) ->
  In i (adds_in_flight (Item tid e o st :: t)).
Proof.
  intros tid e o st t i Hin Hne. rewrite adds_in_flight_cons. cbn.
  destruct e as [c|c r| |]; auto.
  - destruct c; auto. right; auto.
  - destruct c; auto. apply in_remove_tid; auto. apply Hne. exact I.
Qed.

Lemma infl_new : forall tid e o st (t : trace),
  is_add_call e -> In tid (adds_in_flight (Item tid e o st :: t)).
Proof.
  intros tid e o st t H. rewrite adds_in_flight_cons. cbn.
  destruct e as [c|c r| |]; try destruct H. destruct c; try destruct H. left; auto.
Qed.

Lemma handed_item : forall tid e o st (t : trace) x,
  In x (handed_out (Item tid e o st :: t)) ->
  e = ERet CWait (RChan x) \/ In x (handed_out t).
Proof.
  intros tid e o st t x H. rewrite handed_out_cons in H. cbn in H.
  destruct e as [c|c r| |]; auto. destruct c; auto. destruct r; auto.
  destruct H as [<-|H]; auto.
Qed.

(* ------------------------------------------------------------------ K1: memory unchanged *)
Lemma Inv_K1 : forall cf tid t t' e st,
  Inv cf -> nth_error (thr cf) tid = Some t ->
  wf_thread t' -> ver_ok (sh cf) t' -> pend_ok (sh cf) t' ->
  (forall x, holds t' x <-> holds t x) ->
  lb_delta e + contrib t' - contrib t = 0 ->
  add_delta e - unlin t' + unlin t = 0 ->
  ~ is_add_ret e ->
  (in_add t' -> in_add t \/ is_add_call e) ->
  (forall x, e = ERet CWait (RChan x) -> x = chn (sh cf)) ->
  Inv (Config (sh cf) (upd (thr cf) tid t') (Item tid e (wg_observe (sh cf)) st :: tr cf)).
Proof.
  intros cf tid t t' e st HI Hnth Hwf Hver Hpend Hholds Hlb Hsum Hnret Hin Hwait.
  assert (Hpen : forall x, pending (upd (thr cf) tid t') x <-> pending (thr cf) x).
  { intro x. split; intro H.
    - destruct (pending_upd_inv _ _ _ _ _ Hnth H) as [H1|H1]; auto.
      exists tid, t. split; auto. apply Hholds; auto.
    - destruct (pending_upd_keep _ _ t' _ _ Hnth H) as [H1|H1]; auto.
      eapply pending_upd_new; eauto. apply Hholds; auto. }
  assert (Hlb' : cnt (sh cf) = lb_of (Item tid e (wg_observe (sh cf)) st :: tr cf)
                               + sumf contrib (upd (thr cf) tid t')).
  { rewrite lb_of_item, (sumf_upd _ _ _ _ _ _ Hnth), (i_lb _ HI).
 lia. }
  assert (Hmon := mon_preserved (tr cf) (Item tid e (wg_observe (sh cf)) st)
                    (fun x => In x (closed (sh cf)) \/ pending (thr cf) x)
                    (fun x => In x (closed (sh cf)) \/ pending (upd (thr cf) tid t') x)).
  destruct Hmon as [Hm1 Hm2].
  { intros w x Hw Hc Hp. eapply (i_mon _ HI); eauto. }
  { intros x [Hx|Hx]; left; [left; auto|right; apply Hpen; auto]. }
  { intros x Hx. left. exact Hx. }
  { cbn. intros x -> [Hx|Hx].
    - (* Wait returned a closed channel: it is the sentinel, so cnt = 0 and lb <= cnt *)
      specialize (Hwait _ eq_refl). subst x.
      destruct (Nat.eq_dec (chn (sh cf)) 0) as [E0|N0].
      + apply (i_sent _ HI) in E0.
        pose proof (sumf_nonneg _ contrib contrib_nonneg (upd (thr cf) tid t')).
        rewrite lb_of_item in Hlb'. lia.
      + exfalso. apply (i_open _ HI N0). exact Hx.
    - specialize (Hwait _ eq_refl). subst x. exfalso.
      apply Hpen in Hx. destruct Hx as (j & u & Hj & Hh).
      pose proof (i_pend _ HI _ _ Hj) as Hp. apply holds_inv in Hh.
      destruct Hh as (d0 & n0 & td0 & ->). cbn in Hp.
      destruct Hp as (_ & Hp & _). apply Hp; reflexivity. }
  { exact (i_ok _ HI). }
  constructor; cbn [sh thr tr].
  - eapply thr_upd_forall; eauto. intros j u _ Hj. eapply (i_wf _ HI); eauto.
  - eapply thr_upd_forall; eauto. intros j u _ Hj. eapply (i_ver _ HI); eauto.
  - exact (i_sent _ HI).
  - exact (i_cl0 _ HI).
  - exact (i_open _ HI).
  - exact (i_fresh _ HI).
  - eapply thr_upd_forall; eauto. intros j u _ Hj. eapply (i_pend _ HI); eauto.
  - eapply uniq_upd; [exact Hnth | exact (i_uniq _ HI) | intros x Hx; left; apply Hholds; auto].
  - exact Hlb'.
  - rewrite sum_deltas_item, (sumf_upd _ _ _ _ _ _ Hnth), (i_sum _ HI). lia.
  - intros i u Hi Hu. rewrite (nth_error_upd _ _ _ _ _ _ Hnth) in Hi.
    destruct (Nat.eqb_spec tid i) as [<-|Hne].
    + inversion Hi; subst u. destruct (Hin Hu) as [H1|H1].
      * apply infl_keep; [eapply (i_infl _ HI); eauto|]. intro; contradiction.
      * apply infl_new; auto.
    + apply infl_keep; [eapply (i_infl _ HI); eauto|]. intro; contradiction.
  - intros w x Hw Hc Hp. eapply Hm1; eauto.
  - exact Hm2.
  - intros x Hx. apply handed_item in Hx. destruct Hx as [->|Hx].
    + left. apply Hwait. reflexivity.
    + destruct (i_hand _ HI _ Hx) as [H1|[H1|H1]]; auto. right; left. apply Hpen; auto.
Qed.

(* ------------------------------------------------------------------ stutter of a non-thread *)
Lemma Inv_stutter : forall cf tid st,
  Inv cf -> Inv (Config (sh cf) (thr cf) (Item tid EStutter (wg_observe (sh cf)) st :: tr cf)).
Proof.
  intros cf tid st HI.
  destruct (mon_preserved (tr cf) (Item tid EStutter (wg_observe (sh cf)) st)
              (fun x => In x (closed (sh cf)) \/ pending (thr cf) x)
              (fun x => In x (closed (sh cf)) \/ pending (thr cf) x)) as [Hm1 Hm2].
  { intros w x Hw Hc Hp. eapply (i_mon _ HI); eauto. }
  { intros x Hx. left; auto. }
  { intros x Hx. left. exact Hx. }
  { cbn. intros x Hx. discriminate Hx. }
  { exact (i_ok _ HI). }
  constructor; cbn [sh thr tr].
  - exact (i_wf _ HI).
  - exact (i_ver _ HI).
  - exact (i_sent _ HI).
  - exact (i_cl0 _ HI).
  - exact (i_open _ HI).
  - exact (i_fresh _ HI).
  - exact (i_pend _ HI).
  - exact (i_uniq _ HI).
  - rewrite lb_of_item. cbn [lb_delta]. rewrite (i_lb _ HI). lia.
  - rewrite sum_deltas_item. cbn [add_delta]. rewrite (i_sum _ HI). lia.
  - intros i u Hi Hu. apply infl_keep; [eapply (i_infl _ HI); eauto|]. intros [].
  - intros w x Hw Hc Hp. eapply Hm1; eauto.
  - exact Hm2.
  - intros x Hx. apply handed_item in Hx. destruct Hx as [Hx|Hx]; [discriminate Hx|].
    apply (i_hand _ HI); auto.
Qed.

(* ------------------------------------------------------------------ K3: close *)
Lemma Inv_K3 : forall cf tid d x n todo st,
  Inv cf -> nth_error (thr cf) tid = Some (Run (CAdd d) (A2 x n) todo) ->
  Inv (Config (Shared (ver (sh cf)) (cnt (sh cf)) (chn (sh cf)) (x :: closed (sh cf)) (nextc (sh cf)))
              (upd (thr cf) tid (Idle todo))
              (Item tid (ERet (CAdd d) (RInt n)) (cnt (sh cf), x :: closed (sh cf)) st :: tr cf)).
Proof.
  intros cf tid d x n todo st HI Hnth.
  set (t := Run (CAdd d) (A2 x n) todo) in *. set (t' := @Idle loc call todo).
  pose proof (i_pend _ HI _ _ Hnth) as Hp. cbn in Hp. destruct Hp as (Hx0 & Hxc & Hxcl & Hxn).
  assert (Hpen : forall y, pending (upd (thr cf) tid t') y -> pending (thr cf) y).
  { intros y H. destruct (pending_upd_inv _ _ _ _ _ Hnth H) as [H1|H1]; auto. destruct H1. }
  set (it := Item tid (ERet (CAdd d) (RInt n)) (cnt (sh cf), x :: closed (sh cf)) st).
  destruct (mon_preserved (tr cf) it
              (fun y => In y (closed (sh cf)) \/ pending (thr cf) y)
              (fun y => In y (x :: closed (sh cf)) \/ pending (upd (thr cf) tid t') y)) as [Hm1 Hm2].
  { intros w y Hw Hc Hy. eapply (i_mon _ HI); eauto. }
  { intros y [[<-|Hy]|Hy]; left.
    - right. exists tid, t. split; auto. reflexivity.
    - left; auto.
    - right; auto. }
  { intros y Hy. left. exact Hy. }
  { cbn. intros y Hy. discriminate Hy. }
  { exact (i_ok _ HI). }
  constructor; cbn [sh thr tr ver cnt chn closed nextc].
  - eapply thr_upd_forall; eauto. { intros j u _ Hj. eapply (i_wf _ HI); eauto. } exact I.
  - eapply thr_upd_forall; eauto. { intros j u _ Hj. apply (i_ver _ HI _ _ Hj). } exact I.
  - exact (i_sent _ HI).
  - right. exact (i_cl0 _ HI).
  - intros Hn [E|Hin]; [congruence|]. apply (i_open _ HI Hn Hin).
  - destruct (i_fresh _ HI) as [F1 F2]. split; auto. intros y [<-|Hy]; auto.
  - eapply thr_upd_forall; eauto; [|exact I].
    intros j u Hne Hj. pose proof (i_pend _ HI _ _ Hj) as Hpj.
    destruct u as [td|c l td]; auto. destruct c; auto. destruct l; auto.
    cbn in Hpj |- *. destruct Hpj as (A & B & C & D). repeat split; auto.
    intros [E|Hin]; [|auto]. subst x0.
    apply Hne. eapply (i_uniq _ HI _ _ _ _ x Hj Hnth); reflexivity.
  - eapply uniq_upd; [exact Hnth | exact (i_uniq _ HI) | intros y []].
  - unfold it. rewrite lb_of_item. rewrite (sumf_upd _ _ _ _ _ _ Hnth). rewrite (i_lb _ HI).
    cbn [lb_delta contrib t t']. destruct (0 <? d); lia.
  - unfold it. rewrite sum_deltas_item. rewrite (sumf_upd _ _ _ _ _ _ Hnth). rewrite (i_sum _ HI).
    cbn [add_delta unlin t t']. lia.
  - intros i u Hi Hu. rewrite (nth_error_upd _ _ _ _ _ _ Hnth) in Hi.
    destruct (Nat.eqb_spec tid i) as [<-|Hne].
    + inversion Hi; subst u. destruct Hu.
    + apply infl_keep; [eapply (i_infl _ HI); eauto|]. intros _. congruence.
  - intros w y Hw Hc Hy. eapply Hm1; eauto.
  - exact Hm2.
  - intros y Hy. apply handed_item in Hy. destruct Hy as [Hy|Hy]; [discriminate Hy|].
    destruct (i_hand _ HI _ Hy) as [H1|[H1|H1]]; auto.
    + destruct (pending_upd_keep _ _ t' _ _ Hnth H1) as [H2|H2]; auto.
      cbn in H2. subst y. right; right; left; auto.
    + right; right; right; auto.
Qed.

(* ------------------------------------------------------------------ K2: successful CAS *)
Lemma not_pending_installed : forall cf, Inv cf -> ~ pending (thr cf) (chn (sh cf)).
Proof.
  intros cf HI (j & u & Hj & Hh). pose proof (i_pend _ HI _ _ Hj) as Hp.
  apply holds_inv in Hh. destruct Hh as (d0 & n0 & td0 & ->). cbn in Hp.
  destruct Hp as (_ & Hp & _). apply Hp; reflexivity.
Qed.

Lemma Inv_K2 : forall cf tid d todo chn' nextc' t' e st,
  Inv cf ->
  nth_error (thr cf) tid
    = Some (Run (CAdd d) (A1 (ver (sh cf)) (cnt (sh cf)) (chn (sh cf))) todo) ->
  ((cnt (sh cf) + d = 0 /\ chn' = 0%nat /\ nextc' = nextc (sh cf)) \/
   (cnt (sh cf) + d <> 0 /\ chn (sh cf) = 0%nat /\ chn' = nextc (sh cf) /\ nextc' = S (nextc (sh cf))) \/
   (cnt (sh cf) + d <> 0 /\ chn (sh cf) <> 0%nat /\ chn' = chn (sh cf) /\ nextc' = nextc (sh cf))) ->
  ((cnt (sh cf) + d = 0 /\ chn (sh cf) <> 0%nat /\
    t' = Run (CAdd d) (A2 (chn (sh cf)) (cnt (sh cf) + d)) todo /\ e = ETau) \/
   ((cnt (sh cf) + d <> 0 \/ chn (sh cf) = 0%nat) /\
    t' = Idle todo /\ e = ERet (CAdd d) (RInt (cnt (sh cf) + d)))) ->
  Inv (Config (Shared (S (ver (sh cf))) (cnt (sh cf) + d) chn' (closed (sh cf)) nextc')
              (upd (thr cf) tid t')
              (Item tid e (cnt (sh cf) + d, closed (sh cf)) st :: tr cf)).
Proof.
  intros cf tid d todo chn' nextc' t' e st HI Hnth Hch Hte.
  set (s := sh cf) in *. set (n := cnt s + d) in *.
  set (t := Run (CAdd d) (A1 (ver s) (cnt s) (chn s)) todo) in *.
  destruct (i_fresh _ HI) as [F1 F2]. fold s in F1, F2.
  assert (Hnc : (nextc s <= nextc')%nat) by (destruct Hch as [(_&_&->)|[(_&_&_&->)|(_&_&_&->)]]; lia).
  assert (Hh' : forall x, holds t' x -> x = chn s /\ n = 0 /\ chn s <> 0%nat).
  { intros x Hx. destruct Hte as [(A & B & -> & _)|(_ & -> & _)]; cbn in Hx; [|destruct Hx].
    subst x. auto. }
  assert (Hpen1 : forall x, pending (upd (thr cf) tid t') x ->
                            (x = chn s /\ n = 0 /\ chn s <> 0%nat) \/ pending (thr cf) x).
  { intros x H. destruct (pending_upd_inv _ _ _ _ _ Hnth H) as [H1|H1]; auto. }
  assert (Hpen2 : forall x, pending (thr cf) x -> pending (upd (thr cf) tid t') x).
  { intros x H. destruct (pending_upd_keep _ _ t' _ _ Hnth H) as [H1|H1]; auto. destruct H1. }
  set (it := Item tid e (n, closed s) st).
  assert (Hlb' : n = lb_of (it :: tr cf) + sumf contrib (upd (thr cf) tid t')).
  { unfold it. rewrite lb_of_item, (sumf_upd _ _ _ _ _ _ Hnth). pose proof (i_lb _ HI) as L.
    fold s in L. unfold n. rewrite L.
    destruct Hte as [(A & B & -> & ->)|(_ & -> & ->)]; cbn [lb_delta contrib t];
      destruct (Z.ltb_spec d 0); destruct (Z.ltb_spec 0 d); lia. }
  destruct (mon_preserved (tr cf) it
              (fun y => In y (closed s) \/ pending (thr cf) y)
              (fun y => In y (closed s) \/ pending (upd (thr cf) tid t') y)) as [Hm1 Hm2].
  { intros w y Hw Hc Hy. eapply (i_mon _ HI); eauto. }
  { intros y [Hy|Hy]; [left; left; auto|].
    destruct (Hpen1 _ Hy) as [(_ & Hn0 & _)|Hy']; [right|left; right; auto].
    pose proof (sumf_nonneg _ contrib contrib_nonneg (upd (thr cf) tid t')).
    unfold it in Hlb' |- *. rewrite lb_of_item in Hlb' |- *. lia. }
  { intros y Hy. left. exact Hy. }
  { unfold it. cbn [it_ev]. intros y Hy.
    destruct Hte as [(_ & _ & _ & ->)|(_ & _ & ->)]; discriminate Hy. }
  { exact (i_ok _ HI). }
  constructor; cbn [sh thr tr ver cnt chn closed nextc].
  - (* wf *)
    eapply thr_upd_forall; eauto. { intros j u _ Hj. eapply (i_wf _ HI); eauto. }
    destruct Hte as [(_ & _ & -> & _)|(_ & -> & _)]; exact I.
  - (* ver *)
    eapply thr_upd_forall; eauto.
    + intros j u _ Hj. pose proof (i_ver _ HI _ _ Hj) as V. fold s in V.
      destruct u as [td|c l td]; auto. destruct c; auto. destruct l; auto.
      cbn in V |- *. destruct V as [V1 V2]. split; [lia|]. intro E. lia.
    + destruct Hte as [(_ & _ & -> & _)|(_ & -> & _)]; exact I.
  - (* sent *)
    pose proof (i_sent _ HI) as S0. fold s in S0.
    destruct Hch as [(A & -> & _)|[(A & B & -> & _)|(A & B & -> & _)]]; split; intro H;
      try reflexivity; try assumption; try lia; try contradiction.
  - exact (i_cl0 _ HI).
  - (* open *)
    intros Hn Hin. destruct Hch as [(A & -> & _)|[(A & B & -> & _)|(A & B & -> & _)]].
    + apply Hn; reflexivity.
    + apply F2 in Hin. lia.
    + apply (i_open _ HI B Hin).
  - (* fresh *)
    split.
    + destruct Hch as [(A & -> & ->)|[(A & B & -> & ->)|(A & B & -> & ->)]]; lia.
    + intros y Hy. apply F2 in Hy. lia.
  - (* pend *)
    eapply thr_upd_forall; eauto.
    + intros j u _ Hj. pose proof (i_pend _ HI _ _ Hj) as Pj. fold s in Pj.
      destruct u as [td|c l td]; auto. destruct c; auto. destruct l; auto.
      cbn in Pj |- *. destruct Pj as (A & B & C & D). repeat split; auto; try lia.
    + destruct Hte as [(A & B & -> & _)|(_ & -> & _)]; [|exact I].
      cbn. repeat split; auto; try lia.
      apply (i_open _ HI B).
  - (* uniq *)
    eapply uniq_upd; [exact Hnth | exact (i_uniq _ HI) |].
    intros x Hx. right. destruct (Hh' _ Hx) as (-> & _). apply not_pending_installed; auto.
  - exact Hlb'.
  - (* sum *)
    unfold it. rewrite sum_deltas_item, (sumf_upd _ _ _ _ _ _ Hnth).
    pose proof (i_sum _ HI) as S0. fold s in S0. unfold n. rewrite S0.
    destruct Hte as [(_ & _ & -> & ->)|(_ & -> & ->)]; cbn [add_delta unlin t]; lia.
  - (* infl *)
    intros i u Hi Hu. rewrite (nth_error_upd _ _ _ _ _ _ Hnth) in Hi.
    destruct (Nat.eqb_spec tid i) as [<-|Hne].
    + inversion Hi; subst u. destruct Hte as [(_ & _ & _ & ->)|(_ & -> & _)]; [|destruct Hu].
      apply infl_keep; [eapply (i_infl _ HI); eauto; exact I|]. intros [].
    + apply infl_keep; [eapply (i_infl _ HI); eauto|]. intros _. congruence.
  - intros w y Hw Hc Hy. eapply Hm1; eauto.
  - exact Hm2.
  - (* hand *)
    intros y Hy. apply handed_item in Hy. destruct Hy as [Hy|Hy].
    { destruct Hte as [(_ & _ & _ & ->)|(_ & _ & ->)]; discriminate Hy. }
    destruct (i_hand _ HI _ Hy) as [H1|[H1|H1]]; auto. fold s in H1. subst y.
    destruct Hch as [(A & -> & _)|[(A & B & -> & _)|(A & B & -> & _)]].
    + destruct (Nat.eq_dec (chn s) 0) as [E0|N0]; [left; auto|].
      right; left. destruct Hte as [(_ & _ & -> & _)|([C|C] & _)]; try contradiction.
      eapply pending_upd_new; eauto. reflexivity.
    + right; right. rewrite B. exact (i_cl0 _ HI).
    + left; reflexivity.
Qed.

(* ------------------------------------------------------------------ every step *)
Ltac k1_side :=
  try exact I; try tauto; try reflexivity; try (cbn; lia);
  try (intros []; fail); try (intros ? Hx; discriminate Hx).

Theorem Inv_step : forall cf tid, Inv cf -> Inv (wg_step cf tid).
Proof.
  intros cf tid HI. unfold wg_step, step.
  destruct (nth_error (thr cf) tid) as [t|] eqn:Hnth; [|apply Inv_stutter; exact HI].
  pose proof (i_wf _ HI _ _ Hnth) as Hwf.
  destruct t as [[|c todo]|c l todo].
  - (* finished thread: stutter *)
    cbn. eapply Inv_K1; eauto; k1_side.
  - (* call *)
    cbn. eapply Inv_K1; eauto; k1_side.
    + destruct c; exact I.
    + destruct c; exact I.
    + destruct c; exact I.
    + intros x. destruct c; cbn; tauto.
    + destruct c as [d| |]; cbn; try lia. destruct (Z.ltb_spec d 0); lia.
    + destruct c as [d| |]; cbn; lia.
  - destruct c as [d| |]; destruct l as [|ov oc och|x n| |]; try destruct Hwf.
    + (* Add: load *)
      cbn. eapply Inv_K1; eauto; k1_side.
    + (* Add: compare-and-swap *)
      pose proof (i_ver _ HI _ _ Hnth) as V. cbn in V. destruct V as [V1 V2].
      cbn [tstep wg_mstep]. destruct (Nat.eqb_spec (ver (sh cf)) ov) as [Ev|Ev].
      * symmetry in Ev. destruct (V2 Ev) as [-> ->]. subst ov.
        destruct (Z.eqb_spec (cnt (sh cf) + d) 0) as [En|En].
        -- destruct (Nat.eqb_spec (chn (sh cf)) 0) as [Ec|Ec]; cbn.
           ++ eapply Inv_K2; eauto 8.
           ++ eapply Inv_K2; eauto 8.
        -- destruct (Nat.eqb_spec (chn (sh cf)) 0) as [Ec|Ec]; cbn.
           ++ eapply Inv_K2; eauto 8.
           ++ eapply Inv_K2; eauto 8.
      * cbn. eapply Inv_K1; eauto; k1_side.
    + (* Add: close *)
      pose proof (i_pend _ HI _ _ Hnth) as P. cbn in P. destruct P as (_ & _ & Pc & _).
      cbn [tstep wg_mstep]. destruct (memb x (closed (sh cf))) eqn:M.
      * apply memb_In in M. contradiction.
      * cbn. apply Inv_K3; auto.
    + (* Wait *)
      cbn. eapply Inv_K1; eauto; k1_side.
      intros x Hx. inversion Hx. reflexivity.
    + (* Count *)
      cbn. eapply Inv_K1; eauto; k1_side.
Qed.

Theorem Inv_exec : forall progs sched, Inv (wg_exec progs sched).
Proof.
  intros progs sched. unfold wg_exec.
  apply (exec_invariant _ _ _ _ _ wg_begin wg_mstep wg_fatal wg_observe wg_site Inv).
  - apply Inv_init.
  - intros cf t H. apply Inv_step. exact H.
Qed.

Theorem Inv_run : forall cf sched, Inv cf -> Inv (wg_run cf sched).
Proof.
  intros cf sched H. unfold wg_run.
  apply (run_invariant _ _ _ _ _ wg_begin wg_mstep wg_fatal wg_observe wg_site Inv); auto.
  intros cf' t H'. apply Inv_step. exact H'.
Qed.
