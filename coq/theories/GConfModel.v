(* GConfModel.v — executable mirror of the dimension resolution and the key lookup of
   /repo/gconfig (builder.go, config.go).  No proofs here.

   A YAML document unmarshalled into map[string]any is a [tree]: string scalars, other
   scalars (canonical text "i:42", "f:2.5", "b:true"), null, lists, string-keyed maps.  A Go
   map is an association list; the list order stands for the iteration order of `range`.

   Go source (current tree, after fix C03-structural-reduce)      model
   ---------------------------------------------------------      -----------------------------
   dimension{defaultVal.ParseGeneric, get()}                      dim {d_parse; d_sel}
   keySet(in)  (non-default keys, hasDefault)                      nondefault_keys / lookup default
   switchDimension(in, dims)  first dimension parsing every key    switch_dimension / classify
   reduceAny(in, dims)                                             reduce
       map, switch  : range for the key parsing to the selected    (nested fix scan)
                      value, else in["default"], else error        (nested fix dflt)
       map, plain   : every child replaced by its reduction        (nested fix each)
       []any        : every element replaced by its reduction
   FromBytes: reduceAny then "unexpected non-map result"           load_model
   dimension.initFlag + lookupEnv                                  select_dim / lookup_env
   the flag registered by initFlag, once set                       apply_flag
   GetDimension                                                    d_sel
   strings.Split(key, ".") ; extract(m, keys)                      split_dots ; extract
   Get[any] / Get[string] (yaml re-marshal: trusted identity)      get_model / get_str_model

   The pinned code (before the fix) is kept as reduce_any_orig / reduce_orig /
   load_orig: the mutually recursive in-place rewrite with the loop over dimension indices
   (recursion on explicit fuel; [OOut] = out of fuel).

   Specification (the object property C03 speaks about): resolve_spec, subtree_at.        *)
From Coq Require Import List String Ascii Bool Arith.
Import ListNotations.
Local Open Scope string_scope.

Inductive tree :=
| Str (s : string)
| Atom (s : string)
| Null
| Lst (l : list tree)
| Mp (kv : list (string * tree)).

Inductive res (A : Type) := Ok (a : A) | Err.
Arguments Ok {A} a.
Arguments Err {A}.

Definition default_key : string := "default".

(* a registered dimension: the generated enum's ParseGeneric (value = index of the constant)
   and the value the dimension currently has *)
Record dim := { d_parse : string -> option nat; d_sel : nat }.

Fixpoint assoc {A} (k : string) (l : list (string * A)) : option A :=
  match l with
  | [] => None
  | (k', v) :: rest => if String.eqb k k' then Some v else assoc k rest
  end.

(* dimensions of the correspondence cases: parse = table recorded from the real ParseGeneric *)
Definition mk_dim (table : list (string * nat)) (sel : nat) : dim :=
  {| d_parse := fun k => assoc k table; d_sel := sel |}.

Definition parses (d : dim) (k : string) : bool :=
  match d_parse d k with Some _ => true | None => false end.

Definition is_sel (d : dim) (k : string) : bool :=
  match d_parse d k with Some v => Nat.eqb v (d_sel d) | None => false end.

Definition is_default (k : string) : bool := String.eqb k default_key.

(* keySet: the keys other than `default` *)
Definition nondefault_keys {A} (kv : list (string * A)) : list string :=
  filter (fun k => negb (is_default k)) (map fst kv).

(* switchDimension: first registered dimension under which every candidate key parses *)
Fixpoint switch_dimension (dims : list dim) (keys : list string) : option dim :=
  match dims with
  | [] => None
  | d :: rest => if forallb (parses d) keys then Some d else switch_dimension rest keys
  end.

(* `if len(in) == 0 { return nil, false }` then the loop over the dimensions *)
Definition classify {A} (dims : list dim) (kv : list (string * A)) : option dim :=
  match kv with
  | [] => None
  | _ => switch_dimension dims (nondefault_keys kv)
  end.

(* ---------------------------------------------------------------- reduceAny (repaired code) *)
Fixpoint reduce (dims : list dim) (t : tree) {struct t} : res tree :=
  match t with
  | Mp kv =>
      match classify dims kv with
      | Some d =>
          match (fix scan (l : list (string * tree)) : option (res tree) :=
                   match l with
                   | [] => None
                   | (k, c) :: rest =>
                       if negb (is_default k) && is_sel d k then Some (reduce dims c)
                       else scan rest
                   end) kv with
          | Some r => r
          | None =>
              match (fix dflt (l : list (string * tree)) : option (res tree) :=
                       match l with
                       | [] => None
                       | (k, c) :: rest =>
                           if is_default k then Some (reduce dims c) else dflt rest
                       end) kv with
              | Some r => r
              | None => Err
              end
          end
      | None =>
          match (fix each (l : list (string * tree)) : res (list (string * tree)) :=
                   match l with
                   | [] => Ok []
                   | (k, c) :: rest =>
                       match reduce dims c with
                       | Err => Err
                       | Ok c' => match each rest with Err => Err | Ok r => Ok ((k, c') :: r) end
                       end
                   end) kv with
          | Ok kv' => Ok (Mp kv')
          | Err => Err
          end
      end
  | Lst l =>
      match (fix each (l : list tree) : res (list tree) :=
               match l with
               | [] => Ok []
               | c :: rest =>
                   match reduce dims c with
                   | Err => Err
                   | Ok c' => match each rest with Err => Err | Ok r => Ok (c' :: r) end
                   end
               end) l with
      | Ok l' => Ok (Lst l')
      | Err => Err
      end
  | _ => Ok t
  end.

(* FromBytes up to the template pass: the document must be a map and so must its reduction *)
Definition load_model (dims : list dim) (doc : tree) : res (list (string * tree)) :=
  match doc with
  | Mp _ => match reduce dims doc with Ok (Mp kv) => Ok kv | _ => Err end
  | _ => Err
  end.

(* ---------------------------------------------------------------- dimension values *)
Definition upper_ascii (c : ascii) : ascii :=
  let n := nat_of_ascii c in if Nat.leb 97 n && Nat.leb n 122 then ascii_of_nat (n - 32) else c.
Definition lower_ascii (c : ascii) : ascii :=
  let n := nat_of_ascii c in if Nat.leb 65 n && Nat.leb n 90 then ascii_of_nat (n + 32) else c.
Fixpoint map_string (f : ascii -> ascii) (s : string) : string :=
  match s with EmptyString => EmptyString | String c r => String (f c) (map_string f r) end.

(* lookupEnv: exact, then upper-case, then lower-case variable name (ASCII names) *)
Definition lookup_env (env : list (string * string)) (key : string) : option string :=
  match assoc key env with
  | Some s => Some s
  | None =>
      match assoc (map_string upper_ascii key) env with
      | Some s => Some s
      | None => assoc (map_string lower_ascii key) env
      end
  end.

(* initFlag: the builder default unless the environment names a value; unparsable = error *)
Definition select_dim (parse : string -> option nat) (dflt : nat)
           (env : list (string * string)) (flag_name : string) : res nat :=
  match lookup_env env flag_name with
  | None => Ok dflt
  | Some s => match parse s with Some v => Ok v | None => Err end
  end.

(* flag.Func(name, ..., func(s) { d.parsed, err = ParseGeneric(s); return err }): a later
   flag.Set / flag.Parse overrides what initFlag chose; an unparsable value leaves the zero
   value of the enum behind (and an error for the flag package) *)
Definition apply_flag (parse : string -> option nat) (flag_value : option string) (v : nat) : nat :=
  match flag_value with
  | None => v
  | Some s => match parse s with Some v' => v' | None => 0 end
  end.

(* ---------------------------------------------------------------- Get *)
Fixpoint split_from (acc : string -> string) (s : string) : list string :=
  match s with
  | EmptyString => [acc EmptyString]
  | String c r =>
      if Ascii.eqb c "."%char then acc EmptyString :: split_from (fun x => x) r
      else split_from (fun x => acc (String c x)) r
  end.
(* strings.Split(key, ".") *)
Definition split_dots (s : string) : list string := split_from (fun x => x) s.

(* extract(m, keys) *)
Fixpoint extract (m : list (string * tree)) (keys : list string) : option tree :=
  match keys with
  | [] => None
  | k :: rest =>
      match assoc k m with
      | None => None
      | Some last =>
          match rest with
          | [] => Some last
          | _ => match last with Mp m' => extract m' rest | _ => None end
          end
      end
  end.

(* Get[any](cfg, key): None = the error "key not found" *)
Definition get_model (cfg : list (string * tree)) (key : string) : option tree :=
  extract cfg (split_dots key).

(* ================================================================ specification *)
Definition lift {A B} (f : A -> B) (r : res A) : res B :=
  match r with Ok a => Ok (f a) | Err => Err end.

Fixpoint seq_list {A} (l : list (res A)) : res (list A) :=
  match l with
  | [] => Ok []
  | Err :: _ => Err
  | Ok a :: rest => match seq_list rest with Ok r => Ok (a :: r) | Err => Err end
  end.

Fixpoint seq_kv {A} (l : list (string * res A)) : res (list (string * A)) :=
  match l with
  | [] => Ok []
  | (_, Err) :: _ => Err
  | (k, Ok a) :: rest => match seq_kv rest with Ok r => Ok ((k, a) :: r) | Err => Err end
  end.

(* a map is a switch of dimension d when its keys other than `default` are a non-empty set
   of strings all parsing under d, d being the first such dimension in registration order *)
Definition spec_switch {A} (dims : list dim) (kv : list (string * A)) : option dim :=
  match nondefault_keys kv with
  | [] => None
  | keys => find (fun d => forallb (parses d) keys) dims
  end.

(* the entry of a switch that is active: the one whose key parses to the selected value,
   else the `default` entry *)
Definition active_entry {A} (d : dim) (kv : list (string * A)) : option A :=
  match find (fun p => negb (is_default (fst p)) && is_sel d (fst p)) kv with
  | Some p => Some (snd p)
  | None => match find (fun p => is_default (fst p)) kv with
            | Some p => Some (snd p)
            | None => None
            end
  end.

Fixpoint resolve_spec (dims : list dim) (t : tree) {struct t} : res tree :=
  match t with
  | Mp kv =>
      let kv' := map (fun p => (fst p, resolve_spec dims (snd p))) kv in
      match spec_switch dims kv with
      | Some d => match active_entry d kv' with Some r => r | None => Err end
      | None => lift Mp (seq_kv kv')
      end
  | Lst l => lift Lst (seq_list (map (resolve_spec dims) l))
  | _ => Ok t
  end.

Definition load_spec (dims : list dim) (doc : tree) : res (list (string * tree)) :=
  match doc with
  | Mp _ => match resolve_spec dims doc with Ok (Mp kv) => Ok kv | _ => Err end
  | _ => Err
  end.

(* the value at a path of a tree *)
Fixpoint subtree_at (t : tree) (path : list string) : option tree :=
  match path with
  | [] => Some t
  | k :: rest =>
      match t with
      | Mp kv => match assoc k kv with Some c => subtree_at c rest | None => None end
      | _ => None
      end
  end.

Definition get_spec (cfg : list (string * tree)) (key : string) : option tree :=
  match split_dots key with
  | [] => None
  | path => subtree_at (Mp cfg) path
  end.

(* ================================================================ the pinned code (pre-fix)

   func reduceAny(in, dimensions, dIndex):                     reduce_any_orig fuel dims dIndex t
     map:  for i := dIndex; i < len(dimensions); i++ {         (fix loop n i kv), n = len - dIndex
             r, err := reduce(v, dimensions, i)
             if err != nil || !DeepEqual(r, v) { return r, err } }
     list: v[i], err = reduceAny(el, dimensions, dIndex)
   func reduce(in, dimensions, dIndex):                        (inlined in the loop body)
     keys parsing under dimensions[dIndex] are removed from the key set, the one parsing to
     the selected value is remembered (foundDimKey, "" when none);
     keys left  -> every child reduceAny(v, dimensions, dIndex) in place, return in
     in[foundDimKey] present -> reduceAny(that, dimensions, dIndex+1)
     `default` present       -> reduceAny(in["default"], dimensions, dIndex+1)
     else error.                                                                          *)
Inductive ores := OOk (t : tree) | OErr | OOut.

Fixpoint tree_eqb (a b : tree) {struct a} : bool :=
  match a, b with
  | Str x, Str y => String.eqb x y
  | Atom x, Atom y => String.eqb x y
  | Null, Null => true
  | Lst l, Lst l' =>
      (fix go (l : list tree) (l' : list tree) : bool :=
         match l, l' with
         | [], [] => true
         | x :: r, y :: r' => tree_eqb x y && go r r'
         | _, _ => false
         end) l l'
  | Mp kv, Mp kv' =>
      (fix go (l : list (string * tree)) (l' : list (string * tree)) : bool :=
         match l, l' with
         | [], [] => true
         | (k, x) :: r, (k', y) :: r' => String.eqb k k' && tree_eqb x y && go r r'
         | _, _ => false
         end) kv kv'
  | _, _ => false
  end.

(* last key (in iteration order) parsing to the selected value; "" when there is none *)
Definition found_dim_key (d : dim) (keys : list string) : string :=
  fold_left (fun acc k => if is_sel d k then k else acc) keys EmptyString.

Fixpoint reduce_any_orig (fuel : nat) (dims : list dim) (dIndex : nat) (t : tree) : ores :=
  match fuel with
  | 0 => OOut
  | S f =>
      match t with
      | Mp kv0 =>
          (fix loop (n : nat) (i : nat) (kv : list (string * tree)) : ores :=
             match n with
             | 0 => OOk (Mp kv)
             | S n' =>
                 match nth_error dims i with
                 | None => OOk (Mp kv)
                 | Some d =>
                     let keys := nondefault_keys kv in
                     if negb (forallb (parses d) keys) then
                       (* not reducible with this dimension: children in place, try the next *)
                       match (fix each (l : list (string * tree)) : option (option (list (string * tree))) :=
                                match l with
                                | [] => Some (Some [])
                                | (k, c) :: rest =>
                                    match reduce_any_orig f dims i c with
                                    | OOut => None
                                    | OErr => Some None
                                    | OOk c' =>
                                        match each rest with
                                        | None => None
                                        | Some None => Some None
                                        | Some (Some r) => Some (Some ((k, c') :: r))
                                        end
                                    end
                                end) kv with
                       | None => OOut
                       | Some None => OErr
                       | Some (Some kv') => loop n' (S i) kv'
                       end
                     else
                       let followed :=
                         match assoc (found_dim_key d keys) kv with
                         | Some c => reduce_any_orig f dims (S i) c
                         | None =>
                             match assoc default_key kv with
                             | Some c => reduce_any_orig f dims (S i) c
                             | None => OErr
                             end
                         end in
                       match followed with
                       | OOk r => if tree_eqb r (Mp kv) then loop n' (S i) kv else OOk r
                       | other => other
                       end
                 end
             end) (List.length dims - dIndex) dIndex kv0
      | Lst l =>
          match (fix each (l : list tree) : option (option (list tree)) :=
                   match l with
                   | [] => Some (Some [])
                   | c :: rest =>
                       match reduce_any_orig f dims dIndex c with
                       | OOut => None
                       | OErr => Some None
                       | OOk c' =>
                           match each rest with
                           | None => None
                           | Some None => Some None
                           | Some (Some r) => Some (Some (c' :: r))
                           end
                       end
                   end) l with
          | None => OOut
          | Some None => OErr
          | Some (Some l') => OOk (Lst l')
          end
      | _ => OOk t
      end
  end.

Fixpoint tree_size (t : tree) : nat :=
  match t with
  | Lst l => S (fold_right (fun c n => tree_size c + n) 0 l)
  | Mp kv => S (fold_right (fun p n => tree_size (snd p) + n) 0 kv)
  | _ => 1
  end.

(* FromBytes of the pinned code; None = out of fuel (never happens with fuel = size + 1) *)
Definition load_orig (dims : list dim) (doc : tree) : option (res (list (string * tree))) :=
  match doc with
  | Mp _ =>
      match reduce_any_orig (S (tree_size doc)) dims 0 doc with
      | OOk (Mp kv) => Some (Ok kv)
      | OOk _ => Some Err
      | OErr => Some Err
      | OOut => None
      end
  | _ => Some Err
  end.

(* ================================================================ well-formed documents
   (the quantifier of C03), as a decidable check; GConfProofs.v relates it to the inductive
   predicate WF.  [parent] = index of the dimension of the switch directly above, if any. *)
Fixpoint index_of_switch (dims : list dim) (keys : list string) (i : nat) : option nat :=
  match dims with
  | [] => None
  | d :: rest => if forallb (parses d) keys then Some i else index_of_switch rest keys (S i)
  end.

Fixpoint nodup_strings (l : list string) : bool :=
  match l with
  | [] => true
  | x :: r => negb (existsb (String.eqb x) r) && nodup_strings r
  end.

Fixpoint nodup_nats (l : list nat) : bool :=
  match l with
  | [] => true
  | x :: r => negb (existsb (Nat.eqb x) r) && nodup_nats r
  end.

Definition parsed_values (d : dim) (keys : list string) : list nat :=
  flat_map (fun k => match d_parse d k with Some v => [v] | None => [] end) keys.

Definition opt_nat_eqb (a : option nat) (b : nat) : bool :=
  match a with Some x => Nat.eqb x b | None => false end.

Fixpoint wfb (dims : list dim) (parent : option nat) (t : tree) {struct t} : bool :=
  match t with
  | Lst l => forallb (wfb dims None) l
  | Mp kv =>
      let allkeys := map fst kv in
      let keys := nondefault_keys kv in
      nodup_strings allkeys &&
      if forallb (fun k => negb (is_default k) && forallb (fun d => negb (parses d k)) dims) allkeys
      then (* plain map (possibly empty) *)
        forallb (fun p => wfb dims None (snd p)) kv
      else
        match keys with
        | [] => false
        | _ =>
            match index_of_switch dims keys 0 with
            | None => false
            | Some i =>
                negb (opt_nat_eqb parent i) &&
                match nth_error dims i with
                | Some d => nodup_nats (parsed_values d keys)
                | None => false
                end &&
                forallb (fun p => wfb dims (Some i) (snd p)) kv
            end
        end
  | _ => true
  end.
