(* ProtoPath.v — string-level models of the path/filepath and strings functions gogenproto uses
   (no proofs).  Unix only (separator '/').

   Go                                         →  here
   -----------------------------------------------------------------------------------------
   strings.Split(s, "/")                      →  [split_on "/"]
   strings.Cut(s, "=")                        →  [cut_eq] / [str_cut]
   strings.SplitN(s, "=", 2)                  →  [str_splitn2]
   strings.Contains / Index>=0 / HasSuffix    →  [str_contains] / [str_index] / [str_has_suffix]
   filepath.Clean                             →  [fp_clean]  ([clean_segs]: drop "" and ".", ".."
                                                 pops; kept in front of a relative path, dropped
                                                 at the root)
   filepath.Join(a, b)                        →  [fp_join]   (empty elements ignored, then Clean)
   filepath.Abs (working directory cwd)       →  [fp_abs]
   filepath.Rel(base, targ), both absolute    →  [fp_rel]
   filepath.Dir / filepath.Ext                →  [fp_dir] / [fp_ext]

   [norm] (= [clean_segs true]) is the segment form of Clean for rooted paths that the
   structured model ProtoModel.v uses for filepath.Abs.                                       *)
From Coq Require Import String List Bool Arith Ascii ZArith.
Import ListNotations.
Local Open Scope string_scope.
Local Open Scope list_scope.

Definition path := list string.

Inductive result (A : Type) : Type := Ok (a : A) | Err.
Arguments Ok {A} a.
Arguments Err {A}.

(* ------------------------------------------------------------------ strings *)
Fixpoint split_on (c : ascii) (s : string) : list string :=
  match s with
  | EmptyString => [EmptyString]
  | String a rest =>
      let r := split_on c rest in
      if Ascii.eqb a c then EmptyString :: r
      else match r with
           | h :: t => String a h :: t
           | [] => [String a EmptyString]
           end
  end.

(* strings.Cut(s, "="): None when there is no '=' *)
Fixpoint cut_eq (s : string) : option (string * string) :=
  match s with
  | EmptyString => None
  | String a r =>
      if Ascii.eqb a "=" then Some (EmptyString, r)
      else match cut_eq r with
           | Some (x, y) => Some (String a x, y)
           | None => None
           end
  end.

(* before, after, found — as Go returns them *)
Definition str_cut (s : string) : string * string * bool :=
  match cut_eq s with
  | Some (a, b) => (a, b, true)
  | None => (s, "", false)
  end.

(* strings.SplitN(s, "=", 2) *)
Definition str_splitn2 (s : string) : list string :=
  match cut_eq s with
  | Some (a, b) => [a; b]
  | None => [s]
  end.

Fixpoint str_contains (sub s : string) : bool :=
  prefix sub s || match s with
                  | EmptyString => false
                  | String _ r => str_contains sub r
                  end.

(* strings.Index: -1 when absent *)
Fixpoint str_index (sub s : string) : Z :=
  if prefix sub s then 0%Z
  else match s with
       | EmptyString => (-1)%Z
       | String _ r => match str_index sub r with
                       | Zneg _ => (-1)%Z
                       | k => (k + 1)%Z
                       end
       end.

Fixpoint str_has_suffix (suf s : string) : bool :=
  String.eqb suf s || match s with
                      | EmptyString => false
                      | String _ r => str_has_suffix suf r
                      end.

Definition is_abs_str (s : string) : bool :=
  match s with String "/" _ => true | _ => false end.

(* ------------------------------------------------------------------ Clean on segments *)
Definition join_slash (p : path) : string := String.concat "/" p.
Definition render_rel (p : path) : string :=
  match p with [] => "." | _ => join_slash p end.
Definition render_abs (p : path) : string := "/" ++ join_slash p.

Definition clean_step (rooted : bool) (acc : path) (s : string) : path :=
  if String.eqb s "" || String.eqb s "." then acc
  else if String.eqb s ".." then
    match rev acc with
    | [] => if rooted then acc else [".."]
    | l :: _ => if String.eqb l ".." then acc ++ [".."] else removelast acc
    end
  else acc ++ [s].
Definition clean_segs (rooted : bool) (p : path) : path := fold_left (clean_step rooted) p [].

(* the rooted form used by the structured model: filepath.Clean below "/" *)
Definition norm_step (acc : path) (s : string) : path :=
  if String.eqb s "" || String.eqb s "." then acc
  else if String.eqb s ".." then removelast acc
  else acc ++ [s].
Definition norm (p : path) : path := fold_left norm_step p [].

Definition fp_clean (s : string) : string :=
  if is_abs_str s then render_abs (clean_segs true (split_on "/" s))
  else render_rel (clean_segs false (split_on "/" s)).

(* filepath.Join of two elements *)
Definition fp_join (a b : string) : string :=
  if String.eqb a "" then (if String.eqb b "" then "" else fp_clean b)
  else if String.eqb b "" then fp_clean a
  else fp_clean (a ++ "/" ++ b).

(* filepath.Abs in working directory cwd (an absolute path) *)
Definition fp_abs (cwd s : string) : string :=
  if is_abs_str s then fp_clean s else fp_join cwd s.

(* the segments of an absolute, cleaned path *)
Definition abs_segs (s : string) : path := clean_segs true (split_on "/" s).

Fixpoint rel_segs (b t : path) : path :=
  match b, t with
  | [], _ => t
  | x :: b', y :: t' => if String.eqb x y then rel_segs b' t' else map (fun _ => "..") b ++ t
  | _ :: _, [] => map (fun _ => "..") b
  end.

(* filepath.Rel for two absolute paths (the only use in gogenproto); anything else: error *)
Definition fp_rel (base targ : string) : result string :=
  if is_abs_str base && is_abs_str targ
  then Ok (render_rel (rel_segs (abs_segs base) (abs_segs targ)))
  else Err.

(* filepath.Dir: everything up to the last separator, cleaned *)
Definition fp_dir (s : string) : string :=
  match removelast (split_on "/" s) with
  | [] => "."
  | d => fp_clean (join_slash d ++ "/")
  end.

(* filepath.Ext: from the last '.' of the last element; "" if there is none *)
Fixpoint ext_scan (s : string) : option string :=
  match s with
  | EmptyString => None
  | String c r =>
      match ext_scan r with
      | Some e => Some e
      | None => if Ascii.eqb c "." then Some s
                else if Ascii.eqb c "/" then Some ""
                else None
      end
  end.
Definition fp_ext (s : string) : string :=
  match ext_scan s with Some e => e | None => "" end.
