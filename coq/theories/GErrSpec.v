(* GErrSpec.v — the abstract objects property C15 speaks about (closed forms over a whole chain),
   executable so that observations of the real code are judged by the very definitions the
   theorems are about.  No proofs here.

   A chain of derivations is seen through the effective CloneBase arguments of each step
   ([eff], computed from the wiring table of the receiver's type and the step's arguments);
   the observable part of an error is its [view].                                              *)
From Coq Require Import NArith List Bool.
From GT Require Import Base.GErrStr.
From GT Require Import GErrModel.
Import ListNotations.

Record eff := mkE {
  e_stack : stack_type; e_dtag : str; e_src : str; e_msg : str; e_serr : val;
  e_site : N; e_derived : str }.

Definition eff_of (wt : method -> wiring) (s : step) : eff :=
  let w := wt (fst s) in let a := snd s in
  mkE (w_stack w) (eval_a a (w_dtag w)) (eval_a a (w_src w)) (eval_a a (w_msg w))
      (eval_e a (w_serr w)) (a_site a) (a_derived a).

(* wiring table used by a receiver: generated methods on *Ext, GError's own on *GError *)
Definition wt_of (xw : method -> wiring) (v : val) : method -> wiring :=
  match v with VX _ => xw | _ => base_wiring end.

Record view := mkV { v_name : str; v_msg : str; v_src : str; v_dtag : str; v_stack : option N }.
Definition view_of (g : gerr) : view := mkV (g_name g) (g_msg g) (g_src g) (g_dtag g) (g_stack g).

(* message: base message followed by each non-blank extension, trimmed, joined by one space *)
Definition spec_message (base : str) (effs : list eff) : str :=
  join sp (filter nonempty (base :: map (fun e => trim_space (e_msg e)) effs)).

(* detail tags joined by "-" *)
Definition spec_dtag (base : str) (effs : list eff) : str :=
  join dash (filter nonempty (base :: map e_dtag effs)).

(* what a step contributes to the source if none is set yet: its explicit source argument,
   else (unless the step takes no stack at all, i.e. Base) the source derived from its caller *)
Definition src_candidate (e : eff) : str :=
  if nonempty (e_src e) then e_src e
  else match e_stack e with NoStack => [] | _ => e_derived e end.

(* the first non-empty source wins *)
Definition spec_source (base : str) (effs : list eff) : str :=
  first_nonempty (base :: map src_candidate effs).

Definition takes_stack (t : stack_type) : bool :=
  match t with ShortStack | DefaultStack => true | _ => false end.

(* the stack is the factory's, else the one made by the first stack-taking step *)
Definition spec_stack (base : option N) (effs : list eff) : option N :=
  match base with
  | Some s => Some s
  | None => option_map e_site (find (fun e => takes_stack (e_stack e)) effs)
  end.

Definition spec_view (v0 : view) (effs : list eff) : view :=
  mkV (v_name v0) (spec_message (v_msg v0) effs) (spec_source (v_src v0) effs)
      (spec_dtag (v_dtag v0) effs) (spec_stack (v_stack v0) effs).

(* the code path seen on views: one CloneBase *)
Definition clone_view (v : view) (e : eff) : view :=
  view_of (clone_base (mkG (v_name v) (v_msg v) (v_src v) (v_dtag v) (v_stack v) VNil VNil [] false)
                      (VG 0) (VG 0) (e_stack e) (e_dtag e) (e_src e) (e_msg e) (e_serr e)
                      (e_site e) (e_derived e)).

(* hypotheses of the source law *)
Definition derived_ok (e : eff) : bool :=
  match e_stack e with NoStack => true | _ => nonempty (e_derived e) end.
Definition stack_has_source (v : view) : bool :=
  match v_stack v with Some _ => nonempty (v_src v) | None => true end.

(* Convert / ConvertS return their argument when it already is a gerror error; a chain whose
   steps never do that is a chain of derivations proper *)
Definition no_shortcut (s : step) : bool := negb (is_gerr_val (a_err (snd s))).

(* prefixes of a list, shortest first, excluding the empty one *)
Fixpoint prefixes {A} (l : list A) : list (list A) :=
  match l with
  | [] => []
  | x :: r => [x] :: map (cons x) (prefixes r)
  end.
