(* ProtoStrModel.v — hand-written model of gogenproto/gen/generate.go at the level of the Go code's
   own data: strings as typed on the command line, argument vectors as lists of strings (no
   proofs).  It sits between the two other descriptions of the code:

     ProtoGen.v (regenerated from the source on every check by harness/cmd/xlate_proto)
        =   [coq/ties/Tie_C20.v: forall W g, gen_F W g … = s_F W g …, re-proved on every check]
     ProtoStrModel.v  (this file: compositional, same primitives ProtoPrims.v / ProtoPath.v)
        ~   [ProtoStrProofs.v: on well-formed worlds s_run renders ProtoModel.run, proved once]
     ProtoModel.v (structured paths; the theorems of Props/C20.v are about it)

   Everything the command line accepts is in the domain: input / include entries are raw
   strings (./protos, protos/, a//b, x/../protos, names containing '=', prefixes that are not
   Clean, duplicates); files may stand where directories are expected; errors are values.

   Go                                             →  here
   ---------------------------------------------------------------------------------------------
   callback of findProtos (generate.go:126-138)   →  [s_cb]    (result, appended paths)
   filepath.WalkDir with that callback            →  [s_walk] / [s_walk_root] (stateless form of
                                                     ProtoPrims.walk_node: what is appended, in
                                                     order, and how the walk ended)
   Generate.findProtos                            →  [s_find_protos]
   protoFileHasGoPackage                          →  [s_has_go_package] (open, then the byte
                                                     scanner ProtoLex.scan_go_package)
   Run: plugin flags                              →  [s_plugin_flags]
   Run: the three M options of one mapping        →  [s_mapping_args]
   Run: body of the loop over the protos found    →  [s_file_args]
   Run: body of the loop over includePaths        →  [s_include_core]; with strings.Cut for
                                                     the -include entries: [s_include_args]
   Run                                            →  [s_run] : (returned error, invocations)    *)
From Coq Require Import String List Bool Arith Ascii ZArith.
From GT Require Export ProtoPrims.
Import ListNotations.
Local Open Scope string_scope.
Local Open Scope list_scope.

(* ------------------------------------------------------------------ the walk, stateless *)
Section SWalk.
  (* callback in normal form: (result, what it appends) *)
  Variable cb : string -> node -> gerror -> gerror * list string.

  Fixpoint s_walk (p : string) (n : node) {struct n} : list string * gerror :=
    match n with
    | File _ _ _ => (snd (cb p n ENil), fst (cb p n ENil))
    | Dir _ ch =>
        let out := snd (cb p n ENil) in
        match fst (cb p n ENil) with
        | ESkipDir => (out, ENil)
        | EFail => (out, EFail)
        | ENil =>
            let '(l, e) :=
              (fix walk_list (l : list node) : list string * gerror :=
                 match l with
                 | [] => ([], ENil)
                 | c :: r =>
                     let '(o, e) := s_walk (fp_join p (node_name c)) c in
                     match e with
                     | ENil => let '(o2, e2) := walk_list r in (o ++ o2, e2)
                     | ESkipDir => (o, ENil)
                     | EFail => (o, EFail)
                     end
                 end) ch in
            (out ++ l, e)
        end
    end.

  Fixpoint s_walk_list (p : string) (l : list node) : list string * gerror :=
    match l with
    | [] => ([], ENil)
    | c :: r =>
        let '(o, e) := s_walk (fp_join p (node_name c)) c in
        match e with
        | ENil => let '(o2, e2) := s_walk_list p r in (o ++ o2, e2)
        | ESkipDir => (o, ENil)
        | EFail => (o, EFail)
        end
    end.

  Definition s_walk_root (W : world) (root : string) : list string * gerror :=
    match fs_resolve W root with
    | None => (snd (cb root dirent_nil EFail), unskip (fst (cb root dirent_nil EFail)))
    | Some n => let '(l, e) := s_walk root n in (l, unskip e)
    end.
End SWalk.

(* generate.go:126-138 *)
Definition s_cb (input : string) (recurse : bool) (pathname : string) (d : node) (err : gerror)
  : gerror * list string :=
  if negb (err_is_nil err) || String.eqb pathname "." || String.eqb pathname input then (err, [])
  else if is_dir d && negb recurse then (ESkipDir, [])
  else if is_regular d && String.eqb (fp_ext (node_name d)) ".proto" then (ENil, [pathname])
  else (ENil, []).

Definition s_find_protos (W : world) (g : Generate) (dir : string) (recurse : bool)
  : list string * gerror :=
  s_walk_root (s_cb (g_InputDir g) recurse) W dir.

Definition s_has_go_package (W : world) (p : string) : bool * gerror :=
  let '(r, e) := fs_open W p in
  if err_is_nil e then scan_reader r else (false, e).

(* ------------------------------------------------------------------ Run *)
Definition s_plugin_flags (g : Generate) : list string :=
  ["--go_out=."; "--go_opt=paths=source_relative"; "--fatal_warnings"]
  ++ (if g_VTProto g
      then ["--go-vtproto_out=.";
            "--go-vtproto_opt=paths=source_relative,features=marshal+unmarshal+size+equal+clone+pool"]
      else [])
  ++ (if g_GRPC g then ["--go-grpc_out=."; "--go-grpc_opt=paths=source_relative"] else []).

Definition s_mapping_args (g : Generate) (mapping : string) : list string :=
  ["--go_opt=M" ++ mapping]%string
  ++ (if g_VTProto g then ["--go-vtproto_opt=M" ++ mapping]%string else [])
  ++ (if g_GRPC g then ["--go-grpc_opt=M" ++ mapping]%string else []).

(* sequencing of steps that may fail: the lists are concatenated, the first error wins *)
Fixpoint s_collect {A : Type} (step : A -> list string + gerror) (xs : list A)
  : list string + gerror :=
  match xs with
  | [] => inl []
  | x :: r =>
      match step x with
      | inr e => inr e
      | inl l => match s_collect step r with
                 | inr e => inr e
                 | inl m => inl (l ++ m)
                 end
      end
  end.

(* generate.go:68-110 — one proto found below include path [inc] *)
Definition s_file_args (W : world) (g : Generate) (inc prefix : string) (has_prefix : bool)
  (p : string) : list string + gerror :=
  let '(has, e) := s_has_go_package W p in
  if negb (err_is_nil e) then inr e
  else if has then inl []
  else
    let '(relp, e) := fp_rel_e inc p in
    if negb (err_is_nil e) then inr e
    else if has_prefix then inl (s_mapping_args g (relp ++ "=" ++ fp_join prefix (fp_dir relp))%string)
    else
      let '(pkg, e) := pkg_name_from_path W (fp_dir p) in
      if negb (err_is_nil e) then inr e
      else inl (s_mapping_args g (relp ++ "=" ++ pkg)%string).

(* one iteration of the loop over includePaths, for directory [dir] and optional prefix *)
Definition s_include_core (W : world) (g : Generate) (dir prefix : string) (has_prefix : bool)
  : list string + gerror :=
  let inc := fp_abs (w_cwd W) dir in
  let '(ps, e) := s_find_protos W g inc true in
  if negb (err_is_nil e) then inr e
  else match s_collect (s_file_args W g inc prefix has_prefix) ps with
       | inr e => inr e
       | inl l => inl (("-I=" ++ inc)%string :: l)
       end.

(* an -include entry: dir or dir=prefix *)
Definition s_include_args (W : world) (g : Generate) (entry : string) : list string + gerror :=
  let '(dir, prefix, has_prefix) := str_cut entry in s_include_core W g dir prefix has_prefix.

Definition s_protoc (g : Generate) : string :=
  if String.eqb (g_ProtocPath g) "" then "protoc" else g_ProtocPath g.

Definition s_argv (W : world) (g : Generate) : list string + gerror :=
  let '(paths, e) := s_find_protos W g (g_InputDir g) (g_Recurse g) in
  if negb (err_is_nil e) then inr e
  else
    (* the input directory is a plain path (no cut at '='), the -include entries follow *)
    match s_include_core W g (g_InputDir g) "" false with
    | inr e => inr e
    | inl first =>
        match s_collect (s_include_args W g) (g_Include g) with
        | inr e => inr e
        | inl incs => inl (s_plugin_flags g ++ (first ++ incs) ++ paths)
        end
    end.

(* Generate.Run: the error it returns and the programs it executed *)
Definition s_run (W : world) (g : Generate) : gerror * list invocation :=
  match s_argv W g with
  | inr e => (e, [])
  | inl args => (exec_run W (s_protoc g, args), [(s_protoc g, args)])
  end.
