(* WGSimProps.v — C01 / C02 for the denotation of ANY IR term that passes the simulation
   check-list of WGSim.v: what the check instantiates with the term regenerated from the source. *)
From Coq Require Import List Arith ZArith Bool.
From GT Require Import Base.Conc.
From GT Require Import Base.ConcIR.
From GT Require Import Base.ConcIR2.
From GT Require Import WGModel WGSpec WGSpecProofs WGInv WGProofs WGInv2 WGSim.
Import ListNotations.
Local Open Scope Z_scope.

Section OfSource.
  Variable p : prog2.
  Variable sm : sitemap.
  Hypothesis OK : wg_sim_ok p sm.

  Lemma C01_of_source : forall progs sched, c01_ok (tr (dwg2_exec p sm progs sched)) = true.
  Proof.
    intros progs sched. destruct (wg_sim p sm OK progs sched) as [_ ->]. apply c01_all.
  Qed.

  Lemma C01_spec_of_source : forall progs sched, c01_spec (tr (dwg2_exec p sm progs sched)).
  Proof. intros. apply c01_ok_spec. apply C01_of_source. Qed.

  Lemma C02_of_source : forall progs sched, c02_ok (tr (dwg2_exec p sm progs sched)) = true.
  Proof.
    intros progs sched. destruct (wg_sim p sm OK progs sched) as [_ ->]. apply c02_all.
  Qed.

  Lemma C02_rest_of_source : forall progs sched,
    adds_in_flight (tr (dwg2_exec p sm progs sched)) = [] ->
    cnt (sh (dwg2_exec p sm progs sched)) = sum_deltas (tr (dwg2_exec p sm progs sched)) /\
    (sum_deltas (tr (dwg2_exec p sm progs sched)) = 0 ->
     forall x, In x (handed_out (tr (dwg2_exec p sm progs sched))) ->
               In x (closed (sh (dwg2_exec p sm progs sched)))).
  Proof.
    intros progs sched. destruct (wg_sim p sm OK progs sched) as [-> ->]. intro H.
    pose proof (Inv_exec progs sched) as HI. split.
    - apply rest_count; auto.
    - apply rest_zero_closed; auto.
  Qed.
End OfSource.
