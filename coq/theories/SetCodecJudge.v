(* SetCodecJudge.v — judgement of observed Set encode/decode behaviour (no proofs).
   Elements are indices into the harness' universe (T := Z).  The model is instantiated with
   the concrete sequence layer of SetCodecModel (documents = null | array of element
   documents) over the identity element codec on indices: the harness maps every decoded member
   back to its universe index (-1 when it is no element of the universe), so "each decoded member
   equals the element that was encoded" is equality of index lists.                          *)
From Coq Require Import ZArith List Bool.
From GT Require Import Base.Verdict SetModel SetCodecModel.
Import ListNotations.

Record codec_case := {
  cc_yaml : bool;            (* false: encoding/json, true: yaml.v3 *)
  cc_univ : list Z;
  cc_src : list Z;           (* arguments of Make for the source set; [] with cc_src_nil for a nil set *)
  cc_src_nil : bool;
  cc_tgt : option (list Z);  (* None: nil target, Some l: target Make(l...) *)
  (* observations *)
  cc_enc_null : bool;        (* the encoded document is the null scalar *)
  cc_enc_listing : list Z;   (* the encoded document decoded by the plain library into []T, as sorted indices *)
  cc_dec_err : bool;         (* decoding into the target returned an error *)
  cc_result : list Z;        (* members of the target afterwards, sorted indices *)
  (* the same document with its element documents re-ordered (another iteration order of the
     source map): the order as source indices, decode error, members of a fresh copy of the
     target afterwards *)
  cc_perms : list (list Z * (bool * list Z))
}.

Definition zlist_eqb (a b : list Z) : bool := if list_eq_dec Z.eq_dec a b then true else false.
Definition canon (univ l : list Z) : list Z := filter (fun u => memb Z.eqb u l) univ.

Definition jdoc := adoc Z.
Definition j_enc (yaml : bool) : option (list Z) -> jdoc := arr_enc (fun x : Z => x) (negb yaml).
Definition j_dec : jdoc -> list Z -> option (list Z) := arr_dec 0%Z (fun (e : Z) (_ : Z) => Some e).
Definition doc_null (d : jdoc) : bool := match d with ANull => true | AArr _ => false end.
Definition doc_items (d : jdoc) : list Z := match d with ANull => [] | AArr es => es end.

Definition codec_judge (c : codec_case) : nat :=
  let u := cc_univ c in
  let s := if cc_src_nil c then s_nil else s_make Z.eqb (cc_src c) in
  let t := match cc_tgt c with None => s_nil | Some l => s_make Z.eqb l end in
  let tl := match cc_tgt c with None => [] | Some l => l end in
  let want := canon u (cc_src c ++ tl) in
  let spec_ok :=
    zlist_eqb (cc_enc_listing c) (canon u (cc_src c))          (* each member exactly once *)
    && (negb (cc_enc_null c) || match cc_src c with [] => true | _ => false end)
    && negb (cc_dec_err c)
    && zlist_eqb (cc_result c) want
    (* whatever order the members are listed in, decoding yields the same membership *)
    && forallb (fun p => negb (fst (snd p)) && zlist_eqb (snd (snd p)) want) (cc_perms c) in
  let d := set_marshal (j_enc (cc_yaml c)) (elems s) in
  let model_of (d : jdoc) (err : bool) (res : list Z) : bool :=
    match set_unmarshal Z.eqb j_dec t d with
    | Some t' => negb err && zlist_eqb res (canon u (elems t'))
    | None => err
    end in
  let model_eq :=
    Bool.eqb (cc_enc_null c) (doc_null d)
    && zlist_eqb (cc_enc_listing c) (canon u (doc_items d))
    && model_of d (cc_dec_err c) (cc_result c)
    && forallb (fun p =>
         (* the re-ordered document lists the same elements as the model's *)
         Nat.eqb (length (fst p)) (length (doc_items d))
         && zlist_eqb (canon u (fst p)) (canon u (doc_items d))
         && model_of (AArr (fst p)) (fst (snd p)) (snd (snd p))) (cc_perms c) in
  verdict spec_ok model_eq.
