(* SetCodecJudge.v — judgement of observed Set encode/decode behaviour (no proofs).
   Elements are indices into the harness' universe (T := Z).  The model is instantiated with
   the "recorded listing" codec: a document is (is_null, listing).                          *)
From Coq Require Import ZArith List Bool.
From GT Require Import Base.Verdict SetModel SetCodecModel.
Import ListNotations.

Record codec_case := {
  cc_yaml : bool;            (* false: encoding/json, true: yaml.v3 *)
  cc_univ : list Z;
  cc_src : list Z;           (* arguments of Make for the source set; [] with cc_src_nil for a nil set *)
  cc_src_nil : bool;
  cc_tgt : option (list Z);  (* None: nil target, Some l: target Make(l...) *)
  (* observations *)
  cc_enc_null : bool;        (* the encoded document is the null scalar *)
  cc_enc_listing : list Z;   (* the encoded document decoded by the plain library into []T, as sorted indices *)
  cc_dec_err : bool;         (* decoding into the target returned an error *)
  cc_result : list Z         (* members of the target afterwards, sorted indices *)
}.

Definition zlist_eqb (a b : list Z) : bool := if list_eq_dec Z.eq_dec a b then true else false.
Definition canon (univ l : list Z) : list Z := filter (fun u => memb Z.eqb u l) univ.

Definition doc := (bool * list Z)%type.
Definition enc_of (yaml : bool) (o : option (list Z)) : doc :=
  match o with Some l => (false, l) | None => (negb yaml, []) end.
Definition dec_of (d : doc) : option (list Z) := Some (snd d).

Definition codec_judge (c : codec_case) : nat :=
  let u := cc_univ c in
  let s := if cc_src_nil c then s_nil else s_make Z.eqb (cc_src c) in
  let t := match cc_tgt c with None => s_nil | Some l => s_make Z.eqb l end in
  let tl := match cc_tgt c with None => [] | Some l => l end in
  let spec_ok :=
    zlist_eqb (cc_enc_listing c) (canon u (cc_src c))          (* each member exactly once *)
    && (negb (cc_enc_null c) || match cc_src c with [] => true | _ => false end)
    && negb (cc_dec_err c)
    && zlist_eqb (cc_result c) (canon u (cc_src c ++ tl)) in
  let d := set_marshal (enc_of (cc_yaml c)) (elems s) in
  let model_eq :=
    Bool.eqb (cc_enc_null c) (fst d)
    && zlist_eqb (cc_enc_listing c) (canon u (snd d))
    && match set_unmarshal Z.eqb dec_of t d with
       | Some t' => negb (cc_dec_err c) && zlist_eqb (cc_result c) (canon u (elems t'))
       | None => cc_dec_err c
       end in
  verdict spec_ok model_eq.
