(* IFaceNamesProofs.v — parameter naming (params.go / method.go): for every pair of parameter
   lists the final names are pairwise distinct valid identifiers and user names are kept. *)
From Coq Require Import List Bool String Ascii NArith Arith Lia Permutation DecimalString DecimalN DecimalPos.
From GT Require Import IFaceModel.
Import ListNotations.
Local Open Scope string_scope.

(* ------------------------------------------------------------------ strings *)
Lemma append_nil_r s : s ++ "" = s.
Proof. induction s; simpl; congruence. Qed.

Lemma append_assoc (a b c : string) : (a ++ b) ++ c = a ++ (b ++ c).
Proof. induction a; simpl; congruence. Qed.

Lemma append_cancel_l (p a b : string) : p ++ a = p ++ b -> a = b.
Proof. induction p; simpl; intros H; [assumption|]. injection H as H. auto. Qed.

Lemma length_append (a b : string) : String.length (a ++ b) = String.length a + String.length b.
Proof. induction a; simpl; congruence. Qed.

Lemma eqb_eq' a b : String.eqb a b = true <-> a = b.
Proof. apply String.eqb_eq. Qed.

Lemma mem_In s l : mem s l = true <-> In s l.
Proof.
  unfold mem. rewrite existsb_exists. split.
  - intros [x [Hin He]]. apply String.eqb_eq in He. subst. assumption.
  - intros H. exists s. split; [assumption|apply String.eqb_refl].
Qed.

Lemma mem_false s l : mem s l = false <-> ~ In s l.
Proof. rewrite <- mem_In. destruct (mem s l); split; congruence. Qed.

Lemma nodupb_NoDup l : nodupb l = true <-> NoDup l.
Proof.
  induction l as [|x r IH]; simpl.
  - split; [constructor|reflexivity].
  - rewrite andb_true_iff, negb_true_iff, mem_false, IH. split.
    + intros [H1 H2]. constructor; assumption.
    + intros H. inversion H; subst. split; assumption.
Qed.

(* ------------------------------------------------------------------ itoa *)
Fixpoint last_char (s : string) : option ascii :=
  match s with
  | EmptyString => None
  | String c EmptyString => Some c
  | String _ r => last_char r
  end.

Lemma uint_string_digits d : all_chars is_digit (NilEmpty.string_of_uint d) = true.
Proof. induction d; simpl; try rewrite IHd; reflexivity. Qed.

Lemma uint_string_nonempty d : d <> Decimal.Nil -> NilEmpty.string_of_uint d <> "".
Proof. destruct d; simpl; congruence. Qed.

Lemma to_uint_nonnil n : N.to_uint n <> Decimal.Nil.
Proof. destruct n; simpl; [discriminate|apply Unsigned.to_uint_nonnil]. Qed.

Lemma itoa_digits n : all_chars is_digit (itoa n) = true.
Proof. apply uint_string_digits. Qed.

Lemma itoa_nonempty n : itoa n <> "".
Proof. apply uint_string_nonempty, to_uint_nonnil. Qed.

Lemma itoa_inj a b : itoa a = itoa b -> a = b.
Proof.
  unfold itoa. intros H.
  apply DecimalN.Unsigned.to_uint_inj.
  pose proof (NilEmpty.usu (N.to_uint a)) as Ha.
  pose proof (NilEmpty.usu (N.to_uint b)) as Hb.
  rewrite H in Ha. rewrite Ha in Hb. injection Hb as Hb. exact Hb.
Qed.

Lemma cand_inj name a b : name ++ itoa a = name ++ itoa b -> a = b.
Proof. intros H. apply append_cancel_l in H. apply itoa_inj. exact H. Qed.

Lemma append_neq_self name s : s <> "" -> name ++ s <> name.
Proof.
  intros Hs H. apply (f_equal String.length) in H. rewrite length_append in H.
  destruct s; [congruence|]. simpl in H. lia.
Qed.

(* ------------------------------------------------------------------ the deduper map *)
Lemma dmem_In d k : dmem d k = true <-> In k (dkeys d).
Proof.
  unfold dmem, dkeys. induction d as [|[k' v] r IH]; simpl.
  - split; [discriminate|tauto].
  - destruct (String.eqb k k') eqn:E.
    + apply String.eqb_eq in E. subst. split; auto.
    + apply String.eqb_neq in E. rewrite IH. split; [auto|]. intros [H|H]; [congruence|assumption].
Qed.

Lemma dmem_false d k : dmem d k = false <-> ~ In k (dkeys d).
Proof. rewrite <- dmem_In. destruct (dmem d k); split; congruence. Qed.

Lemma dkeys_dset d k v x : In x (dkeys (dset d k v)) <-> x = k \/ In x (dkeys d).
Proof.
  unfold dkeys. induction d as [|[k' v'] r IH]; simpl.
  - split; intros [H|H]; auto; contradiction.
  - destruct (String.eqb k k') eqn:E; simpl.
    + apply String.eqb_eq in E. subst. split; [intros [H|H]; auto|intros [H|[H|H]]; auto].
    + rewrite IH. split; [intros [H|[H|H]]; auto|intros [H|[H|H]]; auto].
Qed.

Lemma dkeys_reserve d n x : In x (dkeys (reserve d n)) <-> x = n \/ In x (dkeys d).
Proof.
  unfold reserve. destruct (dmem d n) eqn:E.
  - apply dmem_In in E. split; [auto|]. intros [H|H]; subst; assumption.
  - apply dkeys_dset.
Qed.

Lemma dkeys_length d : List.length (dkeys d) = List.length d.
Proof. apply map_length. Qed.

(* ------------------------------------------------------------------ the numbering loop *)
Lemma number_name_shape fuel d name v :
  exists k, fst (number_name fuel d name v) = name ++ itoa k.
Proof.
  revert v. induction fuel as [|f IH]; intros v; simpl.
  - eexists. reflexivity.
  - destruct (dmem d (name ++ itoa v)); [apply IH|eexists; reflexivity].
Qed.

Lemma number_name_fresh_gen d name : forall fuel v tested,
  NoDup tested -> incl tested (dkeys d) ->
  (forall c, In c tested -> exists j, (j < v)%N /\ c = name ++ itoa j) ->
  List.length (dkeys d) < List.length tested + fuel ->
  dmem d (fst (number_name fuel d name v)) = false.
Proof.
  induction fuel as [|f IH]; intros v tested Hnd Hincl Hold Hlen.
  - exfalso. pose proof (NoDup_incl_length Hnd Hincl). lia.
  - simpl. destruct (dmem d (name ++ itoa v)) eqn:E; [|simpl; exact E].
    apply (IH (N.succ v) ((name ++ itoa v) :: tested)).
    + constructor; [|assumption]. intros Hin. destruct (Hold _ Hin) as [j [Hj He]].
      apply cand_inj in He. lia.
    + intros c [Hc|Hc]; [subst; apply dmem_In; assumption|auto].
    + intros c [Hc|Hc].
      * exists v. split; [lia|auto].
      * destruct (Hold _ Hc) as [j [Hj He]]. exists j. split; [lia|assumption].
    + simpl. lia.
Qed.

(* the fuel S (length d) is never exhausted: the name returned is not a key of the map *)
Lemma number_name_fresh d name v :
  dmem d (fst (number_name (S (List.length d)) d name v)) = false.
Proof.
  apply (number_name_fresh_gen d name (S (List.length d)) v []).
  - constructor.
  - intros x [].
  - intros c [].
  - rewrite dkeys_length. simpl. lia.
Qed.

(* ------------------------------------------------------------------ getSafeParamName *)
Lemma gsp_cases d name always r d' :
  get_safe_param_name d name always = (r, d') ->
  (dmem d name = false /\ always = false /\ r = name /\ d' = dset d name 0%N) \/
  (exists k v', r = name ++ itoa k /\ d' = dset d name v').
Proof.
  unfold get_safe_param_name. intros H.
  remember (match dget d name with Some v => v | None => 0%N end) as v eqn:Ev.
  destruct (dmem d name || always) eqn:E.
  - destruct (number_name_shape (S (List.length d)) d name v) as [k Hk].
    destruct (number_name (S (List.length d)) d name v) as [r0 v0]. injection H as <- <-.
    simpl in Hk. right. eauto.
  - apply orb_false_iff in E as [E1 E2]. injection H as <- <-. left.
    split; [exact E1|]. unfold dmem in E1. destruct (dget d name); [discriminate|]. subst v. auto.
Qed.

Lemma gsp_fresh d name always r d' :
  get_safe_param_name d name always = (r, d') -> ~ In r (dkeys d).
Proof.
  unfold get_safe_param_name. intros H. apply dmem_false.
  destruct (dmem d name || always) eqn:E.
  - pose proof (number_name_fresh d name match dget d name with Some v => v | None => 0%N end) as F.
    destruct (number_name _ d name _) as [r0 v0]. injection H as <- <-. exact F.
  - injection H as <- <-. apply orb_false_iff in E. tauto.
Qed.

Lemma gsp_keys d name always r d' x :
  get_safe_param_name d name always = (r, d') ->
  (In x (dkeys (reserve d' r)) <-> x = r \/ x = name \/ In x (dkeys d)).
Proof.
  intros H. rewrite dkeys_reserve.
  destruct (gsp_cases _ _ _ _ _ H) as [[_ [_ [-> ->]]]|[k [v' [-> ->]]]]; rewrite dkeys_dset; tauto.
Qed.

(* ------------------------------------------------------------------ identifiers *)
Definition ident_chars (s : string) : bool := all_chars (fun c => is_letter c || is_digit c) s.
Definition ident_base (s : string) : bool :=
  match s with EmptyString => false | String c r => is_letter c && ident_chars r end.

Lemma all_chars_app p a b : all_chars p (a ++ b) = all_chars p a && all_chars p b.
Proof. induction a; simpl; [reflexivity|]. rewrite IHa. apply andb_assoc. Qed.

Lemma all_chars_impl (p q : ascii -> bool) s :
  (forall c, p c = true -> q c = true) -> all_chars p s = true -> all_chars q s = true.
Proof.
  intros Hpq. induction s; simpl; [reflexivity|]. rewrite !andb_true_iff. intros [H1 H2]. auto.
Qed.

Lemma valid_ident_base s : valid_identb s = true -> ident_base s = true.
Proof.
  unfold valid_identb, ident_base. destruct s; simpl; [discriminate|].
  rewrite !andb_true_iff. tauto.
Qed.

Lemma last_char_app a b : b <> "" -> last_char (a ++ b) = last_char b.
Proof.
  intros Hb. induction a as [|c r IH]; simpl; [reflexivity|].
  destruct (r ++ b) eqn:E.
  - destruct r; simpl in E; [congruence|discriminate].
  - exact IH.
Qed.

Lemma last_char_digit s : s <> "" -> all_chars is_digit s = true ->
  exists c, last_char s = Some c /\ is_digit c = true.
Proof.
  induction s as [|c r IH]; [congruence|]. intros _ H. simpl in H. apply andb_true_iff in H as [H1 H2].
  destruct r.
  - exists c. auto.
  - destruct IH as [c' [Hc Hd]]; [discriminate|assumption|]. exists c'. split; [|assumption].
    simpl. simpl in Hc. exact Hc.
Qed.

Definition ends_in_digit (s : string) : bool :=
  match last_char s with Some c => is_digit c | None => false end.

Lemma keywords_no_digit : forallb (fun k => negb (ends_in_digit k)) keywords = true.
Proof. vm_compute. reflexivity. Qed.

Lemma not_keyword_digit s : ends_in_digit s = true -> mem s keywords = false.
Proof.
  intros H. apply mem_false. intros Hin.
  pose proof keywords_no_digit as K. rewrite forallb_forall in K.
  specialize (K _ Hin). rewrite H in K. discriminate.
Qed.

Lemma valid_identb_alt s :
  valid_identb s = ident_base s && negb (String.eqb s "_") && negb (mem s keywords).
Proof. destruct s; reflexivity. Qed.

Lemma ident_base_app name t : ident_base name = true -> ident_chars t = true ->
  ident_base (name ++ t) = true.
Proof.
  destruct name as [|c r]; [discriminate|]. cbn [ident_base append]. unfold ident_chars.
  rewrite !andb_true_iff. intros [Hc Hr] Ht. split; [assumption|].
  rewrite all_chars_app, Hr, Ht. reflexivity.
Qed.

Lemma numbered_not_blank name k : name <> "" -> name ++ itoa k <> "_".
Proof.
  intros Hn H. apply (f_equal String.length) in H. rewrite length_append in H.
  pose proof (itoa_nonempty k) as Hk.
  destruct name; [congruence|]. destruct (itoa k); [congruence|]. simpl in H. lia.
Qed.

(* a numbered name is a valid identifier *)
Lemma valid_numbered name k : ident_base name = true -> valid_identb (name ++ itoa k) = true.
Proof.
  intros Hb. rewrite valid_identb_alt.
  assert (Hne : name <> "") by (destruct name; [discriminate|congruence]).
  rewrite ident_base_app; [|assumption|].
  2:{ unfold ident_chars. apply all_chars_impl with (p := is_digit); [|apply itoa_digits].
      intros x Hx. rewrite Hx. apply orb_true_r. }
  pose proof (numbered_not_blank name k Hne) as Hnb. apply String.eqb_neq in Hnb. rewrite Hnb.
  rewrite not_keyword_digit; [reflexivity|].
  unfold ends_in_digit. rewrite last_char_app by apply itoa_nonempty.
  destruct (last_char_digit (itoa k) (itoa_nonempty k) (itoa_digits k)) as [x [Hx Hdx]].
  rewrite Hx. exact Hdx.
Qed.

Lemma numbered_not_unnamed name k : name <> "" -> unnamed (name ++ itoa k) = false.
Proof.
  intros Hn. unfold unnamed. apply orb_false_iff. split; apply String.eqb_neq.
  - destruct name; [congruence|discriminate].
  - destruct name as [|c r]; [congruence|]. simpl. intros H. injection H as _ H.
    destruct r; simpl in H; [|discriminate]. apply (itoa_nonempty k). exact H.
Qed.

(* ------------------------------------------------------------------ one pass, generically *)
(* both Params.keepNames and Params.ensureNames walk the list once and either leave an element
   or give it the name getSafeParamName returns for a (base, alwaysNumber) choice, reserving it *)
Fixpoint assign_pass (choose : nat -> pinfo -> option (string * bool)) (d : dmap) (i : nat)
         (ps : list pinfo) : list pinfo * dmap :=
  match ps with
  | [] => ([], d)
  | p :: r =>
      match choose i p with
      | None => let '(r', d') := assign_pass choose d (S i) r in (p :: r', d')
      | Some (base, always) =>
          let '(n, d1) := get_safe_param_name d base always in
          let '(r', d') := assign_pass choose (reserve d1 n) (S i) r in
          (set_name p n :: r', d')
      end
  end.

Definition keep_choice (_ : nat) (p : pinfo) : option (string * bool) :=
  if unnamed (pi_name p) then None else Some (pi_name p, false).
Definition gen_choice' (is_output : bool) (len : nat) (i : nat) (p : pinfo) :=
  if unnamed (pi_name p) then Some (gen_choice is_output len i p) else None.

Lemma keep_names_pass d ps : forall i, keep_names d ps = assign_pass keep_choice d i ps.
Proof.
  revert d. induction ps as [|p r IH]; intros d i; simpl; [reflexivity|].
  unfold keep_choice at 1. destruct (unnamed (pi_name p)).
  - rewrite (IH d (S i)). reflexivity.
  - destruct (get_safe_param_name d (pi_name p) false) as [n d1].
    rewrite (IH (reserve d1 n) (S i)). reflexivity.
Qed.

Lemma ensure_names_pass is_output len : forall ps d i,
  ensure_names_from d is_output len i ps = assign_pass (gen_choice' is_output len) d i ps.
Proof.
  induction ps as [|p r IH]; intros d i; simpl; [reflexivity|].
  unfold gen_choice' at 1. destruct (unnamed (pi_name p)).
  - destruct (gen_choice is_output len i p) as [base always].
    destruct (get_safe_param_name d base always) as [n d1].
    rewrite IH. reflexivity.
  - rewrite IH. reflexivity.
Qed.

Definition settled (ps : list pinfo) : list string :=
  filter (fun n => negb (unnamed n)) (map pi_name ps).

Lemma gsp_not_unnamed d base always r d' :
  base <> "" -> (always = false -> unnamed base = false) ->
  get_safe_param_name d base always = (r, d') -> unnamed r = false.
Proof.
  intros Hb Hu H. destruct (gsp_cases _ _ _ _ _ H) as [[_ [Ha [-> _]]]|[k [v' [-> _]]]].
  - auto.
  - apply numbered_not_unnamed. assumption.
Qed.

Definition choice_ok (choose : nat -> pinfo -> option (string * bool)) : Prop :=
  forall i p b a, choose i p = Some (b, a) -> b <> "" /\ unnamed b = false.

Lemma NoDup_mid (a b : list string) x : NoDup (a ++ b) -> ~ In x (a ++ b) -> NoDup (a ++ x :: b).
Proof.
  intros H Hx. apply (Permutation_NoDup (l := x :: a ++ b)).
  - apply Permutation_middle.
  - constructor; assumption.
Qed.

(* names the pass leaves alone, as a sub-list of the settled names *)
Fixpoint untouched (choose : nat -> pinfo -> option (string * bool)) (i : nat) (ps : list pinfo)
  : list pinfo :=
  match ps with
  | [] => []
  | p :: r => match choose i p with
              | None => p :: untouched choose (S i) r
              | Some _ => untouched choose (S i) r
              end
  end.

Lemma settled_cons_settled p r : unnamed (pi_name p) = false -> settled (p :: r) = pi_name p :: settled r.
Proof. intros H. unfold settled. simpl. rewrite H. reflexivity. Qed.
Lemma settled_cons_unnamed p r : unnamed (pi_name p) = true -> settled (p :: r) = settled r.
Proof. intros H. unfold settled. simpl. rewrite H. reflexivity. Qed.

Lemma pass_inv choose : choice_ok choose ->
  forall ps d i C ps' d',
  assign_pass choose d i ps = (ps', d') ->
  NoDup (C ++ settled (untouched choose i ps)) ->
  incl (C ++ settled (untouched choose i ps)) (dkeys d) ->
  NoDup (C ++ settled ps') /\ incl (C ++ settled ps') (dkeys d') /\ incl (dkeys d) (dkeys d').
Proof.
  intros Hok. induction ps as [|p r IH]; intros d i C ps' d' H Hnd Hin; simpl in H.
  - injection H as <- <-. simpl in *. split; [assumption|]. split; [assumption|apply incl_refl].
  - simpl in Hnd, Hin. destruct (choose i p) as [[base always]|] eqn:Ec.
    + destruct (get_safe_param_name d base always) as [n d1] eqn:Eg.
      destruct (assign_pass choose (reserve d1 n) (S i) r) as [r' dd] eqn:Er.
      injection H as <- <-.
      destruct (Hok _ _ _ _ Ec) as [Hb Hu].
      assert (Hn : unnamed n = false) by exact (gsp_not_unnamed _ _ _ _ _ Hb (fun _ => Hu) Eg).
      assert (Hfresh : ~ In n (dkeys d)) by (eapply gsp_fresh; eauto).
      assert (Hk : forall x, In x (dkeys (reserve d1 n)) <-> x = n \/ x = base \/ In x (dkeys d))
        by (intros x; eapply gsp_keys; eauto).
      destruct (IH (reserve d1 n) (S i) (C ++ [n])%list r' dd Er) as [A [B D]].
      * rewrite <- app_assoc. simpl. apply NoDup_mid; [assumption|]. intros Hx. apply Hfresh. auto.
      * rewrite <- app_assoc. simpl. intros x Hx. apply Hk. apply in_app_or in Hx as [Hx|[Hx|Hx]].
        -- right. right. apply Hin. apply in_or_app. auto.
        -- left. auto.
        -- right. right. apply Hin. apply in_or_app. auto.
      * rewrite settled_cons_settled by (simpl; assumption). simpl.
        rewrite <- app_assoc in A, B. simpl in A, B. split; [assumption|]. split; [assumption|].
        intros x Hx. apply D. apply Hk. auto.
    + destruct (assign_pass choose d (S i) r) as [r' dd] eqn:Er. injection H as <- <-.
      destruct (unnamed (pi_name p)) eqn:Eu.
      * rewrite settled_cons_unnamed in * by assumption.
        apply (IH d (S i) C r' dd Er); assumption.
      * rewrite settled_cons_settled in * by assumption.
        destruct (IH d (S i) (C ++ [pi_name p])%list r' dd Er) as [A [B D]].
        -- rewrite <- app_assoc. exact Hnd.
        -- rewrite <- app_assoc. exact Hin.
        -- rewrite <- app_assoc in A, B. auto.
Qed.

Lemma keep_choice_ok : choice_ok keep_choice.
Proof.
  intros i p b a H. unfold keep_choice in H. destruct (unnamed (pi_name p)) eqn:E; [discriminate|].
  injection H as <- <-. split; [|assumption]. intros Hb. rewrite Hb in E. discriminate.
Qed.

Lemma gen_choice_ok o len : choice_ok (gen_choice' o len).
Proof.
  intros i p b a H. unfold gen_choice', gen_choice in H.
  destruct (unnamed (pi_name p)); [|discriminate].
  destruct (o && Nat.eqb (len - 1) i && pi_err p).
  - injection H as <- <-. split; [discriminate|reflexivity].
  - destruct (negb o && Nat.eqb i 0 && pi_ctx p).
    + injection H as <- <-. split; [discriminate|reflexivity].
    + destruct o; injection H as <- <-; split; (discriminate || reflexivity).
Qed.

Lemma untouched_keep i ps : settled (untouched keep_choice i ps) = [].
Proof.
  revert i. induction ps as [|p r IH]; intros i; simpl; [reflexivity|].
  unfold keep_choice at 1. destruct (unnamed (pi_name p)) eqn:E; [|apply IH].
  rewrite settled_cons_unnamed by assumption. apply IH.
Qed.

Lemma untouched_gen o len i ps : settled (untouched (gen_choice' o len) i ps) = settled ps.
Proof.
  revert i. induction ps as [|p r IH]; intros i; simpl; [reflexivity|].
  unfold gen_choice' at 1. destruct (unnamed (pi_name p)) eqn:E.
  - rewrite settled_cons_unnamed by assumption. apply IH.
  - rewrite !settled_cons_settled by assumption. f_equal. apply IH.
Qed.

(* after the generating pass nothing is unnamed any more *)
Lemma gen_pass_all_settled o len : forall ps d i ps' d',
  assign_pass (gen_choice' o len) d i ps = (ps', d') -> settled ps' = map pi_name ps'.
Proof.
  induction ps as [|p r IH]; intros d i ps' d' H; simpl in H.
  - injection H as <- <-. reflexivity.
  - destruct (gen_choice' o len i p) as [[base always]|] eqn:Ec.
    + destruct (get_safe_param_name d base always) as [n d1] eqn:Eg.
      destruct (assign_pass _ (reserve d1 n) (S i) r) as [r' dd] eqn:Er. injection H as <- <-.
      destruct (gen_choice_ok o len _ _ _ _ Ec) as [Hb Hu].
      rewrite settled_cons_settled by (simpl; exact (gsp_not_unnamed _ _ _ _ _ Hb (fun _ => Hu) Eg)).
      simpl. f_equal. eapply IH; eauto.
    + destruct (assign_pass _ d (S i) r) as [r' dd] eqn:Er. injection H as <- <-.
      unfold gen_choice' in Ec. destruct (unnamed (pi_name p)) eqn:E; [discriminate|].
      rewrite settled_cons_settled by assumption. simpl. f_equal. eapply IH; eauto.
Qed.

Lemma NoDup_app_comm (a b : list string) : NoDup (a ++ b) -> NoDup (b ++ a).
Proof. apply Permutation_NoDup, Permutation_app_comm. Qed.

Lemma incl_app_comm (a b c : list string) : incl (a ++ b) c -> incl (b ++ a) c.
Proof. intros H x Hx. apply H. apply in_app_or in Hx. apply in_or_app. tauto. Qed.

(* ---- distinctness ---- *)
Lemma final_names_NoDup ins outs : NoDup (final_names ins outs).
Proof.
  unfold final_names, ensure_param_names, ensure_names.
  destruct (keep_names [] ins) as [ins1 d1] eqn:E1.
  destruct (keep_names d1 outs) as [outs1 d2] eqn:E2.
  destruct (ensure_names_from d2 false (List.length ins1) 0 ins1) as [ins2 d3] eqn:E3.
  destruct (ensure_names_from d3 true (List.length outs1) 0 outs1) as [outs2 d4] eqn:E4.
  rewrite (keep_names_pass [] ins 0) in E1. rewrite (keep_names_pass d1 outs 0) in E2.
  rewrite ensure_names_pass in E3. rewrite ensure_names_pass in E4.
  destruct (pass_inv _ keep_choice_ok _ _ _ [] _ _ E1) as [A1 [B1 _]].
  { rewrite untouched_keep. constructor. }
  { rewrite untouched_keep. intros x []. }
  simpl in A1, B1.
  destruct (pass_inv _ keep_choice_ok _ _ _ (settled ins1) _ _ E2) as [A2 [B2 _]].
  { rewrite untouched_keep, app_nil_r. assumption. }
  { rewrite untouched_keep, app_nil_r. assumption. }
  destruct (pass_inv _ (gen_choice_ok _ _) _ _ _ (settled outs1) _ _ E3) as [A3 [B3 _]].
  { rewrite untouched_gen. apply NoDup_app_comm. assumption. }
  { rewrite untouched_gen. apply incl_app_comm. assumption. }
  destruct (pass_inv _ (gen_choice_ok _ _) _ _ _ (settled ins2) _ _ E4) as [A4 [B4 _]].
  { rewrite untouched_gen. apply NoDup_app_comm. assumption. }
  { rewrite untouched_gen. apply incl_app_comm. assumption. }
  rewrite (gen_pass_all_settled _ _ _ _ _ _ _ E3) in A4.
  rewrite (gen_pass_all_settled _ _ _ _ _ _ _ E4) in A4.
  rewrite map_app. exact A4.
Qed.

(* ---- length ---- *)
Lemma pass_length choose : forall ps d i ps' d',
  assign_pass choose d i ps = (ps', d') -> List.length ps' = List.length ps.
Proof.
  induction ps as [|p r IH]; intros d i ps' d' H; simpl in H.
  - injection H as <- <-. reflexivity.
  - destruct (choose i p) as [[b a]|].
    + destruct (get_safe_param_name d b a) as [n d1].
      destruct (assign_pass choose (reserve d1 n) (S i) r) as [r' dd] eqn:Er.
      injection H as <- <-. simpl. f_equal. eapply IH; eauto.
    + destruct (assign_pass choose d (S i) r) as [r' dd] eqn:Er.
      injection H as <- <-. simpl. f_equal. eapply IH; eauto.
Qed.

Lemma final_names_length ins outs :
  List.length (final_names ins outs) = List.length (ins ++ outs)%list.
Proof.
  unfold final_names, ensure_param_names, ensure_names.
  destruct (keep_names [] ins) as [ins1 d1] eqn:E1.
  destruct (keep_names d1 outs) as [outs1 d2] eqn:E2.
  destruct (ensure_names_from d2 false (List.length ins1) 0 ins1) as [ins2 d3] eqn:E3.
  destruct (ensure_names_from d3 true (List.length outs1) 0 outs1) as [outs2 d4] eqn:E4.
  rewrite (keep_names_pass [] ins 0) in E1. rewrite (keep_names_pass d1 outs 0) in E2.
  rewrite ensure_names_pass in E3. rewrite ensure_names_pass in E4.
  apply pass_length in E1, E2, E3, E4.
  rewrite map_length, !app_length. lia.
Qed.

(* ---- validity ---- *)
Definition base_ok (b : string) (a : bool) : Prop :=
  ident_base b = true /\ (a = false -> valid_identb b = true).

Lemma gsp_valid d b a r d' :
  base_ok b a -> get_safe_param_name d b a = (r, d') -> valid_identb r = true.
Proof.
  intros [Hb Hv] H. destruct (gsp_cases _ _ _ _ _ H) as [[_ [Ha [-> _]]]|[k [v' [-> _]]]].
  - auto.
  - apply valid_numbered. assumption.
Qed.

Lemma Forall_settled_cons P p r :
  Forall P (settled (p :: r)) <->
  (unnamed (pi_name p) = false -> P (pi_name p)) /\ Forall P (settled r).
Proof.
  destruct (unnamed (pi_name p)) eqn:E.
  - rewrite settled_cons_unnamed by assumption. split; [intros H; split; [discriminate|assumption]|tauto].
  - rewrite settled_cons_settled by assumption. split.
    + intros H. inversion H; subst. auto.
    + intros [H1 H2]. constructor; auto.
Qed.

Lemma pass_valid choose : choice_ok choose ->
  forall ps d i ps' d',
  assign_pass choose d i ps = (ps', d') ->
  (forall j p b a, In p ps -> choose j p = Some (b, a) -> base_ok b a) ->
  Forall (fun n => valid_identb n = true) (settled (untouched choose i ps)) ->
  Forall (fun n => valid_identb n = true) (settled ps').
Proof.
  intros Hok. induction ps as [|p r IH]; intros d i ps' d' H Hc Hu; simpl in H.
  - injection H as <- <-. constructor.
  - simpl in Hu. destruct (choose i p) as [[b a]|] eqn:Ec.
    + destruct (get_safe_param_name d b a) as [n d1] eqn:Eg.
      destruct (assign_pass choose (reserve d1 n) (S i) r) as [r' dd] eqn:Er.
      injection H as <- <-. apply Forall_settled_cons. split.
      * intros _. simpl. eapply gsp_valid; [|exact Eg]. eapply Hc; [left; reflexivity|exact Ec].
      * eapply IH; [exact Er| |exact Hu]. intros j q b' a' Hq. apply Hc. right. exact Hq.
    + destruct (assign_pass choose d (S i) r) as [r' dd] eqn:Er. injection H as <- <-.
      apply Forall_settled_cons in Hu as [Hp Hr]. apply Forall_settled_cons. split; [exact Hp|].
      eapply IH; [exact Er| |exact Hr]. intros j q b' a' Hq. apply Hc. right. exact Hq.
Qed.

(* what the theorem asks of the input: a name the user wrote is a Go identifier *)
Definition user_valid (p : pinfo) : Prop :=
  unnamed (pi_name p) = true \/ valid_identb (pi_name p) = true.

Lemma keep_bases_ok ps : Forall user_valid ps ->
  forall j p b a, In p ps -> keep_choice j p = Some (b, a) -> base_ok b a.
Proof.
  intros Hv j p b a Hin Hc. rewrite Forall_forall in Hv. specialize (Hv _ Hin).
  unfold keep_choice in Hc. destruct (unnamed (pi_name p)) eqn:E; [discriminate|].
  injection Hc as <- <-. destruct Hv as [Hv|Hv]; [congruence|].
  split; [apply valid_ident_base; assumption|auto].
Qed.

Lemma gen_bases_ok o len ps :
  forall j p b a, In p ps -> gen_choice' o len j p = Some (b, a) -> base_ok b a.
Proof.
  intros j p b a _ H. unfold gen_choice', gen_choice in H.
  destruct (unnamed (pi_name p)); [|discriminate].
  destruct (o && Nat.eqb (len - 1) j && pi_err p).
  - injection H as <- <-. split; [reflexivity|intros _; vm_compute; reflexivity].
  - destruct (negb o && Nat.eqb j 0 && pi_ctx p).
    + injection H as <- <-. split; [reflexivity|intros _; vm_compute; reflexivity].
    + destruct o; injection H as <- <-; (split; [reflexivity|discriminate]).
Qed.

Lemma final_names_valid ins outs :
  Forall user_valid (ins ++ outs)%list ->
  Forall (fun n => valid_identb n = true) (final_names ins outs).
Proof.
  intros Hv. apply Forall_app in Hv as [Hvi Hvo].
  unfold final_names, ensure_param_names, ensure_names.
  destruct (keep_names [] ins) as [ins1 d1] eqn:E1.
  destruct (keep_names d1 outs) as [outs1 d2] eqn:E2.
  destruct (ensure_names_from d2 false (List.length ins1) 0 ins1) as [ins2 d3] eqn:E3.
  destruct (ensure_names_from d3 true (List.length outs1) 0 outs1) as [outs2 d4] eqn:E4.
  rewrite (keep_names_pass [] ins 0) in E1. rewrite (keep_names_pass d1 outs 0) in E2.
  rewrite ensure_names_pass in E3. rewrite ensure_names_pass in E4.
  pose proof (pass_valid _ keep_choice_ok _ _ _ _ _ E1 (keep_bases_ok _ Hvi)) as V1.
  rewrite untouched_keep in V1. specialize (V1 (Forall_nil _)).
  pose proof (pass_valid _ keep_choice_ok _ _ _ _ _ E2 (keep_bases_ok _ Hvo)) as V2.
  rewrite untouched_keep in V2. specialize (V2 (Forall_nil _)).
  pose proof (pass_valid _ (gen_choice_ok _ _) _ _ _ _ _ E3 (gen_bases_ok _ _ _)) as V3.
  rewrite untouched_gen in V3. specialize (V3 V1).
  pose proof (pass_valid _ (gen_choice_ok _ _) _ _ _ _ _ E4 (gen_bases_ok _ _ _)) as V4.
  rewrite untouched_gen in V4. specialize (V4 V2).
  rewrite (gen_pass_all_settled _ _ _ _ _ _ _ E3) in V3.
  rewrite (gen_pass_all_settled _ _ _ _ _ _ _ E4) in V4.
  rewrite map_app. apply Forall_app. split; assumption.
Qed.

(* ---- user names are kept ---- *)
Fixpoint seen_after (seen : list string) (us : list (option string)) (fs : list string) : list string :=
  match us, fs with
  | Some _ :: us, f :: fs => seen_after (f :: seen) us fs
  | None :: us, _ :: fs => seen_after seen us fs
  | _, _ => seen
  end.

Lemma user_name_unnamed p : unnamed (pi_name p) = true -> user_name p = None.
Proof. unfold user_name. intros ->. reflexivity. Qed.
Lemma user_name_named p : unnamed (pi_name p) = false -> user_name p = Some (pi_name p).
Proof. unfold user_name. intros ->. reflexivity. Qed.

Lemma keep_kept : forall ps d seen ps' d',
  keep_names d ps = (ps', d') -> incl (dkeys d) seen ->
  kept seen (map user_name ps) (map pi_name ps') /\
  incl (dkeys d') (seen_after seen (map user_name ps) (map pi_name ps')).
Proof.
  induction ps as [|p r IH]; intros d seen ps' d' H Hin; simpl in H.
  - injection H as <- <-. simpl. auto.
  - destruct (unnamed (pi_name p)) eqn:Eu.
    + destruct (keep_names d r) as [r' dd] eqn:Er. injection H as <- <-.
      simpl. rewrite (user_name_unnamed _ Eu). eapply IH; eauto.
    + destruct (get_safe_param_name d (pi_name p) false) as [n d1] eqn:Eg.
      destruct (keep_names (reserve d1 n) r) as [r' dd] eqn:Er. injection H as <- <-.
      simpl. rewrite (user_name_named _ Eu).
      assert (Hk : forall x, In x (dkeys (reserve d1 n)) <-> x = n \/ x = pi_name p \/ In x (dkeys d))
        by (intros x; eapply gsp_keys; eauto).
      assert (Hu : In (pi_name p) seen \/ n = pi_name p).
      { destruct (gsp_cases _ _ _ _ _ Eg) as [[_ [_ [-> _]]]|[k [v' [-> _]]]]; [auto|].
        destruct (dmem d (pi_name p)) eqn:Em.
        - left. apply Hin. apply dmem_In. assumption.
        - exfalso. unfold get_safe_param_name in Eg. rewrite Em in Eg. simpl in Eg.
          injection Eg as Eg _. symmetry in Eg. revert Eg. apply append_neq_self, itoa_nonempty. }
      destruct (IH (reserve d1 n) (n :: seen) r' dd Er) as [A B].
      { intros x Hx. apply Hk in Hx as [Hx|[Hx|Hx]].
        - left. auto.
        - subst x. destruct Hu as [Hu|Hu]; [right; assumption|left; auto].
        - right. auto. }
      split; [split; assumption|assumption].
Qed.

Lemma kept_app : forall us1 fs1 us2 fs2 seen,
  List.length us1 = List.length fs1 ->
  kept seen us1 fs1 -> kept (seen_after seen us1 fs1) us2 fs2 ->
  kept seen (us1 ++ us2) (fs1 ++ fs2).
Proof.
  induction us1 as [|u us1 IH]; intros fs1 us2 fs2 seen Hl H1 H2.
  - destruct fs1; [exact H2|discriminate].
  - destruct fs1 as [|f fs1]; [discriminate|]. simpl in Hl. injection Hl as Hl.
    destruct u as [u|]; simpl in *.
    + destruct H1 as [Ha Hb]. split; [assumption|]. apply IH; assumption.
    + apply IH; assumption.
Qed.

(* the generating pass leaves the names of user-named positions alone *)
Fixpoint agree (us : list (option string)) (fs fs' : list string) : Prop :=
  match us, fs, fs' with
  | [], [], [] => True
  | Some _ :: us, f :: fs, f' :: fs' => f = f' /\ agree us fs fs'
  | None :: us, _ :: fs, _ :: fs' => agree us fs fs'
  | _, _, _ => False
  end.

Lemma kept_agree : forall us fs fs' seen, agree us fs fs' ->
  kept seen us fs -> kept seen us fs' /\ seen_after seen us fs = seen_after seen us fs'.
Proof.
  induction us as [|u us IH]; intros fs fs' seen Ha Hk.
  - destruct fs, fs'; simpl in *; try contradiction. auto.
  - destruct u as [u|]; destruct fs as [|f fs], fs' as [|f' fs']; simpl in *; try contradiction.
    + destruct Ha as [-> Ha]. destruct Hk as [Hk1 Hk2].
      destruct (IH _ _ _ Ha Hk2) as [A B]. auto.
    + apply IH; assumption.
Qed.

Lemma agree_app : forall us1 fs1 fs1' us2 fs2 fs2',
  agree us1 fs1 fs1' -> agree us2 fs2 fs2' -> agree (us1 ++ us2) (fs1 ++ fs2) (fs1' ++ fs2').
Proof.
  induction us1 as [|u us1 IH]; intros fs1 fs1' us2 fs2 fs2' H1 H2.
  - destruct fs1, fs1'; simpl in *; try contradiction. assumption.
  - destruct u; destruct fs1, fs1'; simpl in *; try contradiction.
    + destruct H1 as [-> H1]. split; [reflexivity|]. apply IH; assumption.
    + apply IH; assumption.
Qed.

Lemma keep_then_gen_agree o len : forall ps d ps1 d1,
  keep_names d ps = (ps1, d1) ->
  forall dd i ps2 d2, assign_pass (gen_choice' o len) dd i ps1 = (ps2, d2) ->
  agree (map user_name ps) (map pi_name ps1) (map pi_name ps2).
Proof.
  induction ps as [|p r IH]; intros d ps1 d1 H dd i ps2 d2 H2; simpl in H.
  - injection H as <- <-. simpl in H2. injection H2 as <- <-. exact I.
  - destruct (unnamed (pi_name p)) eqn:Eu.
    + destruct (keep_names d r) as [r1 d'] eqn:Er. injection H as <- <-.
      simpl in H2. unfold gen_choice' at 1 in H2. rewrite Eu in H2.
      destruct (gen_choice o len i p) as [b a].
      destruct (get_safe_param_name dd b a) as [n dn].
      destruct (assign_pass _ (reserve dn n) (S i) r1) as [r2 d''] eqn:Er2. injection H2 as <- <-.
      simpl. rewrite (user_name_unnamed _ Eu). eapply IH; eauto.
    + destruct (get_safe_param_name d (pi_name p) false) as [n dn] eqn:Eg.
      destruct (keep_names (reserve dn n) r) as [r1 d'] eqn:Er. injection H as <- <-.
      assert (Hn : unnamed n = false).
      { apply (gsp_not_unnamed _ _ _ _ _) with (3 := Eg); [|auto].
        intros Hb. rewrite Hb in Eu. discriminate. }
      simpl in H2. unfold gen_choice' at 1 in H2. simpl in H2. rewrite Hn in H2.
      destruct (assign_pass _ dd (S i) r1) as [r2 d''] eqn:Er2. injection H2 as <- <-.
      simpl. rewrite (user_name_named _ Eu). split; [reflexivity|]. eapply IH; eauto.
Qed.

Lemma final_names_kept ins outs :
  kept [] (map user_name (ins ++ outs)%list) (final_names ins outs).
Proof.
  unfold final_names, ensure_param_names, ensure_names.
  destruct (keep_names [] ins) as [ins1 d1] eqn:E1.
  destruct (keep_names d1 outs) as [outs1 d2] eqn:E2.
  destruct (ensure_names_from d2 false (List.length ins1) 0 ins1) as [ins2 d3] eqn:E3.
  destruct (ensure_names_from d3 true (List.length outs1) 0 outs1) as [outs2 d4] eqn:E4.
  rewrite ensure_names_pass in E3. rewrite ensure_names_pass in E4.
  destruct (keep_kept _ _ [] _ _ E1) as [K1 S1]; [intros x []|].
  destruct (keep_kept _ _ _ _ _ E2 S1) as [K2 _].
  pose proof (keep_then_gen_agree _ _ _ _ _ _ E1 _ _ _ _ E3) as A1.
  pose proof (keep_then_gen_agree _ _ _ _ _ _ E2 _ _ _ _ E4) as A2.
  rewrite !map_app.
  assert (L1 : List.length (map user_name ins) = List.length (map pi_name ins1)).
  { rewrite !map_length. rewrite (keep_names_pass [] ins 0) in E1. apply pass_length in E1. lia. }
  pose proof (kept_app _ _ _ _ _ L1 K1 K2) as K.
  apply (kept_agree _ _ _ _ (agree_app _ _ _ _ _ _ A1 A2) K).
Qed.

(* when the user's names are pairwise distinct (what Go guarantees) every one of them is kept *)
Lemma kept_all : forall us fs seen,
  kept seen us fs -> NoDup (somes us) -> (forall x, In x seen -> ~ In x (somes us)) ->
  Forall2 (fun u f => forall x, u = Some x -> f = x) us fs /\ keptb seen us fs = true.
Proof.
  induction us as [|u us IH]; intros fs seen Hk Hnd Hdis.
  - destruct fs; [|contradiction]. split; [constructor|reflexivity].
  - destruct fs as [|f fs]; [destruct u; contradiction|]. destruct u as [u|]; simpl in *.
    + destruct Hk as [[Hin| ->] Hk].
      * exfalso. apply (Hdis _ Hin). left. reflexivity.
      * inversion Hnd as [|? ? Hnot Hnd']; subst.
        destruct (IH fs (u :: seen) Hk Hnd') as [A B].
        { intros x [<-|Hx]; [assumption|]. intros Hx'. apply (Hdis _ Hx). right. assumption. }
        split.
        -- constructor; [intros x Hx; injection Hx as <-; reflexivity|assumption].
        -- rewrite String.eqb_refl, orb_true_r. exact B.
    + destruct (IH fs seen Hk Hnd Hdis) as [A B]. split; [|assumption].
      constructor; [discriminate|assumption].
Qed.

Lemma final_names_all_kept ins outs :
  NoDup (somes (map user_name (ins ++ outs)%list)) ->
  Forall2 (fun u f => forall x, u = Some x -> f = x)
          (map user_name (ins ++ outs)%list) (final_names ins outs).
Proof.
  intros H. apply (kept_all _ _ [] (final_names_kept ins outs) H). intros x [].
Qed.

(* the executable specification the correspondence run judges observations with holds of the model *)
Lemma final_names_okb ins outs :
  Forall user_valid (ins ++ outs)%list ->
  NoDup (somes (map user_name (ins ++ outs)%list)) ->
  names_okb (ins ++ outs)%list (final_names ins outs) = true.
Proof.
  intros Hv Hnd. unfold names_okb. rewrite !andb_true_iff. split; [split|].
  - apply nodupb_NoDup, final_names_NoDup.
  - apply forallb_forall. intros x Hx.
    pose proof (final_names_valid ins outs Hv) as V. rewrite Forall_forall in V. auto.
  - apply (kept_all _ _ [] (final_names_kept ins outs) Hnd). intros x [].
Qed.

(* the pinned code: M(arg0 int, _ string) *)
Lemma names_orig_witness :
  final_names_orig [PI "arg0" false false; PI "_" false false] [] = ["arg0"; "arg0"].
Proof. vm_compute. reflexivity. Qed.

Lemma final_names_all ins outs :
  let names := final_names ins outs in
  List.length names = List.length (ins ++ outs)%list /\
  NoDup names /\
  (Forall user_valid (ins ++ outs)%list -> Forall valid_ident names) /\
  kept [] (map user_name (ins ++ outs)%list) names.
Proof.
  exact (conj (final_names_length ins outs)
        (conj (final_names_NoDup ins outs)
        (conj (final_names_valid ins outs) (final_names_kept ins outs)))).
Qed.

Lemma names_orig_refuted : exists ins outs, ~ NoDup (final_names_orig ins outs).
Proof.
  exists [PI "arg0" false false; PI "_" false false], []. rewrite names_orig_witness.
  intro H. inversion H as [|x l Hin _]; subst. apply Hin. left. reflexivity.
Qed.
