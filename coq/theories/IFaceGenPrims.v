(* IFaceGenPrims.v — the Go primitives the regenerated ParamsGen.v (translator tie of C19,
   harness/cmd/xlate_params) is written in, over the representation of IFaceModel (no proofs).

   Go                                          primitive
   make(map[string]int, n)                     map_empty
   v, ok := m[k]                               (map_get m k, map_has m k)      (zero value when absent)
   _, ok = m[k]                                map_has m k
   m[k] = v                                    map_set m k v
   a + b (strings)                             (a ++ b)%string
   strconv.FormatInt(int64(v), 10)             fmt_int v
   v++                                         N.succ v
   for init; cond; post { body }               while_loop fuel cond (body; post) state
                                               — Go's loop is unbounded; the translator passes
                                               [loop_fuel m] for the map m the loop consults, and
                                               IFaceNamesProofs.number_name_fresh shows the bound is
                                               never what ends the loop
   for i, p := range ps { … p.Name = e … }     range_upd (fun state i p => (p', state')) ps state
                                               (ps is a slice of pointers: the element is rebuilt)
   p.Name / p.Name = e                         pi_name p / set_name p e
   TypeImplements(p.ActualType, ErrorInterface / ContextInterface)
                                               type_implements_error p / type_implements_context p
                                               (the oracle bits recorded by the harness)            *)
From Coq Require Import List Bool String NArith.
From GT Require Import IFaceModel.
Import ListNotations.

Definition map_empty : dmap := [].
Definition map_get (d : dmap) (k : string) : N := match dget d k with Some v => v | None => 0%N end.
Definition map_has (d : dmap) (k : string) : bool := dmem d k.
Definition map_set (d : dmap) (k : string) (v : N) : dmap := dset d k v.
Definition fmt_int (v : N) : string := itoa v.
Definition loop_fuel (d : dmap) : nat := S (S (List.length d)).

Fixpoint while_loop {St : Type} (fuel : nat) (cond : St -> bool) (body : St -> St) (s : St) : St :=
  match fuel with
  | O => s
  | S f => if cond s then while_loop f cond body (body s) else s
  end.

Fixpoint range_upd_from {St : Type} (f : St -> nat -> pinfo -> pinfo * St) (i : nat)
         (ps : list pinfo) (s : St) : list pinfo * St :=
  match ps with
  | [] => ([], s)
  | p :: r => let '(p', s1) := f s i p in
              let '(r', s2) := range_upd_from f (S i) r s1 in (p' :: r', s2)
  end.
Definition range_upd {St : Type} (f : St -> nat -> pinfo -> pinfo * St) (ps : list pinfo) (s : St) :=
  range_upd_from f 0 ps s.

Definition type_implements_error (p : pinfo) : bool := pi_err p.
Definition type_implements_context (p : pinfo) : bool := pi_ctx p.

(* ---- the merge loop of namedTypeToInterface (interface.go): candidates map[string]*Method and the
   conflict set set.Set[string]
   _, ok := m[k]                               mmap_has m k
   m[k] = v                                    mmap_set m k v     (a new key goes to the end: the model
                                                                   keeps first-seen order, Go's map none)
   delete(m, k)                                mmap_del m k
   s.Has(k) / s.Add(k)                         mset_has s k / mset_add s k                            *)
Definition mmap_has {A : Type} (m : list (string * A)) (k : string) : bool :=
  existsb (fun p : string * A => String.eqb (fst p) k) m.
Definition mmap_del {A : Type} (m : list (string * A)) (k : string) : list (string * A) :=
  filter (fun p : string * A => negb (String.eqb (fst p) k)) m.
Definition mmap_set {A : Type} (m : list (string * A)) (k : string) (v : A) : list (string * A) :=
  if mmap_has m k
  then map (fun p : string * A => if String.eqb (fst p) k then (k, v) else p) m
  else (m ++ [(k, v)])%list.
Definition mset_has (s : list string) (k : string) : bool := mem k s.
Definition mset_add (s : list string) (k : string) : list string := k :: s.

(* ---- imports.go: the handler's map of imports, packages.Package.Imports, optional values
   i, ok := ih.imports[k]                      (tmap_get t k, tmap_has t k)   (zero ImportDesc when absent)
   ih.imports[k] = i                           tmap_set t k i
   i.f = e  (i a pointer read from the map)    imp_with_f i e, then tmap_set (the entry is the same object)
   importPkg, ok := pkg.Imports[k]             (amap_get m k, amap_has m k)   (the NAME of the package)
   x != nil (optional values)                  is_some x;  spec.Name.Name = opt_get
   pkg.Path() / pkg.Name()                     pkg_path / pkg_name
   types.Default(t).String() of a typed basic type: the type's own name (IFaceModel: TBasic; the untyped
   kinds are C13's)                            types_default_string
   for i := 0; i < l.Len(); i++ { … l.At(i) … }  list_fold (fun state i x => state') l state           *)
Definition imp_zero : imp := Imp "" "" false false.
Definition tmap_get (t : table) (k : string) : imp := match tget t k with Some i => i | None => imp_zero end.
Definition tmap_has (t : table) (k : string) : bool := match tget t k with Some _ => true | None => false end.
Fixpoint tmap_set (t : table) (k : string) (v : imp) : table :=
  match t with
  | [] => [v]
  | j :: r => if String.eqb k (i_path j) then v :: r else j :: tmap_set r k v
  end.
Definition imp_with_in_use (i : imp) (b : bool) : imp := Imp (i_path i) (i_alias i) (i_alias_is_pkg i) b.
Definition imp_with_alias (i : imp) (a : string) : imp := Imp (i_path i) a (i_alias_is_pkg i) (i_in_use i).
Definition imp_with_is_pkg (i : imp) (b : bool) : imp := Imp (i_path i) (i_alias i) b (i_in_use i).
Definition imp_with_path (i : imp) (p : string) : imp := Imp p (i_alias i) (i_alias_is_pkg i) (i_in_use i).
Definition amap_get (m : list (string * string)) (k : string) : string :=
  match assoc m k with Some n => n | None => EmptyString end.
Definition amap_has (m : list (string * string)) (k : string) : bool :=
  match assoc m k with Some _ => true | None => false end.
Definition is_some {A : Type} (x : option A) : bool := match x with Some _ => true | None => false end.
Definition opt_get (x : option string) : string := match x with Some s => s | None => EmptyString end.
Definition is_nil {A : Type} (l : list A) : bool := match l with [] => true | _ => false end.
Definition pkg_path (p : option (string * string)) : string := match p with Some pp => fst pp | None => EmptyString end.
Definition pkg_name (p : option (string * string)) : string := match p with Some pp => snd pp | None => EmptyString end.
Definition types_default_string (s : string) : string := s.

Fixpoint list_fold_from {A St : Type} (f : St -> nat -> A -> St) (i : nat) (l : list A) (s : St) : St :=
  match l with
  | [] => s
  | x :: r => list_fold_from f (S i) r (f s i x)
  end.
Definition list_fold {A St : Type} (f : St -> nat -> A -> St) (l : list A) (s : St) : St := list_fold_from f 0 l s.

(* a *Param as Declarations / TypeNames / Signature see it *)
Record gparam := GP { gp_name : string; gp_variadic : bool; gp_typeref : string;
                      gp_ctx : bool; gp_err : bool }.   (* the last two: TypeImplements(ActualType, …) *)
Definition gp_with_typeref (g : gparam) (s : string) : gparam := GP (gp_name g) (gp_variadic g) s (gp_ctx g) (gp_err g).
Definition gp_with_name (g : gparam) (s : string) : gparam := GP s (gp_variadic g) (gp_typeref g) (gp_ctx g) (gp_err g).
Definition gp_pinfo (g : gparam) : pinfo := PI (gp_name g) (gp_ctx g) (gp_err g).
(* m.ensureParamNames() on a Method whose parameters are gparams: the naming functions work on the
   pinfo view and the names are written back *)
Definition gp_set_names (l : list gparam) (ps : list pinfo) : list gparam :=
  map (fun gp : gparam * pinfo => gp_with_name (fst gp) (pi_name (snd gp))) (combine l ps).
(* t, ok := x.( *types.Pointer ) / x.( *types.Named ) on IFaceModel.ty *)
Definition ty_is_ptr (t : ty) : bool := match t with TPtr _ => true | _ => false end.
Definition ty_ptr_elem (t : ty) : ty := match t with TPtr e => e | _ => t end.
Definition ty_is_named (t : ty) : bool := match t with TNamed _ _ _ => true | _ => false end.
Definition ty_named_targs (t : ty) : list ty := match t with TNamed _ _ l => l | _ => [] end.
