(* IFaceGenPrims.v — the Go primitives the regenerated ParamsGen.v (translator tie of C19,
   harness/cmd/xlate_params) is written in, over the representation of IFaceModel (no proofs).

   Go                                          primitive
   make(map[string]int, n)                     map_empty
   v, ok := m[k]                               (map_get m k, map_has m k)      (zero value when absent)
   _, ok = m[k]                                map_has m k
   m[k] = v                                    map_set m k v
   a + b (strings)                             (a ++ b)%string
   strconv.FormatInt(int64(v), 10)             fmt_int v
   v++                                         N.succ v
   for init; cond; post { body }               while_loop fuel cond (body; post) state
                                               — Go's loop is unbounded; the translator passes
                                               [loop_fuel m] for the map m the loop consults, and
                                               IFaceNamesProofs.number_name_fresh shows the bound is
                                               never what ends the loop
   for i, p := range ps { … p.Name = e … }     range_upd (fun state i p => (p', state')) ps state
                                               (ps is a slice of pointers: the element is rebuilt)
   p.Name / p.Name = e                         pi_name p / set_name p e
   TypeImplements(p.ActualType, ErrorInterface / ContextInterface)
                                               type_implements_error p / type_implements_context p
                                               (the oracle bits recorded by the harness)            *)
From Coq Require Import List Bool String NArith.
From GT Require Import IFaceModel.
Import ListNotations.

Definition map_empty : dmap := [].
Definition map_get (d : dmap) (k : string) : N := match dget d k with Some v => v | None => 0%N end.
Definition map_has (d : dmap) (k : string) : bool := dmem d k.
Definition map_set (d : dmap) (k : string) (v : N) : dmap := dset d k v.
Definition fmt_int (v : N) : string := itoa v.
Definition loop_fuel (d : dmap) : nat := S (S (List.length d)).

Fixpoint while_loop {St : Type} (fuel : nat) (cond : St -> bool) (body : St -> St) (s : St) : St :=
  match fuel with
  | O => s
  | S f => if cond s then while_loop f cond body (body s) else s
  end.

Fixpoint range_upd_from {St : Type} (f : St -> nat -> pinfo -> pinfo * St) (i : nat)
         (ps : list pinfo) (s : St) : list pinfo * St :=
  match ps with
  | [] => ([], s)
  | p :: r => let '(p', s1) := f s i p in
              let '(r', s2) := range_upd_from f (S i) r s1 in (p' :: r', s2)
  end.
Definition range_upd {St : Type} (f : St -> nat -> pinfo -> pinfo * St) (ps : list pinfo) (s : St) :=
  range_upd_from f 0 ps s.

Definition type_implements_error (p : pinfo) : bool := pi_err p.
Definition type_implements_context (p : pinfo) : bool := pi_ctx p.

(* ---- the merge loop of namedTypeToInterface (interface.go): candidates map[string]*Method and the
   conflict set set.Set[string]
   _, ok := m[k]                               mmap_has m k
   m[k] = v                                    mmap_set m k v     (a new key goes to the end: the model
                                                                   keeps first-seen order, Go's map none)
   delete(m, k)                                mmap_del m k
   s.Has(k) / s.Add(k)                         mset_has s k / mset_add s k                            *)
Definition mmap_has {A : Type} (m : list (string * A)) (k : string) : bool :=
  existsb (fun p : string * A => String.eqb (fst p) k) m.
Definition mmap_del {A : Type} (m : list (string * A)) (k : string) : list (string * A) :=
  filter (fun p : string * A => negb (String.eqb (fst p) k)) m.
Definition mmap_set {A : Type} (m : list (string * A)) (k : string) (v : A) : list (string * A) :=
  if mmap_has m k
  then map (fun p : string * A => if String.eqb (fst p) k then (k, v) else p) m
  else (m ++ [(k, v)])%list.
Definition mset_has (s : list string) (k : string) : bool := mem k s.
Definition mset_add (s : list string) (k : string) : list string := k :: s.
