(* GErrIsJudgeStrict.v — the judge of property C06 with the executable side conditions under which
   GErrIsJudgeProofs.c06_model_judged_ok shows that the model itself is judged 0: the history is
   admissible ([ops_adm]: every receiver / argument / FactoryOf operand names a value that exists
   at that point of the history, foreign wrappers wrap existing values) and the embedded
   pointers that join the errors.Is matrix belong to extension factories of the pool.  A case that
   fails them is outside the property's domain (code 3), never a silent pass.  No proofs. *)
From Coq Require Import NArith List Bool.
From GT Require Import GErrModel GErrHist GErrIsJudge GErrIsJudgeProofs.
Import ListNotations.

Definition embs_ok (c : c06_case) : bool :=
  forallb (fun i => match nth_error (q_roots c) i with
                    | Some r => match r_ext r with Some _ => true | None => false end
                    | None => false
                    end) (q_embs c).

(* every cell still matches every comparable foreign error converted along its chain
   (GErrHist.spec_convs): observed errors.Is(cell a, foreign k) must be 1 *)
Definition convs_ok (c : c06_case) : bool :=
  let convs := spec_convs (map (fun _ => []) (q_roots c)) (q_ops c) in
  let ncells := length convs in
  let col k := ncells + length (q_embs c) + k in
  forallb (fun ak => let '(a, ks) := ak in
             forallb (fun k => negb (comparable (nth k (q_foreign c) VNil))
                               || Nat.eqb (nth (col k) (nth a (q_is c) []) 0) 1) ks)
          (combine (seq 0 ncells) convs).

Definition c06_judge_strict (c : c06_case) : nat :=
  if ops_adm (q_roots c) (q_foreign c) (q_ops c) && embs_ok c
  then match c06_judge c with
       | 0 => if convs_ok c then 0 else 1
       | 2 => if convs_ok c then 2 else 4
       | j => j
       end
  else 3.
